#!/usr/bin/env python3
"""Regenerates /verif/MANIFEST.json from the table below (kept in one place so that
MANIFEST, ./check and DESIGN.md do not drift)."""
import json, os, subprocess

VERIF = os.path.dirname(os.path.dirname(os.path.abspath(__file__)))

# id -> (category, design_ref, technique, level text, level note)
CHECKS = {
    "C01": ("exploration", "DESIGN.md section 3 C01",
            "bounded-exhaustive execution of the real solver over (tiny-LP family x configuration vectors within a deviation bound) with an exact basis-enumeration oracle",
            "Every canonical LP of the stated tiny-LP families is solved by the real SoPlex under every configuration vector with <=1 (thorough: <=2) deviations from the default and under the complete configuration product on a curated micro family; every OPTIMAL is judged in exact rational arithmetic against the LP as entered (bounds, sides, slack=Ax, d=c-A^T y, dual signs, objective, true optimum from basis enumeration), and every LP with a finite optimum must be solved to OPTIMAL. Exhaustive inside the bounds, nothing sampled.",
            "Trusted: the harness's exact oracle (basis enumeration over GMP rationals, cross-checked against Fourier-Motzkin on 1.1e6 LPs in setup), GMP, the compiler. Bounds: LPs up to 3x3 with small-integer data; completeness for larger LPs is not covered."),
    "C02": ("exploration", "DESIGN.md section 3 C02",
            "bounded-exhaustive execution of the real solver over (tiny-LP family x configuration vectors) with exact classification and exact Farkas/ray checks",
            "Same executions as C01; verdicts INFEASIBLE / UNBOUNDED / INForUNBD / OPTIMAL are compared with the exact classification of the entered LP, every offered Farkas vector and primal ray is verified in exact arithmetic (interval separation, recession-cone membership and strict improvement), and ENSURERAY is checked to deliver the certificate.",
            "Trusted: exact oracle as for C01. Ray/Farkas entries below 1e-9 of the largest entry are treated as zero before sign tests."),
    "C06": ("model_checking", "DESIGN.md section 3 C06",
            "exhaustive enumeration of operation histories (depth-bounded) over the real modification entry points, each replayed on a fresh object and compared with a dense reference model; exact oracle for the final re-solve",
            "All operation sequences up to depth 2 (thorough: 3) over ~150 instantiated calls of the real-interface modification entry points (plus optimize / getBasis+setBasis / clearBasis), from 7 initial states (empty, loaded, solved, solved infeasible, basis set on an unsolved LP, aborted solve, solved 3x2) under 7 (thorough: 17) parameter vectors (scaler x persistent scaling, simplifier off, row representation). The implementation is the transition function: every sequence is executed on a fresh SoPlex object; after its last operation every accessor (dimensions, coefficients row- and column-wise, sides, bounds, objective, row types, sense, offset) must equal the reference model bit for bit, returned perm arrays must be valid witnesses, a cached solution must not be reported after a modification, a surviving basis must be valid for the modified LP, and re-optimisation must return the exact status and optimum of the model LP.",
            "Trusted: the dense reference model and the exact oracle in the harness. States are not merged (internal state such as scale exponents decides the future), so the depth bound is the only bound."),
    "C10": ("exploration", "DESIGN.md section 3 C10",
            "bounded-exhaustive execution of SLUFactor<double> over all small integer matrices x update type x Markowitz threshold x all column-replacement sequences up to a depth x every solve variant, exact rational reference; second pass under AddressSanitizer",
            "Every 2x2 and 3x3 matrix over {-1,0,1,2} is loaded (singular <=> det 0 exactly, checked with rational elimination), every solve variant (dense/sparse right and left solves, the 4update variants, the two- and three-right-hand-side variants) is compared with the exact solution on unit, dense and 2-sparse right-hand sides, under Forrest-Tomlin and product-form updates and several Markowitz thresholds; all column-replacement sequences of depth 1 (thorough: 2) over {-1,0,1}^3 on the {0,1,2} cube, driven like SPxBasisBase::change; structured matrices up to dimension 16 (thorough: 40, plus 4x4). The same enumerators run a second time on thinned families under AddressSanitizer, whose reports are verdicts.",
            "Trusted: exact Gaussian elimination over GMP rationals. Replacements that make the matrix exactly singular are skipped (the simplex never performs them); a bare change() without a prepared update vector and explicit-eta updates under Forrest-Tomlin are outside the protocol SoPlex itself uses and are not driven."),
    "C11": ("exploration", "DESIGN.md section 3 C11",
            "bounded-exhaustive execution of SLUFactorRational over all small matrices of a rational alphabet x every solve variant, and of SoPlex's rational basis-inverse queries on solver bases before/after cache-invalidating calls; mpq equality against exact elimination; whole run under AddressSanitizer",
            "Part A: every 2x2 matrix over {0,1,-1/3,2^40+1,2^-40,1+2^-60} and every (quick: every third) 3x3 matrix over {0,1,-1/3,2^40+1} (thorough: also the 6-letter 3x3 matrices with <=5 nonzeros and 4x4 over {0,1,-1/3} with <=7 nonzeros) is loaded into SLUFactorRational; 'singular' must be reported exactly when the exact determinant is 0, and all nine solve variants (dense and sparse, right and left, the 2- and 3-right-hand-side forms) must return exactly the solution computed by the harness's own rational elimination on unit and dense right-hand sides. Part B: for every stride-th canonical tiny LP, after an exact solve and again after each of nine cache-invalidating modifications (and after the re-solve), getBasisIndRational / getBasisInverseRow/Col/TimesVecRational must equal the exact inverse of the basis matrix assembled from the harness's copy of the LP. The harness runs under ASan; every report is a verdict attributed to the solve variant.",
            "Trusted: GMP mpq arithmetic and the harness's Gaussian elimination. Two genuine defects of the sparse rational solves are recorded in known_findings.json."),
    "C08": ("exploration", "DESIGN.md section 3 C08",
            "bounded-exhaustive direct drive of SPxMainSM<double> (simplify + unsimplify) over tiny-LP families x keepbounds x seeds x EVERY optimal basic solution of the reduced LP (exact enumeration), exact certificate check against the original LP",
            "The internal simplifier is driven without the solver around it (so the driver's silent re-solve cannot hide a wrong postsolve): for every canonical LP of the families, keepbounds on/off and presolve seed, the verdict (INFEASIBLE / UNBOUNDED / DUAL_INFEASIBLE / VANISHED / reduced LP + offset) is compared with the exact classification of the original LP; every optimal basic solution of the reduced LP - all of them, from exact basis enumeration, including degenerate ones - is pushed through a fresh simplify + unsimplify and the postsolved primal/slack/dual/reduced-cost vectors are judged by the exact certificate check against the original LP, the postsolved basis by the validity conditions (one basic variable per row, admissible nonbasic statuses, nonsingular basis matrix). The evidence lists how often each of the 17 reduction kinds fired.",
            "Trusted: exact oracle. Three groups of genuine postsolve defects are recorded in known_findings.json (aggregation steps, doubleton + vanished duals, statuses of degenerate vertices); violations outside those signature groups still fail the check."),
    "C05": ("exploration", "DESIGN.md section 3 C05",
            "bounded-exhaustive execution of the basis-inverse / basis-multiply queries over (LP family with entries spanning binary orders of magnitude) x representation x scaler x persistent scaling x every regular basis (exact enumeration, installed with setBasis) x every index / unit vector, exact rational reference for B",
            "For every stride-th canonical LP of family P (entries {0,1,3,-16,1/2,8}) and each of the 42 combinations of representation(3) x scaler(7) x persistent scaling(2): optimize() (which installs persistent scaling), then the basis the solve ended with and EVERY regular basis of the LP (from exact enumeration) installed with setBasis; for each: getBasisInd consistent with the statuses, every row and column of the inverse (dense output and scattered output with index list = exactly the nonzeros), getBasisInverseTimesVecReal, multBasis and multBasisTranspose on all unit vectors and on (1..m), compared with exact arithmetic on B assembled from the harness's copy of the LP. unscale=true everywhere; unscale=false where the stored LP is not scaled.",
            "Trusted: rational arithmetic on B. Linear maps are decided by their values on the unit vectors up to rounding (tolerance 1e-9 relative). One genuine defect group (row representation + scaled) is recorded in known_findings.json."),
    "C04": ("model_checking", "DESIGN.md section 3 C04",
            "exhaustive enumeration of short API histories that leave a basis (every iteration limit below the unlimited count, every valid status assignment via setBasis, every reduced-alphabet modification) on the real solver; invariant evaluated at every state with hasBasis(); exact regularity test and exact optimum for warm starts",
            "For every stride-th canonical LP of family Q and 7 parameter vectors: the basis after an unlimited solve (every status), after a solve with ITERLIMIT j for every j below the unlimited iteration count, after setBasis with EVERY valid status assignment (all regular bases from exact enumeration x all admissible nonbasic placements, with the LP inside and outside the solver), after write+readBasisFile and after each reduced-alphabet modification of a solved LP. At every such state: exactly one basic variable per row, admissible nonbasic statuses, per-variable queries == array query == basis-index query, private status mirrors sized like the LP, exact nonsingularity for solve-produced bases, setBasis/getBasis round trip, and warm starts in the same and in a new object reaching the exact status and optimum. Separate phase: exact solves with FORCEBASIC must return exactly the basic solution of the returned basis.",
            "Trusted: exact oracle and rational determinant. Four genuine defects are recorded in known_findings.json."),
    "C09": ("model_checking", "DESIGN.md section 3 C09",
            "bounded-exhaustive execution of the six scalers on bare LPs (bit-exact ldexp oracle) and exhaustive short histories through SoPlex under scaler x persistent scaling x simplifier with bit-for-bit accessor comparison, byte-for-byte file comparison and exact re-optimisation",
            "A: every stride-th canonical LP of a family whose entries span 2^-20..2^19, each of the six scalers applied to a bare SPxLPBase: every scaled entry, bound, side and objective coefficient must equal ldexp(original, stored integer exponents) bit for bit, infinite bounds must stay infinite, all *Unscaled getters and unscaleLP() must reproduce the original bit for bit. B: LP x SCALER(7) x PERSISTENTSCALING(2) x simplifier(2): after optimize() every user-level accessor equals the reference model bit for bit, LP and MPS files are byte-identical to those of a never-scaled object, solution/ray/Farkas pass the exact certificate against the unscaled model; then every reduced-alphabet modification (thorough: a second one after an intermediate solve) with the same accessor / file / exact re-optimisation checks. C: 24-step cycle optimize / SCALER off / optimize / SCALER back with a bound change each step, crossing the stop-re-scaling threshold.",
            "Trusted: memcmp on doubles, the dense reference model, the exact oracle."),
    "C17": ("model_checking", "DESIGN.md section 3 C17",
            "bounded-exhaustive twin solves (two fresh objects with different heap history, and a re-solve after clearBasis) compared through a bit-exact digest; exhaustive copy/assign at every prefix point of short histories followed by every probe operation on either side",
            "(a) every stride-th canonical LP of Q x every configuration with <=1 deviation in floating point (and a subset exactly): two fresh objects and the first object again after clearBasis must give identical status, iteration count, basis and bit-identical vectors (text digest with %a floats; thorough: under two heap fills). (b) at every prefix point of histories over 8 initial states (empty, loaded, solved with/without presolve, basis set, rational LP present, exactly solved, persistently scaled) x reduced modification alphabet: copy construction and assignment into a previously used object; the digest (all accessors, all 82 parameters, the tolerance object, basis, status, solution, rational LP) of copy and source must be equal, and 20 probe operations plus destruction applied to either side must leave the other side's digest unchanged.",
            "Trusted: the digest is complete for what the statement lists. Crashes inside the copy phase are attributed to (copy kind, side, probe). Two genuine defect groups are in known_findings.json; the shared-Tolerances defect was fixed."),
    "C16": ("fault_enumeration", "DESIGN.md section 3 C16",
            "stop-point enumeration on the real solver under an interposed virtual clock: every iteration limit, the interrupt flag and a time-limit expiry at every clock read, time limit 0 and objective limits around the exact optimum, each followed by a resumed solve judged by the exact oracle",
            "For about 5000 (thorough: 60000) canonical LPs spread over the 2x2 and sparse 3x3 families x 11 configurations (primal/dual x column/row x simplifier on/off, plus steepest-edge, bound flipping and textbook variants) one reference run records N iterations and C clock reads; then one run per stop point: ITERLIMIT=k for every k in 0..N+1, the interrupt flag raised from inside the clock at every clock read, the virtual clock jumping past TIMELIMIT at every clock read, TIMELIMIT=0, and eight objective limits at optimum +-0.5/+-1. Every stopped run must return the matching abort status or a verdict that is true by the exact oracle, respect the iteration limit, leave a valid basis if any; then the limit is lifted and optimize() must reach the exact status and optimum. A second phase does the same for exact (rational) solves.",
            "Trusted: the virtual clock (libc times()/gettimeofday() defined in the harness executable - every SoPlex timer follows it), the exact oracle. ABORT_VALUE is rarely produced on LPs this small; the evidence shows the status histogram per stop kind."),
    "C15": ("model_checking", "DESIGN.md section 3 C15",
            "exhaustive enumeration of single parameter operations through three front ends over a per-parameter value menu, and of all operation histories up to a depth bound over set/save/load/reset/setSettings/copy for all parameter pairs, each replayed on a fresh object and compared with a parameter-table reference model",
            "For all 82 parameters every value of a menu (bounds, default, 9- and 17-digit interior values, nearest representable values inside and outside each bound, -0.0, +-inf, NaN, +-DBL_MAX, INT_MIN/MAX, all integers of small ranges, OBJSENSE=0, build-restricted choices) through the typed setter, parseSettingsString and a one-line loadSettingsFile, from default and non-default states, with and without an LP loaded or solved, plus whitespace variants and about 25 kinds of malformed line per parameter; set -> save(0/1) -> reset -> load for every accepted value and for all parameters at once; all histories of depth <= 2 (thorough: 3) over {set with accepted and rejected values, save(onlyChanged 0/1), load, reset, setSettings from a second object, copy construction} for all 3321 parameter pairs and 3 initial states. After the last operation: return value, all 82 getters bit for bit, the component or tolerance actually in use, the saved file as parsed by the harness, atomicity of rejected calls, and the LP equal to the dense model with only sense and offset following the parameters.",
            "Trusted: the parameter-table model and the published Settings tables as the documented range. Ten genuine defects are recorded in known_findings.json. Type-prefix and trailing-garbage leniency of the text front ends is counted, not flagged."),
    "C07": ("model_checking", "DESIGN.md section 3 C07",
            "exhaustive enumeration of API histories (depth-bounded) over the real and the rational modification interfaces (Rational and mpq_t entry points), each replayed on a fresh object and compared with an exact reference model over GMP rationals",
            "All histories up to depth 2 (thorough: 3 on a sub-alphabet) over ~120 instantiated calls of the real interface and of the rational interface (LPRowRational/LPColRational, Rational scalars and vectors, mpq_t scalars and arrays), from four initial states in automatic sync mode (empty, loaded, solved and persistently scaled, exactly solved), with values {-inf, 0, 1/3, 1e-320, 2^60+1, +inf, -1, 2, -7/5}. After the last call: the rational LP equals the model exactly (row- and column-wise), the real LP is the floating-point image of the model (one of the two neighbouring doubles; infinities map to infinities), dimensions and sense agree, and _rowTypes/_colTypes equal the classification of the rational bounds. Second phase: manual mode (one-sided histories followed by syncLPReal / syncLPRational) and real-only mode (an exact solve must copy the real LP exactly).",
            "Trusted: the exact reference model; doubles enter it as the exact rational they are. Whether the real image is the NEAREST double is recorded as an observation, not demanded. One genuine defect is in known_findings.json; the changeObjRational scaling defect was fixed."),
    "C19": ("model_checking", "DESIGN.md section 3 C19",
            "exhaustive depth-bounded enumeration of operation histories over the real container classes, each replayed on fresh objects and compared with std::vector/std::map reference models; exhaustive evaluation of every vector operation on every representation of all dimension-3 vectors over a 3-letter alphabet against exact GMP rationals; second pass under AddressSanitizer",
            "All operation sequences up to depth 5-6 (thorough 6-8) over 25-70 instantiated calls per class for DataSet, ClassSet, SVSetBase, LPRowSet, LPColSet, IdxSet, DIdxSet, NameSet, DataHashTable (colliding hashes), DataArray, Array, ClassArray, IsList, IdList, from 2-4 initial states, with capacities small enough that every growth, pack and relocation path fires. After each sequence the container must agree with the model on numbering, keys, contents, lookups by key, number, name and address, perm witnesses, dead keys and capacity relations. Plus every vector operation for double and Rational on all 27 vectors of dimension 3 in all 98 sparse and 106 semi-sparse representations, products with all 19683 3x3 matrices held in an SVSet, sorter.h and StableSum on exhaustive small families.",
            "Trusted: the models and exact arithmetic in the harness. Depth and the dimension-3 / 3-letter alphabet are the only bounds; deeper levels use a reduced alphabet after the first 2 (thorough 3) operations. Operation instances that corrupt memory on the unchanged tree run only as last operations in isolated children. 16 genuine defects are recorded in known_findings.json."),
    "C14": ("exploration", "DESIGN.md section 3 C14",
            "bounded-exhaustive write/read of basis files for every valid basis (exact enumeration of regular bases x nonbasic placements) x names x format x writer branch, and of state files under every configuration with <=1 deviation, on the real reader/writer pair",
            "(1) every stride-th canonical LP of the 2x2 and 3x2 families x {LP in the solver, LP held outside after a presolved solve} x {default names, user names} x cpxFormat x (the basis left by the solve + EVERY regular basis x EVERY admissible nonbasic placement, installed with setBasis - includes boxed columns at upper, fixed variables, nonbasic free columns and nonbasic free rows): writeBasisFile, then readBasisFile into the same object (after clearBasis) and into a new object; all row and column statuses must come back (up to FIXED marking of equal bounds). (2) LP x every configuration with <=1 deviation x {writeStateReal, writeStateRational} x names: loadSettingsFile + readFile + readBasisFile into a new object; every parameter except the objective sense, the LP under the MPS normalisations, the basis statuses, and status/value of the re-solve must agree.",
            "Trusted: dense reference model, status comparison rule. Whether the objective offset travels with the state files and that maximisation is written as minimisation are recorded as observations. One genuine defect (MPS writer throws on free rows) is in known_findings.json; the default-name defect of readBasis was fixed."),
    "C12": ("exploration", "DESIGN.md section 3 C12",
            "bounded-exhaustive exploration of the real readers and writers: all numeric literals up to a length bound over a token alphabet through five readers, and complete tiny-LP product families through write -> read round trips, with an independent exact-arithmetic oracle (GMP/MPFR)",
            "All literals of length <= 6 (thorough: 7) over {+,-,0,1,5,9,.,e,E,/} that match the grammar plus a 595-literal exponent / long-mantissa family, each through ratFromString and through LP and MPS files read in rational and in real mode (objective, coefficient, sides, bounds positions): exact value by mpz/mpq cross-multiplication (non-canonical results reported distinctly), correctly rounded double by MPFR. Complete tiny-LP product families (all column-bound and row types, empty / free / ranged rows, zero objective, up to 3x2, 2x3, 7x2) x {LP,MPS} x {real,rational} x writeZeroObjective x names x integer markers x scaled/unscaled x value maps: the file is re-read into a fresh object and compared by name with the harness's exact model under the documented normalisations only; the dual writer is judged by exact basis enumeration of primal and dual.",
            "Trusted: GMP/MPFR arithmetic and the harness's model. Bounds are exhaustive but small (digits {0,1,5,9}, names <= 8 characters, objective offset 0). 12 genuine defects are recorded in known_findings.json; dual-MPS writing is limited to the 1x1 family while the null-tolerances defect is open."),
    "C03": ("exploration", "DESIGN.md section 3 C03",
            "bounded-exhaustive execution of exact solves over rational tiny-LP families x exact-solver option vectors within a deviation bound (thorough: the complete 2^13 product on a curated subset), every returned vector and value checked with zero tolerance in mpq arithmetic, true status from exact basis enumeration",
            "Rational LPs with non-dyadic data ({-1,0,1/3,2}, sides/bounds from {-1/7,0,1,5/3,+-inf}) and lifting-range data ({1/4096,1,4096}) are entered through addColRational/addRowRational; every stride-th symmetry-reduced LP of four product families (2x2, 3x2, 2x3) is solved in SOLVEMODE_RATIONAL with zero tolerances under all option vectors with <= 2 deviations among the 13 exact-solver booleans x simplifier on/off (+ scaler off, manual sync): OPTIMAL needs exactly feasible primal, slack == A x, d == c - A^T y, admissible signs, zero duality gap, objValueRational == c x + offset and the true optimum; INFEASIBLE needs an exact Farkas separation, UNBOUNDED an exact improving ray; the status must be the exact class; vectors that keep reconstruction or factorization on must decide (a 200-round refinement limit turns non-termination into a verdict of the check).",
            "Trusted: exact oracle. Four genuine defect groups of non-default exact-solver options are in known_findings.json; the default options pass completely. The objective-offset defect was fixed."),
}

NOT_YET = {}


def main():
    props = [json.loads(l) for l in open(os.path.join(VERIF, "properties.jsonl"))]
    checks = []
    na = []
    for p in props:
        pid = p["id"]
        if pid in CHECKS:
            cat, ref, tech, text, note = CHECKS[pid]
            checks.append({
                "property_id": pid,
                "quick_cmd": "./check %s quick" % pid,
                "thorough_cmd": "./check %s thorough" % pid,
                "evidence_file": "/verif/evidence/%s.json" % pid,
                "replay_cmd_template": "./check %s --replay {path}" % pid,
                "engine": "vx",
                "level_claimed": {"category": cat, "text": text, "design_ref": ref},
                "level_note": note,
                "technique": tech,
            })
        else:
            na.append({"property_id": pid, "reason": NOT_YET.get(pid, "harness not built yet (work in progress in this session); nothing is claimed for this property so far")})
    hooks_commits = []
    try:
        out = subprocess.run(["git", "-C", "/repo", "log", "--format=%H %s"], capture_output=True, text=True).stdout
        for line in out.splitlines():
            h, s = line.split(" ", 1)
            if s.startswith("verif-hook:"):
                hooks_commits.append(h)
    except Exception:
        pass
    m = {
        "version": 1,
        "setup_cmd": "./check --setup",
        "hooks": {
            "guard": "SOPLEX_VERIF",
            "enable": "tools/vbuild.py passes -DSOPLEX_VERIF to every harness compile; harnesses compile /repo/src/soplex/*.cpp and instantiate the header templates themselves, nothing links against /repo/_build",
            "baseline_off_cmd": "cmake --build /repo/_build -j16 && ctest --test-dir /repo/_build -j8 --timeout 900",
            "source_commits": hooks_commits,
            "add_only": True,
        },
        "engines": [{
            "name": "vx", "path": "/verif/vlib",
            "serves_properties": sorted(CHECKS),
            "kind_free_text": "hand-written bounded-exhaustive explorer over the real implementation: mixed-radix case enumerators, "
                              "fork-isolated workers with crash/hang attribution, exact GMP oracle, history/stop-point/schedule enumerators",
        }],
        "checks": checks,
        "not_applicable": na,
        "notes": "Known findings (genuine defects recorded, not repaired) are in /verif/known_findings.json; replays are written to /verif/replays/<id>/.",
    }
    with open(os.path.join(VERIF, "MANIFEST.json"), "w") as f:
        json.dump(m, f, indent=1)
    print("MANIFEST.json: %d checks, %d not_applicable" % (len(checks), len(na)))


if __name__ == "__main__":
    main()
