#!/usr/bin/env python3
"""Regenerates /verif/MANIFEST.json from the table below (kept in one place so that
MANIFEST, ./check and DESIGN.md do not drift)."""
import json, os, subprocess

VERIF = os.path.dirname(os.path.dirname(os.path.abspath(__file__)))

# id -> (category, design_ref, technique, level text, level note)
CHECKS = {
    "C01": ("exploration", "DESIGN.md section 3 C01",
            "bounded-exhaustive execution of the real solver over (tiny-LP family x configuration vectors within a deviation bound) with an exact basis-enumeration oracle",
            "Every canonical LP of the stated tiny-LP families is solved by the real SoPlex under every configuration vector with <=1 (thorough: <=2) deviations from the default and under the complete configuration product on a curated micro family; every OPTIMAL is judged in exact rational arithmetic against the LP as entered (bounds, sides, slack=Ax, d=c-A^T y, dual signs, objective, true optimum from basis enumeration), and every LP with a finite optimum must be solved to OPTIMAL. Exhaustive inside the bounds, nothing sampled.",
            "Trusted: the harness's exact oracle (basis enumeration over GMP rationals, cross-checked against Fourier-Motzkin on 1.1e6 LPs in setup), GMP, the compiler. Bounds: LPs up to 3x3 with small-integer data; completeness for larger LPs is not covered."),
    "C02": ("exploration", "DESIGN.md section 3 C02",
            "bounded-exhaustive execution of the real solver over (tiny-LP family x configuration vectors) with exact classification and exact Farkas/ray checks",
            "Same executions as C01; verdicts INFEASIBLE / UNBOUNDED / INForUNBD / OPTIMAL are compared with the exact classification of the entered LP, every offered Farkas vector and primal ray is verified in exact arithmetic (interval separation, recession-cone membership and strict improvement), and ENSURERAY is checked to deliver the certificate.",
            "Trusted: exact oracle as for C01. Ray/Farkas entries below 1e-9 of the largest entry are treated as zero before sign tests."),
}

NOT_YET = {}


def main():
    props = [json.loads(l) for l in open(os.path.join(VERIF, "properties.jsonl"))]
    checks = []
    na = []
    for p in props:
        pid = p["id"]
        if pid in CHECKS:
            cat, ref, tech, text, note = CHECKS[pid]
            checks.append({
                "property_id": pid,
                "quick_cmd": "./check %s quick" % pid,
                "thorough_cmd": "./check %s thorough" % pid,
                "evidence_file": "/verif/evidence/%s.json" % pid,
                "replay_cmd_template": "./check %s --replay {path}" % pid,
                "engine": "vx",
                "level_claimed": {"category": cat, "text": text, "design_ref": ref},
                "level_note": note,
                "technique": tech,
            })
        else:
            na.append({"property_id": pid, "reason": NOT_YET.get(pid, "harness not built yet (work in progress in this session); nothing is claimed for this property so far")})
    hooks_commits = []
    try:
        out = subprocess.run(["git", "-C", "/repo", "log", "--format=%H %s"], capture_output=True, text=True).stdout
        for line in out.splitlines():
            h, s = line.split(" ", 1)
            if s.startswith("verif-hook:"):
                hooks_commits.append(h)
    except Exception:
        pass
    m = {
        "version": 1,
        "setup_cmd": "./check --setup",
        "hooks": {
            "guard": "SOPLEX_VERIF",
            "enable": "tools/vbuild.py passes -DSOPLEX_VERIF to every harness compile; harnesses compile /repo/src/soplex/*.cpp and instantiate the header templates themselves, nothing links against /repo/_build",
            "baseline_off_cmd": "cmake --build /repo/_build -j16 && ctest --test-dir /repo/_build -j8 --timeout 900",
            "source_commits": hooks_commits,
            "add_only": True,
        },
        "engines": [{
            "name": "vx", "path": "/verif/vlib",
            "serves_properties": sorted(CHECKS),
            "kind_free_text": "hand-written bounded-exhaustive explorer over the real implementation: mixed-radix case enumerators, "
                              "fork-isolated workers with crash/hang attribution, exact GMP oracle, history/stop-point/schedule enumerators",
        }],
        "checks": checks,
        "not_applicable": na,
        "notes": "Known findings (genuine defects recorded, not repaired) are in /verif/known_findings.json; replays are written to /verif/replays/<id>/.",
    }
    with open(os.path.join(VERIF, "MANIFEST.json"), "w") as f:
        json.dump(m, f, indent=1)
    print("MANIFEST.json: %d checks, %d not_applicable" % (len(checks), len(na)))


if __name__ == "__main__":
    main()
