#!/usr/bin/env python3
import json,sys,collections,re
e=json.load(open(sys.argv[1]))
sigs=e['coverage']['violation_signatures']
lvl=int(sys.argv[2]) if len(sys.argv)>2 else 0
c=collections.Counter(); ex={}
for s,n in sigs.items():
    k=s.split('@')[0] if lvl==0 else s
    c[k]+=n; ex.setdefault(k,s)
for k,n in c.most_common(60): print(n,k,'   e.g.',ex[k][:150])
print(len(sigs),'signatures')
