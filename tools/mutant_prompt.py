#!/usr/bin/env python3
"""Prints the prompt for a mutation sub-agent: property text + scratch worktree only (nothing from /verif)."""
import json, sys
pid, wt = sys.argv[1], sys.argv[2]
p = [json.loads(l) for l in open('/verif/properties.jsonl') if json.loads(l)['id'] == pid][0]
print(f"""You are testing how robust a C++ library's correctness is against subtle regressions.

Repository: SoPlex 8.0.0 (scipopt/soplex), a C++ primal/dual revised simplex LP solver (presolve, LU factorization, iterative refinement, exact rational solving). You have your OWN scratch git worktree of it at {wt} (detached HEAD). Work ONLY inside {wt}. Never touch /repo or /verif (do not read /verif either). Almost the whole library is header templates under {wt}/src/soplex/*.h|*.hpp plus {wt}/src/soplex.h / soplex.hpp / soplex_interface.cpp.

The property (a semantic guarantee users rely on):

  Title: {p['title']}
  Statement: {p['statement']}
  Holds for: {p['quantifier']['text']}

YOUR TASK: produce ONE realistic change (a plausible refactoring slip / optimisation / off-by-one / wrong variable, a few lines, in the library sources under {wt}/src) that BREAKS this property, while the library still compiles and the existing test suite (468 CLI tests) still passes. The change must need something SPECIFIC to manifest - a particular multi-step sequence of API calls, an unusual input shape, a particular parameter combination, a particular stop point, or two cooperating sites that each look fine alone - NOT something ordinary use (read a file, solve with defaults) exposes at once. Do not introduce a crash on every run, do not add randomness, environment variables, or input-value special-casing like `if(x == 12345)`; it should look like an honest mistake a maintainer could make.

Then write a DEMONSTRATION: a small standalone C++ program (using the public API in src/soplex.h, or the public headers of the component the property is about) that exits 0 on the original tree and exits non-zero (printing what went wrong) with your change applied. It must be deterministic.

How to build and test (no network; use at most 6 parallel jobs because the machine is shared):
  cd {wt} && cmake -G Ninja -B build -DCMAKE_BUILD_TYPE=RelWithDebInfo >/dev/null && cmake --build build -j6 2>&1 | tail -3
  ctest --test-dir build -j6 --timeout 900 2>&1 | tail -3          # must report 100% tests passed, 468 tests
  # demo: compile against the worktree sources, e.g.
  g++ -std=c++14 -O1 -DNDEBUG -I{wt}/src -I{wt}/build demo.cpp {wt}/build/lib/libsoplex.a -lgmp -lmpfr -lz -o demo   (check {wt}/build/lib for the exact library name; boost multiprecision headers are installed system-wide)
(A translation unit including soplex.h takes ~1 min to compile.) PaPILO is not available; GMP, MPFR, Boost, ZLIB are.

Procedure: (1) read the relevant code; (2) build the ORIGINAL tree and write demo.cpp so that it passes on it (exit 0); (3) apply your change, rebuild, run the full ctest suite and confirm all 468 tests pass; (4) rebuild the demo against the changed tree and confirm it now fails; (5) save your deliverables in {wt}/mutation/ :
  - patch.diff   : output of `git -C {wt} diff -- src` (the change only; it must apply with `git apply` to a clean checkout of the same commit)
  - demo.cpp     : the demonstration, with the exact compile/run command in a comment at the top
  - meta.json    : {{"property": "{pid}", "summary": "<one sentence: what was changed>", "needs": "<what is needed for it to manifest>", "files": [...], "tests_passed": <number of ctest tests passed with the change>, "demo_original_exit": 0, "demo_mutated_exit": <non-zero>}}
Leave the worktree with the change applied. Do not commit. When done, reply with a short report: the change, why the suite does not notice, what the demo does, and the exact outputs you observed for ctest and for the demo on both trees. If after honest effort you cannot find a change that passes all 468 tests, say so plainly rather than weakening the requirements.""")
