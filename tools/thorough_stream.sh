#!/bin/bash
# usage: thorough_stream.sh <workers> <budget_s> <id> <id> ...   (runs the thorough tier of each check in turn, logs to thorough-<id>.log)
w=$1; b=$2; shift 2
for p in "$@"; do
  s=$(date +%s)
  VERIF_WORKERS=$w VERIF_BUDGET=$b ./check $p thorough > thorough-$p.log 2>&1
  rc=$?
  echo "$p exit=$rc wall=$(( $(date +%s) - s ))s $(grep '^check ' thorough-$p.log | tail -1)"
  grep "^VIOLATION" thorough-$p.log | cut -c1-300 | head -5
done
