#!/bin/bash
# usage: confirm_mutant.sh <worktree> <seeded-dir>   -- independent confirmation of a seeded change in its scratch worktree
wt=$1; sd=$(realpath $2); log=$sd/confirm.log
exec > $log 2>&1
set -x
cd $wt || exit 2
git checkout -- src
git apply $sd/patch.diff || { echo "CONFIRM: patch does not apply"; exit 1; }
[ -d build ] || cmake -G Ninja -B build -DCMAKE_BUILD_TYPE=RelWithDebInfo > /dev/null
cmake --build build -j6 2>&1 | tail -2
ctest --test-dir build -j6 --timeout 900 2>&1 | tail -3 > $sd/ctest_mutated.txt
cat $sd/ctest_mutated.txt
lib=$(ls build/lib/libsoplex.a build/lib/libsoplex*.a 2>/dev/null | head -1)
g++ -std=c++14 -O1 -DNDEBUG $DEMO_FLAGS -I$wt/src -I$wt/build $sd/demo.cpp $lib -lgmp -lmpfr -lz -pthread -o /tmp/demo_mut_$$ || { echo "CONFIRM: demo does not compile (mutated)"; exit 1; }
/tmp/demo_mut_$$ > $sd/demo_mutated.txt 2>&1; m=$?
git checkout -- src
cmake --build build -j6 2>&1 | tail -2
g++ -std=c++14 -O1 -DNDEBUG $DEMO_FLAGS -I$wt/src -I$wt/build $sd/demo.cpp $lib -lgmp -lmpfr -lz -pthread -o /tmp/demo_orig_$$ || { echo "CONFIRM: demo does not compile (original)"; exit 1; }
/tmp/demo_orig_$$ > $sd/demo_original.txt 2>&1; o=$?
rm -f /tmp/demo_mut_$$ /tmp/demo_orig_$$
set +x
echo "CONFIRM: ctest: $(grep 'tests passed' $sd/ctest_mutated.txt) ; demo original exit=$o mutated exit=$m"
