#!/bin/bash
# usage: tools/sweep.sh [tier] [ids...]   - runs ./check --setup and then every (or the given) check once, sequentially; prints one summary line per check
cd "$(dirname "$0")/.." || exit 2
tier=${1:-quick}; shift
ids=${@:-C01 C02 C03 C04 C05 C06 C07 C08 C09 C10 C11 C12 C13 C14 C15 C16 C17 C18 C19 C20}
./check --setup > /var/tmp/sweep-setup.log 2>&1 || { echo "setup failed"; tail -5 /var/tmp/sweep-setup.log; exit 2; }
rc=0
for p in $ids; do
  ./check $p $tier > /var/tmp/sweep-$p.log 2>&1; e=$?
  echo "$p exit=$e $(grep '^check ' /var/tmp/sweep-$p.log | cut -c1-160)"
  grep '^VIOLATION\|CHECK-ERROR' /var/tmp/sweep-$p.log | cut -c1-300 | head -5
  [ $e -ne 0 ] && rc=1
done
exit $rc
