#!/usr/bin/env python3
"""Content-addressed build of verification harnesses against /repo's working tree.

Nothing links against /repo/_build: the ten-odd library .cpp files and every
header template are compiled from /repo/src as it is *now*.  A build is keyed by
the sha256 of (all files under /repo/src, /verif/vlib, the harness source, the
flags, the compiler version), so an unchanged tree is never recompiled and a
changed tree always is.
"""
import hashlib, os, subprocess, sys, shutil, time, json, fcntl

VERIF = os.path.dirname(os.path.dirname(os.path.abspath(__file__)))
REPO = os.environ.get("VERIF_REPO", "/repo")
BUILD = os.path.join(VERIF, "build")
GUARD = "SOPLEX_VERIF"

FLAVOURS = {
    # name: (compiler, flags)
    "plain": ("g++", ["-O1", "-g0"]),
    "plaing": ("g++", ["-O1", "-g1", "-fno-omit-frame-pointer"]),
    "o0": ("g++", ["-O0", "-g0"]),
    "asan": ("clang++", ["-O1", "-g1", "-fno-omit-frame-pointer",
                         "-fsanitize=address,undefined", "-fsanitize-recover=address",
                         "-fno-sanitize=vptr,function"]),
    "asang": ("g++", ["-O1", "-g1", "-fno-omit-frame-pointer", "-fsanitize=address",
                      "-fsanitize-recover=address"]),
    "tsan": ("clang++", ["-O1", "-g1", "-fno-omit-frame-pointer", "-fsanitize=thread"]),
}

COMMON = ["-std=c++14", "-DNDEBUG", "-D" + GUARD, "-fno-access-control", "-pthread",
          "-Wno-deprecated-declarations", "-w"]
LIBS = ["-lgmpxx", "-lgmp", "-lmpfr", "-lz", "-ldl", "-rdynamic"]

LIB_CPPS = ["didxset.cpp", "idxset.cpp", "mpsinput.cpp", "nameset.cpp",
            "slufactor_rational.cpp", "spxdefines.cpp", "spxgithash.cpp", "spxid.cpp",
            "spxlpbase_rational.cpp", "spxout.cpp", "usertimer.cpp", "wallclocktimer.cpp"]


def sha_files(paths):
    h = hashlib.sha256()
    for p in sorted(paths):
        h.update(p.encode())
        try:
            with open(p, "rb") as f:
                h.update(hashlib.sha256(f.read()).digest())
        except OSError:
            h.update(b"<missing>")
    return h.hexdigest()


def tree_files(root, exts=(".h", ".hpp", ".cpp", ".c", ".in")):
    out = []
    for d, dn, fn in os.walk(root):
        for f in fn:
            if f.endswith(exts):
                out.append(os.path.join(d, f))
    return out


_tree_hash_cache = {}


def repo_tree_hash():
    if "t" not in _tree_hash_cache:
        _tree_hash_cache["t"] = sha_files(tree_files(os.path.join(REPO, "src")))
    return _tree_hash_cache["t"]


def compiler_id(cc):
    try:
        return subprocess.run([cc, "--version"], capture_output=True, text=True).stdout.split("\n")[0]
    except OSError:
        return "none"


def run(cmd, log):
    t0 = time.time()
    p = subprocess.run(cmd, stdout=subprocess.PIPE, stderr=subprocess.STDOUT, text=True)
    with open(log, "a") as f:
        f.write("$ " + " ".join(cmd) + "\n" + p.stdout + "\n[%.1fs exit %d]\n" % (time.time() - t0, p.returncode))
    if p.returncode != 0:
        sys.stderr.write(p.stdout[-6000:])
        raise SystemExit("build failed: %s (log %s)" % (" ".join(cmd[:3]), log))


def prune(keep=4):
    """Keep the build directories of the `keep` most recently used tree hashes."""
    try:
        ds = [os.path.join(BUILD, d) for d in os.listdir(BUILD) if d.startswith("t-")]
    except OSError:
        return
    ds.sort(key=lambda d: os.path.getmtime(d), reverse=True)
    for d in ds[keep:]:
        shutil.rmtree(d, ignore_errors=True)


def support_lib(flavour, tdir, log):
    """Compile /repo/src/soplex/*.cpp (and the C interface) for one flavour."""
    cc, fl = FLAVOURS[flavour]
    lib = os.path.join(tdir, "libspx-%s.a" % flavour)
    if os.path.exists(lib):
        return lib
    odir = os.path.join(tdir, "obj-" + flavour)
    os.makedirs(odir, exist_ok=True)
    procs = []
    inc = ["-I" + os.path.join(REPO, "src"), "-I" + os.path.join(VERIF, "vlib")]
    objs = []
    for c in LIB_CPPS:
        o = os.path.join(odir, c.replace(".cpp", ".o"))
        objs.append(o)
        cmd = [cc] + COMMON + fl + inc + ["-c", os.path.join(REPO, "src", "soplex", c), "-o", o]
        procs.append((cmd, subprocess.Popen(cmd, stdout=subprocess.PIPE, stderr=subprocess.STDOUT, text=True)))
    for cmd, p in procs:
        out, _ = p.communicate()
        with open(log, "a") as f:
            f.write("$ " + " ".join(cmd) + "\n" + out + "\n")
        if p.returncode != 0:
            sys.stderr.write(out[-6000:])
            raise SystemExit("build failed: " + cmd[-3])
    tmp = lib + ".tmp%d" % os.getpid()
    run(["ar", "rcs", tmp] + objs, log)
    os.replace(tmp, lib)
    return lib


def build(harness, flavour="plain", extra_flags=(), extra_srcs=(), quiet=False):
    """Build /verif/harness/<harness>.cpp; returns the path of the executable."""
    cc, fl = FLAVOURS[flavour]
    src = os.path.join(VERIF, "harness", harness + ".cpp")
    th = repo_tree_hash()
    tdir = os.path.join(BUILD, "t-" + th[:16])
    os.makedirs(tdir, exist_ok=True)
    os.utime(tdir, None)
    vfiles = tree_files(os.path.join(VERIF, "vlib")) + [src] + [os.path.join(VERIF, "harness", s) for s in extra_srcs]
    key = hashlib.sha256((th + sha_files(vfiles) + flavour + " ".join(COMMON + fl + list(extra_flags)) +
                          compiler_id(cc)).encode()).hexdigest()[:16]
    exe = os.path.join(tdir, "%s-%s-%s" % (harness, flavour, key))
    if os.path.exists(exe):
        return exe
    lockf = open(os.path.join(tdir, ".lock-%s-%s" % (harness, flavour)), "w")
    fcntl.flock(lockf, fcntl.LOCK_EX)
    try:
        if os.path.exists(exe):
            return exe
        log = exe + ".log"
        liblock = open(os.path.join(tdir, ".lock-lib-" + flavour), "w")
        fcntl.flock(liblock, fcntl.LOCK_EX)
        try:
            lib = support_lib(flavour, tdir, log)
        finally:
            fcntl.flock(liblock, fcntl.LOCK_UN)
        inc = ["-I" + os.path.join(REPO, "src"), "-I" + os.path.join(VERIF, "vlib")]
        t0 = time.time()
        if not quiet:
            sys.stderr.write("[build] %s (%s) ...\n" % (harness, flavour))
        srcs = [src] + [s if os.path.isabs(s) else os.path.join(VERIF, "harness", s) for s in extra_srcs]
        tmp = exe + ".tmp%d" % os.getpid()
        run([cc] + COMMON + fl + list(extra_flags) + inc + srcs + [lib] + LIBS + ["-o", tmp], log)
        os.replace(tmp, exe)
        if not quiet:
            sys.stderr.write("[build] %s (%s) done in %.0fs\n" % (harness, flavour, time.time() - t0))
        # drop stale executables of the same harness/flavour in this tree dir
        for f in os.listdir(tdir):
            if f.startswith("%s-%s-" % (harness, flavour)) and not f.startswith(os.path.basename(exe)):
                try:
                    os.remove(os.path.join(tdir, f))
                except OSError:
                    pass
        prune()
        return exe
    finally:
        fcntl.flock(lockf, fcntl.LOCK_UN)


if __name__ == "__main__":
    import argparse
    ap = argparse.ArgumentParser()
    ap.add_argument("harness")
    ap.add_argument("--flavour", default="plain")
    ap.add_argument("--flag", action="append", default=[])
    a = ap.parse_args()
    print(build(a.harness, a.flavour, a.flag))
