#!/usr/bin/env python3
"""Regenerates the table of DESIGN.md section 9 from the evidence files (quick column) and the fixed texts below (thorough column)."""
import json, os, re, collections
V = os.path.join(os.path.dirname(os.path.abspath(__file__)), '..')
THOROUGH = {
 'C01': "T(<=2,<=2) full menus + 3x2, 2x3, 3x3 x dev<=1 under two heap fills; S with 3x2; 6e6 members of T(3,3); Q x dev==2; micro x full product (budget-bounded)",
 'C02': "same runs",
 'C03': "30 000 LP slots x 189 vectors; 10 000 LPs x 56 vectors with 2-3 optimize() calls; 100 LPs x all 2^13 boolean vectors x simplifier",
 'C04': "stride 5 + 3x2; FORCEBASIC x eqtrans x simplifier at stride 2; every LP of Q with a ranged row",
 'C05': "stride 23 + 3x3 (1.0e9 queries, completes)",
 'C06': "depth 3, 17 parameter vectors",
 'C07': "depth 3 on a sub-alphabet (completes)",
 'C08': "full menus x 8 seeds x 4 primers, 3x2 families",
 'C09': "modification depth 2, denser families (completes)",
 'C10': "update depth 2, 4 thresholds, 4x4, structured dim<=40, memory pressure up to dimension 56; ASan pass",
 'C11': "all 3x3 over 4 letters, 3x3 over 6 letters with <=5 nonzeros, 4x4 with <=7 nonzeros, 2.4e7 solver bases",
 'C12': "literals of length 7, T(3,2)/T(2,3) round trips, dual writer on family Q and T(2,2) bound shapes",
 'C13': "2.8e6 byte strings (k<=3 everywhere, 2-byte faults)",
 'C14': "denser strides (40 000 LPs basis files, 6 000 LPs state files)",
 'C15': "depth 3 histories",
 'C16': "60 000 LPs: every stop point (completes)",
 'C17': "stride 3, two heap fills, copy histories depth 2, 24 seeds of the medium family",
 'C18': "preemption bound 2 for all pairs, 3 for boosting vs constructor, 3 threads",
 'C19': "depth 6-8 (3.4e9 executions, budget-bounded)",
 'C20': "depth 3 (third level: one variant per function + array shapes), 5.4e6 sequences",
}
kf = json.load(open(os.path.join(V, 'known_findings.json')))['findings']
openk = collections.Counter(e['property'] for e in kf if e['status'] == 'open')
fixed = collections.Counter(e['property'] for e in kf if e['status'] == 'fixed')
print("| Id | quick tier as measured (evidence file) | thorough tier | result on the repaired tree |")
print("|----|------------------|----------|--------|")
for i in range(1, 21):
    pid = 'C%02d' % i
    e = json.load(open(os.path.join(V, 'evidence', pid + '.json')))
    c = e['coverage']
    ph = '; '.join('%s [%d cases]' % (re.sub(r'\s+', ' ', p['name'].strip()), p['cases']) for p in c.get('phases', []))
    sec = e.get('secondary_runs')
    also = ''
    if isinstance(sec, list) and sec:
        also = ' + pass under ' + ', '.join(str(x.get('flavour', '?')) for x in sec if isinstance(x, dict))
    q = "%s; %.2g evaluations, %.2g non-trivial%s, %d s" % (ph, c['evaluations'], c['distinct_nontrivial'], also, int(e.get('wall_s', 0)))
    res = "holds on everything explored"
    if openk[pid]: res = "%d open known finding%s" % (openk[pid], 's' if openk[pid] > 1 else '')
    if fixed[pid]: res += "; %d defect%s repaired" % (fixed[pid], 's' if fixed[pid] > 1 else '')
    print("| %s | %s | %s | %s |" % (pid, q.replace('|', '/'), THOROUGH[pid], res))
