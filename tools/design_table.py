#!/usr/bin/env python3
"""Prints one line per evidence file: tier, evaluations, non-trivial, exhaustive, phases (cases), known findings matched - used to keep DESIGN.md section 9 current."""
import json, glob, os
for f in sorted(glob.glob(os.path.join(os.path.dirname(__file__), '..', 'evidence', 'C*.json'))):
    e = json.load(open(f)); c = e['coverage']
    ph = '; '.join('%s [%d]' % (p['name'].strip(), p['cases']) for p in c.get('phases', []))
    sec = ' + '.join(s.get('flavour', '?') for s in e.get('secondary_runs', []) if isinstance(s, dict)) if isinstance(e.get('secondary_runs'), list) else ''
    print('%s %s eval=%.3g nontrivial=%.3g exhaustive=%s wall=%ss known=%d new=%d | %s %s' % (e['property_id'], e['tier'], c['evaluations'], c['distinct_nontrivial'], c['exhaustive'], int(e.get('wall_s', 0)),
          len(e.get('known_findings_matched', {}) or {}), len(e.get('new_violation_signatures', []) or []), ph, ('| also: ' + sec) if sec else ''))
