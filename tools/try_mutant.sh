#!/bin/bash
# usage: tools/try_mutant.sh <seeded-dir> <property> [tier]  -- applies the patch to /repo, runs the check, always reverts
d=$(realpath $1); p=$2; t=${3:-quick}
cd /repo || exit 2
if ! git diff --quiet; then echo "/repo has uncommitted changes"; exit 2; fi
git apply "$d/patch.diff" || { echo "patch does not apply"; exit 2; }
cd /verif
VERIF_NO_EVIDENCE_KEEP=1 ./check $p $t > /var/tmp/mutant-$p.out 2>&1
rc=$?
git -C /repo checkout -- .
cut -c1-300 /var/tmp/mutant-$p.out | grep -v "^\[build\]" | tail -${LINES_OUT:-12}
echo "exit=$rc"
# restore evidence of the unchanged tree from git if tracked
git -C /verif checkout -- evidence/$p.json 2>/dev/null
exit 0
