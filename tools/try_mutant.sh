#!/bin/bash
# usage: tools/try_mutant.sh <seeded-dir> <property> [tier]
# Applies the seeded patch to a scratch worktree of /repo (so that background runs against /repo itself are not disturbed),
# runs the check against it (VERIF_REPO), removes the worktree.  Equivalent to: git -C /repo apply <patch>; ./check ...; git -C /repo checkout -- .
d=$(realpath $1); p=$2; t=${3:-quick}
wt=/var/tmp/mutrepo-$$
git -C /repo worktree add -q --detach $wt HEAD || exit 2
( cd $wt && git apply "$d/patch.diff" ) || { echo "patch does not apply"; git -C /repo worktree remove --force $wt; exit 2; }
cd /verif
cp evidence/$p.json /var/tmp/evidence-$p-$$.json 2>/dev/null
VERIF_REPO=$wt ./check $p $t > /var/tmp/mutant-$p.out 2>&1
rc=$?
git -C /repo worktree remove --force $wt
cut -c1-300 /var/tmp/mutant-$p.out | grep -v "^\[build\]" | tail -${LINES_OUT:-12}
echo "exit=$rc"
cp /var/tmp/evidence-$p-$$.json evidence/$p.json 2>/dev/null; rm -f /var/tmp/evidence-$p-$$.json
exit 0
