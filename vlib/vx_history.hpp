// History exploration over the real-interface modification entry points:
// reference model (dense matrix + vectors), operation alphabet with tiny argument
// domains, application to SoPlex and to the model, full accessor comparison.
#pragma once
#include "vx_spx.hpp"

namespace vx
{

// dense reference model of an LP (boring on purpose)
struct Model
{
   bool maximize = true;       // SoPlex default sense is MAXIMIZE
   double offset = 0;
   std::vector<double> c, lo, up, lhs, rhs;
   std::vector<std::vector<double>> A;   // m x n
   int n() const { return (int)c.size(); }
   int m() const { return (int)lhs.size(); }

   TinyLP tiny() const
   {
      TinyLP t;
      t.resize(n(), m());
      t.maximize = maximize; t.offset = offset; t.c = c; t.lo = lo; t.up = up; t.lhs = lhs; t.rhs = rhs;
      for(int i = 0; i < m(); ++i) t.A[i] = A[i];
      return t;
   }
   static Model from(const TinyLP& t)
   {
      Model mo;
      mo.maximize = t.maximize; mo.offset = t.offset; mo.c = t.c; mo.lo = t.lo; mo.up = t.up; mo.lhs = t.lhs; mo.rhs = t.rhs;
      mo.A = t.A;
      return mo;
   }
   void addRow(double l, const std::vector<double>& a, double r) { lhs.push_back(l); rhs.push_back(r); std::vector<double> row = a; row.resize(n(), 0); A.push_back(row); }
   void addCol(double obj, double l, const std::vector<double>& a, double u)
   {
      c.push_back(obj); lo.push_back(l); up.push_back(u);
      for(int i = 0; i < m(); ++i) A[i].push_back(i < (int)a.size() ? a[i] : 0);
   }
   // renumber rows by perm (perm[i] < 0: removed, else new position)
   void permRows(const std::vector<int>& perm)
   {
      int nm = 0;
      for(int p : perm) if(p >= 0) nm = std::max(nm, p + 1);
      std::vector<double> l2(nm), r2(nm);
      std::vector<std::vector<double>> A2(nm);
      for(int i = 0; i < m(); ++i) if(perm[i] >= 0) { l2[perm[i]] = lhs[i]; r2[perm[i]] = rhs[i]; A2[perm[i]] = A[i]; }
      lhs = l2; rhs = r2; A = A2;
   }
   void permCols(const std::vector<int>& perm)
   {
      int nn = 0;
      for(int p : perm) if(p >= 0) nn = std::max(nn, p + 1);
      int oldn = n();
      std::vector<double> c2(nn), l2(nn), u2(nn);
      for(int j = 0; j < oldn; ++j) if(perm[j] >= 0) { c2[perm[j]] = c[j]; l2[perm[j]] = lo[j]; u2[perm[j]] = up[j]; }
      for(auto& row : A)
      {
         std::vector<double> r2(nn, 0);
         for(int j = 0; j < oldn; ++j) if(perm[j] >= 0) r2[perm[j]] = row[j];
         row = r2;
      }
      c = c2; lo = l2; up = u2;
   }
};

// is perm a valid removal witness for the index set `removed` over [0, size)?
inline bool valid_perm(const std::vector<int>& perm, const std::vector<bool>& removed)
{
   int size = (int)removed.size(), surv = 0;
   for(bool r : removed) if(!r) ++surv;
   std::vector<bool> hit(surv, false);
   for(int i = 0; i < size; ++i)
   {
      if(removed[i]) { if(perm[i] >= 0) return false; }
      else
      {
         if(perm[i] < 0 || perm[i] >= surv || hit[perm[i]]) return false;
         hit[perm[i]] = true;
      }
   }
   return true;
}
inline std::vector<int> compaction_perm(const std::vector<bool>& removed)
{
   std::vector<int> p(removed.size());
   int j = 0;
   for(size_t i = 0; i < removed.size(); ++i) p[i] = removed[i] ? -1 : j++;
   return p;
}
inline std::vector<int> swaplast_perm(int size, int i)
{
   std::vector<int> p(size);
   for(int k = 0; k < size; ++k) p[k] = k;
   p[i] = -1;
   if(i != size - 1) p[size - 1] = i;
   return p;
}

// compares every accessor of the real LP with the model; returns "" or the first mismatch
inline std::string compare_real(SoPlex& spx, const Model& mo)
{
   int n = mo.n(), m = mo.m();
   std::ostringstream o;
   o.precision(17);
   if(spx.numRows() != m) { o << "numRows " << spx.numRows() << " != " << m; return o.str(); }
   if(spx.numCols() != n) { o << "numCols " << spx.numCols() << " != " << n; return o.str(); }
   int nnz = 0;
   for(auto& r : mo.A) for(double v : r) if(v != 0) ++nnz;
   if(spx.numNonzeros() != nnz) { o << "numNonzeros " << spx.numNonzeros() << " != " << nnz; return o.str(); }
   int sense = spx.intParam(SoPlex::OBJSENSE);
   if((sense == SoPlex::OBJSENSE_MAXIMIZE) != mo.maximize) { o << "objective sense differs"; return o.str(); }
   if(spx.realParam(SoPlex::OBJ_OFFSET) != mo.offset) { o << "objective offset " << spx.realParam(SoPlex::OBJ_OFFSET) << " != " << mo.offset; return o.str(); }
   auto same = [](double a, double b) { return a == b || (a >= 1e100 && b >= 1e100) || (a <= -1e100 && b <= -1e100); };
   VectorReal vl(m), vr(m), vlo(n), vup(n), vobj(n);
   spx.getLhsReal(vl); spx.getRhsReal(vr); spx.getLowerReal(vlo); spx.getUpperReal(vup); spx.getObjReal(vobj);
   for(int i = 0; i < m; ++i)
   {
      if(!same(spx.lhsReal(i), mo.lhs[i]) || !same(vl[i], mo.lhs[i])) { o << "lhs[" << i << "] " << spx.lhsReal(i) << "/" << vl[i] << " != " << mo.lhs[i]; return o.str(); }
      if(!same(spx.rhsReal(i), mo.rhs[i]) || !same(vr[i], mo.rhs[i])) { o << "rhs[" << i << "] " << spx.rhsReal(i) << "/" << vr[i] << " != " << mo.rhs[i]; return o.str(); }
      // row type
      bool lf = mo.lhs[i] > -1e100, rf = mo.rhs[i] < 1e100;
      LPRowBase<double>::Type want = (lf && rf) ? (mo.lhs[i] == mo.rhs[i] ? LPRowBase<double>::EQUAL : LPRowBase<double>::RANGE)
                                     : lf ? LPRowBase<double>::GREATER_EQUAL : LPRowBase<double>::LESS_EQUAL;
      if((lf || rf) && spx.rowTypeReal(i) != want) { o << "rowType[" << i << "] " << (int)spx.rowTypeReal(i) << " != " << (int)want; return o.str(); }
      DSVector row(n);
      spx.getRowVectorReal(i, row);
      std::vector<double> dense(n, 0);
      for(int k = 0; k < row.size(); ++k)
      {
         if(row.index(k) < 0 || row.index(k) >= n) { o << "row " << i << " has index " << row.index(k); return o.str(); }
         if(row.value(k) == 0) { o << "row " << i << " stores an explicit zero"; return o.str(); }
         if(dense[row.index(k)] != 0) { o << "row " << i << " has a duplicate index"; return o.str(); }
         dense[row.index(k)] = row.value(k);
      }
      for(int j = 0; j < n; ++j)
      {
         if(dense[j] != mo.A[i][j]) { o << "rowVector(" << i << ")[" << j << "] " << dense[j] << " != " << mo.A[i][j]; return o.str(); }
         if(spx.coefReal(i, j) != mo.A[i][j]) { o << "coefReal(" << i << "," << j << ") " << spx.coefReal(i, j) << " != " << mo.A[i][j]; return o.str(); }
      }
   }
   for(int j = 0; j < n; ++j)
   {
      if(!same(spx.lowerReal(j), mo.lo[j]) || !same(vlo[j], mo.lo[j])) { o << "lower[" << j << "] " << spx.lowerReal(j) << " / getLowerReal:" << vlo[j] << " != " << mo.lo[j]; return o.str(); }
      if(!same(spx.upperReal(j), mo.up[j]) || !same(vup[j], mo.up[j])) { o << "upper[" << j << "] " << spx.upperReal(j) << " / getUpperReal:" << vup[j] << " != " << mo.up[j]; return o.str(); }
      if(spx.objReal(j) != mo.c[j] || vobj[j] != mo.c[j]) { o << "obj[" << j << "] " << spx.objReal(j) << " != " << mo.c[j]; return o.str(); }
      double mx = mo.maximize ? mo.c[j] : -mo.c[j];
      if(spx.maxObjReal(j) != mx && !(mx == 0 && spx.maxObjReal(j) == 0)) { o << "maxObj[" << j << "] " << spx.maxObjReal(j) << " != " << mx; return o.str(); }
      DSVector col(m);
      spx.getColVectorReal(j, col);
      std::vector<double> dense(m, 0);
      for(int k = 0; k < col.size(); ++k)
      {
         if(col.index(k) < 0 || col.index(k) >= m) { o << "col " << j << " has index " << col.index(k); return o.str(); }
         if(dense[col.index(k)] != 0) { o << "col " << j << " has a duplicate index"; return o.str(); }
         dense[col.index(k)] = col.value(k);
      }
      for(int i = 0; i < m; ++i)
         if(dense[i] != mo.A[i][j]) { o << "colVector(" << j << ")[" << i << "] " << dense[i] << " != " << mo.A[i][j] << " (row-wise and column-wise storage disagree or differ from the model)"; return o.str(); }
   }
   return "";
}

// ---------------------------------------------------------------------------
// operations
// ---------------------------------------------------------------------------
enum OpKind
{
   OP_ADDROW, OP_ADDROWS, OP_ADDCOL, OP_ADDCOLS, OP_CHGROW, OP_CHGLHS_V, OP_CHGLHS, OP_CHGRHS_V, OP_CHGRHS, OP_CHGRANGE_V,
   OP_CHGRANGE, OP_CHGCOL, OP_CHGLOWER_V, OP_CHGLOWER, OP_CHGUPPER_V, OP_CHGUPPER, OP_CHGBOUNDS_V, OP_CHGBOUNDS, OP_CHGOBJ_V,
   OP_CHGOBJ, OP_CHGELEM, OP_RMROW, OP_RMROWS_PERM, OP_RMROWS_IDX, OP_RMROWS_IDX_NOPERM, OP_RMROWRANGE, OP_RMROWRANGE_NOPERM,
   OP_RMCOL, OP_RMCOLS_PERM, OP_RMCOLS_IDX, OP_RMCOLS_IDX_NOPERM, OP_RMCOLRANGE, OP_RMCOLRANGE_NOPERM, OP_CLEARLP, OP_SENSE,
   OP_OPTIMIZE, OP_GETSETBASIS, OP_CLEARBASIS, OP_KINDS
};
static const char* OPNAME[] =
{
   "addRowReal", "addRowsReal", "addColReal", "addColsReal", "changeRowReal", "changeLhsReal(vec)", "changeLhsReal(i)", "changeRhsReal(vec)",
   "changeRhsReal(i)", "changeRangeReal(vec)", "changeRangeReal(i)", "changeColReal", "changeLowerReal(vec)", "changeLowerReal(i)",
   "changeUpperReal(vec)", "changeUpperReal(i)", "changeBoundsReal(vec)", "changeBoundsReal(i)", "changeObjReal(vec)", "changeObjReal(i)",
   "changeElementReal", "removeRowReal", "removeRowsReal(perm)", "removeRowsReal(idx,perm)", "removeRowsReal(idx)", "removeRowRangeReal(perm)",
   "removeRowRangeReal", "removeColReal", "removeColsReal(perm)", "removeColsReal(idx,perm)", "removeColsReal(idx)", "removeColRangeReal(perm)",
   "removeColRangeReal", "clearLPReal", "setIntParam(OBJSENSE)", "optimize", "getBasis+setBasis", "clearBasis"
};

struct Op
{
   int kind = 0;
   int i = 0, j = 0;       // indices (first / second), meaning depends on kind
   double a = 0, b = 0;    // values
   int pat = 0;            // coefficient pattern / removal mask selector
   std::string str() const
   {
      std::ostringstream o;
      o << kind << ":" << i << ":" << j << ":" << TinyLP::num(a) << ":" << TinyLP::num(b) << ":" << pat;
      return o.str();
   }
   static Op parse(const std::string& s)
   {
      auto p = split(s, ':');
      Op op;
      op.kind = atoi(p[0].c_str()); op.i = atoi(p[1].c_str()); op.j = atoi(p[2].c_str());
      op.a = TinyLP::parse_num(p[3]); op.b = TinyLP::parse_num(p[4]); op.pat = atoi(p[5].c_str());
      return op;
   }
   std::string pretty() const
   {
      std::ostringstream o;
      o << OPNAME[kind] << "[i=" << i << ",j=" << j << ",a=" << TinyLP::num(a) << ",b=" << TinyLP::num(b) << ",pat=" << pat << "]";
      return o.str();
   }
};

// coefficient vector of length len from a pattern number (entries from {0, 1, -1, 2})
inline std::vector<double> pattern_vec(int pat, int len)
{
   static const double V[4] = {0, 1, -1, 2};
   std::vector<double> v(len);
   for(int k = 0; k < len; ++k) { v[k] = V[pat % 4]; pat /= 4; }
   return v;
}
inline DSVector to_dsv(const std::vector<double>& v)
{
   DSVector d((int)v.size() + 1);
   for(size_t k = 0; k < v.size(); ++k) if(v[k] != 0) d.add((int)k, v[k]);
   return d;
}

// side / bound pairs used as arguments (all satisfy lower <= upper)
static const double PAIRS[][2] = {{-INF, 2}, {-1, INF}, {0, 0}, {-1, 2}, {-INF, INF}, {2, 2}};
static const int NPAIRS = 6;
static const double SINGLES_LO[] = {-INF, -1, 0};   // candidate lower-ish values
static const double SINGLES_UP[] = {INF, 2, 0};
static const double OBJV[] = {-1, 0, 2};

// all instantiated operations applicable to a model with n columns and m rows
inline std::vector<Op> alphabet(int n, int m, bool small = false)
{
   std::vector<Op> ops;
   auto add = [&](int kind, int i, int j, double a, double b, int pat) { Op o; o.kind = kind; o.i = i; o.j = j; o.a = a; o.b = b; o.pat = pat; ops.push_back(o); };
   std::vector<int> ri, ci;   // first / last indices
   if(m > 0) { ri.push_back(0); if(m > 1) ri.push_back(m - 1); }
   if(n > 0) { ci.push_back(0); if(n > 1) ci.push_back(n - 1); }
   int rowpats[] = {1, 6, 9, 0};    // (1,0,..), (-1,1,..), (1,-1,..), empty
   int np = small ? 2 : 4;
   if(n <= 3 && m <= 3)
   {
      for(int p = 0; p < np; ++p) { add(OP_ADDROW, 0, 0, PAIRS[p % NPAIRS][0], PAIRS[p % NPAIRS][1], rowpats[p]); }
      add(OP_ADDROW, 0, 0, -1, 2, 6);
      add(OP_ADDROWS, 0, 0, -INF, 2, 6);
      for(int p = 0; p < np; ++p) { add(OP_ADDCOL, p, 0, PAIRS[(p + 1) % NPAIRS][0], PAIRS[(p + 1) % NPAIRS][1], rowpats[p]); }
      add(OP_ADDCOLS, 0, 0, 0, INF, 9);
   }
   for(int i : ri)
   {
      add(OP_CHGROW, i, 0, -1, 2, 6);
      add(OP_CHGROW, i, 0, -1, 2, 8);      // sparse replacement whose first nonzero is not in position 0 (k-th nonzero != k-th index)
      if(!small) add(OP_CHGROW, i, 0, -INF, 0, 0);
      for(double v : SINGLES_LO) add(OP_CHGLHS, i, 0, v, 0, 0);
      for(double v : SINGLES_UP) add(OP_CHGRHS, i, 0, v, 0, 0);
      // the reduced alphabet keeps a one-sided, the other one-sided and a NON-ZERO equality range ({2,2}: scaling must not show)
      for(int p = 0; p < NPAIRS; ++p) if(!small || p == 0 || p == 1 || p == 5) add(OP_CHGRANGE, i, 0, PAIRS[p][0], PAIRS[p][1], 0);
      add(OP_RMROW, i, 0, 0, 0, 0);
      for(int j : ci) { add(OP_CHGELEM, i, j, 2, 0, 0); add(OP_CHGELEM, i, j, 0, 0, 0); if(!small) add(OP_CHGELEM, i, j, -1, 0, 0); }
   }
   if(m > 0)
   {
      add(OP_CHGLHS_V, 0, 0, -1, 0, 0); add(OP_CHGLHS_V, 0, 0, -INF, 0, 0);
      add(OP_CHGRHS_V, 0, 0, 2, 0, 0); add(OP_CHGRHS_V, 0, 0, INF, 0, 0);
      add(OP_CHGRANGE_V, 0, 0, -1, 2, 0); add(OP_CHGRANGE_V, 0, 0, 0, 0, 0);
      // removal masks: bit k set = remove row k
      int masks[] = {1, 1 << (m - 1), 3, (1 << m) - 1, 0};
      for(int k = 0; k < 5; ++k)
      {
         int mask = masks[k] & ((1 << m) - 1);
         if(k > 0 && mask == (masks[0] & ((1 << m) - 1)) && k < 4) continue;
         add(OP_RMROWS_PERM, 0, 0, 0, 0, mask);
         if(mask) { add(OP_RMROWS_IDX, 0, 0, 0, 0, mask); if(!small) add(OP_RMROWS_IDX_NOPERM, 0, 0, 0, 0, mask); }
      }
      add(OP_RMROWRANGE, 0, m - 1, 0, 0, 0);
      add(OP_RMROWRANGE, 0, 0, 0, 0, 0);
      if(m > 1) { add(OP_RMROWRANGE, 1, m - 1, 0, 0, 0); add(OP_RMROWRANGE_NOPERM, 0, m - 2, 0, 0, 0); }
      add(OP_RMROWRANGE_NOPERM, m - 1, m - 1, 0, 0, 0);
   }
   for(int j : ci)
   {
      add(OP_CHGCOL, j, 0, -1, 2, 6);
      add(OP_CHGCOL, j, 2, -1, 2, 4);      // sparse replacement whose first nonzero is not in position 0 (k-th nonzero != k-th index)
      if(!small) add(OP_CHGCOL, j, 1, 0, INF, 0);
      for(double v : SINGLES_LO) add(OP_CHGLOWER, j, 0, v, 0, 0);
      for(double v : SINGLES_UP) add(OP_CHGUPPER, j, 0, v, 0, 0);
      for(int p = 0; p < NPAIRS; ++p) if(!small || p == 0 || p == 1 || p == 5) add(OP_CHGBOUNDS, j, 0, PAIRS[p][0], PAIRS[p][1], 0);
      for(double v : OBJV) add(OP_CHGOBJ, j, 0, v, 0, 0);
      add(OP_RMCOL, j, 0, 0, 0, 0);
   }
   if(n > 0)
   {
      add(OP_CHGLOWER_V, 0, 0, -1, 0, 0); add(OP_CHGLOWER_V, 0, 0, -INF, 0, 0);
      add(OP_CHGUPPER_V, 0, 0, 2, 0, 0); add(OP_CHGUPPER_V, 0, 0, INF, 0, 0);
      add(OP_CHGBOUNDS_V, 0, 0, -1, 2, 0); add(OP_CHGBOUNDS_V, 0, 0, 0, INF, 0);
      add(OP_CHGOBJ_V, 0, 0, 1, 0, 0); add(OP_CHGOBJ_V, 0, 0, -1, 0, 6);
      int masks[] = {1, 1 << (n - 1), 3, (1 << n) - 1, 0};
      for(int k = 0; k < 5; ++k)
      {
         int mask = masks[k] & ((1 << n) - 1);
         if(k > 0 && mask == (masks[0] & ((1 << n) - 1)) && k < 4) continue;
         add(OP_RMCOLS_PERM, 0, 0, 0, 0, mask);
         if(mask) { add(OP_RMCOLS_IDX, 0, 0, 0, 0, mask); if(!small) add(OP_RMCOLS_IDX_NOPERM, 0, 0, 0, 0, mask); }
      }
      add(OP_RMCOLRANGE, 0, n - 1, 0, 0, 0);
      add(OP_RMCOLRANGE, 0, 0, 0, 0, 0);
      if(n > 1) { add(OP_RMCOLRANGE, 1, n - 1, 0, 0, 0); add(OP_RMCOLRANGE_NOPERM, 0, n - 2, 0, 0, 0); }
      add(OP_RMCOLRANGE_NOPERM, n - 1, n - 1, 0, 0, 0);
   }
   add(OP_CLEARLP, 0, 0, 0, 0, 0);
   add(OP_SENSE, 0, 0, 0, 0, 0); add(OP_SENSE, 1, 0, 0, 0, 0);
   add(OP_OPTIMIZE, 0, 0, 0, 0, 0);
   add(OP_GETSETBASIS, 0, 0, 0, 0, 0);
   add(OP_CLEARBASIS, 0, 0, 0, 0, 0);
   return ops;
}

inline bool is_modification(int kind) { return kind < OP_OPTIMIZE; }

// Applies op to the solver and to the model. Returns "" or a description of a violated expectation
// that is visible from the call itself (invalid perm witness).  `swapStyle` receives, for single removals,
// which renumbering the implementation used (decided by the caller through compare_real on both candidates).
inline std::string apply_op(SoPlex& spx, Model& mo, const Op& op, std::vector<Model>* alternatives = nullptr)
{
   int n = mo.n(), m = mo.m();
   switch(op.kind)
   {
   case OP_ADDROW:
   {
      std::vector<double> a = pattern_vec(op.pat, n);
      spx.addRowReal(LPRow(op.a, to_dsv(a), op.b));
      mo.addRow(op.a, a, op.b);
      break;
   }
   case OP_ADDROWS:
   {
      LPRowSet rs(2, 2 * n + 2);
      std::vector<double> a1 = pattern_vec(op.pat, n), a2 = pattern_vec(op.pat / 4 + 1, n);
      rs.add(op.a, to_dsv(a1), op.b);
      rs.add(-1, to_dsv(a2), INF);
      spx.addRowsReal(rs);
      mo.addRow(op.a, a1, op.b);
      mo.addRow(-1, a2, INF);
      break;
   }
   case OP_ADDCOL:
   {
      std::vector<double> a = pattern_vec(op.pat, m);
      double obj = OBJV[op.i % 3];
      spx.addColReal(LPCol(obj, to_dsv(a), op.b, op.a));
      mo.addCol(obj, op.a, a, op.b);
      break;
   }
   case OP_ADDCOLS:
   {
      LPColSet cs(2, 2 * m + 2);
      std::vector<double> a1 = pattern_vec(op.pat, m), a2 = pattern_vec(op.pat / 4 + 1, m);
      cs.add(1, op.a, to_dsv(a1), op.b);
      cs.add(-1, -1, to_dsv(a2), 2);
      spx.addColsReal(cs);
      mo.addCol(1, op.a, a1, op.b);
      mo.addCol(-1, -1, a2, 2);
      break;
   }
   case OP_CHGROW:
   {
      std::vector<double> a = pattern_vec(op.pat, n);
      spx.changeRowReal(op.i, LPRow(op.a, to_dsv(a), op.b));
      mo.lhs[op.i] = op.a; mo.rhs[op.i] = op.b; mo.A[op.i] = a;
      break;
   }
   case OP_CHGLHS_V:
   {
      VectorReal v(m);
      for(int i = 0; i < m; ++i) { double x = std::min(op.a, mo.rhs[i]); v[i] = x; mo.lhs[i] = x; }
      spx.changeLhsReal(v);
      break;
   }
   case OP_CHGLHS:
   {
      double x = std::min(op.a, mo.rhs[op.i]);
      spx.changeLhsReal(op.i, x);
      mo.lhs[op.i] = x;
      break;
   }
   case OP_CHGRHS_V:
   {
      VectorReal v(m);
      for(int i = 0; i < m; ++i) { double x = std::max(op.a, mo.lhs[i]); v[i] = x; mo.rhs[i] = x; }
      spx.changeRhsReal(v);
      break;
   }
   case OP_CHGRHS:
   {
      double x = std::max(op.a, mo.lhs[op.i]);
      spx.changeRhsReal(op.i, x);
      mo.rhs[op.i] = x;
      break;
   }
   case OP_CHGRANGE_V:
   {
      VectorReal l(m), r(m);
      for(int i = 0; i < m; ++i) { l[i] = op.a; r[i] = op.b + (i % 2); mo.lhs[i] = l[i]; mo.rhs[i] = r[i]; }
      spx.changeRangeReal(l, r);
      break;
   }
   case OP_CHGRANGE:
      spx.changeRangeReal(op.i, op.a, op.b);
      mo.lhs[op.i] = op.a; mo.rhs[op.i] = op.b;
      break;
   case OP_CHGCOL:
   {
      std::vector<double> a = pattern_vec(op.pat, m);
      double obj = OBJV[(op.j + 2) % 3];
      spx.changeColReal(op.i, LPCol(obj, to_dsv(a), op.b, op.a));
      mo.c[op.i] = obj; mo.lo[op.i] = op.a; mo.up[op.i] = op.b;
      for(int i = 0; i < m; ++i) mo.A[i][op.i] = a[i];
      break;
   }
   case OP_CHGLOWER_V:
   {
      VectorReal v(n);
      for(int j = 0; j < n; ++j) { double x = std::min(op.a, mo.up[j]); v[j] = x; mo.lo[j] = x; }
      spx.changeLowerReal(v);
      break;
   }
   case OP_CHGLOWER:
   {
      double x = std::min(op.a, mo.up[op.i]);
      spx.changeLowerReal(op.i, x);
      mo.lo[op.i] = x;
      break;
   }
   case OP_CHGUPPER_V:
   {
      VectorReal v(n);
      for(int j = 0; j < n; ++j) { double x = std::max(op.a, mo.lo[j]); v[j] = x; mo.up[j] = x; }
      spx.changeUpperReal(v);
      break;
   }
   case OP_CHGUPPER:
   {
      double x = std::max(op.a, mo.lo[op.i]);
      spx.changeUpperReal(op.i, x);
      mo.up[op.i] = x;
      break;
   }
   case OP_CHGBOUNDS_V:
   {
      VectorReal l(n), u(n);
      for(int j = 0; j < n; ++j) { l[j] = op.a; u[j] = op.b >= INF ? INF : op.b + (j % 2); mo.lo[j] = l[j]; mo.up[j] = u[j]; }
      spx.changeBoundsReal(l, u);
      break;
   }
   case OP_CHGBOUNDS:
      spx.changeBoundsReal(op.i, op.a, op.b);
      mo.lo[op.i] = op.a; mo.up[op.i] = op.b;
      break;
   case OP_CHGOBJ_V:
   {
      VectorReal v(n);
      std::vector<double> pv = pattern_vec(op.pat, n);
      for(int j = 0; j < n; ++j) { v[j] = op.a + pv[j]; mo.c[j] = v[j]; }
      spx.changeObjReal(v);
      break;
   }
   case OP_CHGOBJ:
      spx.changeObjReal(op.i, op.a);
      mo.c[op.i] = op.a;
      break;
   case OP_CHGELEM:
      spx.changeElementReal(op.i, op.j, op.a);
      mo.A[op.i][op.j] = op.a;
      break;
   case OP_RMROW:
   {
      spx.removeRowReal(op.i);
      Model alt = mo;
      std::vector<bool> rem(m, false);
      rem[op.i] = true;
      alt.permRows(compaction_perm(rem));
      mo.permRows(swaplast_perm(m, op.i));
      if(alternatives) alternatives->push_back(alt);
      break;
   }
   case OP_RMCOL:
   {
      spx.removeColReal(op.i);
      Model alt = mo;
      std::vector<bool> rem(n, false);
      rem[op.i] = true;
      alt.permCols(compaction_perm(rem));
      mo.permCols(swaplast_perm(n, op.i));
      if(alternatives) alternatives->push_back(alt);
      break;
   }
   case OP_RMROWS_PERM: case OP_RMROWS_IDX: case OP_RMROWS_IDX_NOPERM: case OP_RMROWRANGE: case OP_RMROWRANGE_NOPERM:
   case OP_RMCOLS_PERM: case OP_RMCOLS_IDX: case OP_RMCOLS_IDX_NOPERM: case OP_RMCOLRANGE: case OP_RMCOLRANGE_NOPERM:
   {
      bool rows = op.kind <= OP_RMROWRANGE_NOPERM;
      int size = rows ? m : n;
      std::vector<bool> rem(size, false);
      bool range = (op.kind == OP_RMROWRANGE || op.kind == OP_RMROWRANGE_NOPERM || op.kind == OP_RMCOLRANGE || op.kind == OP_RMCOLRANGE_NOPERM);
      if(range) for(int k = op.i; k <= op.j; ++k) rem[k] = true;
      else for(int k = 0; k < size; ++k) if(op.pat & (1 << k)) rem[k] = true;
      // exact-length buffers: the perm buffer has exactly `size` entries, the index list exactly `cnt`
      std::vector<int> perm(size, 0), idx;
      for(int k = 0; k < size; ++k) { if(rem[k]) { idx.push_back(k); perm[k] = -1; } }
      bool witness = true;
      switch(op.kind)
      {
      case OP_RMROWS_PERM: spx.removeRowsReal(perm.data()); break;
      case OP_RMROWS_IDX: spx.removeRowsReal(idx.data(), (int)idx.size(), perm.data()); break;
      case OP_RMROWS_IDX_NOPERM: spx.removeRowsReal(idx.data(), (int)idx.size()); witness = false; break;
      case OP_RMROWRANGE: spx.removeRowRangeReal(op.i, op.j, perm.data()); break;
      case OP_RMROWRANGE_NOPERM: spx.removeRowRangeReal(op.i, op.j); witness = false; break;
      case OP_RMCOLS_PERM: spx.removeColsReal(perm.data()); break;
      case OP_RMCOLS_IDX: spx.removeColsReal(idx.data(), (int)idx.size(), perm.data()); break;
      case OP_RMCOLS_IDX_NOPERM: spx.removeColsReal(idx.data(), (int)idx.size()); witness = false; break;
      case OP_RMCOLRANGE: spx.removeColRangeReal(op.i, op.j, perm.data()); break;
      case OP_RMCOLRANGE_NOPERM: spx.removeColRangeReal(op.i, op.j); witness = false; break;
      }
      if(witness)
      {
         if(!valid_perm(perm, rem)) return "returned perm array " + ivecstr(perm) + " is not a renumbering of the survivors";
         if(rows) mo.permRows(perm); else mo.permCols(perm);
      }
      else
      {
         if(rows) mo.permRows(compaction_perm(rem)); else mo.permCols(compaction_perm(rem));
      }
      break;
   }
   case OP_CLEARLP:
      spx.clearLPReal();
      mo.c.clear(); mo.lo.clear(); mo.up.clear(); mo.lhs.clear(); mo.rhs.clear(); mo.A.clear();
      break;
   case OP_SENSE:
      spx.setIntParam(SoPlex::OBJSENSE, op.i ? SoPlex::OBJSENSE_MAXIMIZE : SoPlex::OBJSENSE_MINIMIZE);
      mo.maximize = op.i != 0;
      break;
   case OP_OPTIMIZE:
      spx.optimize();
      break;
   case OP_GETSETBASIS:
      if(spx.hasBasis())
      {
         std::vector<SPxSolver::VarStatus> rs(m + 1), cs(n + 1);
         spx.getBasis(rs.data(), cs.data());
         spx.setBasis(rs.data(), cs.data());
      }
      break;
   case OP_CLEARBASIS:
      spx.clearBasis();
      break;
   }
   return "";
}

// C04 validity conditions (1)-(3) of a reported basis against the model
inline std::string basis_valid(SoPlex& spx, const Model& mo)
{
   int n = mo.n(), m = mo.m();
   if(!spx.hasBasis()) return "";
   std::vector<SPxSolver::VarStatus> rs(m + 1), cs(n + 1);
   spx.getBasis(rs.data(), cs.data());
   int nb = 0;
   std::ostringstream o;
   for(int i = 0; i < m; ++i)
   {
      int st = (int)rs[i];
      if(st != (int)spx.basisRowStatus(i)) { o << "basisRowStatus(" << i << ")=" << (int)spx.basisRowStatus(i) << " but getBasis says " << st; return o.str(); }
      if(st == V_BASIC) ++nb;
      else if(st == V_ON_LOWER && mo.lhs[i] <= -1e100) { o << "row " << i << " nonbasic at infinite lhs"; return o.str(); }
      else if(st == V_ON_UPPER && mo.rhs[i] >= 1e100) { o << "row " << i << " nonbasic at infinite rhs"; return o.str(); }
      else if(st == V_FIXED && mo.lhs[i] != mo.rhs[i]) { o << "row " << i << " FIXED with lhs != rhs"; return o.str(); }
      else if(st == V_ZERO && (mo.lhs[i] > -1e100 || mo.rhs[i] < 1e100)) { o << "row " << i << " ZERO but not free"; return o.str(); }
      else if(st < 0 || st > 4) { o << "row " << i << " has status code " << st; return o.str(); }
   }
   for(int j = 0; j < n; ++j)
   {
      int st = (int)cs[j];
      if(st != (int)spx.basisColStatus(j)) { o << "basisColStatus(" << j << ")=" << (int)spx.basisColStatus(j) << " but getBasis says " << st; return o.str(); }
      if(st == V_BASIC) ++nb;
      else if(st == V_ON_LOWER && mo.lo[j] <= -1e100) { o << "col " << j << " nonbasic at infinite lower"; return o.str(); }
      else if(st == V_ON_UPPER && mo.up[j] >= 1e100) { o << "col " << j << " nonbasic at infinite upper"; return o.str(); }
      else if(st == V_FIXED && mo.lo[j] != mo.up[j]) { o << "col " << j << " FIXED with lower != upper"; return o.str(); }
      else if(st == V_ZERO && (mo.lo[j] > -1e100 || mo.up[j] < 1e100)) { o << "col " << j << " ZERO but not free"; return o.str(); }
      else if(st < 0 || st > 4) { o << "col " << j << " has status code " << st; return o.str(); }
   }
   if(nb != m) { o << nb << " basic variables for " << m << " rows (rows " << m << ", cols " << n << ")"; return o.str(); }
   return "";
}

} // namespace vx
