// Bounded-exhaustive execution engine: enumerates a finite case space [0,N) on
// forked workers, isolates crashes / hangs / escaped exceptions per case, collects
// counters, samples and violation signatures, and writes the evidence file.
#pragma once
#include <cstdint>
#include <cstdio>
#include <cstdlib>
#include <cstring>
#include <string>
#include <vector>
#include <map>
#include <set>
#include <sstream>
#include <fstream>
#include <functional>
#include <algorithm>
#include <chrono>
#include <exception>
#include <typeinfo>
#include <unistd.h>
#include <signal.h>
#include <malloc.h>
#include <execinfo.h>
#include <cxxabi.h>
#include <sys/mman.h>
#include <sys/wait.h>
#include <sys/stat.h>
#include <sys/resource.h>
#include <fcntl.h>

// default (empty) implementation of the guarded source hook SPX_VERIF_POINT; the C18 harness overrides it
#ifndef VX_OWN_VERIF_POINT
extern "C" __attribute__((weak)) void soplex_verif_point(const char*) {}
#endif

namespace vx
{

inline double now_s()
{
   using namespace std::chrono;
   return duration_cast<duration<double>>(steady_clock::now().time_since_epoch()).count();
}

inline std::string jesc(const std::string& s)
{
   std::string o;
   o.reserve(s.size() + 8);
   for(unsigned char c : s)
   {
      switch(c)
      {
      case '"': o += "\\\""; break;
      case '\\': o += "\\\\"; break;
      case '\n': o += "\\n"; break;
      case '\r': o += "\\r"; break;
      case '\t': o += "\\t"; break;
      default:
         if(c < 0x20 || c >= 0x7f)
         {
            char b[8];
            snprintf(b, sizeof b, "\\u%04x", c);
            o += b;
         }
         else
            o += (char)c;
      }
   }
   return o;
}
inline std::string jstr(const std::string& s) { return "\"" + jesc(s) + "\""; }

// line-protocol escaping (tab / newline / backslash)
inline std::string lesc(const std::string& s)
{
   std::string o;
   for(char c : s)
   {
      if(c == '\t') o += "\\t";
      else if(c == '\n') o += "\\n";
      else if(c == '\\') o += "\\\\";
      else o += c;
   }
   return o;
}
inline std::string lunesc(const std::string& s)
{
   std::string o;
   for(size_t i = 0; i < s.size(); ++i)
   {
      if(s[i] == '\\' && i + 1 < s.size())
      {
         ++i;
         if(s[i] == 't') o += '\t';
         else if(s[i] == 'n') o += '\n';
         else o += s[i];
      }
      else o += s[i];
   }
   return o;
}
inline std::vector<std::string> split(const std::string& s, char sep)
{
   std::vector<std::string> v;
   std::string cur;
   for(char c : s)
   {
      if(c == sep) { v.push_back(cur); cur.clear(); }
      else cur += c;
   }
   v.push_back(cur);
   return v;
}

struct VRec
{
   uint64_t count = 0;
   std::vector<std::pair<std::string, std::string>> cases; // (case string, detail)
};

// Per-process collection context (one per worker; merged by the parent)
class Ctx
{
public:
   std::map<std::string, uint64_t> counters;
   std::map<std::string, VRec> viol;       // signature -> record
   std::vector<std::string> samples;       // JSON values
   std::set<std::string> states;           // canonical state digests (model-checking harnesses)
   size_t maxSamples = 4;
   size_t maxCasesPerSig = 3;
   FILE* sink = nullptr;                    // worker side: violations are written through immediately

   void count(const std::string& k, uint64_t d = 1) { counters[k] += d; }
   void violation(const std::string& sig, const std::string& caseStr, const std::string& detail)
   {
      VRec& r = viol[sig];
      r.count++;
      bool keep = r.cases.size() < maxCasesPerSig;
      if(keep)
         r.cases.emplace_back(caseStr, detail);
      if(sink)
      {
         fprintf(sink, "N\t%s\t1\n", lesc(sig).c_str());
         if(keep) fprintf(sink, "V\t%s\t%s\t%s\n", lesc(sig).c_str(), lesc(caseStr).c_str(), lesc(detail).c_str());
         fflush(sink);
      }
   }
   // worker side: write counters / samples / states accumulated so far and forget them
   void flushDelta()
   {
      if(!sink) return;
      for(auto& kv : counters)
         fprintf(sink, "C\t%s\t%llu\n", lesc(kv.first).c_str(), (unsigned long long)kv.second);
      counters.clear();
      for(size_t i = flushedSamples; i < samples.size(); ++i) fprintf(sink, "S\t%s\n", lesc(samples[i]).c_str());
      flushedSamples = samples.size();
      for(auto& t : states) if(!flushedStates.count(t)) { fprintf(sink, "T\t%s\n", lesc(t).c_str()); }
      flushedStates.insert(states.begin(), states.end());
      states.clear();
      fflush(sink);
   }
   size_t flushedSamples = 0;
   std::set<std::string> flushedStates;
   void sample(const std::string& json)
   {
      if(samples.size() < maxSamples)
         samples.push_back(json);
   }
   bool wantSample() const { return samples.size() < maxSamples; }
   void state(const std::string& digest) { if(states.size() + flushedStates.size() < 2000000 && !flushedStates.count(digest)) states.insert(digest); }

   void dump(FILE* f) const
   {
      for(auto& kv : counters)
         fprintf(f, "C\t%s\t%llu\n", lesc(kv.first).c_str(), (unsigned long long)kv.second);
      for(auto& kv : viol)
      {
         fprintf(f, "N\t%s\t%llu\n", lesc(kv.first).c_str(), (unsigned long long)kv.second.count);
         for(auto& c : kv.second.cases)
            fprintf(f, "V\t%s\t%s\t%s\n", lesc(kv.first).c_str(), lesc(c.first).c_str(), lesc(c.second).c_str());
      }
      for(auto& s : samples)
         fprintf(f, "S\t%s\n", lesc(s).c_str());
      for(auto& s : states)
         fprintf(f, "T\t%s\n", lesc(s).c_str());
   }
   void mergeLine(const std::string& line)
   {
      auto p = split(line, '\t');
      if(p.size() >= 3 && p[0] == "C") counters[lunesc(p[1])] += strtoull(p[2].c_str(), 0, 10);
      else if(p.size() >= 3 && p[0] == "N") viol[lunesc(p[1])].count += strtoull(p[2].c_str(), 0, 10);
      else if(p.size() >= 4 && p[0] == "V")
      {
         VRec& r = viol[lunesc(p[1])];
         if(r.cases.size() < maxCasesPerSig) r.cases.emplace_back(lunesc(p[2]), lunesc(p[3]));
      }
      else if(p.size() >= 2 && p[0] == "S") { if(samples.size() < maxSamples) samples.push_back(lunesc(p[1])); }
      else if(p.size() >= 2 && p[0] == "T") states.insert(lunesc(p[1]));
   }
   void mergeFile(const std::string& path)
   {
      std::ifstream in(path);
      std::string line;
      while(std::getline(in, line)) mergeLine(line);
   }
};

// ---------------------------------------------------------------------------
// crash handler (worker side)
// ---------------------------------------------------------------------------
struct Shm
{
   volatile uint64_t idx;      // case being executed
   volatile uint64_t sub;      // sub-step inside the case (e.g. configuration number), set by the harness
   volatile uint64_t seq;      // bumped at every case start
   volatile uint64_t done;     // cases completed
   volatile uint64_t chunkEnd; // end of the chunk being executed
   volatile int pass;
   volatile int finished;
   char pad[8];
   char lastSan[192];          // the sanitizer report that was being printed most recently ("description:access:function"), see __asan_on_error
};

static Shm* g_myshm = nullptr;
inline void set_sub(uint64_t k) { if(g_myshm) g_myshm->sub = k; }
static int g_crash_fd = -1;
static void crash_handler(int sig)
{
   void* bt[64];
   int n = backtrace(bt, 64);
   if(g_crash_fd >= 0)
   {
      char hdr[64];
      int l = snprintf(hdr, sizeof hdr, "\nX\t%d\n", sig);
      if(write(g_crash_fd, hdr, l) < 0) {}
      backtrace_symbols_fd(bt, n, g_crash_fd);
      if(write(g_crash_fd, "XEND\n", 5) < 0) {}
   }
   _exit(100 + (sig & 31));
}
inline void install_crash_handler(int fd)
{
   g_crash_fd = fd;
   static char altstack[1 << 16];
   stack_t ss;
   ss.ss_sp = altstack;
   ss.ss_size = sizeof altstack;
   ss.ss_flags = 0;
   sigaltstack(&ss, 0);
   struct sigaction sa;
   memset(&sa, 0, sizeof sa);
   sa.sa_handler = crash_handler;
   sa.sa_flags = SA_ONSTACK | SA_NODEFER;
   for(int s : {SIGSEGV, SIGBUS, SIGFPE, SIGILL, SIGABRT})
      sigaction(s, &sa, 0);
}

inline std::string demangle_frame(const std::string& line)
{
   // "./exe(_ZN6soplex...+0x12) [0x...]"
   size_t a = line.find('('), b = line.find('+', a == std::string::npos ? 0 : a);
   if(a == std::string::npos || b == std::string::npos || b <= a + 1) return "";
   std::string m = line.substr(a + 1, b - a - 1);
   int st = 0;
   char* d = abi::__cxa_demangle(m.c_str(), 0, 0, &st);
   std::string r = (st == 0 && d) ? d : m;
   free(d);
   return r;
}
// short function name "Class::method" out of a demangled symbol
inline std::string short_fn(const std::string& dem)
{
   std::string s = dem;
   // strip template args and parameter list
   std::string o;
   int depth = 0;
   for(char c : s)
   {
      if(c == '<') depth++;
      else if(c == '>') depth--;
      else if(depth == 0)
      {
         if(c == '(') break;
         o += c;
      }
   }
   // drop return type if any (last space-separated token)
   size_t sp = o.rfind(' ');
   if(sp != std::string::npos) o = o.substr(sp + 1);
   return o;
}
inline std::string crash_site(const std::vector<std::string>& frames)
{
   for(auto& f : frames)
   {
      std::string d = demangle_frame(f);
      if(d.find("soplex::") != std::string::npos || d.find("SoPlex_") != std::string::npos)
         return short_fn(d);
   }
   for(auto& f : frames)
   {
      std::string d = demangle_frame(f);
      if(!d.empty() && d.find("crash_handler") == std::string::npos) return short_fn(d);
   }
   return "unknown";
}

// ---------------------------------------------------------------------------
// AddressSanitizer as an oracle: reports are recorded (run continues with
// -fsanitize-recover=address / halt_on_error=0) and turned into violations.
// ---------------------------------------------------------------------------
#if defined(__SANITIZE_ADDRESS__)
#define VX_ASAN 1
#elif defined(__has_feature)
#if __has_feature(address_sanitizer)
#define VX_ASAN 1
#endif
#endif
#ifdef VX_ASAN
extern "C" {
   const char* __asan_get_report_description();
   void* __asan_get_report_pc();
   int __asan_get_report_access_type();
   void __sanitizer_symbolize_pc(void* pc, const char* fmt, char* out_buf, size_t out_buf_size);
}
static char g_asan_report[512];
static bool g_san_since_case_start = false;   // a sanitizer report was raised while the current case ran
extern "C" void __asan_on_error()
{
   g_san_since_case_start = true;
   char fn[256];
   fn[0] = 0;
   __sanitizer_symbolize_pc(__asan_get_report_pc(), "%f", fn, sizeof fn);
   // the hook runs before the runtime prints (describes) the error; the runtime can die in that step (internal CHECK failures after heap corruption):
   // leave the current report where the parent finds it
   if(getenv("VX_SAN_TRACE")) fprintf(stderr, "VX-SAN %s:%s:%s\n", __asan_get_report_description(), __asan_get_report_access_type() ? "write" : "read", fn);
   if(g_myshm) snprintf(g_myshm->lastSan, sizeof g_myshm->lastSan, "%s:%s:%s", __asan_get_report_description(), __asan_get_report_access_type() ? "write" : "read", fn);
   if(g_asan_report[0]) return;   // keep the first report of a case
   snprintf(g_asan_report, sizeof g_asan_report, "%s:%s:%s", __asan_get_report_description(),
            __asan_get_report_access_type() ? "write" : "read", fn);
}
inline std::string take_asan_report()
{
   std::string r = g_asan_report;
   g_asan_report[0] = 0;
   if(r.empty()) return r;
   // shorten the function name
   size_t p = r.find(':');
   size_t q = r.find(':', p + 1);
   return "asan:" + r.substr(0, q + 1) + short_fn(r.substr(q + 1));
}
#else
static bool g_san_since_case_start = false;
inline std::string take_asan_report() { return std::string(); }
#endif

// ---------------------------------------------------------------------------
// Runner
// ---------------------------------------------------------------------------
// CPU seconds (user+system) consumed so far by process pid, from /proc (so that a loaded machine does not look like a hang)
inline double proc_cpu_s(pid_t pid)
{
   char path[64];
   snprintf(path, sizeof path, "/proc/%d/stat", (int)pid);
   FILE* f = fopen(path, "r");
   if(!f) return -1;
   char buf[1024];
   size_t n = fread(buf, 1, sizeof buf - 1, f);
   fclose(f);
   buf[n] = 0;
   char* p = strrchr(buf, ')');
   if(!p) return -1;
   unsigned long ut = 0, st = 0;
   // fields after ')': state ppid pgrp session tty tpgid flags minflt cminflt majflt cmajflt utime stime
   if(sscanf(p + 1, " %*c %*d %*d %*d %*d %*d %*u %*u %*u %*u %*u %lu %lu", &ut, &st) != 2) return -1;
   return double(ut + st) / sysconf(_SC_CLK_TCK);
}

struct RunOpts
{
   int workers = 16;
   double deadline = 0;          // absolute now_s() value; 0 = none
   double watchdog_s = 60;       // CPU seconds a single case may take (wall limit: 15x that)
   bool restartAfterSanitizerReport = false;   // a case during which a sanitizer report was raised may have damaged the heap of the worker, and the runtime reports a faulty
                                               // instruction only once per process: finish the case, then continue in a fresh worker (forked from the untouched parent)
   std::vector<int> perturb = {85};   // one pass per entry (mallopt M_PERTURB value; 0 = off)
   std::string tmpdir;
   uint64_t shuffle_seed = 0;    // rotates visiting order only
};

struct RunResult
{
   uint64_t total = 0, done = 0;
   bool exhaustive = true;
   int crashes = 0, hangs = 0;
};

// caseFn(idx, pass, ctx) executes case idx and returns a digest of its observable
// outcome (used to compare the passes); describe(idx) renders the case for reports.
typedef std::function<uint64_t(uint64_t, int, Ctx&)> CaseFn;
typedef std::function<std::string(uint64_t, uint64_t)> DescFn;   // (case index, sub-step)
typedef std::function<std::string(uint64_t, uint64_t)> SigFn;    // signature suffix for crashes/hangs

inline RunResult run_parallel(uint64_t N, const CaseFn& fn, const DescFn& describe, Ctx& out,
                              const RunOpts& opt, const std::string& tag, const SigFn& sigsuffix = SigFn())
{
   RunResult rr;
   rr.total = N * opt.perturb.size();
   if(N == 0) return rr;
   int W = (int)std::min<uint64_t>(opt.workers, N);
   if(W < 1) W = 1;
   Shm* shm = (Shm*)mmap(0, sizeof(Shm) * W, PROT_READ | PROT_WRITE, MAP_SHARED | MAP_ANONYMOUS, -1, 0);
   memset((void*)shm, 0, sizeof(Shm) * W);
   // shared work counters (one per pass): workers take chunks dynamically, which keeps the
   // load balanced even when the expensive cases are clustered in index space
   size_t P = opt.perturb.size();
   volatile uint64_t* nextChunk = (volatile uint64_t*)mmap(0, sizeof(uint64_t) * (P + 1), PROT_READ | PROT_WRITE,
                                  MAP_SHARED | MAP_ANONYMOUS, -1, 0);
   for(size_t k = 0; k <= P; ++k) nextChunk[k] = 0;
   uint64_t CH = std::max<uint64_t>(1, std::min<uint64_t>(256, N / (uint64_t(W) * 8)));
   // digests of pass 0 for the cross-pass comparison (32 bit per case, untouched pages cost nothing)
   uint32_t* dig = nullptr;
   if(P > 1 && N <= 200000000ULL)
      dig = (uint32_t*)mmap(0, sizeof(uint32_t) * N, PROT_READ | PROT_WRITE, MAP_SHARED | MAP_ANONYMOUS | MAP_NORESERVE, -1, 0);
   std::vector<pid_t> pid(W, -1);
   std::vector<uint64_t> resumeA(W, 0), resumeB(W, 0);   // rest of the chunk a crashed worker was in
   std::vector<int> startPass(W, 0);
   std::vector<int> gen(W, 0);
   std::vector<uint64_t> lastSeq(W, 0), lastSub(W, 0);
   std::vector<double> lastChange(W, now_s());
   std::vector<double> lastCpu(W, 0.0);
   std::vector<bool> active(W, true);
   fflush(stdout);
   fflush(stderr);

   auto fname = [&](int w, int g)
   {
      return opt.tmpdir + "/" + tag + "-w" + std::to_string(w) + "-g" + std::to_string(g) + ".txt";
   };
   auto spawn = [&](int w)
   {
      std::string path = fname(w, gen[w]);
      pid_t p = fork();
      if(p < 0) { perror("fork"); exit(2); }
      if(p == 0)
      {
         int fd = open(path.c_str(), O_WRONLY | O_CREAT | O_TRUNC, 0644);
         install_crash_handler(fd);
         Ctx ctx;
         ctx.maxSamples = 2;
         FILE* f = fdopen(fd, "w");
         ctx.sink = f;
         g_myshm = &shm[w];
         bool stopped = false;
         size_t k = 0;
         for(int pass = startPass[w]; pass < (int)P && !stopped; ++pass)
         {
            mallopt(M_PERTURB, opt.perturb[pass]);
            shm[w].pass = pass;
            bool resume = (pass == startPass[w] && resumeB[w] > resumeA[w]);
            while(!stopped)
            {
               uint64_t a, b;
               if(resume) { a = resumeA[w]; b = resumeB[w]; resume = false; }
               else
               {
                  a = __atomic_fetch_add(&nextChunk[pass], CH, __ATOMIC_SEQ_CST);
                  if(a >= N) break;
                  b = std::min<uint64_t>(a + CH, N);
               }
               shm[w].chunkEnd = b;
               for(uint64_t idx = a; idx < b; ++idx, ++k)
               {
                  if(opt.deadline > 0 && (k & 15) == 0 && now_s() > opt.deadline) { stopped = true; break; }
                  shm[w].idx = idx;
                  shm[w].sub = 0;
                  shm[w].seq++; shm[w].lastSan[0] = 0;
                  g_san_since_case_start = false;
                  if((k & 7) == 7) ctx.flushDelta();
                  uint64_t d = 0;
                  try
                  {
                     d = fn(idx, pass, ctx);
                  }
                  catch(const std::exception& e)
                  {
                     int st;
                     char* dn = abi::__cxa_demangle(typeid(e).name(), 0, 0, &st);
                     ctx.violation(std::string("escaped-exception:") + (dn ? dn : "?") + (sigsuffix ? sigsuffix(idx, shm[w].sub) : ""), describe(idx, shm[w].sub), e.what());
                     free(dn);
                  }
                  catch(...)
                  {
                     ctx.violation("escaped-exception:unknown" + (sigsuffix ? sigsuffix(idx, shm[w].sub) : std::string()), describe(idx, shm[w].sub), "");
                  }
                  {
                     std::string ar = take_asan_report();
                     if(!ar.empty())
                        ctx.violation(ar + (sigsuffix ? sigsuffix(idx, shm[w].sub) : std::string()), describe(idx, shm[w].sub), "AddressSanitizer report (see stderr of the run)");
                  }
                  shm[w].done++;
                  if(dig)
                  {
                     uint32_t d32 = (uint32_t)(d ^ (d >> 32));
                     if(d && !d32) d32 = 1;
                     if(pass == 0) dig[idx] = d32;
                     else if(dig[idx] != d32 && d32 != 0 && dig[idx] != 0)
                        ctx.violation("heap-fill-dependent-result" + (sigsuffix ? sigsuffix(idx, 0) : std::string()), describe(idx, 0),
                                      "outcome digest differs between malloc perturb fills");
                  }
                  if(opt.restartAfterSanitizerReport && g_san_since_case_start)
                  {
                     ctx.count("runner.restarts_after_sanitizer_report");
                     ctx.flushDelta();
                     fflush(f);
                     _exit(99);
                  }
               }
            }
         }
         ctx.flushDelta();
         fprintf(f, "%s\n", stopped ? "STOPPED" : "COMPLETE");
         fflush(f);
         shm[w].finished = 1;
         _exit(0);
      }
      pid[w] = p;
      lastChange[w] = now_s();
      lastCpu[w] = 0;
      lastSeq[w] = shm[w].seq;
      lastSub[w] = shm[w].sub;
   };

   for(int w = 0; w < W; ++w) spawn(w);

   int running = W;
   while(running > 0)
   {
      usleep(20000);
      for(int w = 0; w < W; ++w)
      {
         if(!active[w]) continue;
         int st = 0;
         pid_t r = waitpid(pid[w], &st, WNOHANG);
         bool died = false, hang = false;
         if(r == pid[w])
            died = true;
         else
         {
            // progress = a new case or a new sub-case (set_sub): the watchdog limit applies to one sub-case, a case may consist of many
            if(shm[w].seq != lastSeq[w] || shm[w].sub != lastSub[w]) { lastSeq[w] = shm[w].seq; lastSub[w] = shm[w].sub; lastChange[w] = now_s(); lastCpu[w] = proc_cpu_s(pid[w]); }
            else if(now_s() - lastChange[w] > opt.watchdog_s &&
                    (proc_cpu_s(pid[w]) - lastCpu[w] > opt.watchdog_s || now_s() - lastChange[w] > 15 * opt.watchdog_s))
            {
               kill(pid[w], SIGKILL);
               waitpid(pid[w], &st, 0);
               died = true;
               hang = true;
            }
         }
         if(!died) continue;
         std::string path = fname(w, gen[w]);
         bool clean = !hang && WIFEXITED(st) && WEXITSTATUS(st) == 0 && shm[w].finished;
         if(clean)
         {
            // read results
            std::ifstream in(path);
            std::string line;
            bool complete = false;
            while(std::getline(in, line))
            {
               if(line == "COMPLETE") complete = true;
               else if(line == "STOPPED") rr.exhaustive = false;
               else out.mergeLine(line);
            }
            (void)complete;
            unlink(path.c_str());
            active[w] = false;
            running--;
            continue;
         }
         if(!hang && WIFEXITED(st) && WEXITSTATUS(st) == 99)
         {
            // requested restart after a case with a sanitizer report: keep everything the worker wrote, continue after that case in a fresh worker
            std::ifstream in(path);
            std::string line;
            while(std::getline(in, line)) if(line.size() > 2 && line[1] == '\t') out.mergeLine(line);
            unlink(path.c_str());
            gen[w]++;
            startPass[w] = shm[w].pass;
            resumeA[w] = shm[w].idx + 1;
            resumeB[w] = shm[w].chunkEnd;
            shm[w].finished = 0;
            spawn(w);
            continue;
         }
         // crash, hang, or abnormal exit in case shm[w].idx
         uint64_t idx = shm[w].idx;
         uint64_t sub = shm[w].sub;
         int pass = shm[w].pass;
         std::string sig;
         std::string detail;
         {
            // keep what the worker had already written (violations, flushed counters)
            std::ifstream in(path);
            std::string line;
            bool inX = false;
            while(std::getline(in, line))
            {
               if(line.compare(0, 2, "X\t") == 0) inX = true;
               else if(line == "XEND") inX = false;
               else if(!inX && line.size() > 2 && line[1] == '\t') out.mergeLine(line);
            }
         }
         if(hang)
         {
            sig = "hang" + (sigsuffix ? sigsuffix(idx, sub) : std::string());
            detail = "no progress for " + std::to_string((int)opt.watchdog_s) + " CPU-seconds";
            rr.hangs++;
         }
         else
         {
            std::ifstream in(path);
            std::string line;
            std::vector<std::string> frames;
            int signo = 0;
            bool inX = false;
            while(std::getline(in, line))
            {
               if(line.compare(0, 2, "X\t") == 0) { signo = atoi(line.c_str() + 2); inX = true; }
               else if(line == "XEND") inX = false;
               else if(inX) frames.push_back(line);
            }
            if(signo == 0 && WIFSIGNALED(st)) signo = WTERMSIG(st);
            std::string site = crash_site(frames);
            if(signo)
               sig = "crash:sig" + std::to_string(signo) + ":" + site;
            else if(WIFEXITED(st) && WEXITSTATUS(st) == 1 && shm[w].lastSan[0])
            {
               // exit code 1 = the sanitizer runtime called Die() although errors are recoverable: it failed while printing the report the hook recorded last
               std::string r(shm[w].lastSan, strnlen(shm[w].lastSan, sizeof shm[w].lastSan));
               size_t p1 = r.find(':'), p2 = p1 == std::string::npos ? p1 : r.find(':', p1 + 1);
               sig = "asan:" + (p2 == std::string::npos ? r : r.substr(0, p2 + 1) + short_fn(r.substr(p2 + 1)));
               detail = "the sanitizer runtime died (exit 1) while printing this report; ";
            }
            else
               sig = "abnormal-exit:" + std::to_string(WIFEXITED(st) ? WEXITSTATUS(st) : -1);
            if(sigsuffix) sig += sigsuffix(idx, sub);
            for(size_t k = 0; k < frames.size() && k < 12; ++k)
            {
               std::string d = demangle_frame(frames[k]);
               if(!d.empty()) detail += short_fn(d) + " <- ";
            }
            rr.crashes++;
         }
         out.violation(sig, describe(idx, sub), detail + " [perturb=" + std::to_string(opt.perturb[pass]) + "]");
         out.count("runner.worker_restarts");
         unlink(path.c_str());
         // restart after the failing case
         gen[w]++;
         shm[w].done++;
         startPass[w] = pass;
         resumeA[w] = idx + 1;
         resumeB[w] = shm[w].chunkEnd;
         if(startPass[w] >= (int)opt.perturb.size() || rr.crashes + rr.hangs > 20000)
         {
            if(rr.crashes + rr.hangs > 20000) rr.exhaustive = false;
            active[w] = false;
            running--;
         }
         else
         {
            shm[w].finished = 0;
            spawn(w);
         }
      }
   }
   for(int w = 0; w < W; ++w) rr.done += shm[w].done;
   munmap((void*)shm, sizeof(Shm) * W);
   munmap((void*)nextChunk, sizeof(uint64_t) * (P + 1));
   if(dig) munmap((void*)dig, sizeof(uint32_t) * N);
   return rr;
}

// ---------------------------------------------------------------------------
// Report: accumulates phases and writes the evidence + result files
// ---------------------------------------------------------------------------
struct Args
{
   std::string prop, tier = "quick", outdir, evidence, replay;
   long seed = 0;
   double budget_s = 0;     // global deadline for the run (0 = harness default)
   int workers = 16;
   std::map<std::string, std::string> kv;
   std::string get(const std::string& k, const std::string& d = "") const
   {
      auto it = kv.find(k);
      return it == kv.end() ? d : it->second;
   }
};

inline Args parse_args(int argc, char** argv)
{
   Args a;
   for(int i = 1; i < argc; ++i)
   {
      std::string s = argv[i];
      auto nxt = [&]() { return (i + 1 < argc) ? std::string(argv[++i]) : std::string(); };
      if(s == "--prop") a.prop = nxt();
      else if(s == "--tier") a.tier = nxt();
      else if(s == "--out") a.outdir = nxt();
      else if(s == "--evidence") a.evidence = nxt();
      else if(s == "--replay") a.replay = nxt();
      else if(s == "--seed") a.seed = atol(nxt().c_str());
      else if(s == "--budget") a.budget_s = atof(nxt().c_str());
      else if(s == "--workers") a.workers = atoi(nxt().c_str());
      else if(s.compare(0, 2, "--") == 0)
      {
         std::string k = s.substr(2);
         a.kv[k] = nxt();
      }
   }
   if(a.outdir.empty()) a.outdir = "/var/tmp/vx-out-" + std::to_string(getpid());
   mkdir(a.outdir.c_str(), 0755);
   return a;
}

class Report
{
public:
   Args args;
   std::string level;             // exploration | fault_enumeration | model_checking
   std::string rule;
   std::vector<std::string> assumptions;
   std::vector<std::string> notes;
   Ctx all;
   uint64_t evaluations = 0;
   bool exhaustive = true;
   double t0 = now_s();
   double deadline = 0;
   std::vector<std::string> phases;   // JSON objects
   std::map<std::string, std::string> extra;   // extra coverage keys -> JSON value
   int phaseNo = 0;

   Report(const Args& a, const std::string& lvl, double defaultBudget) : args(a), level(lvl)
   {
      double b = a.budget_s > 0 ? a.budget_s : defaultBudget;
      deadline = t0 + b;
      all.maxSamples = 6;
   }

   RunOpts opts() const
   {
      RunOpts o;
      o.workers = args.workers;
      o.deadline = deadline;
      o.tmpdir = args.outdir;
      return o;
   }

   // run one enumerated phase
   RunResult phase(const std::string& name, uint64_t N, const CaseFn& fn, const DescFn& desc, RunOpts o,
                   const SigFn& sigsuffix = SigFn())
   {
      double p0 = now_s();
      Ctx c;
      c.maxSamples = 3;
      RunResult rr;
      // VERIF_PHASE=<substring>: run only the phases whose name contains it (development aid: lets a deep phase of a thorough tier be run on its own; the skipped
      // phases are reported as not executed and the run as not exhaustive)
      const char* only = getenv("VERIF_PHASE");
      if(now_s() > deadline || (only && *only && name.find(only) == std::string::npos))
      {
         rr.total = N * o.perturb.size();
         rr.exhaustive = false;
      }
      else
         rr = run_parallel(N, fn, desc, c, o, "p" + std::to_string(phaseNo), sigsuffix);
      phaseNo++;
      for(auto& kv : c.counters) all.counters[kv.first] += kv.second;
      for(auto& kv : c.viol)
      {
         VRec& r = all.viol[kv.first];
         r.count += kv.second.count;
         for(auto& cs : kv.second.cases) if(r.cases.size() < all.maxCasesPerSig) r.cases.push_back(cs);
      }
      for(auto& s : c.samples) all.sample(s);
      for(auto& s : c.states) all.states.insert(s);
      evaluations += rr.done;
      if(!rr.exhaustive) exhaustive = false;
      std::ostringstream js;
      js << "{\"name\":" << jstr(name) << ",\"cases\":" << N << ",\"passes\":" << o.perturb.size()
         << ",\"executed\":" << rr.done << ",\"complete\":" << (rr.exhaustive ? "true" : "false")
         << ",\"crashes\":" << rr.crashes << ",\"hangs\":" << rr.hangs
         << ",\"wall_s\":" << (now_s() - p0) << "}";
      phases.push_back(js.str());
      fprintf(stderr, "[%s] phase %-28s cases=%llu executed=%llu complete=%d crashes=%d hangs=%d %.1fs\n",
              args.prop.c_str(), name.c_str(), (unsigned long long)N, (unsigned long long)rr.done,
              (int)rr.exhaustive, rr.crashes, rr.hangs, now_s() - p0);
      return rr;
   }

   // writes <outdir>/result.tsv (violation signatures for the driver) and the evidence file
   void finish(uint64_t distinct_nontrivial, uint64_t states = 0, uint64_t transitions = 0, uint64_t traces = 0)
   {
      // result file
      {
         std::ofstream r(args.outdir + "/result.tsv");
         for(auto& kv : all.viol)
         {
            r << "SIG\t" << lesc(kv.first) << "\t" << kv.second.count << "\n";
            for(auto& c : kv.second.cases)
               r << "CASE\t" << lesc(kv.first) << "\t" << lesc(c.first) << "\t" << lesc(c.second) << "\n";
         }
      }
      std::ostringstream e;
      e << "{\n \"property_id\": " << jstr(args.prop) << ",\n \"tier\": " << jstr(args.tier)
        << ",\n \"seed\": " << args.seed << ",\n \"level\": " << jstr(level) << ",\n \"coverage\": {\n";
      e << "  \"evaluations\": " << evaluations << ",\n  \"distinct_nontrivial\": " << distinct_nontrivial
        << ",\n  \"rule\": " << jstr(rule) << ",\n  \"exhaustive\": " << (exhaustive ? "true" : "false") << ",\n";
      if(level == "model_checking")
         e << "  \"states\": " << states << ",\n  \"transitions\": " << transitions
           << ",\n  \"traces_validated_against_impl\": " << traces << ",\n";
      for(auto& kv : extra) e << "  " << jstr(kv.first) << ": " << kv.second << ",\n";
      e << "  \"phases\": [";
      for(size_t i = 0; i < phases.size(); ++i) e << (i ? "," : "") << "\n   " << phases[i];
      e << "],\n  \"counters\": {";
      bool first = true;
      for(auto& kv : all.counters)
      {
         e << (first ? "" : ",") << "\n   " << jstr(kv.first) << ": " << kv.second;
         first = false;
      }
      e << "},\n  \"violation_signatures\": {";
      first = true;
      for(auto& kv : all.viol)
      {
         e << (first ? "" : ",") << "\n   " << jstr(kv.first) << ": " << kv.second.count;
         first = false;
      }
      e << "},\n  \"samples\": [";
      for(size_t i = 0; i < all.samples.size(); ++i) e << (i ? "," : "") << "\n   " << all.samples[i];
      if(all.samples.empty()) e << "\"(none)\"";
      e << "]\n },\n \"assumptions\": [";
      for(size_t i = 0; i < assumptions.size(); ++i) e << (i ? ", " : "") << jstr(assumptions[i]);
      e << "],\n \"notes\": [";
      for(size_t i = 0; i < notes.size(); ++i) e << (i ? ", " : "") << jstr(notes[i]);
      e << "],\n \"wall_s\": " << (now_s() - t0) << ",\n \"violations\": " << all.viol.size() << "\n}\n";
      std::string path = args.evidence.empty() ? args.outdir + "/evidence.json" : args.evidence;
      std::ofstream f(path);
      f << e.str();
   }
};

// in-process single-case execution for --replay: prints "REPLAY-SIG <sig>" per violation
inline int replay_case(const std::function<void(Ctx&)>& fn)
{
   Ctx c;
   install_crash_handler(-1);
   struct sigaction sa;
   memset(&sa, 0, sizeof sa);
   // crashes during replay: print signature and exit
   sa.sa_handler = [](int sig)
   {
      void* bt[64];
      int n = backtrace(bt, 64);
      char** syms = backtrace_symbols(bt, n);
      std::vector<std::string> fr;
      for(int i = 0; i < n; ++i) fr.push_back(syms[i]);
      std::string site = crash_site(fr);
      printf("REPLAY-SIG crash:sig%d:%s\n", sig, site.c_str());
      fflush(stdout);
      _exit(0);
   };
   sa.sa_flags = SA_ONSTACK | SA_NODEFER;
   for(int s : {SIGSEGV, SIGBUS, SIGFPE, SIGILL, SIGABRT}) sigaction(s, &sa, 0);
   try
   {
      fn(c);
   }
   catch(const std::exception& e)
   {
      int st;
      char* dn = abi::__cxa_demangle(typeid(e).name(), 0, 0, &st);
      printf("REPLAY-SIG escaped-exception:%s\n", dn ? dn : "?");
      free(dn);
   }
   {
      std::string ar = take_asan_report();
      if(!ar.empty()) c.violation(ar, "", "AddressSanitizer report");
   }
   for(auto& kv : c.viol)
   {
      printf("REPLAY-SIG %s\n", kv.first.c_str());
      for(auto& cs : kv.second.cases) printf("REPLAY-DETAIL %s\n", cs.second.c_str());
   }
   printf("REPLAY-DONE violations=%zu\n", c.viol.size());
   return 0;
}

// FNV-1a for digests
inline uint64_t fnv(const void* p, size_t n, uint64_t h = 1469598103934665603ULL)
{
   const unsigned char* b = (const unsigned char*)p;
   for(size_t i = 0; i < n; ++i) { h ^= b[i]; h *= 1099511628211ULL; }
   return h ? h : 1;
}
inline uint64_t fnv_str(const std::string& s, uint64_t h = 1469598103934665603ULL) { return fnv(s.data(), s.size(), h); }

} // namespace vx
