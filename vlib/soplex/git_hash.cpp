#define SPX_GITHASH "verif-fallback"
