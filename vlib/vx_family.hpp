// Tiny-LP families T(n, m; A, c, B, S): complete products over small menus,
// with row/column permutation symmetry removed (lexicographically smallest
// representative kept).  A case is addressable by its index and is rendered
// as a self-contained string (the replay files store the LP, not the index).
#pragma once
#include <array>
#include <map>
#include <cstdio>
#include <cstdlib>
#include "vx_exactlp.hpp"

namespace vx
{
const double INF = 1e100;

// menus ---------------------------------------------------------------------
struct BoundMenu { double lo, up; const char* name; };
static const BoundMenu COLB[] =
{
   {0, INF, "[0,inf)"}, {-INF, INF, "free"}, {-INF, 1, "(-inf,1]"}, {-1, 2, "[-1,2]"}, {1, 1, "[1,1]"},
   // shapes with a zero end point / a shifted one-sided bound (code that branches on isZero(lower) / isZero(upper), e.g. the dual LP builder); appended, existing indices unchanged
   {-INF, 0, "(-inf,0]"}, {-2, INF, "[-2,inf)"}, {0, 3, "[0,3]"}, {-3, 0, "[-3,0]"}, {0, 0, "[0,0]"}
};
static const BoundMenu ROWS[] =
{
   {-INF, 1, "<=1"}, {-1, INF, ">=-1"}, {1, 1, "=1"}, {-1, 2, "[-1,2]"}, {-INF, INF, "free"},
   {-INF, -1, "<=-1"}, {2, INF, ">=2"}, {0, 0, "=0"}
};

// A small LP with double data (exactly representable by construction)
struct TinyLP
{
   int n = 0, m = 0;
   bool maximize = false;
   double offset = 0;
   std::vector<double> c, lo, up, lhs, rhs;
   std::vector<std::vector<double>> A;   // m x n

   void resize(int n_, int m_)
   {
      n = n_; m = m_;
      c.assign(n, 0); lo.assign(n, 0); up.assign(n, INF); lhs.assign(m, -INF); rhs.assign(m, INF);
      A.assign(m, std::vector<double>(n, 0));
   }
   XLP exact() const
   {
      XLP x;
      x.resize(n, m);
      x.maximize = maximize;
      x.offset = q_of_double(offset);
      for(int j = 0; j < n; ++j) { x.c[j] = q_of_double(c[j]); x.lo[j] = ext_of_double(lo[j]); x.up[j] = ext_of_double(up[j]); }
      for(int i = 0; i < m; ++i)
      {
         x.lhs[i] = ext_of_double(lhs[i]); x.rhs[i] = ext_of_double(rhs[i]);
         for(int j = 0; j < n; ++j) x.A[i][j] = q_of_double(A[i][j]);
      }
      return x;
   }
   static std::string num(double d)
   {
      if(d >= INF) return "inf";
      if(d <= -INF) return "-inf";
      char b[40];
      snprintf(b, sizeof b, "%.17g", d);
      return b;
   }
   static double parse_num(const std::string& s)
   {
      if(s == "inf") return INF;
      if(s == "-inf") return -INF;
      return strtod(s.c_str(), 0);
   }
   // self-contained text form:  n=2;m=2;max=0;off=3;c=1,-1;lo=0,-inf;up=inf,1;lhs=..;rhs=..;A=1,0|1,1
   std::string str() const
   {
      std::ostringstream o;
      o << "n=" << n << ";m=" << m << ";max=" << (maximize ? 1 : 0) << ";off=" << num(offset);
      auto vec = [&](const char* k, const std::vector<double>& v)
      {
         o << ";" << k << "=";
         for(size_t i = 0; i < v.size(); ++i) o << (i ? "," : "") << num(v[i]);
      };
      vec("c", c); vec("lo", lo); vec("up", up); vec("lhs", lhs); vec("rhs", rhs);
      o << ";A=";
      for(int i = 0; i < m; ++i)
      {
         if(i) o << "|";
         for(int j = 0; j < n; ++j) o << (j ? "," : "") << num(A[i][j]);
      }
      return o.str();
   }
   static std::vector<std::string> splitc(const std::string& s, char sep)
   {
      std::vector<std::string> v;
      std::string cur;
      for(char ch : s) { if(ch == sep) { v.push_back(cur); cur.clear(); } else cur += ch; }
      v.push_back(cur);
      return v;
   }
   static TinyLP parse(const std::string& s)
   {
      TinyLP lp;
      std::map<std::string, std::string> kv;
      for(auto& f : splitc(s, ';'))
      {
         size_t e = f.find('=');
         if(e != std::string::npos) kv[f.substr(0, e)] = f.substr(e + 1);
      }
      lp.resize(atoi(kv["n"].c_str()), atoi(kv["m"].c_str()));
      lp.maximize = kv["max"] == "1";
      lp.offset = parse_num(kv["off"]);
      auto vec = [&](const char* k, std::vector<double>& v)
      {
         if(v.empty()) return;
         auto p = splitc(kv[k], ',');
         for(size_t i = 0; i < v.size() && i < p.size(); ++i) v[i] = parse_num(p[i]);
      };
      vec("c", lp.c); vec("lo", lp.lo); vec("up", lp.up); vec("lhs", lp.lhs); vec("rhs", lp.rhs);
      if(lp.m > 0 && lp.n > 0)
      {
         auto rows = splitc(kv["A"], '|');
         for(int i = 0; i < lp.m && i < (int)rows.size(); ++i)
         {
            auto p = splitc(rows[i], ',');
            for(int j = 0; j < lp.n && j < (int)p.size(); ++j) lp.A[i][j] = parse_num(p[j]);
         }
      }
      return lp;
   }
   std::string json() const
   {
      std::ostringstream o;
      o << "{\"sense\":\"" << (maximize ? "max" : "min") << "\",\"offset\":" << num(offset) << ",\"cols\":[";
      for(int j = 0; j < n; ++j)
         o << (j ? "," : "") << "{\"obj\":" << num(c[j]) << ",\"lo\":\"" << num(lo[j]) << "\",\"up\":\"" << num(up[j]) << "\"}";
      o << "],\"rows\":[";
      for(int i = 0; i < m; ++i)
      {
         o << (i ? "," : "") << "{\"lhs\":\"" << num(lhs[i]) << "\",\"a\":[";
         for(int j = 0; j < n; ++j) o << (j ? "," : "") << num(A[i][j]);
         o << "],\"rhs\":\"" << num(rhs[i]) << "\"}";
      }
      o << "]}";
      return o.str();
   }
   int nnz() const
   {
      int k = 0;
      for(auto& r : A) for(double v : r) if(v != 0) ++k;
      return k;
   }
};

// A product family with fixed (n, m)
struct Family
{
   int n, m;
   std::vector<double> Avals, cvals;
   std::vector<int> colMenu, rowMenu;     // indices into COLB / ROWS
   std::vector<double> offsets = {3};
   int maxnnz = 1000;
   // digit layout: A (m*n) | c (n) | colb (n) | rows (m) | sense (1) | offset (1)
   uint64_t size() const
   {
      uint64_t s = 1;
      for(int k = 0; k < m * n; ++k) s *= Avals.size();
      for(int k = 0; k < n; ++k) s *= cvals.size() * colMenu.size();
      for(int k = 0; k < m; ++k) s *= rowMenu.size();
      return s * 2 * offsets.size();
   }
   // decode raw index into digit arrays
   struct Digits { int a[9]; int c[3], cb[3], rs[3]; int sense, off; };
   void digits(uint64_t idx, Digits& d) const
   {
      for(int k = 0; k < m * n; ++k) { d.a[k] = idx % Avals.size(); idx /= Avals.size(); }
      for(int k = 0; k < n; ++k) { d.c[k] = idx % cvals.size(); idx /= cvals.size(); }
      for(int k = 0; k < n; ++k) { d.cb[k] = idx % colMenu.size(); idx /= colMenu.size(); }
      for(int k = 0; k < m; ++k) { d.rs[k] = idx % rowMenu.size(); idx /= rowMenu.size(); }
      d.sense = idx % 2; idx /= 2;
      d.off = idx % offsets.size();
   }
   // canonical iff no row/column permutation yields a lexicographically smaller digit string
   bool canonical(const Digits& d) const
   {
      int rp[3] = {0, 1, 2}, key0[24], key1[24];
      int len = 0;
      auto build = [&](const int* rperm, const int* cperm, int* key)
      {
         int l = 0;
         for(int i = 0; i < m; ++i) for(int j = 0; j < n; ++j) key[l++] = d.a[rperm[i] * n + cperm[j]];
         for(int j = 0; j < n; ++j) key[l++] = d.c[cperm[j]];
         for(int j = 0; j < n; ++j) key[l++] = d.cb[cperm[j]];
         for(int i = 0; i < m; ++i) key[l++] = d.rs[rperm[i]];
         return l;
      };
      int id[3] = {0, 1, 2};
      len = build(id, id, key0);
      std::sort(rp, rp + m);
      do
      {
         int cp[3] = {0, 1, 2};
         do
         {
            build(rp, cp, key1);
            if(std::lexicographical_compare(key1, key1 + len, key0, key0 + len)) return false;
         }
         while(std::next_permutation(cp, cp + n));
      }
      while(std::next_permutation(rp, rp + m));
      return true;
   }
   bool get(uint64_t idx, TinyLP& lp) const
   {
      Digits d;
      digits(idx, d);
      int nz = 0;
      for(int k = 0; k < m * n; ++k) if(Avals[d.a[k]] != 0) ++nz;
      if(nz > maxnnz) return false;
      if(!canonical(d)) return false;
      lp.resize(n, m);
      for(int i = 0; i < m; ++i) for(int j = 0; j < n; ++j) lp.A[i][j] = Avals[d.a[i * n + j]];
      for(int j = 0; j < n; ++j)
      {
         lp.c[j] = cvals[d.c[j]];
         lp.lo[j] = COLB[colMenu[d.cb[j]]].lo;
         lp.up[j] = COLB[colMenu[d.cb[j]]].up;
      }
      for(int i = 0; i < m; ++i) { lp.lhs[i] = ROWS[rowMenu[d.rs[i]]].lo; lp.rhs[i] = ROWS[rowMenu[d.rs[i]]].up; }
      lp.maximize = d.sense == 1;
      lp.offset = offsets[d.off];
      return true;
   }
};

// A union of families with a global index
struct FamilySet
{
   std::vector<Family> fams;
   std::vector<uint64_t> start;
   uint64_t total = 0;
   void add(const Family& f) { start.push_back(total); fams.push_back(f); total += f.size(); }
   bool get(uint64_t idx, TinyLP& lp) const
   {
      size_t k = fams.size() - 1;
      while(k > 0 && start[k] > idx) --k;
      return fams[k].get(idx - start[k], lp);
   }
   // materialise the canonical members (index list) with a stride: keeps every `stride`-th canonical LP
   std::vector<uint64_t> canonical_indices(uint64_t stride = 1) const
   {
      std::vector<uint64_t> v;
      TinyLP lp;
      uint64_t cnt = 0;
      for(uint64_t i = 0; i < total; ++i)
         if(get(i, lp)) { if(cnt % stride == 0) v.push_back(i); ++cnt; }
      return v;
   }
};

inline Family famQ()
{
   Family f;
   f.n = 2; f.m = 2;
   f.Avals = {-1, 0, 1};
   f.cvals = {-1, 0, 1};
   f.colMenu = {0, 1, 2, 3};
   f.rowMenu = {0, 1, 2, 3, 4};
   return f;
}
inline Family famT(int n, int m, std::vector<double> A, std::vector<double> c, std::vector<int> cb,
                   std::vector<int> rs, int maxnnz = 1000)
{
   Family f;
   f.n = n; f.m = m; f.Avals = A; f.cvals = c; f.colMenu = cb; f.rowMenu = rs; f.maxnnz = maxnnz;
   return f;
}

} // namespace vx
