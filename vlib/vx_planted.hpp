// Planted medium-size LPs: LPs of any dimension whose exact classification (and, for LPs with a finite optimum,
// the exact optimal value) is known BY CONSTRUCTION, so that the tiny-LP oracle (basis enumeration) is not needed:
//
//   kind OPT  a primal point x0 and a dual pair (y0, d0) are chosen first (small integers); bounds and sides are laid
//             around x0 / A x0 and the objective is set to c = A^T y0 + d0 with the sign pattern of (y0, d0) matching
//             which bounds / sides are tight at x0.  (x0, y0, d0) then satisfies the KKT conditions exactly, hence the LP
//             has the finite optimum c x0 + offset.  x0 need not be a vertex, and zero multipliers on tight constraints
//             make the LP primal and/or dual degenerate.
//   kind INF  as OPT, then a Farkas vector y is planted: the bounds / sides it needs are made finite and one side is
//             moved until  max{y^T s : lhs<=s<=rhs} < min{y^T A x : lo<=x<=up}:  the LP is infeasible.
//   kind COV  covering LP  min c x, A x >= b, x >= 0  with A >= 0, c >= 0 (or its maximisation mirror) and a planted KKT triple as for OPT: the slack
//             basis is dual feasible, so the dual simplex runs without phase 1 and its objective value moves monotonically towards the optimum
//             (the situation in which objective limits are tested).
//   kind UNB  as OPT, then a ray r is planted: bounds / sides in its way are removed and one cost is moved until c r
//             improves strictly: the LP is feasible (x0) and unbounded.
//
// A member is addressed by (kind, n, m, density%, degenerate, maximize, seed); all data come from an integer LCG (no
// library RNG), so a member is reproducible from its tuple.  The family used by a check is the COMPLETE product of a
// stated grid of tuples - nothing is drawn at run time.
#pragma once
#include "vx_family.hpp"

namespace vx
{
struct PlantedSpec
{
   int kind = 0;       // 0 OPT, 1 INF, 2 UNB, 3 COV (covering LP with finite optimum)
   int n = 0, m = 0;
   int density = 40;   // percent of nonzeros
   int degenerate = 0; // 1: many tight constraints with zero multipliers
   int maximize = 0;
   int seed = 0;
   int magnitude = 0;  // 1: rows and columns are rescaled by powers of two 2^-8..2^8 (equivalent LP, same optimum; gives the scalers real work)
   std::string str() const
   {
      char b[112];
      if(magnitude) snprintf(b, sizeof b, "P:%d:%d:%d:%d:%d:%d:%d:%d", kind, n, m, density, degenerate, maximize, seed, magnitude);
      else snprintf(b, sizeof b, "P:%d:%d:%d:%d:%d:%d:%d", kind, n, m, density, degenerate, maximize, seed);
      return b;
   }
   static bool parse(const std::string& s, PlantedSpec& p)
   {
      p.magnitude = 0;
      return sscanf(s.c_str(), "P:%d:%d:%d:%d:%d:%d:%d:%d", &p.kind, &p.n, &p.m, &p.density, &p.degenerate, &p.maximize, &p.seed, &p.magnitude) >= 7;
   }
   const char* kindName() const { return kind == 0 ? "OPT" : kind == 1 ? "INF" : kind == 2 ? "UNB" : "COV"; }
};

struct PlantedLP
{
   PlantedSpec spec;
   TinyLP lp;
   std::vector<double> x0;    // planted primal point (feasible for OPT and UNB)
   Classification cl;         // exact by construction (optimal / regular lists stay empty)
};

struct Lcg
{
   uint64_t s;
   explicit Lcg(uint64_t seed) : s(seed * 0x9E3779B97F4A7C15ULL + 0x2545F4914F6CDD1DULL) { next(); next(); }
   uint32_t next() { s = s * 6364136223846793005ULL + 1442695040888963407ULL; return (uint32_t)(s >> 33); }
   int upto(int k) { return (int)(next() % (uint32_t)k); }          // 0..k-1
   int range(int a, int b) { return a + upto(b - a + 1); }          // a..b
   bool pct(int p) { return upto(100) < p; }
};

inline PlantedLP planted(const PlantedSpec& sp)
{
   PlantedLP P;
   P.spec = sp;
   int n = sp.n, m = sp.m;
   Lcg g((uint64_t)sp.seed * 1000003ULL + (uint64_t)(sp.kind * 7 + sp.n * 131 + sp.m * 17 + sp.density * 3 + sp.degenerate * 5 + sp.maximize));
   TinyLP& lp = P.lp;
   lp.resize(n, m);
   lp.maximize = sp.maximize != 0;
   lp.offset = 3;
   if(sp.kind == 3)
   {
      // covering LP
      for(int i = 0; i < m; ++i) for(int j = 0; j < n; ++j) if(g.pct(sp.density)) lp.A[i][j] = g.range(1, 3);
      for(int i = 0; i < m && n > 0; ++i) { bool any = false; for(int j = 0; j < n; ++j) any = any || lp.A[i][j] != 0; if(!any) lp.A[i][g.upto(n)] = g.range(1, 2); }
      std::vector<double>& x0 = P.x0;
      x0.assign(n, 0);
      int zeroPct = sp.degenerate ? 50 : 15;
      std::vector<double> d0(n, 0), y0(m, 0), c(n, 0);
      for(int j = 0; j < n; ++j)
      {
         lp.lo[j] = 0; lp.up[j] = INF;
         if(g.pct(45)) { x0[j] = 0; d0[j] = g.pct(zeroPct) ? 0 : g.range(1, 3); }
         else x0[j] = g.range(1, 3);
      }
      for(int i = 0; i < m; ++i)
      {
         double act = 0;
         for(int j = 0; j < n; ++j) act += lp.A[i][j] * x0[j];
         lp.rhs[i] = INF;
         if(g.pct(sp.degenerate ? 75 : 50)) { lp.lhs[i] = act; y0[i] = g.pct(zeroPct) ? 0 : g.range(1, 3); }
         else lp.lhs[i] = act - g.range(1, 4);
      }
      for(int j = 0; j < n; ++j) { c[j] = d0[j]; for(int i = 0; i < m; ++i) c[j] += lp.A[i][j] * y0[i]; }
      for(int j = 0; j < n; ++j) lp.c[j] = lp.maximize ? -c[j] : c[j];
      P.cl.feasible = P.cl.dualfeasible = P.cl.hasopt = true;
      Q v = q_of_double(lp.offset);
      for(int j = 0; j < n; ++j) v += q_of_double(lp.c[j]) * q_of_double(x0[j]);
      P.cl.opt = v;
      return P;
   }
   // matrix
   for(int i = 0; i < m; ++i)
      for(int j = 0; j < n; ++j)
         if(g.pct(sp.density)) { int v = g.range(1, 3); lp.A[i][j] = g.pct(50) ? v : -v; }
   // make sure no column is empty in the matrix unless the LCG says so deliberately (10 %)
   for(int j = 0; j < n && m > 0; ++j)
   {
      bool any = false;
      for(int i = 0; i < m; ++i) any = any || lp.A[i][j] != 0;
      if(!any && !g.pct(10)) lp.A[g.upto(m)][j] = g.pct(50) ? 1 : -2;
   }
   std::vector<double>& x0 = P.x0;
   x0.assign(n, 0);
   std::vector<double> d0(n, 0), y0(m, 0), act(m, 0);
   int tightPct = sp.degenerate ? 75 : 45;     // share of tight constraints
   int zeroPct = sp.degenerate ? 50 : 15;      // share of tight constraints with zero multiplier
   auto mult = [&]() { return g.pct(zeroPct) ? 0 : g.range(1, 3); };
   for(int j = 0; j < n; ++j)
   {
      x0[j] = g.range(-2, 3);
      int k = g.range(1, 4);
      if(g.pct(tightPct))
      {
         int shape = g.upto(5);
         switch(shape)
         {
         case 0: lp.lo[j] = x0[j]; lp.up[j] = INF; d0[j] = mult(); break;
         case 1: lp.lo[j] = x0[j]; lp.up[j] = x0[j] + k; d0[j] = mult(); break;
         case 2: lp.lo[j] = -INF; lp.up[j] = x0[j]; d0[j] = -mult(); break;
         case 3: lp.lo[j] = x0[j] - k; lp.up[j] = x0[j]; d0[j] = -mult(); break;
         default: lp.lo[j] = lp.up[j] = x0[j]; d0[j] = g.range(-2, 2); break;
         }
      }
      else
      {
         int shape = g.upto(4);
         switch(shape)
         {
         case 0: lp.lo[j] = x0[j] - k; lp.up[j] = INF; break;
         case 1: lp.lo[j] = -INF; lp.up[j] = x0[j] + k; break;
         case 2: lp.lo[j] = x0[j] - k; lp.up[j] = x0[j] + g.range(1, 4); break;
         default: lp.lo[j] = -INF; lp.up[j] = INF; break;
         }
      }
   }
   for(int i = 0; i < m; ++i)
   {
      for(int j = 0; j < n; ++j) act[i] += lp.A[i][j] * x0[j];
      int k = g.range(1, 4);
      if(g.pct(tightPct))
      {
         int shape = g.upto(5);
         switch(shape)
         {
         case 0: lp.lhs[i] = act[i]; lp.rhs[i] = INF; y0[i] = mult(); break;
         case 1: lp.lhs[i] = act[i]; lp.rhs[i] = act[i] + k; y0[i] = mult(); break;
         case 2: lp.lhs[i] = -INF; lp.rhs[i] = act[i]; y0[i] = -mult(); break;
         case 3: lp.lhs[i] = act[i] - k; lp.rhs[i] = act[i]; y0[i] = -mult(); break;
         default: lp.lhs[i] = lp.rhs[i] = act[i]; y0[i] = g.range(-2, 2); break;
         }
      }
      else
      {
         int shape = g.upto(4);
         switch(shape)
         {
         case 0: lp.lhs[i] = act[i] - k; lp.rhs[i] = INF; break;
         case 1: lp.lhs[i] = -INF; lp.rhs[i] = act[i] + k; break;
         case 2: lp.lhs[i] = act[i] - k; lp.rhs[i] = act[i] + g.range(1, 4); break;
         default: lp.lhs[i] = -INF; lp.rhs[i] = INF; break;
         }
      }
   }
   // objective in minimisation form: c = A^T y0 + d0
   std::vector<double> c(n, 0);
   for(int j = 0; j < n; ++j)
   {
      c[j] = d0[j];
      for(int i = 0; i < m; ++i) c[j] += lp.A[i][j] * y0[i];
   }
   Classification& cl = P.cl;
   if(sp.kind == 0)
   {
      cl.feasible = cl.dualfeasible = cl.hasopt = true;
   }
   else if(sp.kind == 1)
   {
      // plant a Farkas vector on 1..3 rows (needs m >= 1)
      int ns = std::min(m, g.range(1, 3));
      std::vector<double> y(m, 0);
      int k0 = g.upto(m);
      y[k0] = 1;
      for(int t = 1; t < ns; ++t) { int i = g.upto(m); if(i != k0) y[i] = g.pct(50) ? g.range(1, 2) : -g.range(1, 2); }
      std::vector<double> tcol(n, 0);
      for(int j = 0; j < n; ++j) for(int i = 0; i < m; ++i) tcol[j] += y[i] * lp.A[i][j];
      double minx = 0, maxs = 0;
      for(int j = 0; j < n; ++j)
      {
         if(tcol[j] > 0) { if(lp.lo[j] <= -INF) lp.lo[j] = x0[j] - 2; minx += tcol[j] * lp.lo[j]; }
         else if(tcol[j] < 0) { if(lp.up[j] >= INF) lp.up[j] = x0[j] + 2; minx += tcol[j] * lp.up[j]; }
      }
      for(int i = 0; i < m; ++i)
      {
         if(y[i] > 0) { if(lp.rhs[i] >= INF) lp.rhs[i] = act[i] + 1; maxs += y[i] * lp.rhs[i]; }
         else if(y[i] < 0) { if(lp.lhs[i] <= -INF) lp.lhs[i] = act[i] - 1; maxs += y[i] * lp.lhs[i]; }
      }
      // move rhs of row k0 (multiplier 1) until maxs = minx - gap
      double gap = g.range(1, 2);
      lp.rhs[k0] -= (maxs - minx + gap);
      if(lp.lhs[k0] > lp.rhs[k0]) lp.lhs[k0] = g.pct(50) ? -INF : lp.rhs[k0] - g.range(0, 2);
      cl.feasible = false; cl.hasopt = false; cl.dualfeasible = true;   // dual feasibility unknown and irrelevant for the rules
   }
   else
   {
      // plant a ray on 1..3 columns (needs n >= 1)
      std::vector<double> r(n, 0);
      int j0 = g.upto(n);
      r[j0] = g.pct(50) ? 1 : -1;
      int nr = std::min(n, g.range(1, 3));
      for(int t = 1; t < nr; ++t) { int j = g.upto(n); if(j != j0) r[j] = g.pct(50) ? g.range(1, 2) : -g.range(1, 2); }
      for(int j = 0; j < n; ++j)
      {
         if(r[j] > 0) lp.up[j] = INF;
         else if(r[j] < 0) lp.lo[j] = -INF;
      }
      for(int i = 0; i < m; ++i)
      {
         double w = 0;
         for(int j = 0; j < n; ++j) w += lp.A[i][j] * r[j];
         if(w > 0) lp.rhs[i] = INF;
         else if(w < 0) lp.lhs[i] = -INF;
      }
      double cr = 0;
      for(int j = 0; j < n; ++j) cr += c[j] * r[j];
      c[j0] -= r[j0] * (cr + g.range(1, 2));      // now c r = -(1..2) < 0 in minimisation form
      cl.feasible = true; cl.hasopt = false; cl.dualfeasible = false;
   }
   for(int j = 0; j < n; ++j) lp.c[j] = lp.maximize ? -c[j] : c[j];
   if(sp.kind == 0)
   {
      Q v = q_of_double(lp.offset);
      for(int j = 0; j < n; ++j) v += q_of_double(lp.c[j]) * q_of_double(x0[j]);
      cl.opt = v;
   }
   if(sp.magnitude)
   {
      // equivalent LP: row i multiplied by 2^e_i (sides included), column j substituted x_j = 2^f_j x'_j (coefficients and cost times 2^f_j,
      // bounds and x0 divided by it); all numbers stay exactly representable, feasible set / verdict / optimal value are unchanged
      Lcg g2((uint64_t)sp.seed * 31337ULL + sp.n * 7 + sp.m);
      for(int i = 0; i < m; ++i)
      {
         double r = ldexp(1.0, g2.range(-8, 8));
         for(int j = 0; j < n; ++j) lp.A[i][j] *= r;
         if(lp.lhs[i] > -INF) lp.lhs[i] *= r;
         if(lp.rhs[i] < INF) lp.rhs[i] *= r;
      }
      for(int j = 0; j < n; ++j)
      {
         double f = ldexp(1.0, g2.range(-8, 8));
         for(int i = 0; i < m; ++i) lp.A[i][j] *= f;
         lp.c[j] *= f;
         if(lp.lo[j] > -INF) lp.lo[j] /= f;
         if(lp.up[j] < INF) lp.up[j] /= f;
         x0[j] /= f;
      }
   }
   return P;
}

// exact self-check of a planted LP (used by the self-test and, cheaply, on every generated member):
// OPT / UNB: x0 is feasible; OPT: value of x0 equals cl.opt.  Returns "" if consistent.
inline std::string planted_selfcheck(const PlantedLP& P)
{
   XLP x = P.lp.exact();
   if(P.spec.kind == 1) return "";     // (kinds 0, 2, 3: x0 is feasible)
   for(int j = 0; j < x.n; ++j)
   {
      Q v = q_of_double(P.x0[j]);
      if(x.lo[j].fin() && v < x.lo[j].v) return "x0 below lower";
      if(x.up[j].fin() && v > x.up[j].v) return "x0 above upper";
   }
   for(int i = 0; i < x.m; ++i)
   {
      Q a = 0;
      for(int j = 0; j < x.n; ++j) a += x.A[i][j] * q_of_double(P.x0[j]);
      if(x.lhs[i].fin() && a < x.lhs[i].v) return "x0 below lhs";
      if(x.rhs[i].fin() && a > x.rhs[i].v) return "x0 above rhs";
   }
   return "";
}

// the grid of a tier: complete product  sizes x densities x degenerate x sense x kind x seeds
struct PlantedGrid
{
   std::vector<std::pair<int, int>> sizes;
   std::vector<int> densities;
   int seeds = 1;
   int magnitudes = 1;      // 2: every member also in its power-of-two rescaled form
   int kinds = 3;           // 4: also the covering LPs (kind COV)
   uint64_t size() const { return (uint64_t)sizes.size() * densities.size() * 2 * 2 * kinds * seeds * magnitudes; }
   PlantedSpec at(uint64_t idx) const
   {
      PlantedSpec p;
      p.magnitude = idx % magnitudes; idx /= magnitudes;
      p.kind = idx % kinds; idx /= kinds;
      p.maximize = idx % 2; idx /= 2;
      p.degenerate = idx % 2; idx /= 2;
      p.density = densities[idx % densities.size()]; idx /= densities.size();
      auto sz = sizes[idx % sizes.size()]; idx /= sizes.size();
      p.n = sz.first; p.m = sz.second;
      p.seed = (int)idx;
      return p;
   }
};

} // namespace vx
