// Independent exact LP oracle over GMP rationals (mpq_class used directly,
// not SoPlex's Rational).  LP form:  opt c x + offset,  lhs <= A x <= rhs,
// lo <= x <= up.  Decision procedure: enumeration of *all* basic solutions of
//   A x - s = 0,  lo <= x <= up,  lhs <= s <= rhs
// (every choice of m basic variables with nonsingular basis matrix, times every
// placement of the nonbasic variables), solved by exact Gaussian elimination.
#pragma once
#include <gmpxx.h>
#include <vector>
#include <string>
#include <sstream>
#include <cmath>
#include <cstdint>
#include <algorithm>
#include <array>

namespace vx
{
typedef mpq_class Q;

// extended rational: inf = -1 (-infinity), 0 (finite, value v), +1 (+infinity)
struct Ext
{
   int inf = 0;
   Q v = 0;
   Ext() {}
   Ext(const Q& q) : inf(0), v(q) {}
   static Ext minf() { Ext e; e.inf = -1; return e; }
   static Ext pinf() { Ext e; e.inf = 1; return e; }
   bool fin() const { return inf == 0; }
   bool operator==(const Ext& o) const { return inf == o.inf && (inf != 0 || v == o.v); }
   bool operator!=(const Ext& o) const { return !(*this == o); }
   std::string str() const { return inf < 0 ? "-inf" : inf > 0 ? "inf" : v.get_str(); }
};

// exact value of a double (doubles with |x| >= 1e100 are SoPlex's infinity)
inline Q q_of_double(double d)
{
   Q q;
   mpq_set_d(q.get_mpq_t(), d);
   return q;
}
inline Ext ext_of_double(double d, double infty = 1e100)
{
   if(d >= infty) return Ext::pinf();
   if(d <= -infty) return Ext::minf();
   return Ext(q_of_double(d));
}
inline double double_of_ext(const Ext& e, double infty = 1e100)
{
   if(e.inf > 0) return infty;
   if(e.inf < 0) return -infty;
   return e.v.get_d();
}

enum VStat { V_ON_UPPER = 0, V_ON_LOWER = 1, V_FIXED = 2, V_ZERO = 3, V_BASIC = 4 };   // == SoPlex VarStatus codes

struct XLP
{
   int n = 0, m = 0;
   bool maximize = false;
   Q offset = 0;
   std::vector<Q> c;
   std::vector<Ext> lo, up;
   std::vector<std::vector<Q>> A;   // m x n
   std::vector<Ext> lhs, rhs;

   void resize(int n_, int m_)
   {
      n = n_; m = m_;
      c.assign(n, Q(0)); lo.assign(n, Ext(Q(0))); up.assign(n, Ext::pinf());
      A.assign(m, std::vector<Q>(n, Q(0)));
      lhs.assign(m, Ext::minf()); rhs.assign(m, Ext::pinf());
   }
   // bound of variable k in the (x, s) numbering
   const Ext& vlo(int k) const { return k < n ? lo[k] : lhs[k - n]; }
   const Ext& vup(int k) const { return k < n ? up[k] : rhs[k - n]; }
   Q vcost(int k) const { return k < n ? c[k] : Q(0); }
   // column k of [A | -I]
   Q col(int i, int k) const { return k < n ? A[i][k] : (k - n == i ? Q(-1) : Q(0)); }

   std::string str() const
   {
      std::ostringstream o;
      o << (maximize ? "max" : "min") << " off=" << offset.get_str() << " c=[";
      for(int j = 0; j < n; ++j) o << (j ? "," : "") << c[j].get_str();
      o << "] cols=[";
      for(int j = 0; j < n; ++j) o << (j ? "," : "") << lo[j].str() << ".." << up[j].str();
      o << "] rows=[";
      for(int i = 0; i < m; ++i)
      {
         o << (i ? "; " : "") << lhs[i].str() << "<=";
         for(int j = 0; j < n; ++j) o << (j ? " " : "") << A[i][j].get_str();
         o << "<=" << rhs[i].str();
      }
      o << "]";
      return o.str();
   }
};

// exact dense linear algebra --------------------------------------------------
// solves M z = b for square M (k x k); returns false if singular
inline bool qsolve(std::vector<std::vector<Q>> M, std::vector<Q> b, std::vector<Q>& z)
{
   int k = (int)M.size();
   for(int col = 0; col < k; ++col)
   {
      int piv = -1;
      for(int r = col; r < k; ++r) if(M[r][col] != 0) { piv = r; break; }
      if(piv < 0) return false;
      std::swap(M[piv], M[col]);
      std::swap(b[piv], b[col]);
      Q inv = 1 / M[col][col];
      for(int r = 0; r < k; ++r)
      {
         if(r == col || M[r][col] == 0) continue;
         Q f = M[r][col] * inv;
         for(int cc = col; cc < k; ++cc) M[r][cc] -= f * M[col][cc];
         b[r] -= f * b[col];
      }
   }
   z.resize(k);
   for(int i = 0; i < k; ++i) z[i] = b[i] / M[i][i];
   return true;
}
inline Q qdet(std::vector<std::vector<Q>> M)
{
   int k = (int)M.size();
   Q det = 1;
   for(int col = 0; col < k; ++col)
   {
      int piv = -1;
      for(int r = col; r < k; ++r) if(M[r][col] != 0) { piv = r; break; }
      if(piv < 0) return Q(0);
      if(piv != col) { std::swap(M[piv], M[col]); det = -det; }
      det *= M[col][col];
      Q inv = 1 / M[col][col];
      for(int r = col + 1; r < k; ++r)
      {
         if(M[r][col] == 0) continue;
         Q f = M[r][col] * inv;
         for(int cc = col; cc < k; ++cc) M[r][cc] -= f * M[col][cc];
      }
   }
   return det;
}
// exact inverse; false if singular
inline bool qinverse(const std::vector<std::vector<Q>>& M, std::vector<std::vector<Q>>& Inv)
{
   int k = (int)M.size();
   Inv.assign(k, std::vector<Q>(k));
   for(int e = 0; e < k; ++e)
   {
      std::vector<Q> b(k, Q(0)), z;
      b[e] = 1;
      if(!qsolve(M, b, z)) return false;
      for(int i = 0; i < k; ++i) Inv[i][e] = z[i];
   }
   return true;
}

struct BasicSol
{
   std::vector<int> basic;      // m variable indices (0..n-1 structural, n+i slack of row i)
   std::vector<int> stat;       // n+m VStat codes
   std::vector<Q> x, s, y, d;   // primal, activities, duals (row), reduced costs (col)
   bool pfeas = false, dfeas = false;
   Q obj;
};

struct Classification
{
   bool feasible = false;        // primal feasible
   bool dualfeasible = false;    // dual feasible
   bool hasopt = false;          // finite optimum
   Q opt;                        // optimal value incl. offset
   long nbases = 0;              // regular bases
   long nsolutions = 0;          // basic solutions enumerated
   std::vector<BasicSol> optimal;    // all optimal basic solutions (if requested)
   std::vector<std::vector<int>> regular;   // all regular bases (if requested)
   bool unbounded() const { return feasible && !hasopt; }
   const char* name() const { return hasopt ? "OPT" : feasible ? "UNB" : dualfeasible ? "INF" : "INFUNB"; }
};

// placement options of a nonbasic variable
inline void nb_options(const Ext& lo, const Ext& up, int opts[2], int& nopts)
{
   nopts = 0;
   if(lo.fin() && up.fin())
   {
      if(lo.v == up.v) opts[nopts++] = V_FIXED;
      else { opts[nopts++] = V_ON_LOWER; opts[nopts++] = V_ON_UPPER; }
   }
   else if(lo.fin()) opts[nopts++] = V_ON_LOWER;
   else if(up.fin()) opts[nopts++] = V_ON_UPPER;
   else opts[nopts++] = V_ZERO;
}

inline bool lp_bounds_consistent(const XLP& lp)
{
   for(int k = 0; k < lp.n + lp.m; ++k)
      if(lp.vlo(k).fin() && lp.vup(k).fin() && lp.vlo(k).v > lp.vup(k).v) return false;
   return true;
}

// Complete the basic solution of basis `basic` with nonbasic placement stat[] (nonbasic entries set).
inline bool basic_solution(const XLP& lp, const std::vector<int>& basic, BasicSol& bs)
{
   int n = lp.n, m = lp.m, N = n + m;
   std::vector<std::vector<Q>> B(m, std::vector<Q>(m));
   for(int i = 0; i < m; ++i) for(int k = 0; k < m; ++k) B[i][k] = lp.col(i, basic[k]);
   std::vector<Q> val(N, Q(0));
   std::vector<bool> isb(N, false);
   for(int k : basic) isb[k] = true;
   for(int k = 0; k < N; ++k)
   {
      if(isb[k]) continue;
      switch(bs.stat[k])
      {
      case V_ON_LOWER: case V_FIXED: val[k] = lp.vlo(k).v; break;
      case V_ON_UPPER: val[k] = lp.vup(k).v; break;
      default: val[k] = 0;
      }
   }
   std::vector<Q> rhs(m, Q(0)), z;
   for(int i = 0; i < m; ++i)
      for(int k = 0; k < N; ++k) if(!isb[k] && val[k] != 0) rhs[i] -= lp.col(i, k) * val[k];
   if(m > 0 && !qsolve(B, rhs, z)) return false;
   for(int k = 0; k < m; ++k) val[basic[k]] = z[k];
   bs.basic = basic;
   for(int k : basic) bs.stat[k] = V_BASIC;
   bs.x.assign(val.begin(), val.begin() + n);
   bs.s.assign(val.begin() + n, val.end());
   // duals: B^T y = c_B
   std::vector<std::vector<Q>> BT(m, std::vector<Q>(m));
   for(int i = 0; i < m; ++i) for(int k = 0; k < m; ++k) BT[k][i] = B[i][k];
   std::vector<Q> cb(m);
   for(int k = 0; k < m; ++k) cb[k] = lp.vcost(basic[k]);
   bs.y.assign(m, Q(0));
   if(m > 0) qsolve(BT, cb, bs.y);
   bs.d.assign(n, Q(0));
   for(int j = 0; j < n; ++j)
   {
      Q t = lp.c[j];
      for(int i = 0; i < m; ++i) t -= bs.y[i] * lp.A[i][j];
      bs.d[j] = t;
   }
   bs.pfeas = true;
   for(int k = 0; k < N; ++k)
   {
      if(lp.vlo(k).fin() && val[k] < lp.vlo(k).v) bs.pfeas = false;
      if(lp.vup(k).fin() && val[k] > lp.vup(k).v) bs.pfeas = false;
   }
   bs.dfeas = true;
   int sg = lp.maximize ? -1 : 1;
   for(int k = 0; k < N; ++k)
   {
      if(isb[k]) continue;
      Q dk = (k < n) ? bs.d[k] : bs.y[k - n];
      int s = sgn(dk) * sg;   // for minimisation: >0 needs lower, <0 needs upper
      switch(bs.stat[k])
      {
      case V_ON_LOWER: if(s < 0) bs.dfeas = false; break;
      case V_ON_UPPER: if(s > 0) bs.dfeas = false; break;
      case V_ZERO: if(s != 0) bs.dfeas = false; break;
      default: break;   // FIXED: any sign
      }
   }
   bs.obj = lp.offset;
   for(int j = 0; j < n; ++j) bs.obj += lp.c[j] * bs.x[j];
   return true;
}

inline void next_comb(std::vector<int>& c, int N, bool& more)
{
   int m = (int)c.size();
   int i = m - 1;
   while(i >= 0 && c[i] == N - m + i) --i;
   if(i < 0) { more = false; return; }
   ++c[i];
   for(int k = i + 1; k < m; ++k) c[k] = c[k - 1] + 1;
}

inline Classification classify(const XLP& lp, bool wantOptimal = false, bool wantRegular = false)
{
   Classification cl;
   int n = lp.n, m = lp.m, N = n + m;
   if(!lp_bounds_consistent(lp))
   {
      // an lo > up pair: primal infeasible; dual feasibility still by enumeration below (bounds irrelevant)
   }
   std::vector<int> comb(m);
   for(int i = 0; i < m; ++i) comb[i] = i;
   bool more = true;
   bool boundsOk = lp_bounds_consistent(lp);
   while(more)
   {
      std::vector<std::vector<Q>> B(m, std::vector<Q>(m));
      for(int i = 0; i < m; ++i) for(int k = 0; k < m; ++k) B[i][k] = lp.col(i, comb[k]);
      if(m == 0 || qdet(B) != 0)
      {
         cl.nbases++;
         if(wantRegular) cl.regular.push_back(comb);
         // nonbasic placements
         std::vector<int> nb;
         std::vector<bool> isb(N, false);
         for(int k : comb) isb[k] = true;
         for(int k = 0; k < N; ++k) if(!isb[k]) nb.push_back(k);
         std::vector<int> nopt(nb.size());
         std::vector<std::array<int, 2>> opts(nb.size());
         long total = 1;
         for(size_t t = 0; t < nb.size(); ++t)
         {
            int o[2], no;
            nb_options(lp.vlo(nb[t]), lp.vup(nb[t]), o, no);
            opts[t] = {o[0], no > 1 ? o[1] : o[0]};
            nopt[t] = no;
            total *= no;
         }
         for(long pidx = 0; pidx < total; ++pidx)
         {
            BasicSol bs;
            bs.stat.assign(N, V_BASIC);
            long r = pidx;
            for(size_t t = 0; t < nb.size(); ++t) { bs.stat[nb[t]] = opts[t][r % nopt[t]]; r /= nopt[t]; }
            if(!basic_solution(lp, comb, bs)) continue;
            cl.nsolutions++;
            if(!boundsOk) bs.pfeas = false;
            if(bs.pfeas) cl.feasible = true;
            if(bs.dfeas) cl.dualfeasible = true;
            if(bs.pfeas && bs.dfeas)
            {
               if(!cl.hasopt) { cl.hasopt = true; cl.opt = bs.obj; }
               if(wantOptimal) cl.optimal.push_back(bs);
            }
         }
      }
      if(m == 0) break;
      next_comb(comb, N, more);
   }
   return cl;
}

// ---------------------------------------------------------------------------
// Second, independent decision procedure: Fourier-Motzkin elimination.
// Used only by the oracle self-test to cross-examine classify().
// ---------------------------------------------------------------------------
struct Ineq { std::vector<Q> a; Q b; };    // a . z <= b

inline void fm_eliminate(std::vector<Ineq>& sys, int var)
{
   std::vector<Ineq> pos, neg, zero;
   for(auto& q : sys)
   {
      int s = sgn(q.a[var]);
      (s > 0 ? pos : s < 0 ? neg : zero).push_back(q);
   }
   for(auto& p : pos)
      for(auto& q : neg)
      {
         Ineq r;
         Q fp = 1 / p.a[var], fq = -1 / q.a[var];
         r.a.resize(p.a.size());
         for(size_t k = 0; k < p.a.size(); ++k) r.a[k] = p.a[k] * fp + q.a[k] * fq;
         r.a[var] = 0;
         r.b = p.b * fp + q.b * fq;
         zero.push_back(r);
      }
   sys.swap(zero);
}
// returns: feasible?; and the range of t = c x + offset over the feasible set
inline void fm_solve(const XLP& lp, bool& feasible, Ext& tmin, Ext& tmax)
{
   int n = lp.n, m = lp.m;
   // variables z = (x_0..x_{n-1}, t); constraints
   std::vector<Ineq> sys;
   auto add = [&](const std::vector<Q>& a, const Q& b) { Ineq q; q.a = a; q.b = b; sys.push_back(q); };
   for(int j = 0; j < n; ++j)
   {
      std::vector<Q> a(n + 1, Q(0));
      if(lp.up[j].fin()) { a[j] = 1; add(a, lp.up[j].v); }
      if(lp.lo[j].fin()) { a[j] = -1; add(a, -lp.lo[j].v); }
   }
   for(int i = 0; i < m; ++i)
   {
      std::vector<Q> a(n + 1, Q(0));
      if(lp.rhs[i].fin()) { for(int j = 0; j < n; ++j) a[j] = lp.A[i][j]; add(a, lp.rhs[i].v); }
      if(lp.lhs[i].fin()) { for(int j = 0; j < n; ++j) a[j] = -lp.A[i][j]; add(a, -lp.lhs[i].v); }
   }
   {
      // t - c x = offset
      std::vector<Q> a(n + 1, Q(0));
      for(int j = 0; j < n; ++j) a[j] = -lp.c[j];
      a[n] = 1;
      add(a, lp.offset);
      for(auto& q : a) q = -q;
      add(a, -lp.offset);
   }
   for(int j = 0; j < n; ++j) fm_eliminate(sys, j);
   feasible = true;
   tmin = Ext::minf();
   tmax = Ext::pinf();
   for(auto& q : sys)
   {
      int s = sgn(q.a[n]);
      if(s == 0) { if(q.b < 0) feasible = false; }
      else
      {
         Q v = q.b / q.a[n];
         if(s > 0) { if(!tmax.fin() || v < tmax.v) tmax = Ext(v); }
         else { if(!tmin.fin() || v > tmin.v) tmin = Ext(v); }
      }
   }
   if(tmin.fin() && tmax.fin() && tmin.v > tmax.v) feasible = false;
}

} // namespace vx
