// SoPlex-side helpers shared by the harnesses: configuration enumerator
// (deviation-bounded and full product), loading a TinyLP / XLP through the public
// API, fetching results, and the exact certificate checks of C01/C02.
#pragma once
#include "soplex.h"
#include "vx_family.hpp"
#include "vx_runner.hpp"

namespace vx
{
using namespace soplex;

// ---------------------------------------------------------------------------
// configuration space
// ---------------------------------------------------------------------------
struct ParamDim
{
   const char* name;
   bool isBool;
   int id;
   std::vector<int> values;
   int def;     // index of the default value in `values`
};

struct ConfigSpace
{
   std::vector<ParamDim> dims;

   void addInt(const char* name, SoPlex::IntParam p, std::vector<int> vals)
   {
      int d = SoPlex::Settings::intParam.defaultValue[p];
      auto it = std::find(vals.begin(), vals.end(), d);
      if(it == vals.end()) { vals.insert(vals.begin(), d); it = vals.begin(); }
      int di = int(it - vals.begin());
      dims.push_back({name, false, (int)p, vals, di});
   }
   void addBool(const char* name, SoPlex::BoolParam p)
   {
      bool d = SoPlex::Settings::boolParam.defaultValue[p];
      dims.push_back({name, true, (int)p, {0, 1}, d ? 1 : 0});
   }
   static ConfigSpace algorithmic()
   {
      ConfigSpace s;
      s.addInt("representation", SoPlex::REPRESENTATION, {0, 1, 2});
      s.addInt("algorithm", SoPlex::ALGORITHM, {0, 1});
      s.addInt("factor_update_type", SoPlex::FACTOR_UPDATE_TYPE, {0, 1});
      s.addInt("factor_update_max", SoPlex::FACTOR_UPDATE_MAX, {0, 1});
      s.addInt("simplifier", SoPlex::SIMPLIFIER, {0, 1});
      s.addInt("scaler", SoPlex::SCALER, {0, 1, 2, 3, 4, 5, 6});
      s.addInt("starter", SoPlex::STARTER, {0, 1, 2, 3});
      s.addInt("pricer", SoPlex::PRICER, {0, 1, 2, 3, 4, 5});
      s.addInt("ratiotester", SoPlex::RATIOTESTER, {0, 1, 2, 3});
      s.addInt("hyperpricing", SoPlex::HYPER_PRICING, {0, 1, 2});
      s.addInt("solution_polishing", SoPlex::SOLUTION_POLISHING, {0, 1, 2});
      s.addBool("rowboundflips", SoPlex::ROWBOUNDFLIPS);
      s.addBool("persistentscaling", SoPlex::PERSISTENTSCALING);
      s.addBool("fullperturbation", SoPlex::FULLPERTURBATION);
      s.addBool("ensureray", SoPlex::ENSURERAY);
      return s;
   }
   typedef std::vector<int> Cfg;    // value index per dimension
   Cfg defaults() const
   {
      Cfg c(dims.size());
      for(size_t i = 0; i < dims.size(); ++i) c[i] = dims[i].def;
      return c;
   }
   // all vectors with at most k deviations from the default, default first, singles next
   std::vector<Cfg> upto(int k) const
   {
      std::vector<Cfg> out;
      out.push_back(defaults());
      if(k >= 1)
         for(size_t i = 0; i < dims.size(); ++i)
            for(size_t v = 0; v < dims[i].values.size(); ++v)
               if((int)v != dims[i].def) { Cfg c = defaults(); c[i] = (int)v; out.push_back(c); }
      if(k >= 2)
         for(size_t i = 0; i < dims.size(); ++i)
            for(size_t j = i + 1; j < dims.size(); ++j)
               for(size_t v = 0; v < dims[i].values.size(); ++v)
                  for(size_t w = 0; w < dims[j].values.size(); ++w)
                     if((int)v != dims[i].def && (int)w != dims[j].def)
                     {
                        Cfg c = defaults(); c[i] = (int)v; c[j] = (int)w; out.push_back(c);
                     }
      return out;
   }
   uint64_t productSize() const
   {
      uint64_t s = 1;
      for(auto& d : dims) s *= d.values.size();
      return s;
   }
   Cfg fromProductIndex(uint64_t idx) const
   {
      Cfg c(dims.size());
      for(size_t i = 0; i < dims.size(); ++i) { c[i] = idx % dims[i].values.size(); idx /= dims[i].values.size(); }
      return c;
   }
   void apply(SoPlex& spx, const Cfg& c) const
   {
      for(size_t i = 0; i < dims.size(); ++i)
      {
         if(c[i] == dims[i].def || dims[i].id < 0) continue;
         if(dims[i].isBool) spx.setBoolParam((SoPlex::BoolParam)dims[i].id, dims[i].values[c[i]] != 0);
         else spx.setIntParam((SoPlex::IntParam)dims[i].id, dims[i].values[c[i]]);
      }
   }
   // "name=value,name=value" of the deviations only ("default" if none)
   std::string str(const Cfg& c) const
   {
      std::string s;
      for(size_t i = 0; i < dims.size(); ++i)
         if(c[i] != dims[i].def)
            s += (s.empty() ? "" : ",") + std::string(dims[i].name) + "=" + std::to_string(dims[i].values[c[i]]);
      return s.empty() ? "default" : s;
   }
   Cfg parse(const std::string& s) const
   {
      Cfg c = defaults();
      if(s == "default" || s.empty()) return c;
      for(auto& f : split(s, ','))
      {
         size_t e = f.find('=');
         if(e == std::string::npos) continue;
         std::string k = f.substr(0, e);
         int v = atoi(f.c_str() + e + 1);
         for(size_t i = 0; i < dims.size(); ++i)
            if(k == dims[i].name)
               for(size_t w = 0; w < dims[i].values.size(); ++w) if(dims[i].values[w] == v) c[i] = (int)w;
      }
      return c;
   }
   int value(const Cfg& c, const char* name) const
   {
      for(size_t i = 0; i < dims.size(); ++i) if(std::string(name) == dims[i].name) return dims[i].values[c[i]];
      return -1;
   }
};

// ---------------------------------------------------------------------------
// loading / reading back
// ---------------------------------------------------------------------------
inline void quiet(SoPlex& spx)
{
   spx.setIntParam(SoPlex::VERBOSITY, SoPlex::VERBOSITY_ERROR);
   spx.spxout.setVerbosity(SPxOut::ERROR);
}

// columns first (empty), then rows -- or rows first / column-wise, to reach both storage paths
inline void load_real(SoPlex& spx, const TinyLP& lp, int mode = 0)
{
   spx.setIntParam(SoPlex::OBJSENSE, lp.maximize ? SoPlex::OBJSENSE_MAXIMIZE : SoPlex::OBJSENSE_MINIMIZE);
   spx.setRealParam(SoPlex::OBJ_OFFSET, lp.offset);
   if(mode == 0)
   {
      DSVector empty(0);
      for(int j = 0; j < lp.n; ++j) spx.addColReal(LPCol(lp.c[j], empty, lp.up[j], lp.lo[j]));
      for(int i = 0; i < lp.m; ++i)
      {
         DSVector row(lp.n);
         for(int j = 0; j < lp.n; ++j) if(lp.A[i][j] != 0) row.add(j, lp.A[i][j]);
         spx.addRowReal(LPRow(lp.lhs[i], row, lp.rhs[i]));
      }
   }
   else
   {
      DSVector empty(0);
      for(int i = 0; i < lp.m; ++i) spx.addRowReal(LPRow(lp.lhs[i], empty, lp.rhs[i]));
      for(int j = 0; j < lp.n; ++j)
      {
         DSVector col(lp.m);
         for(int i = 0; i < lp.m; ++i) if(lp.A[i][j] != 0) col.add(i, lp.A[i][j]);
         spx.addColReal(LPCol(lp.c[j], col, lp.up[j], lp.lo[j]));
      }
   }
}

struct RealResult
{
   int status = 0;
   double obj = 0;
   bool hasPrimal = false, hasDual = false, hasRay = false, hasFarkas = false, hasBasis = false;
   std::vector<double> x, s, y, d, ray, farkas;
   std::vector<int> rstat, cstat;
   int iters = 0;
};

inline void fetch(SoPlex& spx, RealResult& r)
{
   int n = spx.numCols(), m = spx.numRows();
   r.status = (int)spx.status();
   r.iters = spx.numIterations();
   r.obj = spx.objValueReal();
   VectorReal v(n), w(m);
   r.hasPrimal = spx.getPrimal(v);
   r.x.assign(v.get_const_ptr(), v.get_const_ptr() + n);
   bool hs = spx.getSlacksReal(w);
   r.s.assign(w.get_const_ptr(), w.get_const_ptr() + m);
   r.hasPrimal = r.hasPrimal && hs;
   r.hasDual = spx.getDual(w);
   r.y.assign(w.get_const_ptr(), w.get_const_ptr() + m);
   bool hd = spx.getRedCost(v);
   r.d.assign(v.get_const_ptr(), v.get_const_ptr() + n);
   r.hasDual = r.hasDual && hd;
   r.hasRay = spx.hasPrimalRay();
   if(r.hasRay)
   {
      spx.getPrimalRay(v);
      r.ray.assign(v.get_const_ptr(), v.get_const_ptr() + n);
   }
   r.hasFarkas = spx.hasDualFarkas();
   if(r.hasFarkas)
   {
      spx.getDualFarkas(w);
      r.farkas.assign(w.get_const_ptr(), w.get_const_ptr() + m);
   }
   r.hasBasis = spx.hasBasis();
   r.rstat.assign(m, -1);
   r.cstat.assign(n, -1);
   if(r.hasBasis && (n + m) > 0)
   {
      std::vector<SPxSolver::VarStatus> rs(m + 1), cs(n + 1);
      spx.getBasis(rs.data(), cs.data());
      for(int i = 0; i < m; ++i) r.rstat[i] = (int)rs[i];
      for(int j = 0; j < n; ++j) r.cstat[j] = (int)cs[j];
   }
}

inline uint64_t digest(const RealResult& r)
{
   uint64_t h = fnv(&r.status, sizeof(int));
   h = fnv(&r.iters, sizeof(int), h);
   h = fnv(&r.obj, sizeof(double), h);
   auto vec = [&](const std::vector<double>& v) { if(!v.empty()) h = fnv(v.data(), v.size() * sizeof(double), h); };
   vec(r.x); vec(r.s); vec(r.y); vec(r.d); vec(r.ray); vec(r.farkas);
   if(!r.rstat.empty()) h = fnv(r.rstat.data(), r.rstat.size() * sizeof(int), h);
   if(!r.cstat.empty()) h = fnv(r.cstat.data(), r.cstat.size() * sizeof(int), h);
   return h;
}

inline std::string vecstr(const std::vector<double>& v)
{
   std::string s = "[";
   for(size_t i = 0; i < v.size(); ++i) s += (i ? "," : "") + TinyLP::num(v[i]);
   return s + "]";
}
inline std::string ivecstr(const std::vector<int>& v)
{
   std::string s = "[";
   for(size_t i = 0; i < v.size(); ++i) s += (i ? "," : "") + std::to_string(v[i]);
   return s + "]";
}

// ---------------------------------------------------------------------------
// exact certificate checks against the LP *as entered by the harness*
// ---------------------------------------------------------------------------
inline Q qabs(const Q& a) { return a < 0 ? Q(-a) : a; }

// returns "" if OK, else the name of the first failed rule (+ detail in `why`)
inline std::string check_optimal_certificate(const XLP& lp, const RealResult& r, const Classification& cl,
      double feastol, double opttol, std::string& why)
{
   int n = lp.n, m = lp.m;
   Q ft = q_of_double(feastol), ot = q_of_double(opttol);
   if(!r.hasPrimal) { why = "no primal solution with OPTIMAL"; return "optimal-without-primal"; }
   if(!r.hasDual) { why = "no dual solution with OPTIMAL"; return "optimal-without-dual"; }
   for(double v : r.x) if(!std::isfinite(v)) { why = "non-finite primal"; return "nonfinite-solution"; }
   for(double v : r.s) if(!std::isfinite(v)) { why = "non-finite slack"; return "nonfinite-solution"; }
   for(double v : r.y) if(!std::isfinite(v)) { why = "non-finite dual"; return "nonfinite-solution"; }
   for(double v : r.d) if(!std::isfinite(v)) { why = "non-finite redcost"; return "nonfinite-solution"; }
   std::vector<Q> x(n), s(m), y(m), d(n);
   for(int j = 0; j < n; ++j) { x[j] = q_of_double(r.x[j]); d[j] = q_of_double(r.d[j]); }
   for(int i = 0; i < m; ++i) { s[i] = q_of_double(r.s[i]); y[i] = q_of_double(r.y[i]); }
   // bounds
   for(int j = 0; j < n; ++j)
   {
      if(lp.lo[j].fin() && x[j] < lp.lo[j].v - ft) { why = "x" + std::to_string(j) + " below lower"; return "primal-bound-violated"; }
      if(lp.up[j].fin() && x[j] > lp.up[j].v + ft) { why = "x" + std::to_string(j) + " above upper"; return "primal-bound-violated"; }
   }
   // sides, on the slack and on the true activity
   for(int i = 0; i < m; ++i)
   {
      Q act = 0;
      for(int j = 0; j < n; ++j) act += lp.A[i][j] * x[j];
      if(qabs(act - s[i]) > ot) { why = "slack " + std::to_string(i) + " != activity"; return "slack-not-activity"; }
      if(lp.lhs[i].fin() && act < lp.lhs[i].v - ft) { why = "row " + std::to_string(i) + " below lhs"; return "row-side-violated"; }
      if(lp.rhs[i].fin() && act > lp.rhs[i].v + ft) { why = "row " + std::to_string(i) + " above rhs"; return "row-side-violated"; }
   }
   // stationarity d = c - A^T y
   for(int j = 0; j < n; ++j)
   {
      Q t = lp.c[j];
      for(int i = 0; i < m; ++i) t -= y[i] * lp.A[i][j];
      if(qabs(t - d[j]) > ot) { why = "redcost " + std::to_string(j) + " != c - A^T y"; return "stationarity-violated"; }
   }
   // dual signs in bound-finiteness form: (min) d_j < 0 needs a finite upper bound, d_j > 0 a finite lower
   int sg = lp.maximize ? -1 : 1;
   for(int j = 0; j < n; ++j)
   {
      Q v = d[j] * sg;
      if(v < -ot && !lp.up[j].fin()) { why = "redcost sign of col " + std::to_string(j) + " needs finite upper"; return "redcost-sign"; }
      if(v > ot && !lp.lo[j].fin()) { why = "redcost sign of col " + std::to_string(j) + " needs finite lower"; return "redcost-sign"; }
      // complementary slackness within tolerance: a significantly nonzero reduced cost needs x at that bound
      if(v > ot && lp.lo[j].fin() && qabs(x[j] - lp.lo[j].v) > ft && !(lp.up[j].fin() && lp.up[j].v == lp.lo[j].v))
         if(v * qabs(x[j] - lp.lo[j].v) > Q(1, 1000)) { why = "col " + std::to_string(j) + " has positive redcost away from lower"; return "complementarity"; }
      if(v < -ot && lp.up[j].fin() && qabs(x[j] - lp.up[j].v) > ft)
         if(-v * qabs(x[j] - lp.up[j].v) > Q(1, 1000)) { why = "col " + std::to_string(j) + " has negative redcost away from upper"; return "complementarity"; }
   }
   for(int i = 0; i < m; ++i)
   {
      Q v = y[i] * sg;
      if(v < -ot && !lp.rhs[i].fin()) { why = "dual sign of row " + std::to_string(i) + " needs finite rhs"; return "dual-sign"; }
      if(v > ot && !lp.lhs[i].fin()) { why = "dual sign of row " + std::to_string(i) + " needs finite lhs"; return "dual-sign"; }
      if(v > ot && lp.lhs[i].fin() && qabs(s[i] - lp.lhs[i].v) > ft)
         if(v * qabs(s[i] - lp.lhs[i].v) > Q(1, 1000)) { why = "row " + std::to_string(i) + " has positive dual away from lhs"; return "complementarity"; }
      if(v < -ot && lp.rhs[i].fin() && qabs(s[i] - lp.rhs[i].v) > ft)
         if(-v * qabs(s[i] - lp.rhs[i].v) > Q(1, 1000)) { why = "row " + std::to_string(i) + " has negative dual away from rhs"; return "complementarity"; }
   }
   // objective
   Q cx = lp.offset;
   for(int j = 0; j < n; ++j) cx += lp.c[j] * x[j];
   if(!std::isfinite(r.obj)) { why = "objective not finite"; return "objective-mismatch"; }
   Q ob = q_of_double(r.obj);
   if(qabs(ob - cx) > Q(1, 1000000000) * (1 + qabs(cx))) { why = "objValue != c x + offset: " + TinyLP::num(r.obj) + " vs " + TinyLP::num(cx.get_d()); return "objective-mismatch"; }
   if(!cl.hasopt) { why = "OPTIMAL but LP has no finite optimum (" + std::string(cl.name()) + ")"; return "optimal-on-lp-without-optimum"; }
   if(qabs(ob - cl.opt) > Q(1, 1000000) * (1 + qabs(cl.opt))) { why = "objective " + TinyLP::num(r.obj) + " != true optimum " + cl.opt.get_str(); return "objective-not-optimal"; }
   return "";
}

// Farkas: {y^T A x : lo<=x<=up} and {y^T s : lhs<=s<=rhs} must be disjoint with positive gap
inline std::string check_farkas(const XLP& lp, const std::vector<double>& yf, std::string& why)
{
   int n = lp.n, m = lp.m;
   double mx = 0;
   for(double v : yf) { if(!std::isfinite(v)) { why = "non-finite Farkas entry"; return "farkas-invalid"; } mx = std::max(mx, fabs(v)); }
   if(mx == 0) { why = "zero Farkas vector"; return "farkas-invalid"; }
   std::vector<Q> y(m);
   for(int i = 0; i < m; ++i) y[i] = (fabs(yf[i]) < 1e-9 * mx) ? Q(0) : q_of_double(yf[i]);
   // interval of y^T s
   Ext slo(Q(0)), sup(Q(0));
   auto addrange = [](Ext & lo, Ext & up, const Q & coef, const Ext & l, const Ext & u)
   {
      if(coef == 0) return;
      const Ext& a = coef > 0 ? l : u;   // gives the minimum
      const Ext& b = coef > 0 ? u : l;   // gives the maximum
      if(lo.fin()) { if(a.fin()) lo.v += coef * a.v; else lo = Ext::minf(); }
      if(up.fin()) { if(b.fin()) up.v += coef * b.v; else up = Ext::pinf(); }
   };
   for(int i = 0; i < m; ++i) addrange(slo, sup, y[i], lp.lhs[i], lp.rhs[i]);
   Ext xlo(Q(0)), xup(Q(0));
   // coefficients tiny relative to the vector are noise of the floating-point solve
   for(int j = 0; j < n; ++j)
   {
      Q t = 0;
      for(int i = 0; i < m; ++i) t += y[i] * lp.A[i][j];
      if(qabs(t) < q_of_double(1e-9 * mx)) t = 0;
      addrange(xlo, xup, t, lp.lo[j], lp.up[j]);
   }
   // disjoint with positive gap: sup < xlo or xup < slo
   Q margin = q_of_double(1e-9 * mx);
   bool sep1 = sup.fin() && xlo.fin() && (xlo.v - sup.v > margin);
   bool sep2 = xup.fin() && slo.fin() && (slo.v - xup.v > margin);
   if(!(sep1 || sep2))
   {
      why = "y^T A x in [" + xlo.str() + "," + xup.str() + "], y^T s in [" + slo.str() + "," + sup.str() + "] not separated";
      return "farkas-invalid";
   }
   return "";
}

inline std::string check_ray(const XLP& lp, const std::vector<double>& rf, std::string& why)
{
   int n = lp.n, m = lp.m;
   double mx = 0;
   for(double v : rf) { if(!std::isfinite(v)) { why = "non-finite ray entry"; return "ray-invalid"; } mx = std::max(mx, fabs(v)); }
   if(mx == 0) { why = "zero ray"; return "ray-invalid"; }
   std::vector<Q> r(n);
   Q eps = q_of_double(1e-9 * mx);
   for(int j = 0; j < n; ++j) r[j] = (fabs(rf[j]) < 1e-9 * mx) ? Q(0) : q_of_double(rf[j]);
   for(int j = 0; j < n; ++j)
   {
      if(lp.lo[j].fin() && r[j] < 0) { why = "ray decreases col " + std::to_string(j) + " with finite lower"; return "ray-invalid"; }
      if(lp.up[j].fin() && r[j] > 0) { why = "ray increases col " + std::to_string(j) + " with finite upper"; return "ray-invalid"; }
   }
   for(int i = 0; i < m; ++i)
   {
      Q t = 0;
      for(int j = 0; j < n; ++j) t += lp.A[i][j] * r[j];
      if(qabs(t) < eps) t = 0;
      if(lp.lhs[i].fin() && t < 0) { why = "ray decreases row " + std::to_string(i) + " with finite lhs"; return "ray-invalid"; }
      if(lp.rhs[i].fin() && t > 0) { why = "ray increases row " + std::to_string(i) + " with finite rhs"; return "ray-invalid"; }
   }
   Q cr = 0;
   for(int j = 0; j < n; ++j) cr += lp.c[j] * r[j];
   if(lp.maximize ? !(cr > eps) : !(cr < -eps)) { why = "ray does not improve objective: c.r=" + cr.get_str(); return "ray-invalid"; }
   return "";
}

} // namespace vx
