// C06: all operation sequences up to depth d over the real-interface modification entry points,
// from several initial states and parameter vectors, against a dense reference model; final
// re-optimisation judged by the exact oracle on the *model* LP.
#include "vx_history.hpp"
#include "vx_planted.hpp"
#include <unordered_map>
using namespace vx;

static ConfigSpace g_cs;
static std::vector<ConfigSpace::Cfg> g_cfgs;

struct Init { const char* name; int kind; };
static const Init INITS[] =
{
   {"empty", 0}, {"loaded", 1}, {"solved", 2}, {"solved-infeasible", 3}, {"basis-set-unsolved", 4}, {"aborted-iter0", 5}, {"solved-3x2", 6},
   // medium-size planted LPs (vx_planted.hpp), solved: 10 columns x 8 rows (column representation under the default) and 8 columns x 12 rows, degenerate, maximisation
   // (row representation under the default); the final re-optimisation is then judged against freshly built objects holding the final LP (the statement's own oracle)
   {"solved-planted-10x8", 7}, {"solved-planted-8x12", 8}
};
static const int NINIT = 9;

static const char* BASE = "n=2;m=2;max=1;off=3;c=1,2;lo=0,0;up=4,inf;lhs=-inf,-1;rhs=4,2;A=8,1|0.5,-2";
static const char* BASE_INF = "n=2;m=2;max=0;off=3;c=1,1;lo=0,0;up=inf,inf;lhs=-inf,2;rhs=1,inf;A=1,1|1,1";
static const char* BASE32 = "n=3;m=2;max=0;off=0;c=1,-1,2;lo=0,-1,0;up=inf,2,3;lhs=1,-inf;rhs=inf,16;A=1,1,0|4,0,16";

// builds the initial state in spx / mo
static void make_init(SoPlex& spx, Model& mo, int kind, const ConfigSpace::Cfg& cfg)
{
   quiet(spx);
   g_cs.apply(spx, cfg);
   mo = Model();
   if(kind == 0) return;
   if(kind == 7 || kind == 8)
   {
      PlantedSpec sp;
      PlantedSpec::parse(kind == 7 ? "P:0:10:8:40:0:0:0" : "P:3:8:12:40:1:1:0", sp);
      PlantedLP P = planted(sp);
      load_real(spx, P.lp, 0);
      mo = Model::from(P.lp);
      spx.optimize();
      return;
   }
   TinyLP lp = TinyLP::parse(kind == 3 ? BASE_INF : kind == 6 ? BASE32 : BASE);
   load_real(spx, lp, 0);
   mo = Model::from(lp);
   switch(kind)
   {
   case 2: case 3: case 6: spx.optimize(); break;
   case 4:
   {
      std::vector<SPxSolver::VarStatus> rs(mo.m(), SPxSolver::BASIC), cs(mo.n(), SPxSolver::ON_LOWER);
      spx.setBasis(rs.data(), cs.data());
      break;
   }
   case 5:
      spx.setIntParam(SoPlex::ITERLIMIT, 0);
      spx.optimize();
      spx.setIntParam(SoPlex::ITERLIMIT, -1);
      break;
   }
}

struct Seq
{
   int init = 0;
   int cfg = 0;
   std::vector<Op> ops;
   std::string str() const
   {
      std::string s = "init=" + std::to_string(init) + ";cfg=" + g_cs.str(g_cfgs[cfg]) + ";ops=";
      for(size_t k = 0; k < ops.size(); ++k) s += (k ? "/" : "") + ops[k].str();
      return s;
   }
   std::string pretty() const
   {
      std::string s = std::string("from '") + INITS[init].name + "' under " + g_cs.str(g_cfgs[cfg]) + ": ";
      for(size_t k = 0; k < ops.size(); ++k) s += (k ? " ; " : "") + ops[k].pretty();
      return s;
   }
};

static std::unordered_map<std::string, Classification> g_clcache;
static const Classification& classify_cached(const TinyLP& t)
{
   std::string key = t.str();
   auto it = g_clcache.find(key);
   if(it != g_clcache.end()) return it->second;
   if(g_clcache.size() > 200000) g_clcache.clear();
   return g_clcache[key] = classify(t.exact());
}

static std::string sig_of(const std::string& rule, const Seq& s)
{
   std::string sg = rule + ":" + OPNAME[s.ops.back().kind] + "@" + INITS[s.init].name + "|" + g_cs.str(g_cfgs[s.cfg]) + "|";
   for(size_t k = 0; k + 1 < s.ops.size(); ++k) sg += (k ? ">" : "") + std::string(OPNAME[s.ops[k].kind]);
   return sg;
}

// executes the sequence on a fresh object; checks after the LAST operation (every prefix is a sequence of its own).
// returns the model reached (for enumerating the next level) through `out`.
static uint64_t run_seq(const Seq& s, Ctx& c, Model* out, bool finalSolve)
{
   SoPlex spx;
   Model mo;
   make_init(spx, mo, s.init, g_cfgs[s.cfg]);
   uint64_t h = 17;
   Model before;
   bool hadNonbasicFreeRow = false;      // some state of the history had a basis with a nonbasic free row (status ZERO): necessary condition of a known defect family
   auto noteFreeRow = [&]()
   {
      if(!spx.hasBasis() || spx.numRows() != mo.m() || spx.numCols() != mo.n()) return;
      std::vector<SPxSolver::VarStatus> rs(mo.m() + 1), cs(mo.n() + 1);
      spx.getBasis(rs.data(), cs.data());
      for(int i = 0; i < mo.m(); ++i) if(rs[i] == SPxSolver::ZERO) hadNonbasicFreeRow = true;
   };
   for(size_t k = 0; k < s.ops.size(); ++k)
   {
      noteFreeRow();
      bool last = (k + 1 == s.ops.size());
      if(last) before = mo;
      std::vector<Model> alts;
      std::string err;
      try
      {
         err = apply_op(spx, mo, s.ops[k], &alts);
      }
      catch(const SPxException& e)
      {
         c.violation(sig_of("exception", s), s.str(), std::string(e.what()) + " | " + s.pretty());
         if(out) *out = mo;
         return h;
      }
      if(!err.empty()) { c.violation(sig_of("bad-perm-witness", s), s.str(), err + " | " + s.pretty()); }
      if(!alts.empty())
      {
         // single removal: either documented-free renumbering is accepted, but everything must agree with one of them
         if(!compare_real(spx, mo).empty() && compare_real(spx, alts[0]).empty()) { mo = alts[0]; c.count("single_removal_renumbering.compaction"); }
         else c.count("single_removal_renumbering.swap_last");
      }
   }
   if(out) *out = mo;
   c.count("sequences");
   c.count(std::string("lastop.") + OPNAME[s.ops.back().kind]);
   // (1) accessors
   std::string d = compare_real(spx, mo);
   if(!d.empty()) { c.violation(sig_of("accessor-mismatch", s), s.str(), d + " | " + s.pretty()); return h * 31 + 1; }
   // (2) stale solution
   const Op& lastop = s.ops.back();
   if(is_modification(lastop.kind))
   {
      bool changed = before.tiny().str() != mo.tiny().str();
      if(changed)
      {
         c.count("modifying_sequences");
         if(spx.hasSol() || (int)spx.status() != 0)
            c.violation(sig_of("stale-solution-after-modification", s), s.str(),
                        "hasSol=" + std::to_string(spx.hasSol()) + " status=" + std::to_string((int)spx.status()) + " | " + s.pretty());
      }
   }
   // (3) basis validity for the modified LP
   if(spx.hasBasis())
   {
      c.count("states_with_basis");
      std::string b = basis_valid(spx, mo);
      if(!b.empty()) c.violation(sig_of("invalid-basis", s), s.str(), b + " | " + s.pretty());
   }
   // canonical state digest (for the evidence: distinct states reached)
   {
      std::string st = mo.tiny().str() + "|b" + std::to_string(spx.hasBasis()) + "|s" + std::to_string((int)spx.status());
      c.state(std::to_string(fnv_str(st)));
   }
   // (4) re-optimise and compare with the exact optimum of the model LP
   if(finalSolve && mo.n() > 0)
   {
      const bool medium = mo.n() + mo.m() > 8;      // no basis enumeration: reference = two freshly built objects holding the final LP
      static Classification noClass;
      const Classification& cl = medium ? noClass : classify_cached(mo.tiny());
      int st = 0;
      // warm-start condition that is part of the signature: a nonbasic free row / column in the basis the re-solve starts from
      std::string tag;
      if(spx.hasBasis())
      {
         std::vector<SPxSolver::VarStatus> rs(mo.m() + 1), cs(mo.n() + 1);
         spx.getBasis(rs.data(), cs.data());
         for(int i = 0; i < mo.m(); ++i) if(rs[i] == SPxSolver::ZERO) tag = "+warmstart-with-nonbasic-free-row";
      }
      try
      {
         st = (int)spx.optimize();
      }
      catch(const SPxException& e)
      {
         c.violation(sig_of("exception-reoptimize", s) + tag, s.str(), std::string(e.what()) + " | " + s.pretty());
         return h;
      }
      c.count("reoptimisations");
      double obj = spx.objValueReal();
      h = h * 31 + st;
      std::string why;
      if(medium)
      {
         // "the same status and the same optimal value as a newly constructed solver that is given the final LP directly": one fresh object under the same parameter vector,
         // one without simplifier and scaler; if those two disagree with each other nothing is judged (that would be C01's business)
         TinyLP fin = mo.tiny();
         int rst[2]; double robj[2];
         for(int r = 0; r < 2; ++r)
         {
            SoPlex ref;
            quiet(ref);
            if(r == 0) g_cs.apply(ref, g_cfgs[s.cfg]);
            else { ref.setIntParam(SoPlex::SIMPLIFIER, SoPlex::SIMPLIFIER_OFF); ref.setIntParam(SoPlex::SCALER, SoPlex::SCALER_OFF); }
            load_real(ref, fin, 0);
            rst[r] = (int)ref.optimize();
            robj[r] = ref.objValueReal();
         }
         c.count("reoptimisations_judged_against_fresh_objects");
         bool refsAgree = (rst[0] == 1) == (rst[1] == 1) && (rst[0] != 1 || fabs(robj[0] - robj[1]) <= 1e-6 * (1 + fabs(robj[1])));
         if(!refsAgree) c.count("fresh_references_disagree");
         else if((st == 1) != (rst[1] == 1) && ((st >= 1 && st <= 3) || st < 0)) why = "re-optimisation returned status " + std::to_string(st) + ", freshly built objects holding the final LP return status " + std::to_string(rst[0]) + " / " + std::to_string(rst[1]);
         else if(st == 1 && fabs(obj - robj[1]) > 1e-6 * (1 + fabs(robj[1]))) why = "re-optimised objective " + TinyLP::num(obj) + ", freshly built objects holding the final LP: " + TinyLP::num(robj[1]);
      }
      else if(cl.hasopt)
      {
         if(st != 1) why = std::string("model LP has optimum ") + cl.opt.get_str() + " but re-optimisation returned status " + std::to_string(st);
         else if(fabs(obj - cl.opt.get_d()) > 1e-6 * (1 + fabs(cl.opt.get_d()))) why = "re-optimised objective " + TinyLP::num(obj) + " != optimum of the model LP " + cl.opt.get_str();
      }
      else
      {
         if(st == 1) why = std::string("OPTIMAL for a model LP without finite optimum (") + cl.name() + ")";
         else if(st == 3 && cl.feasible) why = "INFEASIBLE for a feasible model LP";
      }
      if(!why.empty())
         c.violation(sig_of("reoptimize-wrong", s) + tag, s.str(), why + (medium ? std::string("") : " | model=" + mo.tiny().str()) + " | " + s.pretty());
      // and the basis after the solve
      if(spx.hasBasis())
      {
         std::string b = basis_valid(spx, mo);
         if(!b.empty()) c.violation(sig_of("invalid-basis-after-reoptimize", s) + (hadNonbasicFreeRow ? "+history-had-nonbasic-free-row" : ""), s.str(), b + " | " + s.pretty());
      }
   }
   if(c.wantSample() && s.ops.size() >= 2 && (fnv_str(s.str()) % 997) == 0)
      c.sample("{\"sequence\":" + jstr(s.pretty()) + ",\"model_reached\":" + (mo.n() + mo.m() > 8 ? jstr(std::to_string(mo.n()) + " columns x " + std::to_string(mo.m()) + " rows") : mo.tiny().json()) + "}");
   return h;
}

static Seq parse_seq(const std::string& cs)
{
   Seq s;
   std::map<std::string, std::string> kv;
   // cfg strings contain ',' and '=' but no ';'
   for(auto& f : split(cs, ';')) { size_t e = f.find('='); if(e != std::string::npos) kv[f.substr(0, e)] = f.substr(e + 1); }
   s.init = atoi(kv["init"].c_str());
   ConfigSpace::Cfg want = g_cs.parse(kv["cfg"]);
   s.cfg = 0;
   for(size_t k = 0; k < g_cfgs.size(); ++k) if(g_cfgs[k] == want) s.cfg = (int)k;
   if(g_cfgs[s.cfg] != want) { g_cfgs.push_back(want); s.cfg = (int)g_cfgs.size() - 1; }
   if(!kv["ops"].empty()) for(auto& o : split(kv["ops"], '/')) s.ops.push_back(Op::parse(o));
   return s;
}

int main(int argc, char** argv)
{
   Args args = parse_args(argc, argv);
   args.prop = "C06";
   g_cs = ConfigSpace::algorithmic();
   bool thorough = args.tier == "thorough";
   // parameter vectors: default, simplifier off, row representation, every scaler x persistent scaling
   {
      auto d = g_cs.defaults();
      g_cfgs.push_back(d);
      g_cfgs.push_back(g_cs.parse("simplifier=0"));
      g_cfgs.push_back(g_cs.parse("representation=2"));
      g_cfgs.push_back(g_cs.parse("simplifier=0,scaler=0"));
      g_cfgs.push_back(g_cs.parse("simplifier=0,scaler=3"));
      g_cfgs.push_back(g_cs.parse("persistentscaling=0"));
      g_cfgs.push_back(g_cs.parse("simplifier=0,representation=2,scaler=4"));
      if(thorough)
         for(int sc = 0; sc <= 6; ++sc)
            for(int ps = 0; ps <= 1; ++ps)
            {
               auto c = g_cs.parse("scaler=" + std::to_string(sc) + ",persistentscaling=" + std::to_string(ps));
               if(std::find(g_cfgs.begin(), g_cfgs.end(), c) == g_cfgs.end()) g_cfgs.push_back(c);
            }
   }
   if(!args.replay.empty())
   {
      std::ifstream in(args.replay);
      std::string doc((std::istreambuf_iterator<char>(in)), std::istreambuf_iterator<char>());
      size_t p = doc.find("\"case\": \"");
      if(p == std::string::npos) { printf("REPLAY-ERROR no case\n"); return 2; }
      p += 9;
      Seq s = parse_seq(doc.substr(p, doc.find('"', p) - p));
      mallopt(M_PERTURB, 85);
      return replay_case([&](Ctx & c) { run_seq(s, c, nullptr, true); });
   }
   Report rep(args, "model_checking", thorough ? 3000 : 420);
   int depth = thorough ? 3 : 2;
   // one case = (cfg, init, first op); deeper levels are enumerated inside the case by re-execution from scratch
   struct First { int cfg, init; Op op; };
   std::vector<First> firsts;
   for(int cf = 0; cf < (int)g_cfgs.size(); ++cf)
      for(int in = 0; in < NINIT; ++in)
      {
         SoPlex spx;
         Model mo;
         make_init(spx, mo, in, g_cfgs[cf]);
         for(auto& op : alphabet(mo.n(), mo.m(), false)) firsts.push_back({cf, in, op});
      }
   RunOpts o = rep.opts();
   o.perturb = {85};
   o.watchdog_s = 120;
   auto fn = [&](uint64_t idx, int, Ctx & c) -> uint64_t
   {
      const First& f = firsts[idx];
      Seq s;
      s.cfg = f.cfg; s.init = f.init; s.ops = {f.op};
      Model m1;
      uint64_t h = run_seq(s, c, &m1, true);
      c.count("transitions");
      if(depth >= 2)
      {
         // depth 3 uses the reduced alphabet on levels 2 and 3 (the one that touches dimensions, basis bookkeeping and storage)
         for(auto& op2 : alphabet(m1.n(), m1.m(), depth >= 3))
         {
            Seq s2 = s;
            s2.ops.push_back(op2);
            Model m2;
            h = h * 31 + run_seq(s2, c, &m2, true);
            c.count("transitions");
            if(depth >= 3)
               for(auto& op3 : alphabet(m2.n(), m2.m(), true))
               {
                  if(op3.kind == OP_CHGELEM || op3.kind == OP_CHGRANGE || op3.kind == OP_CHGBOUNDS) continue;
                  Seq s3 = s2;
                  s3.ops.push_back(op3);
                  h = h * 31 + run_seq(s3, c, nullptr, (fnv_str(s3.str()) & 3) == 0);
                  c.count("transitions");
               }
         }
      }
      return h;
   };
   rep.phase("histories depth<=" + std::to_string(depth), firsts.size(), fn, [&](uint64_t idx, uint64_t)
   {
      Seq s;
      s.cfg = firsts[idx].cfg; s.init = firsts[idx].init; s.ops = {firsts[idx].op};
      return s.str();
   }, o, [&](uint64_t idx, uint64_t) { return std::string("@first-op=") + OPNAME[firsts[idx].op.kind] + "|" + INITS[firsts[idx].init].name + "|" + g_cs.str(g_cfgs[firsts[idx].cfg]); });

   rep.evaluations = rep.all.counters["sequences"];
   rep.rule = "a case is an operation sequence (initial state, parameter vector, op_1..op_k, k<=depth) over the instantiated alphabet of the "
              "real-interface modification entry points plus optimize/getBasis+setBasis/clearBasis; every sequence is executed on a fresh SoPlex "
              "object by replaying its prefix and compared with the dense reference model after its last operation; distinct_nontrivial counts "
              "the sequences whose last operation actually changed the model LP; states = distinct (model LP, hasBasis, status) digests reached";
   rep.assumptions = {"reference model: dense matrix + vectors in the harness; removal by perm array is renumbered by the returned perm (validated to be a bijection of the survivors); single removals may renumber by compaction or by moving the last element into the hole",
                      "exact oracle for the final re-optimisation (basis enumeration over GMP rationals)"
                     };
   rep.extra["depth"] = std::to_string(depth);
   rep.extra["parameter_vectors"] = std::to_string(g_cfgs.size());
   rep.extra["initial_states"] = std::to_string(NINIT);
   rep.extra["first_level_operations"] = std::to_string(firsts.size());
   rep.finish(rep.all.counters["modifying_sequences"], rep.all.states.size(), rep.all.counters["transitions"], rep.all.counters["sequences"]);
   return 0;
}
