// C07: the floating-point LP and the rational LP never drift apart.
// Histories over real-interface and rational-interface modification calls (Rational and mpq_t entry points), the two
// sync calls and sync-mode switches, against an exact reference model over mpq_class.  In automatic mode after every
// history: rational LP == model exactly, real LP == floating-point image of the model, dimensions / sense / offset equal,
// bound-type classification == classification of the rational bounds.
#include "vx_spx.hpp"
#include <mpfr.h>
using namespace vx;

static Rational to_spx(const Q& q) { return Rational(q.get_mpq_t()); }
static Q from_spx(const Rational& r) { Q q(r.backend().data()); q.canonicalize(); return q; }
static Q qq(long a, long b) { Q q(a, b); q.canonicalize(); return q; }

// neighbours of q in double: the image must be one of them (exact if representable)
static bool is_image(double d, const Q& q)
{
   if(!std::isfinite(d)) return false;
   Q e = q_of_double(d);
   if(e == q) return true;
   double lo = nextafter(d, -INFINITY), hi = nextafter(d, INFINITY);
   if(e < q) return q < q_of_double(hi);
   return q > q_of_double(lo);
}
static bool is_nearest(double d, const Q& q)
{
   mpfr_t x;
   mpfr_init2(x, 53);
   mpfr_set_emin(-1073);
   int t = mpfr_set_q(x, q.get_mpq_t(), MPFR_RNDN);
   mpfr_subnormalize(x, t, MPFR_RNDN);
   double n = mpfr_get_d(x, MPFR_RNDN);
   mpfr_clear(x);
   return n == d;
}

struct RModel
{
   bool maximize = true;
   Q offset = 0;
   std::vector<Q> c;
   std::vector<Ext> lo, up, lhs, rhs;
   std::vector<std::vector<Q>> A;
   int n() const { return (int)c.size(); }
   int m() const { return (int)lhs.size(); }
   void addRow(const Ext& l, const std::vector<Q>& a, const Ext& r) { lhs.push_back(l); rhs.push_back(r); std::vector<Q> row = a; row.resize(n(), Q(0)); A.push_back(row); }
   void addCol(const Q& obj, const Ext& l, const std::vector<Q>& a, const Ext& u)
   {
      c.push_back(obj); lo.push_back(l); up.push_back(u);
      for(int i = 0; i < m(); ++i) A[i].push_back(i < (int)a.size() ? a[i] : Q(0));
   }
   void rmRow(int i, bool swapLast) { int L = m() - 1; if(swapLast && i != L) { lhs[i] = lhs[L]; rhs[i] = rhs[L]; A[i] = A[L]; lhs.pop_back(); rhs.pop_back(); A.pop_back(); } else { lhs.erase(lhs.begin() + i); rhs.erase(rhs.begin() + i); A.erase(A.begin() + i); } }
   void rmCol(int j, bool swapLast)
   {
      int L = n() - 1;
      if(swapLast && j != L) { c[j] = c[L]; lo[j] = lo[L]; up[j] = up[L]; for(auto& r : A) r[j] = r[L]; c.pop_back(); lo.pop_back(); up.pop_back(); for(auto& r : A) r.pop_back(); }
      else { c.erase(c.begin() + j); lo.erase(lo.begin() + j); up.erase(up.begin() + j); for(auto& r : A) r.erase(r.begin() + j); }
   }
   std::string str() const
   {
      std::ostringstream o;
      o << (maximize ? "max" : "min") << " c=[";
      for(auto& v : c) o << v.get_str() << ",";
      o << "] cols=[";
      for(int j = 0; j < n(); ++j) o << lo[j].str() << ".." << up[j].str() << ",";
      o << "] rows=[";
      for(int i = 0; i < m(); ++i) { o << lhs[i].str() << "<="; for(auto& v : A[i]) o << v.get_str() << " "; o << "<=" << rhs[i].str() << ";"; }
      return o.str() + "]";
   }
};

// value menu: index -> extended rational
static Ext VAL(int k)
{
   Q denorm = 1; for(int i = 0; i < 320; ++i) denorm /= 10;
   Q big = 1; big <<= 60; big += 1;
   switch(k)
   {
   case 0: return Ext::minf();
   case 1: return Ext(Q(0));
   case 2: return Ext(qq(1, 3));
   case 3: return Ext(denorm);
   case 4: return Ext(big);
   case 5: return Ext::pinf();
   case 6: return Ext(Q(-1));
   case 7: return Ext(Q(2));
   default: return Ext(qq(-7, 5));
   }
}
static const char* VALNAME[] = {"-inf", "0", "1/3", "1e-320", "2^60+1", "inf", "-1", "2", "-7/5", "<internally stored (scaled) value>"};
static const int STORED = 9;   // dynamic value: what the floating-point LP currently stores internally for the addressed entity (collides with the 'unchanged' shortcuts)
static Rational spxval(const Ext& e, SoPlex& spx) { return e.inf > 0 ? spx._rationalPosInfty : e.inf < 0 ? spx._rationalNegInfty : to_spx(e.v); }
static double dval(const Ext& e) { return e.inf > 0 ? 1e100 : e.inf < 0 ? -1e100 : e.v.get_d(); }
// what a double argument becomes in the rational LP
static Ext ext_exact(double d) { return ext_of_double(d); }

enum K7
{
   R_ADDROW, R_ADDCOL, R_CHGLHS, R_CHGRHS, R_CHGRANGE, R_CHGLOWER, R_CHGUPPER, R_CHGBOUNDS, R_CHGOBJ, R_CHGELEM, R_RMROW, R_RMCOL, R_CHGROW, R_CHGCOL,
   R_CHGLHS_V, R_CHGUPPER_V, R_SENSE, R_CLEAR,
   Q_ADDROW, Q_ADDROW_MPQ, Q_ADDCOL, Q_ADDCOL_MPQ, Q_CHGLHS, Q_CHGLHS_MPQ, Q_CHGRHS, Q_CHGRHS_V, Q_CHGRHS_MPQARR, Q_CHGRANGE, Q_CHGRANGE_MPQ, Q_CHGLOWER, Q_CHGLOWER_MPQ,
   Q_CHGUPPER, Q_CHGUPPER_MPQ, Q_CHGBOUNDS, Q_CHGBOUNDS_MPQ, Q_CHGOBJ, Q_CHGOBJ_MPQ, Q_CHGELEM, Q_CHGELEM_MPQ, Q_RMROW, Q_RMCOL, Q_CHGROW, Q_CHGCOL, Q_RMROWS_PERM, Q_CLEAR, K7_COUNT
};
static const char* K7NAME[] =
{
   "addRowReal", "addColReal", "changeLhsReal", "changeRhsReal", "changeRangeReal", "changeLowerReal", "changeUpperReal", "changeBoundsReal", "changeObjReal", "changeElementReal",
   "removeRowReal", "removeColReal", "changeRowReal", "changeColReal", "changeLhsReal(vec)", "changeUpperReal(vec)", "setIntParam(OBJSENSE)", "clearLPReal",
   "addRowRational", "addRowRational(mpq)", "addColRational", "addColRational(mpq)", "changeLhsRational", "changeLhsRational(mpq)", "changeRhsRational", "changeRhsRational(vec)",
   "changeRhsRational(mpq[])", "changeRangeRational", "changeRangeRational(mpq)", "changeLowerRational", "changeLowerRational(mpq)", "changeUpperRational", "changeUpperRational(mpq)",
   "changeBoundsRational", "changeBoundsRational(mpq)", "changeObjRational", "changeObjRational(mpq)", "changeElementRational", "changeElementRational(mpq)", "removeRowRational",
   "removeColRational", "changeRowRational", "changeColRational", "removeRowsRational(perm)", "clearLPRational"
};
struct Op7 { int kind, i, j, a, b; };     // a, b index into VAL
static std::string op_str(const Op7& o) { return std::to_string(o.kind) + ":" + std::to_string(o.i) + ":" + std::to_string(o.j) + ":" + std::to_string(o.a) + ":" + std::to_string(o.b); }
// name of an operation inside a violation signature: the array entry points with an index behind the current dimension are a case of their own
static std::string op_name(const Op7& o)
{
   if(o.kind == Q_ADDROW_MPQ && o.j == 1) return "addRowRational(mpq,creates-columns)";
   if(o.kind == Q_ADDCOL_MPQ && o.j == 1) return "addColRational(mpq,creates-rows)";
   return K7NAME[o.kind];
}
static std::string op_pretty(const Op7& o) { return std::string(K7NAME[o.kind]) + "[i=" + std::to_string(o.i) + ",j=" + std::to_string(o.j) + ",a=" + VALNAME[o.a] + ",b=" + VALNAME[o.b] + "]"; }

static bool finite_ok(const Ext& l, const Ext& u) { if(l.inf > 0 || u.inf < 0) return false; if(l.fin() && u.fin()) return l.v <= u.v; return true; }

static std::vector<Op7> alphabet7(int n, int m)
{
   std::vector<Op7> v;
   auto add = [&](int k, int i, int j, int a, int b) { v.push_back({k, i, j, a, b}); };
   const int fins[] = {1, 2, 3, 4, 6};
   std::vector<int> ri, ci;
   if(m > 0) { ri.push_back(0); if(m > 1) ri.push_back(m - 1); }
   if(n > 0) { ci.push_back(0); if(n > 1) ci.push_back(n - 1); }
   if(n <= 3 && m <= 3)
   {
      add(R_ADDROW, 0, 0, 0, 7); add(R_ADDROW, 0, 0, 6, 5); add(R_ADDCOL, 0, 0, 1, 5); add(R_ADDCOL, 0, 0, 0, 7);
      add(Q_ADDROW, 0, 0, 0, 2); add(Q_ADDROW, 0, 0, 8, 4); add(Q_ADDROW_MPQ, 0, 0, 2, 5); add(Q_ADDROW_MPQ, 0, 0, 0, 3);
      add(Q_ADDCOL, 0, 0, 1, 5); add(Q_ADDCOL, 0, 0, 8, 2); add(Q_ADDCOL_MPQ, 0, 0, 0, 4); add(Q_ADDCOL_MPQ, 0, 0, 3, 5);
      // array entry points with an index behind the current dimension (j = 1): rows / columns are created implicitly
      add(Q_ADDROW_MPQ, 0, 1, 2, 5); add(Q_ADDCOL_MPQ, 0, 1, 1, 7);
   }
   for(int i : ri)
   {
      add(R_CHGLHS, i, 0, 0, 0); add(R_CHGLHS, i, 0, 6, 0); add(R_CHGRHS, i, 0, 5, 0); add(R_CHGRHS, i, 0, 7, 0); add(R_CHGRANGE, i, 0, 6, 7); add(R_CHGRANGE, i, 0, 0, 5);
      add(Q_CHGLHS, i, 0, 0, 0); add(Q_CHGLHS, i, 0, 8, 0); add(Q_CHGLHS_MPQ, i, 0, 2, 0); add(Q_CHGRHS, i, 0, 5, 0); add(Q_CHGRHS, i, 0, 4, 0);
      add(Q_CHGRANGE, i, 0, 2, 2); add(Q_CHGRANGE, i, 0, 0, 5); add(Q_CHGRANGE, i, 0, 3, 4); add(Q_CHGRANGE_MPQ, i, 0, 8, 2); add(Q_CHGRANGE_MPQ, i, 0, 0, 3);
      add(R_RMROW, i, 0, 0, 0); add(Q_RMROW, i, 0, 0, 0); add(R_CHGROW, i, 0, 6, 7); add(Q_CHGROW, i, 0, 0, 2);
      add(R_CHGLHS, i, 0, STORED, 0); add(R_CHGRHS, i, 0, STORED, 0); add(Q_CHGLHS, i, 0, STORED, 0); add(Q_CHGRHS, i, 0, STORED, 0); add(R_CHGRANGE, i, 0, STORED, STORED); add(R_CHGROW, i, 0, STORED, STORED);
      for(int j : ci) { for(int f : {1, 2, 4}) add(Q_CHGELEM, i, j, f, 0); add(Q_CHGELEM_MPQ, i, j, 3, 0); add(Q_CHGELEM_MPQ, i, j, 8, 0); add(R_CHGELEM, i, j, 7, 0); add(R_CHGELEM, i, j, 1, 0); add(R_CHGELEM, i, j, STORED, 0); add(Q_CHGELEM, i, j, STORED, 0); }
   }
   if(m > 0) { add(R_CHGLHS_V, 0, 0, 0, 0); add(R_CHGLHS_V, 0, 0, 6, 0); add(Q_CHGRHS_V, 0, 0, 5, 0); add(Q_CHGRHS_V, 0, 0, 2, 0); add(Q_CHGRHS_MPQARR, 0, 0, 4, 0); add(Q_CHGRHS_MPQARR, 0, 0, 5, 0); add(Q_RMROWS_PERM, 1, 0, 0, 0); }
   for(int j : ci)
   {
      add(R_CHGLOWER, j, 0, 0, 0); add(R_CHGLOWER, j, 0, 6, 0); add(R_CHGUPPER, j, 0, 5, 0); add(R_CHGUPPER, j, 0, 7, 0); add(R_CHGBOUNDS, j, 0, 0, 5); add(R_CHGBOUNDS, j, 0, 6, 7);
      add(Q_CHGLOWER, j, 0, 0, 0); add(Q_CHGLOWER, j, 0, 8, 0); add(Q_CHGLOWER_MPQ, j, 0, 3, 0); add(Q_CHGUPPER, j, 0, 5, 0); add(Q_CHGUPPER, j, 0, 4, 0); add(Q_CHGUPPER_MPQ, j, 0, 2, 0);
      add(Q_CHGBOUNDS, j, 0, 2, 2); add(Q_CHGBOUNDS, j, 0, 0, 5); add(Q_CHGBOUNDS, j, 0, 8, 4); add(Q_CHGBOUNDS_MPQ, j, 0, 3, 2); add(Q_CHGBOUNDS_MPQ, j, 0, 0, 1);
      for(int f : fins) add(Q_CHGOBJ, j, 0, f, 0);
      add(Q_CHGOBJ_MPQ, j, 0, 2, 0); add(Q_CHGOBJ_MPQ, j, 0, 4, 0); add(R_CHGOBJ, j, 0, 7, 0); add(R_CHGOBJ, j, 0, 1, 0);
      add(R_RMCOL, j, 0, 0, 0); add(Q_RMCOL, j, 0, 0, 0); add(R_CHGCOL, j, 0, 6, 7); add(Q_CHGCOL, j, 0, 8, 2);
      add(R_CHGLOWER, j, 0, STORED, 0); add(R_CHGUPPER, j, 0, STORED, 0); add(Q_CHGLOWER, j, 0, STORED, 0); add(Q_CHGUPPER, j, 0, STORED, 0); add(R_CHGBOUNDS, j, 0, STORED, STORED);
      add(R_CHGOBJ, j, 0, STORED, 0); add(Q_CHGOBJ, j, 0, STORED, 0);
   }
   if(n > 0) { add(R_CHGUPPER_V, 0, 0, 5, 0); add(R_CHGUPPER_V, 0, 0, 7, 0); }
   add(R_SENSE, 0, 0, 0, 0); add(R_SENSE, 1, 0, 0, 0);
   add(R_CLEAR, 0, 0, 0, 0); add(Q_CLEAR, 0, 0, 0, 0);
   return v;
}

// small helpers to build sparse vectors with a fixed pattern (1/3, -2) on the first two positions
static std::vector<Q> patQ(int len, int which)
{
   std::vector<Q> v(len, Q(0));
   if(len > 0) v[0] = which ? qq(1, 3) : Q(1);
   if(len > 1) v[len - 1] += which ? Q(-2) : qq(-7, 5);
   return v;
}
static DSVectorRational dsvq(const std::vector<Q>& v) { DSVectorRational d((int)v.size() + 1); for(size_t k = 0; k < v.size(); ++k) if(v[k] != 0) d.add((int)k, to_spx(v[k])); return d; }
static DSVector dsvd(const std::vector<double>& v) { DSVector d((int)v.size() + 1); for(size_t k = 0; k < v.size(); ++k) if(v[k] != 0) d.add((int)k, v[k]); return d; }

struct Mpq { mpq_t q; Mpq() { mpq_init(q); } Mpq(const Mpq& o) { mpq_init(q); mpq_set(q, o.q); } ~Mpq() { mpq_clear(q); } void set(const Rational& r) { mpq_set(q, r.backend().data()); } };

// applies op to solver + model (model = what the RATIONAL LP must hold in auto mode). returns false if the op is not applicable (invalid bounds)
static bool valid7(const Op7& o, int n, int m)
{
   switch(o.kind)
   {
   case R_CHGLHS: case R_CHGRHS: case R_CHGRANGE: case R_RMROW: case R_CHGROW: case Q_CHGLHS: case Q_CHGLHS_MPQ: case Q_CHGRHS: case Q_CHGRANGE: case Q_CHGRANGE_MPQ:
   case Q_RMROW: case Q_CHGROW:
      return o.i < m;
   case R_CHGLHS_V: case Q_CHGRHS_V: case Q_CHGRHS_MPQARR: case Q_RMROWS_PERM:
      return m > 0;
   case R_CHGLOWER: case R_CHGUPPER: case R_CHGBOUNDS: case R_CHGOBJ: case R_RMCOL: case R_CHGCOL: case Q_CHGLOWER: case Q_CHGLOWER_MPQ: case Q_CHGUPPER: case Q_CHGUPPER_MPQ:
   case Q_CHGBOUNDS: case Q_CHGBOUNDS_MPQ: case Q_CHGOBJ: case Q_CHGOBJ_MPQ: case Q_RMCOL: case Q_CHGCOL:
      return o.i < n;
   case R_CHGUPPER_V:
      return n > 0;
   case R_CHGELEM: case Q_CHGELEM: case Q_CHGELEM_MPQ:
      return o.i < m && o.j < n;
   default:
      return true;
   }
}
static bool apply7(SoPlex& spx, RModel& mo, const Op7& o, bool* swapLast)
{
   int n = mo.n(), m = mo.m();
   if(!valid7(o, n, m)) return false;
   Ext A = VAL(o.a), B = VAL(o.b);
   if(o.a == STORED || o.b == STORED)
   {
      const SPxLPBase<double>& lp = *spx._realLP;
      auto ext = [](double d) { return d >= 1e100 ? Ext::pinf() : d <= -1e100 ? Ext::minf() : ext_of_double(d); };
      bool rowop = o.kind == R_CHGLHS || o.kind == Q_CHGLHS || o.kind == R_CHGRHS || o.kind == Q_CHGRHS || o.kind == R_CHGRANGE || o.kind == R_CHGROW || o.kind == R_CHGELEM || o.kind == Q_CHGELEM;
      bool elem = o.kind == R_CHGELEM || o.kind == Q_CHGELEM;
      if(rowop ? (o.i >= lp.nRows() || (elem && o.j >= lp.nCols())) : o.i >= lp.nCols()) return false;   // manual mode: the floating-point LP may be smaller than the rational one
      switch(o.kind)
      {
      case R_CHGLHS: case Q_CHGLHS: A = ext(lp.lhs(o.i)); break;
      case R_CHGRHS: case Q_CHGRHS: A = ext(lp.rhs(o.i)); break;
      case R_CHGRANGE: case R_CHGROW: A = ext(lp.lhs(o.i)); B = ext(lp.rhs(o.i)); break;
      case R_CHGLOWER: case Q_CHGLOWER: A = ext(lp.lower(o.i)); break;
      case R_CHGUPPER: case Q_CHGUPPER: A = ext(lp.upper(o.i)); break;
      case R_CHGBOUNDS: A = ext(lp.lower(o.i)); B = ext(lp.upper(o.i)); break;
      case R_CHGOBJ: case Q_CHGOBJ: A = ext(lp.obj(o.i)); break;
      case R_CHGELEM: case Q_CHGELEM: A = ext(lp.rowVector(o.i)[o.j]); break;
      default: return false;
      }
   }
   auto rexact = [&](const Ext& e) { return ext_exact(dval(e)); };   // value after passing through a double argument
   switch(o.kind)
   {
   case R_ADDROW:
   {
      if(!finite_ok(A, B)) return false;
      std::vector<double> a(n, 0); if(n > 0) a[0] = 1; if(n > 1) a[n - 1] = -0.5;
      spx.addRowReal(LPRow(dval(A), dsvd(a), dval(B)));
      std::vector<Q> aq(n); for(int j = 0; j < n; ++j) aq[j] = q_of_double(a[j]);
      mo.addRow(rexact(A), aq, rexact(B));
      return true;
   }
   case R_ADDCOL:
   {
      if(!finite_ok(A, B)) return false;
      std::vector<double> a(m, 0); if(m > 0) a[0] = 2; if(m > 1) a[m - 1] = 0.25;
      spx.addColReal(LPCol(1.5, dsvd(a), dval(B), dval(A)));
      std::vector<Q> aq(m); for(int i = 0; i < m; ++i) aq[i] = q_of_double(a[i]);
      mo.addCol(qq(3, 2), rexact(A), aq, rexact(B));
      return true;
   }
   case R_CHGLHS: if(!finite_ok(A, mo.rhs[o.i])) return false; spx.changeLhsReal(o.i, dval(A)); mo.lhs[o.i] = rexact(A); return true;
   case R_CHGRHS: if(!finite_ok(mo.lhs[o.i], A)) return false; spx.changeRhsReal(o.i, dval(A)); mo.rhs[o.i] = rexact(A); return true;
   case R_CHGRANGE: if(!finite_ok(A, B)) return false; spx.changeRangeReal(o.i, dval(A), dval(B)); mo.lhs[o.i] = rexact(A); mo.rhs[o.i] = rexact(B); return true;
   case R_CHGLOWER: if(!finite_ok(A, mo.up[o.i])) return false; spx.changeLowerReal(o.i, dval(A)); mo.lo[o.i] = rexact(A); return true;
   case R_CHGUPPER: if(!finite_ok(mo.lo[o.i], A)) return false; spx.changeUpperReal(o.i, dval(A)); mo.up[o.i] = rexact(A); return true;
   case R_CHGBOUNDS: if(!finite_ok(A, B)) return false; spx.changeBoundsReal(o.i, dval(A), dval(B)); mo.lo[o.i] = rexact(A); mo.up[o.i] = rexact(B); return true;
   case R_CHGOBJ: if(!A.fin()) return false; spx.changeObjReal(o.i, dval(A)); mo.c[o.i] = q_of_double(dval(A)); return true;
   case R_CHGELEM: if(!A.fin()) return false; spx.changeElementReal(o.i, o.j, dval(A)); mo.A[o.i][o.j] = q_of_double(dval(A)); return true;
   case R_RMROW: spx.removeRowReal(o.i); mo.rmRow(o.i, *swapLast); return true;
   case R_RMCOL: spx.removeColReal(o.i); mo.rmCol(o.i, *swapLast); return true;
   case R_CHGROW:
   {
      if(!finite_ok(A, B)) return false;
      std::vector<double> a(n, 0); if(n > 0) a[n - 1] = 3;
      spx.changeRowReal(o.i, LPRow(dval(A), dsvd(a), dval(B)));
      for(int j = 0; j < n; ++j) mo.A[o.i][j] = q_of_double(a[j]);
      mo.lhs[o.i] = rexact(A); mo.rhs[o.i] = rexact(B);
      return true;
   }
   case R_CHGCOL:
   {
      if(!finite_ok(A, B)) return false;
      std::vector<double> a(m, 0); if(m > 0) a[0] = -4;
      spx.changeColReal(o.i, LPCol(-2.0, dsvd(a), dval(B), dval(A)));
      for(int i = 0; i < m; ++i) mo.A[i][o.i] = q_of_double(a[i]);
      mo.c[o.i] = -2; mo.lo[o.i] = rexact(A); mo.up[o.i] = rexact(B);
      return true;
   }
   case R_CHGLHS_V:
   {
      VectorReal v(m);
      for(int i = 0; i < m; ++i) { if(!finite_ok(A, mo.rhs[i])) return false; v[i] = dval(A); }
      spx.changeLhsReal(v);
      for(int i = 0; i < m; ++i) mo.lhs[i] = rexact(A);
      return true;
   }
   case R_CHGUPPER_V:
   {
      VectorReal v(n);
      for(int j = 0; j < n; ++j) { if(!finite_ok(mo.lo[j], A)) return false; v[j] = dval(A); }
      spx.changeUpperReal(v);
      for(int j = 0; j < n; ++j) mo.up[j] = rexact(A);
      return true;
   }
   case R_SENSE: spx.setIntParam(SoPlex::OBJSENSE, o.i ? SoPlex::OBJSENSE_MAXIMIZE : SoPlex::OBJSENSE_MINIMIZE); mo.maximize = o.i != 0; return true;
   case R_CLEAR: spx.clearLPReal(); mo.c.clear(); mo.lo.clear(); mo.up.clear(); mo.lhs.clear(); mo.rhs.clear(); mo.A.clear(); return true;
   // ---- rational interface
   case Q_ADDROW:
   {
      if(!finite_ok(A, B)) return false;
      std::vector<Q> a = patQ(n, 1);
      spx.addRowRational(LPRowRational(spxval(A, spx), dsvq(a), spxval(B, spx)));
      mo.addRow(A, a, B);
      return true;
   }
   case Q_ADDROW_MPQ:
   {
      if(!finite_ok(A, B)) return false;
      std::vector<Q> a = patQ(n, 0);
      std::vector<Mpq> vals; std::vector<int> idx;
      for(int j = 0; j < n; ++j) if(a[j] != 0) { Mpq q; mpq_set(q.q, a[j].get_mpq_t()); vals.push_back(q); idx.push_back(j); }
      if(o.j == 1)
      {
         // extended form: one more nonzero at column index n+1 - the array entry point then creates the columns n and n+1 itself ("create new columns if required"):
         // empty columns with objective 0 and bounds [0, +inf), in both LPs
         Mpq q; mpq_set(q.q, qq(5, 3).get_mpq_t()); vals.push_back(q); idx.push_back(n + 1);
      }
      Mpq l, r; l.set(spxval(A, spx)); r.set(spxval(B, spx));
      std::vector<mpq_t> raw(vals.size() + 1);
      for(size_t k = 0; k < vals.size(); ++k) { mpq_init(raw[k]); mpq_set(raw[k], vals[k].q); }
      spx.addRowRational(&l.q, raw.data(), idx.data(), (int)vals.size(), &r.q);
      for(size_t k = 0; k < vals.size(); ++k) mpq_clear(raw[k]);
      if(o.j == 1)
      {
         mo.addCol(Q(0), Ext(Q(0)), std::vector<Q>(), Ext::pinf());
         mo.addCol(Q(0), Ext(Q(0)), std::vector<Q>(), Ext::pinf());
         a.resize(n + 2, Q(0));
         a[n + 1] = qq(5, 3);
      }
      mo.addRow(A, a, B);
      return true;
   }
   case Q_ADDCOL:
   {
      if(!finite_ok(A, B)) return false;
      std::vector<Q> a = patQ(m, 1);
      spx.addColRational(LPColRational(to_spx(qq(2, 7)), dsvq(a), spxval(B, spx), spxval(A, spx)));
      mo.addCol(qq(2, 7), A, a, B);
      return true;
   }
   case Q_ADDCOL_MPQ:
   {
      if(!finite_ok(A, B)) return false;
      std::vector<Q> a = patQ(m, 0);
      std::vector<int> idx; std::vector<Q> nz;
      for(int i = 0; i < m; ++i) if(a[i] != 0) { idx.push_back(i); nz.push_back(a[i]); }
      if(o.j == 1) { idx.push_back(m + 1); nz.push_back(qq(-7, 3)); }     // extended form: creates the rows m and m+1 (empty rows 0 <= . < +inf) in both LPs
      std::vector<mpq_t> raw(nz.size() + 1);
      for(size_t k = 0; k < nz.size(); ++k) { mpq_init(raw[k]); mpq_set(raw[k], nz[k].get_mpq_t()); }
      Mpq ob, l, u; mpq_set(ob.q, qq(-5, 3).get_mpq_t()); l.set(spxval(A, spx)); u.set(spxval(B, spx));
      spx.addColRational(&ob.q, &l.q, raw.data(), idx.data(), (int)nz.size(), &u.q);
      for(size_t k = 0; k < nz.size(); ++k) mpq_clear(raw[k]);
      if(o.j == 1)
      {
         mo.addRow(Ext(Q(0)), std::vector<Q>(), Ext::pinf());
         mo.addRow(Ext(Q(0)), std::vector<Q>(), Ext::pinf());
         a.resize(m + 2, Q(0));
         a[m + 1] = qq(-7, 3);
      }
      mo.addCol(qq(-5, 3), A, a, B);
      return true;
   }
   case Q_CHGLHS: if(!finite_ok(A, mo.rhs[o.i])) return false; spx.changeLhsRational(o.i, spxval(A, spx)); mo.lhs[o.i] = A; return true;
   case Q_CHGLHS_MPQ: { if(!finite_ok(A, mo.rhs[o.i])) return false; Mpq q; q.set(spxval(A, spx)); spx.changeLhsRational(o.i, &q.q); mo.lhs[o.i] = A; return true; }
   case Q_CHGRHS: if(!finite_ok(mo.lhs[o.i], A)) return false; spx.changeRhsRational(o.i, spxval(A, spx)); mo.rhs[o.i] = A; return true;
   case Q_CHGRHS_V:
   {
      VectorRational v(m);
      for(int i = 0; i < m; ++i) { if(!finite_ok(mo.lhs[i], A)) return false; v[i] = spxval(A, spx); }
      spx.changeRhsRational(v);
      for(int i = 0; i < m; ++i) mo.rhs[i] = A;
      return true;
   }
   case Q_CHGRHS_MPQARR:
   {
      for(int i = 0; i < m; ++i) if(!finite_ok(mo.lhs[i], A)) return false;
      std::vector<mpq_t> raw(m);
      for(int i = 0; i < m; ++i) { mpq_init(raw[i]); mpq_set(raw[i], spxval(A, spx).backend().data()); }
      spx.changeRhsRational(raw.data(), m);
      for(int i = 0; i < m; ++i) { mpq_clear(raw[i]); mo.rhs[i] = A; }
      return true;
   }
   case Q_CHGRANGE: if(!finite_ok(A, B)) return false; spx.changeRangeRational(o.i, spxval(A, spx), spxval(B, spx)); mo.lhs[o.i] = A; mo.rhs[o.i] = B; return true;
   case Q_CHGRANGE_MPQ: { if(!finite_ok(A, B)) return false; Mpq l, r; l.set(spxval(A, spx)); r.set(spxval(B, spx)); spx.changeRangeRational(o.i, &l.q, &r.q); mo.lhs[o.i] = A; mo.rhs[o.i] = B; return true; }
   case Q_CHGLOWER: if(!finite_ok(A, mo.up[o.i])) return false; spx.changeLowerRational(o.i, spxval(A, spx)); mo.lo[o.i] = A; return true;
   case Q_CHGLOWER_MPQ: { if(!finite_ok(A, mo.up[o.i])) return false; Mpq q; q.set(spxval(A, spx)); spx.changeLowerRational(o.i, &q.q); mo.lo[o.i] = A; return true; }
   case Q_CHGUPPER: if(!finite_ok(mo.lo[o.i], A)) return false; spx.changeUpperRational(o.i, spxval(A, spx)); mo.up[o.i] = A; return true;
   case Q_CHGUPPER_MPQ: { if(!finite_ok(mo.lo[o.i], A)) return false; Mpq q; q.set(spxval(A, spx)); spx.changeUpperRational(o.i, &q.q); mo.up[o.i] = A; return true; }
   case Q_CHGBOUNDS: if(!finite_ok(A, B)) return false; spx.changeBoundsRational(o.i, spxval(A, spx), spxval(B, spx)); mo.lo[o.i] = A; mo.up[o.i] = B; return true;
   case Q_CHGBOUNDS_MPQ: { if(!finite_ok(A, B)) return false; Mpq l, u; l.set(spxval(A, spx)); u.set(spxval(B, spx)); spx.changeBoundsRational(o.i, &l.q, &u.q); mo.lo[o.i] = A; mo.up[o.i] = B; return true; }
   case Q_CHGOBJ: if(!A.fin()) return false; spx.changeObjRational(o.i, to_spx(A.v)); mo.c[o.i] = A.v; return true;
   case Q_CHGOBJ_MPQ: { if(!A.fin()) return false; Mpq q; mpq_set(q.q, A.v.get_mpq_t()); spx.changeObjRational(o.i, &q.q); mo.c[o.i] = A.v; return true; }
   case Q_CHGELEM: if(!A.fin()) return false; spx.changeElementRational(o.i, o.j, to_spx(A.v)); mo.A[o.i][o.j] = A.v; return true;
   case Q_CHGELEM_MPQ: { if(!A.fin()) return false; Mpq q; mpq_set(q.q, A.v.get_mpq_t()); spx.changeElementRational(o.i, o.j, &q.q); mo.A[o.i][o.j] = A.v; return true; }
   case Q_RMROW: spx.removeRowRational(o.i); mo.rmRow(o.i, *swapLast); return true;
   case Q_RMCOL: spx.removeColRational(o.i); mo.rmCol(o.i, *swapLast); return true;
   case Q_CHGROW:
   {
      if(!finite_ok(A, B)) return false;
      std::vector<Q> a = patQ(n, 1);
      spx.changeRowRational(o.i, LPRowRational(spxval(A, spx), dsvq(a), spxval(B, spx)));
      mo.A[o.i] = a; mo.lhs[o.i] = A; mo.rhs[o.i] = B;
      return true;
   }
   case Q_CHGCOL:
   {
      if(!finite_ok(A, B)) return false;
      std::vector<Q> a = patQ(m, 0);
      spx.changeColRational(o.i, LPColRational(to_spx(qq(1, 7)), dsvq(a), spxval(B, spx), spxval(A, spx)));
      for(int i = 0; i < m; ++i) mo.A[i][o.i] = a[i];
      mo.c[o.i] = qq(1, 7); mo.lo[o.i] = A; mo.up[o.i] = B;
      return true;
   }
   case Q_RMROWS_PERM:
   {
      std::vector<int> perm(m, 0);
      perm[0] = -1;
      spx.removeRowsRational(perm.data());
      mo.rmRow(0, false);
      return true;
   }
   case Q_CLEAR: spx.clearLPRational(); mo.c.clear(); mo.lo.clear(); mo.up.clear(); mo.lhs.clear(); mo.rhs.clear(); mo.A.clear(); return true;
   }
   return false;
}

static bool ext_matches_rational(const Ext& e, const Rational& r, SoPlex& spx)
{
   if(e.inf > 0) return r >= spx._rationalPosInfty;
   if(e.inf < 0) return r <= spx._rationalNegInfty;
   return from_spx(r) == e.v;
}
// set when the last failing comparison concerned a subnormal number (|value| < 2^-1022) whose stored image is another subnormal or zero: multiplying a subnormal by a power-of-two
// scale factor is not exact, so persistent scaling loses its last bits - reported under its own rule
static bool g_subnormal = false;
static std::string subn() { return g_subnormal ? "-subnormal-under-scaling" : ""; }
static bool ext_matches_real(const Ext& e, double d, Ctx& c)
{
   g_subnormal = false;
   if(e.inf > 0) return d >= 1e100;
   if(e.inf < 0) return d <= -1e100;
   if(!is_image(d, e.v)) { g_subnormal = e.v != 0 && qabs(e.v) < q_of_double(2.2250738585072014e-308) && std::fabs(d) < 2.2250738585072014e-308; return false; }
   if(!is_nearest(d, e.v)) c.count("observation.real_image_not_nearest_double");
   return true;
}
static int range_type(const Ext& l, const Ext& u)
{
   if(l.fin() && u.fin()) return l.v == u.v ? 4 : 3;
   if(l.fin()) return 1;
   if(u.fin()) return 2;
   return 0;
}

// the relation that must hold in automatic mode (and after an explicit sync in manual mode)
static std::string check_relation(SoPlex& spx, const RModel& mo, Ctx& c, bool checkRational = true, bool checkReal = true)
{
   int n = mo.n(), m = mo.m();
   std::ostringstream o;
   o.precision(17);
   if(checkRational)
   {
      if(spx._rationalLP == nullptr) return "rational-lp-missing|";
      if(spx.numRowsRational() != m || spx.numColsRational() != n) { o << "rational dims " << spx.numRowsRational() << "x" << spx.numColsRational() << " model " << m << "x" << n; return "rational-dimension|" + o.str(); }
      if((spx._rationalLP->spxSense() == SPxLPRational::MAXIMIZE) != mo.maximize) return "rational-sense|";
      for(int i = 0; i < m; ++i)
      {
         if(!ext_matches_rational(mo.lhs[i], spx.lhsRational(i), spx)) { o << "lhsRational(" << i << ")=" << spx.lhsRational(i) << " model " << mo.lhs[i].str(); return "rational-side|" + o.str(); }
         if(!ext_matches_rational(mo.rhs[i], spx.rhsRational(i), spx)) { o << "rhsRational(" << i << ")=" << spx.rhsRational(i) << " model " << mo.rhs[i].str(); return "rational-side|" + o.str(); }
         std::vector<Q> dense(n, Q(0));
         const SVectorRational& r = spx.rowVectorRational(i);
         for(int k = 0; k < r.size(); ++k) { if(r.index(k) < 0 || r.index(k) >= n) return "rational-row-index|"; dense[r.index(k)] = from_spx(r.value(k)); }
         for(int j = 0; j < n; ++j) if(dense[j] != mo.A[i][j]) { o << "rational A[" << i << "][" << j << "]=" << dense[j].get_str() << " model " << mo.A[i][j].get_str(); return "rational-coefficient|" + o.str(); }
         if((int)spx._rowTypes.size() != m) return "rowtypes-size|" + std::to_string(spx._rowTypes.size());
         if((int)spx._rowTypes[i] != range_type(mo.lhs[i], mo.rhs[i])) { o << "_rowTypes[" << i << "]=" << (int)spx._rowTypes[i] << " but sides " << mo.lhs[i].str() << ".." << mo.rhs[i].str(); return "row-range-type|" + o.str(); }
      }
      for(int j = 0; j < n; ++j)
      {
         if(!ext_matches_rational(mo.lo[j], spx.lowerRational(j), spx)) { o << "lowerRational(" << j << ")=" << spx.lowerRational(j) << " model " << mo.lo[j].str(); return "rational-bound|" + o.str(); }
         if(!ext_matches_rational(mo.up[j], spx.upperRational(j), spx)) { o << "upperRational(" << j << ")=" << spx.upperRational(j) << " model " << mo.up[j].str(); return "rational-bound|" + o.str(); }
         if(from_spx(spx.objRational(j)) != mo.c[j]) { o << "objRational(" << j << ")=" << spx.objRational(j) << " model " << mo.c[j].get_str(); return "rational-objective|" + o.str(); }
         std::vector<Q> dense(m, Q(0));
         const SVectorRational& cv = spx.colVectorRational(j);
         for(int k = 0; k < cv.size(); ++k) { if(cv.index(k) < 0 || cv.index(k) >= m) return "rational-col-index|"; dense[cv.index(k)] = from_spx(cv.value(k)); }
         for(int i = 0; i < m; ++i) if(dense[i] != mo.A[i][j]) { o << "rational column storage A[" << i << "][" << j << "]=" << dense[i].get_str() << " model " << mo.A[i][j].get_str(); return "rational-coefficient-colwise|" + o.str(); }
         if((int)spx._colTypes.size() != n) return "coltypes-size|" + std::to_string(spx._colTypes.size());
         if((int)spx._colTypes[j] != range_type(mo.lo[j], mo.up[j])) { o << "_colTypes[" << j << "]=" << (int)spx._colTypes[j] << " but bounds " << mo.lo[j].str() << ".." << mo.up[j].str(); return "col-range-type|" + o.str(); }
      }
   }
   if(checkReal)
   {
      if(spx.numRows() != m || spx.numCols() != n) { o << "real dims " << spx.numRows() << "x" << spx.numCols() << " model " << m << "x" << n; return "real-dimension|" + o.str(); }
      if((spx.intParam(SoPlex::OBJSENSE) == SoPlex::OBJSENSE_MAXIMIZE) != mo.maximize) return "real-sense|";
      for(int i = 0; i < m; ++i)
      {
         if(!ext_matches_real(mo.lhs[i], spx.lhsReal(i), c)) { o << "lhsReal(" << i << ")=" << spx.lhsReal(i) << " model " << mo.lhs[i].str(); return "real-side" + subn() + "|" + o.str(); }
         if(!ext_matches_real(mo.rhs[i], spx.rhsReal(i), c)) { o << "rhsReal(" << i << ")=" << spx.rhsReal(i) << " model " << mo.rhs[i].str(); return "real-side" + subn() + "|" + o.str(); }
         for(int j = 0; j < n; ++j) if(!ext_matches_real(Ext(mo.A[i][j]), spx.coefReal(i, j), c))
            {
               o << "coefReal(" << i << "," << j << ")=" << spx.coefReal(i, j) << " model " << mo.A[i][j].get_str();
               // a nonzero entry below the zero tolerance (1e-16) that the real LP dropped is reported under its own rule
               bool tiny = spx.coefReal(i, j) == 0 && mo.A[i][j] != 0 && qabs(mo.A[i][j]) < q_of_double(1e-16);
               return std::string(tiny ? "real-coefficient-below-epsilon-dropped|" : g_subnormal ? "real-coefficient-subnormal-under-scaling|" : "real-coefficient|") + o.str();
            }
      }
      for(int j = 0; j < n; ++j)
      {
         if(!ext_matches_real(mo.lo[j], spx.lowerReal(j), c)) { o << "lowerReal(" << j << ")=" << spx.lowerReal(j) << " model " << mo.lo[j].str(); return "real-bound" + subn() + "|" + o.str(); }
         if(!ext_matches_real(mo.up[j], spx.upperReal(j), c)) { o << "upperReal(" << j << ")=" << spx.upperReal(j) << " model " << mo.up[j].str(); return "real-bound" + subn() + "|" + o.str(); }
         if(!ext_matches_real(Ext(mo.c[j]), spx.objReal(j), c)) { o << "objReal(" << j << ")=" << spx.objReal(j) << " model " << mo.c[j].get_str(); return "real-objective" + subn() + "|" + o.str(); }
      }
   }
   if(checkRational && checkReal && !spx.areLPsInSync(true, true, true)) c.count("observation.areLPsInSync_false");
   return "";
}

static const char* INITN[] = {"empty-auto", "loaded-auto", "solved-auto-scaled", "rational-solved-auto", "solved-auto-scaled-allfinite", "rational-solved-auto-eqtrans"};
static const int NINIT = 6;
static void make_init(SoPlex& spx, RModel& mo, int kind)
{
   quiet(spx);
   spx.setIntParam(SoPlex::SYNCMODE, SoPlex::SYNCMODE_AUTO);
   mo = RModel();
   if(kind == 0) return;
   TinyLP t = TinyLP::parse(kind == 4 ? "n=2;m=2;max=1;off=0;c=1,2;lo=1,-2;up=4,16;lhs=-64,-1;rhs=8192,2;A=1024,16|0.5,-2"
                                      : "n=2;m=2;max=1;off=0;c=1,2;lo=0,0;up=4,inf;lhs=-inf,-1;rhs=4,2;A=8,1|0.5,-2");
   load_real(spx, t, 0);
   XLP x = t.exact();
   mo.maximize = x.maximize; mo.c = x.c; mo.lo = x.lo; mo.up = x.up; mo.lhs = x.lhs; mo.rhs = x.rhs; mo.A = x.A;
   if(kind == 2 || kind == 4) { spx.setIntParam(SoPlex::SIMPLIFIER, SoPlex::SIMPLIFIER_OFF); spx.optimize(); }
   if(kind == 3 || kind == 5) { spx.setBoolParam(SoPlex::EQTRANS, kind == 5); spx.setIntParam(SoPlex::SOLVEMODE, SoPlex::SOLVEMODE_RATIONAL); spx.optimize(); }
}

struct Hist7 { int init; std::vector<Op7> ops; };
static std::string hist_str(const Hist7& h) { std::string s = "init=" + std::to_string(h.init) + ";ops="; for(size_t k = 0; k < h.ops.size(); ++k) s += (k ? "/" : "") + op_str(h.ops[k]); return s; }
static std::string hist_pretty(const Hist7& h) { std::string s = std::string("from '") + INITN[h.init] + "': "; for(size_t k = 0; k < h.ops.size(); ++k) s += (k ? " ; " : "") + op_pretty(h.ops[k]); return s; }

// executes the history in AUTO mode and checks the relation after the last op; returns the reached model
static uint64_t run_hist(const Hist7& h, Ctx& c, RModel* out, bool* applicable)
{
   SoPlex spx;
   RModel mo;
   make_init(spx, mo, h.init);
   *applicable = true;
   for(size_t k = 0; k < h.ops.size(); ++k)
   {
      const Op7& o = h.ops[k];
      bool single = (o.kind == R_RMROW || o.kind == R_RMCOL || o.kind == Q_RMROW || o.kind == Q_RMCOL);
      RModel before = mo;
      bool swapLast = true;
      if(!apply7(spx, mo, o, &swapLast)) { *applicable = false; if(out) *out = mo; return 0; }
      if(single && !check_relation(spx, mo, c).empty())
      {
         // the other admissible renumbering of a single removal
         RModel alt = before;
         if(o.kind == R_RMROW || o.kind == Q_RMROW) alt.rmRow(o.i, false); else alt.rmCol(o.i, false);
         Ctx dummy;
         if(check_relation(spx, alt, dummy).empty()) mo = alt;
      }
   }
   if(out) *out = mo;
   c.count("histories");
   if(!h.ops.empty()) c.count(std::string("lastop.") + K7NAME[h.ops.back().kind]);
   std::string r = check_relation(spx, mo, c);
   if(!r.empty())
   {
      size_t bar = r.find('|');
      std::string prev;
      for(size_t k = 0; k + 1 < h.ops.size(); ++k) prev += (k ? ">" : "") + op_name(h.ops[k]);
      c.violation(r.substr(0, bar) + ":" + (h.ops.empty() ? std::string("init") : op_name(h.ops.back())) + "@" + INITN[h.init] + "|" + prev, hist_str(h), r.substr(bar + 1) + " | " + hist_pretty(h) + " | model " + mo.str());
      return 1;
   }
   c.state(std::to_string(fnv_str(mo.str())));
   if(c.wantSample() && h.ops.size() >= 2 && fnv_str(hist_str(h)) % 499 == 0) c.sample("{\"history\":" + jstr(hist_pretty(h)) + ",\"model\":" + jstr(mo.str()) + "}");
   return fnv_str(mo.str());
}

// MANUAL / ONLYREAL protocols on top of a history: mode 1 = manual, ops then the matching sync call(s); mode 2 = only-real then exact solve
static uint64_t run_modes(const Hist7& h, int mode, Ctx& c)
{
   SoPlex spx;
   quiet(spx);
   RModel moR, moQ;       // what the real LP / the rational LP must hold
   std::string where = mode == 1 ? "manual" : "onlyreal";
   if(mode == 1)
   {
      spx.setIntParam(SoPlex::SYNCMODE, SoPlex::SYNCMODE_MANUAL);
      // in manual mode real-interface calls touch only the real LP and rational-interface calls only the rational LP;
      // a history entirely on one side is followed by the sync call that carries it to the other side
      bool allQ = true, allR = true;
      for(auto& o : h.ops) { if(o.kind == R_SENSE) continue; if(o.kind < Q_ADDROW) allQ = false; else allR = false; }
      if(!allQ && !allR) return 0;
      bool sw = true;
      RModel mo;
      for(auto& o : h.ops) if(!apply7(spx, mo, o, &sw)) return 0;
      c.count("manual_histories");
      if(allQ) spx.syncLPReal(); else spx.syncLPRational();
      std::string r = check_relation(spx, mo, c);
      if(!r.empty()) { c.violation(r.substr(0, r.find('|')) + ":after-" + (allQ ? "syncLPReal" : "syncLPRational") + "@manual", hist_str(h) + ";mode=1", r.substr(r.find('|') + 1) + " | " + hist_pretty(h)); return 1; }
      return 2;
   }
   // mode 2: only real ops, then an exact solve must copy the real LP exactly
   spx.setIntParam(SoPlex::SYNCMODE, SoPlex::SYNCMODE_ONLYREAL);
   bool sw = true;
   for(auto& o : h.ops) { if(o.kind >= Q_ADDROW) return 0; if(!apply7(spx, moR, o, &sw)) return 0; }
   if(moR.n() == 0) return 0;
   spx.setIntParam(SoPlex::SOLVEMODE, SoPlex::SOLVEMODE_RATIONAL);
   spx.setRealParam(SoPlex::FEASTOL, 0.0);
   spx.setRealParam(SoPlex::OPTTOL, 0.0);
   spx.optimize();
   c.count("onlyreal_histories");
   if(spx._rationalLP == nullptr) { c.violation("rational-lp-missing:after-exact-solve@onlyreal", hist_str(h) + ";mode=2", hist_pretty(h)); return 1; }
   std::string r = check_relation(spx, moR, c, true, false);
   if(!r.empty()) { c.violation(r.substr(0, r.find('|')) + ":after-exact-solve@onlyreal", hist_str(h) + ";mode=2", r.substr(r.find('|') + 1) + " | " + hist_pretty(h)); return 1; }
   return 3;
}

int main(int argc, char** argv)
{
   Args args = parse_args(argc, argv);
   args.prop = "C07";
   if(!args.replay.empty())
   {
      std::ifstream in(args.replay);
      std::string doc((std::istreambuf_iterator<char>(in)), std::istreambuf_iterator<char>());
      size_t p = doc.find("\"case\": \"");
      if(p == std::string::npos) { printf("REPLAY-ERROR no case\n"); return 2; }
      p += 9;
      std::string cs = doc.substr(p, doc.find('"', p) - p);
      Hist7 h;
      h.init = atoi(cs.c_str() + 5);
      size_t q = cs.find(";ops=");
      size_t e = cs.find(";mode=");
      std::string ops = cs.substr(q + 5, e == std::string::npos ? std::string::npos : e - q - 5);
      if(!ops.empty()) for(auto& o : split(ops, '/')) { auto f = split(o, ':'); h.ops.push_back({atoi(f[0].c_str()), atoi(f[1].c_str()), atoi(f[2].c_str()), atoi(f[3].c_str()), atoi(f[4].c_str())}); }
      int mode = e == std::string::npos ? 0 : atoi(cs.c_str() + e + 6);
      mallopt(M_PERTURB, 85);
      return replay_case([&](Ctx & c) { bool a; if(mode) run_modes(h, mode, c); else run_hist(h, c, nullptr, &a); });
   }
   bool thorough = args.tier == "thorough";
   Report rep(args, "model_checking", thorough ? 3000 : 400);
   int depth = thorough ? 3 : 2;
   struct First { int init; Op7 op; };
   std::vector<First> firsts;
   for(int in = 0; in < NINIT; ++in)
   {
      SoPlex spx;
      RModel mo;
      make_init(spx, mo, in);
      for(auto& op : alphabet7(mo.n(), mo.m())) firsts.push_back({in, op});
   }
   RunOpts o = rep.opts();
   o.perturb = {85};
   o.watchdog_s = 120;
   rep.phase("auto-sync histories depth<=" + std::to_string(depth), firsts.size(), [&](uint64_t idx, int, Ctx & c) -> uint64_t
   {
      Hist7 h{firsts[idx].init, {firsts[idx].op}};
      RModel m1;
      bool ok;
      uint64_t hh = run_hist(h, c, &m1, &ok);
      if(!ok) return 0;
      c.count("transitions");
      for(auto& op2 : alphabet7(m1.n(), m1.m()))
      {
         Hist7 h2 = h;
         h2.ops.push_back(op2);
         RModel m2;
         bool ok2;
         hh = hh * 31 + run_hist(h2, c, &m2, &ok2);
         if(!ok2) continue;
         c.count("transitions");
         if(depth >= 3 && (fnv_str(hist_str(h2)) % 5) == 0)
            for(auto& op3 : alphabet7(m2.n(), m2.m()))
            {
               if(op3.kind != Q_CHGRANGE && op3.kind != Q_CHGBOUNDS && op3.kind != Q_ADDROW_MPQ && op3.kind != Q_ADDCOL_MPQ && op3.kind != R_CHGLHS && op3.kind != R_RMCOL && op3.kind != Q_RMROW && op3.kind != Q_CHGELEM_MPQ && op3.kind != R_CHGUPPER_V) continue;
               Hist7 h3 = h2;
               h3.ops.push_back(op3);
               bool ok3;
               hh = hh * 31 + run_hist(h3, c, nullptr, &ok3);
               if(ok3) c.count("transitions");
            }
      }
      return hh;
   }, [&](uint64_t idx, uint64_t) { Hist7 h{firsts[idx].init, {firsts[idx].op}}; return hist_str(h); }, o,
   [&](uint64_t idx, uint64_t) { return std::string("@first-op=") + K7NAME[firsts[idx].op.kind] + "|" + INITN[firsts[idx].init]; });
   // manual / only-real protocols: all histories of depth <= 2 from the empty object
   {
      std::vector<Hist7> hs;
      auto a0 = alphabet7(0, 0);
      for(auto& o1 : a0)
      {
         hs.push_back({0, {o1}});
         int n1 = (o1.kind == R_ADDCOL || o1.kind == Q_ADDCOL || o1.kind == Q_ADDCOL_MPQ) ? 1 : 0, m1 = (o1.kind == R_ADDROW || o1.kind == Q_ADDROW || o1.kind == Q_ADDROW_MPQ) ? 1 : 0;
         for(auto& o2 : alphabet7(std::max(n1, 1), std::max(m1, 1))) { hs.push_back({0, {o1, o2}}); if(thorough) for(auto& o3 : alphabet7(1, 1)) if(o3.kind == Q_CHGBOUNDS || o3.kind == Q_CHGRANGE || o3.kind == R_CHGUPPER || o3.kind == Q_ADDROW) hs.push_back({0, {o1, o2, o3}}); }
      }
      rep.phase("manual and only-real protocols", hs.size() * 2, [&](uint64_t idx, int, Ctx & c) -> uint64_t
      {
         return run_modes(hs[idx / 2], int(idx % 2) + 1, c);
      }, [&](uint64_t idx, uint64_t) { return hist_str(hs[idx / 2]) + ";mode=" + std::to_string(idx % 2 + 1); }, o);
   }
   auto& C = rep.all.counters;
   rep.evaluations = C["histories"] + C["manual_histories"] + C["onlyreal_histories"];
   rep.rule = "a case is a history (initial state, op_1..op_k) over ~120 instantiated calls of the real and rational modification interfaces (Rational and mpq_t entry points) with values from "
              "{-inf, 0, 1/3, 1e-320, 2^60+1, +inf, -1, 2, -7/5}; each history is replayed on a fresh object and compared with the exact reference model after its last call; "
              "states = distinct model LPs reached; non-trivial = histories executed (all change or re-read the LP)";
   rep.assumptions = {"reference model over GMP rationals; a double argument enters the model as the exact rational it is; the real image of a rational must be one of its two neighbouring doubles (whether it is the nearest one is recorded as an observation)"};
   rep.extra["depth"] = std::to_string(depth);
   rep.finish(C["histories"], rep.all.states.size(), C["transitions"], rep.evaluations);
   return 0;
}
