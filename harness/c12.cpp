// C12: file round trips and numeric literals.
//  (a) every numeric literal of length <= L over {+,-,0,1,5,9,.,e,E,/} that matches
//         sign? digits? (. digits)? ([eE] sign? digits)?  |  sign? digits / digits      (>= 1 mantissa digit)
//      is fed to soplex::ratFromString and embedded in LP / MPS files read in rational and in real mode;
//      oracle: exact value by mpz/mpq arithmetic in the harness, correctly rounded double by MPFR.
//  (b) tiny-LP families x {LP,MPS} x {real,rational} x write options: writeFile, read into a new object,
//      compare under the documented normalisations only; writeDualFileReal: primal optimum == dual optimum
//      (exact basis-enumeration oracle on the re-read dual).
#include "vx_spx.hpp"
#include "vx_planted.hpp"
#include <mpfr.h>
#include <setjmp.h>
#include <dirent.h>
using namespace soplex;
using namespace vx;

// ---------------------------------------------------------------------------------------------
// infrastructure
// ---------------------------------------------------------------------------------------------
struct NullBuf : std::streambuf { int overflow(int c) override { return c; } };
static NullBuf g_nullbuf;
static std::string g_outdir;
static std::string wfile(const char* ext) { return g_outdir + "/c12-w" + std::to_string((long)getpid()) + ext; }

// GMP raises SIGFPE (then aborts) on an invalid operation such as the conversion of an infinite double.  The literal phases
// expect thousands of those; they are caught in-process (the interrupted object is abandoned, descriptors it held are closed)
// so that the worker does not have to be restarted for each of them.  Every other signal is left to the runner.
static sigjmp_buf g_jb;
static volatile sig_atomic_t g_armed = 0;
static void fpe_trap(int) { if(g_armed) { g_armed = 0; siglongjmp(g_jb, 1); } _exit(100 + SIGFPE); }
static bool guarded(const std::function<void()>& f, int keepfd)
{
   struct sigaction sa, old;
   memset(&sa, 0, sizeof sa);
   sa.sa_handler = fpe_trap;
   sa.sa_flags = SA_NODEFER;
   sigaction(SIGFPE, &sa, &old);
   volatile bool ok = true;
   if(sigsetjmp(g_jb, 1) == 0) { g_armed = 1; f(); }
   else
   {
      ok = false;
      std::vector<int> fds;
      if(DIR* d = opendir("/proc/self/fd"))
      {
         int dfd = dirfd(d);
         while(struct dirent* e = readdir(d)) { int fd = atoi(e->d_name); if(e->d_name[0] != '.' && fd > 2 && fd != keepfd && fd != dfd) fds.push_back(fd); }
         closedir(d);
      }
      for(int fd : fds) close(fd);
   }
   g_armed = 0;
   sigaction(SIGFPE, &old, 0);
   return ok;
}

static const Q& QINF() { static Q q = q_of_double(1e100); return q; }

static Q qpow10(long e)
{
   mpz_class p;
   mpz_ui_pow_ui(p.get_mpz_t(), 10, (unsigned long)(e < 0 ? -e : e));
   Q q(p);
   if(e < 0) q = 1 / q;
   return q;
}

// correctly rounded IEEE binary64 of an exact rational (round to nearest even, subnormals, overflow to inf)
static double round_to_double(const Q& q)
{
   mpfr_t x;
   mpfr_init2(x, 53);
   int t = mpfr_set_q(x, q.get_mpq_t(), MPFR_RNDN);
   t = mpfr_subnormalize(x, t, MPFR_RNDN);
   double d = mpfr_get_d(x, MPFR_RNDN);
   mpfr_clear(x);
   return d;
}

static std::string qshort(const Q& q)
{
   std::string s = q.get_str();
   if(s.size() > 70) s = s.substr(0, 30) + "...(" + std::to_string(s.size()) + " chars)";
   return s;
}
static std::string rawshort(mpq_srcptr r)
{
   char* n = mpz_get_str(0, 10, mpq_numref(r));
   char* d = mpz_get_str(0, 10, mpq_denref(r));
   std::string ns(n), ds(d);
   free(n); free(d);
   if(ns.size() > 40) ns = ns.substr(0, 20) + "...(" + std::to_string(ns.size()) + " digits)";
   if(ds.size() > 40) ds = ds.substr(0, 20) + "...(" + std::to_string(ds.size()) + " digits)";
   return ns + "/" + ds;
}

// ---------------------------------------------------------------------------------------------
// (a) literals
// ---------------------------------------------------------------------------------------------
static const char ALPHA[] = "+-0159.eE/";

struct Lit
{
   std::string s;
   bool neg = false, hasdot = false, hasexp = false, expneg = false, frac = false;
   std::string ip, fp, ed, den;
   long E = 0;           // signed exponent value
   bool mantzero = true;
   Q value;              // exact value denoted
   bool valid = false;   // matches the grammar
   bool denzero = false; // int/0: denotes no number
};

static bool isdig(char c) { return c >= '0' && c <= '9'; }

// wantValue = false: grammar check and features only (the exact value of 1e99999 has 100 000 digits; it is computed on demand)
static Lit parse_literal(const std::string& s, bool wantValue = true)
{
   Lit L;
   L.s = s;
   size_t i = 0, n = s.size();
   if(i < n && (s[i] == '+' || s[i] == '-')) { L.neg = s[i] == '-'; ++i; }
   while(i < n && isdig(s[i])) L.ip += s[i++];
   if(i < n && s[i] == '/')
   {
      if(L.ip.empty()) return L;
      ++i;
      while(i < n && isdig(s[i])) L.den += s[i++];
      if(L.den.empty() || i != n) return L;
      L.frac = true;
      L.valid = true;
      mpz_class num(L.ip, 10), den(L.den, 10);
      L.mantzero = num == 0;
      if(den == 0) { L.denzero = true; return L; }
      if(!wantValue) return L;
      L.value = Q(num, den);
      L.value.canonicalize();
      if(L.neg) L.value = -L.value;
      return L;
   }
   if(i < n && s[i] == '.')
   {
      L.hasdot = true;
      ++i;
      while(i < n && isdig(s[i])) L.fp += s[i++];
      if(L.fp.empty()) return L;
   }
   if(L.ip.empty() && L.fp.empty()) return L;
   if(i < n && (s[i] == 'e' || s[i] == 'E'))
   {
      L.hasexp = true;
      ++i;
      if(i < n && (s[i] == '+' || s[i] == '-')) { L.expneg = s[i] == '-'; ++i; }
      while(i < n && isdig(s[i])) L.ed += s[i++];
      if(L.ed.empty()) return L;
   }
   if(i != n) return L;
   L.valid = true;
   L.E = L.hasexp ? atol(L.ed.c_str()) * (L.expneg ? -1 : 1) : 0;
   mpz_class M(L.ip + L.fp, 10);
   L.mantzero = M == 0;
   if(!wantValue) return L;
   L.value = Q(M) * qpow10(L.E - (long)L.fp.size());
   L.value.canonicalize();
   if(L.neg) L.value = -L.value;
   return L;
}

static const char* lit_form(const Lit& L) { return L.frac ? "fraction" : L.hasexp ? "scientific" : L.hasdot ? "decimal" : "integer"; }

// necessary-condition tag for a wrong / rejected value (names the feature of the literal, not the literal)
static std::string tag_value(const Lit& L, bool realmode)
{
   if(realmode && L.frac) return "fraction";
   if(L.neg && L.hasdot && L.mantzero) return "minus-zero-decimal";
   if(L.hasexp && L.E > 308) return "exp>308";
   if(L.hasexp && L.E < 0) return "exp<0";
   if(L.hasexp && L.E > 22) return "exp>22";
   return std::string("other-") + lit_form(L);
}
static std::string tag_noncanon(const Lit& L) { return L.frac ? "fraction" : L.hasdot ? "decimal-point" : std::string("other-") + lit_form(L); }
static std::string tag_crash(const Lit& L) { return (L.hasexp && L.E > 308) ? "exp>308" : std::string("other-") + lit_form(L); }

static const char* CTXNAME[] = {"ratFromString", "LP-rational", "MPS-rational", "LP-real", "MPS-real"};
static const int NCTX = 5;

enum RatVerdict { RV_EXACT, RV_NONCANON, RV_WRONG, RV_BADDEN };
// judge a raw GMP rational against the exact value: canonical form by inspection, value by cross-multiplication
static RatVerdict judge_raw(mpq_srcptr r, const Q& want)
{
   if(mpz_sgn(mpq_denref(r)) <= 0) return RV_BADDEN;
   mpz_class a, b;
   mpz_mul(a.get_mpz_t(), mpq_numref(r), want.get_den_mpz_t());
   mpz_mul(b.get_mpz_t(), want.get_num_mpz_t(), mpq_denref(r));
   if(a != b) return RV_WRONG;
   mpz_class g;
   mpz_gcd(g.get_mpz_t(), mpq_numref(r), mpq_denref(r));
   if(mpz_sgn(mpq_numref(r)) == 0) return mpz_cmp_ui(mpq_denref(r), 1) == 0 ? RV_EXACT : RV_NONCANON;
   return g == 1 ? RV_EXACT : RV_NONCANON;
}

static std::string lit_case(const Lit& L, int ctx) { return "L|ctx=" + std::to_string(ctx) + "|lit=" + L.s; }

static void write_literal_file(const std::string& path, bool mps, const std::string& l)
{
   FILE* f = fopen(path.c_str(), "w");
   if(!f) { perror(path.c_str()); exit(3); }
   if(!mps)
   {
      fprintf(f, "Minimize\n obj: %s x + y\nSubject To\n c1: %s x + y >= %s\n c2: x + y <= %s\nBounds\n %s <= x\n y <= %s\nEnd\n",
              l.c_str(), l.c_str(), l.c_str(), l.c_str(), l.c_str(), l.c_str());
   }
   else
   {
      // same column layout as MPSwriteRecord: " II NNNNNNNN" then "NNNNNNNN  value" [ "   NNNNNNNN  value" ]
      fprintf(f, "NAME          LIT\nROWS\n N  obj\n G  c1\n L  c2\nCOLUMNS\n");
      fprintf(f, " %-2.2s %-8.8s%-8.8s  %s   %-8.8s  %s\n", "", "x", "obj", l.c_str(), "c1", l.c_str());
      fprintf(f, " %-2.2s %-8.8s%-8.8s  %s\n", "", "x", "c2", "1");
      fprintf(f, " %-2.2s %-8.8s%-8.8s  %s   %-8.8s  %s\n", "", "y", "c1", "1", "c2", l.c_str());
      fprintf(f, "RHS\n");
      fprintf(f, " %-2.2s %-8.8s%-8.8s  %s   %-8.8s  %s\n", "", "RHS", "c1", l.c_str(), "c2", l.c_str());
      fprintf(f, "BOUNDS\n");
      fprintf(f, " %-2.2s %-8.8s%-8.8s  %s\n", "LO", "BOUND", "x", l.c_str());
      fprintf(f, " %-2.2s %-8.8s%-8.8s  %s\n", "UP", "BOUND", "y", l.c_str());
      fprintf(f, "ENDATA\n");
   }
   fclose(f);
}

static uint64_t run_literal(const Lit& L, int ctx, Ctx& c)
{
   std::string cs = lit_case(L, ctx);
   const char* rd = CTXNAME[ctx];
   int keepfd = c.sink ? fileno(c.sink) : -1;
   c.count(std::string("lit.cases.") + rd);
   uint64_t h = 17;
   if(ctx == 0)
   {
      c.count(std::string("lit.form.") + lit_form(L));
      if(L.hasexp && L.E < 0) c.count("lit.class.negative_exponent");
      if(L.hasexp && L.E > 22) c.count("lit.class.exponent_above_22");
      if(L.hasexp && L.E > 308) c.count("lit.class.exponent_above_308");
      if(L.neg && L.hasdot && L.mantzero) c.count("lit.class.minus_zero_decimal");
      if(L.hasdot) c.count("lit.class.has_decimal_point");
      Rational r;
      std::string exc;
      bool thrown = false;
      bool alive = guarded([&]()
      {
         try { r = ratFromString(L.s.c_str()); }
         catch(const std::exception& e) { thrown = true; exc = e.what(); }
      }, keepfd);
      if(!alive)
      {
         c.count(std::string("lit.") + rd + ".sigfpe");
         c.violation(std::string("literal-crash:SIGFPE@") + rd + "[" + tag_crash(L) + "]", cs,
                     "ratFromString(\"" + L.s + "\") raises SIGFPE inside GMP (the process dies unless the signal is handled); the literal denotes " + qshort(L.value));
         return 4;
      }
      if(thrown)
      {
         c.count(std::string("lit.") + rd + ".rejected");
         c.violation(std::string("literal-rejected:") + rd + "[" + tag_value(L, false) + "]", cs,
                     "ratFromString(\"" + L.s + "\") throws " + exc + "; the literal denotes " + qshort(L.value));
         return 3;
      }
      RatVerdict v = judge_raw(r.backend().data(), L.value);
      // the public comparison must agree with cross-multiplication
      Rational w;
      mpq_set(w.backend().data(), L.value.get_mpq_t());
      bool pubeq = (v != RV_BADDEN) && (r == w);
      if(v == RV_WRONG || v == RV_BADDEN)
      {
         c.count(std::string("lit.") + rd + ".inexact");
         c.violation(std::string("literal-inexact:") + rd + "[" + tag_value(L, false) + "]", cs,
                     "ratFromString(\"" + L.s + "\") = " + rawshort(r.backend().data()) + ", the literal denotes " + qshort(L.value));
         return 5;
      }
      if(!pubeq)
         c.violation(std::string("literal-equal-but-operator==-false:") + rd + "[" + tag_noncanon(L) + "]", cs,
                     "value " + rawshort(r.backend().data()) + " equals " + qshort(L.value) + " by cross-multiplication but Rational::operator== says no");
      if(v == RV_NONCANON)
      {
         c.count(std::string("lit.") + rd + ".noncanonical");
         c.violation(std::string("literal-noncanonical:") + rd + "[" + tag_noncanon(L) + "]", cs,
                     "ratFromString(\"" + L.s + "\") = " + rawshort(r.backend().data()) + ": value-equal to " + qshort(L.value) + " but not in GMP canonical form (mpq functions require it)");
         return 7;
      }
      c.count(std::string("lit.") + rd + ".exact");
      if(c.wantSample()) c.sample("{\"literal\":" + jstr(L.s) + ",\"reader\":\"ratFromString\",\"exact\":" + jstr(qshort(L.value)) + ",\"verdict\":\"exact\"}");
      return 1;
   }
   bool mps = (ctx == 2 || ctx == 4), rat = (ctx == 1 || ctx == 2);
   std::string path = wfile(mps ? ".mps" : ".lp");
   write_literal_file(path, mps, L.s);
   if(rat)
   {
      // Does the direct conversion of this literal raise SIGFPE (observed, not predicted)?  Then the file is first read in a
      // child process with default signal actions and the way the child ends is the observation; nothing is leaked here.
      bool trapped = !guarded([&]() { try { Rational t = ratFromString(L.s.c_str()); (void)t; } catch(const std::exception&) {} }, keepfd);
      if(trapped)
      {
         c.count("lit.file_reads_in_child_process");
         fflush(stdout);
         pid_t pid = fork();
         if(pid == 0)
         {
            for(int sg : {SIGFPE, SIGABRT, SIGSEGV, SIGBUS, SIGILL}) signal(sg, SIG_DFL);
            SoPlex* Bc = new SoPlex;
            quiet(*Bc);
            Bc->setIntParam(SoPlex::READMODE, SoPlex::READMODE_RATIONAL);
            Bc->setIntParam(SoPlex::SYNCMODE, SoPlex::SYNCMODE_AUTO);
            bool okc = Bc->readFile(path.c_str(), nullptr, nullptr, nullptr);
            _exit(okc ? 0 : 1);
         }
         int st = 0;
         if(pid > 0) waitpid(pid, &st, 0);
         if(pid > 0 && WIFSIGNALED(st))
         {
            int sg = WTERMSIG(st);
            c.count(std::string("lit.") + rd + (sg == SIGFPE ? ".sigfpe" : ".killed_by_signal"));
            c.violation(std::string("literal-crash:") + (sg == SIGFPE ? "SIGFPE" : "sig" + std::to_string(sg)) + "@" + rd + "[" + tag_crash(L) + "]", cs,
                        std::string("a process that calls readFile (rational mode) on a ") + (mps ? "MPS" : "LP") + " file containing the literal " + L.s + " is killed by signal " + std::to_string(sg) + " raised inside GMP");
            return 4;
         }
      }
   }
   // the reading object lives on the heap: if GMP raises SIGFPE in the middle of readFile it is abandoned, not destroyed
   SoPlex* Bp = new SoPlex;
   SoPlex& B = *Bp;
   struct Holder { SoPlex* p; NameSet* a; NameSet* b; bool release = true; ~Holder() { if(release) { delete p; delete a; delete b; } } } hold{Bp, new NameSet, new NameSet};
   quiet(B);
   B.setIntParam(SoPlex::READMODE, rat ? SoPlex::READMODE_RATIONAL : SoPlex::READMODE_REAL);
   if(rat) B.setIntParam(SoPlex::SYNCMODE, SoPlex::SYNCMODE_AUTO);
   NameSet& rn = *hold.a;
   NameSet& cn = *hold.b;
   bool ok = false;
   bool alive = guarded([&]() { ok = B.readFile(path.c_str(), &rn, &cn, nullptr); }, keepfd);
   std::string tv = tag_value(L, !rat);
   if(!alive)
   {
      hold.release = false;
      c.count(std::string("lit.") + rd + ".sigfpe");
      c.violation(std::string("literal-crash:SIGFPE@") + rd + "[" + tag_crash(L) + "]", cs,
                  std::string("readFile raises SIGFPE inside GMP on a ") + (mps ? "MPS" : "LP") + " file that contains the literal " + L.s + " (the process dies unless the signal is handled)");
      return 4;
   }
   if(!ok)
   {
      c.count(std::string("lit.") + rd + ".rejected");
      c.violation(std::string("literal-rejected:") + rd + "[" + tv + "]", cs, std::string("readFile fails on a ") + (mps ? "MPS" : "LP") + " file that contains the literal " + L.s);
      return 3;
   }
   int ix = cn.number("x"), iy = cn.number("y"), r1 = rn.number("c1"), r2 = rn.number("c2");
   int nc = rat ? B.numColsRational() : B.numCols(), nr = rat ? B.numRowsRational() : B.numRows();
   if(ix < 0 || iy < 0 || r1 < 0 || r2 < 0 || nc != 2 || nr != 2)
   {
      c.count(std::string("lit.") + rd + ".misparsed");
      c.violation(std::string("literal-misparsed:") + rd + "[" + tv + "]", cs,
                  "file with literal " + L.s + " read as " + std::to_string(nr) + " rows x " + std::to_string(nc) + " columns (expected 2 x 2 named c1,c2 / x,y)");
      return 9;
   }
   int bad = 0, noncanon = 0;
   std::string detail;
   if(rat)
   {
      struct P { const char* what; Rational v; };
      std::vector<P> ps;
      ps.push_back({"objective coefficient", B.objRational(ix)});
      ps.push_back({"matrix coefficient", B.rowVectorRational(r1)[ix]});
      ps.push_back({"left-hand side", B.lhsRational(r1)});
      ps.push_back({"right-hand side", B.rhsRational(r2)});
      ps.push_back({"lower bound", B.lowerRational(ix)});
      ps.push_back({"upper bound", B.upperRational(iy)});
      if(mps) ps.push_back({"second matrix coefficient", B.rowVectorRational(r2)[iy]});
      for(auto& p : ps)
      {
         RatVerdict v = judge_raw(p.v.backend().data(), L.value);
         if(v == RV_WRONG || v == RV_BADDEN) { if(!bad) detail = std::string(p.what) + " read as " + rawshort(p.v.backend().data()); ++bad; }
         else if(v == RV_NONCANON) { if(!noncanon && !bad) detail = std::string(p.what) + " stored as " + rawshort(p.v.backend().data()); ++noncanon; }
         h = h * 31 + v;
      }
   }
   else
   {
      double want = round_to_double(L.value);
      struct P { const char* what; double v; };
      std::vector<P> ps;
      ps.push_back({"objective coefficient", (double)B.objReal(ix)});
      ps.push_back({"matrix coefficient", (double)B.rowVectorRealInternal(r1)[ix]});
      ps.push_back({"left-hand side", (double)B.lhsReal(r1)});
      ps.push_back({"right-hand side", (double)B.rhsReal(r2)});
      ps.push_back({"lower bound", (double)B.lowerReal(ix)});
      ps.push_back({"upper bound", (double)B.upperReal(iy)});
      if(mps) ps.push_back({"second matrix coefficient", (double)B.rowVectorRealInternal(r2)[iy]});
      for(auto& p : ps)
      {
         bool same = (p.v == want);
         if(!same) { if(!bad) detail = std::string(p.what) + " read as " + TinyLP::num(p.v) + ", correctly rounded double is " + TinyLP::num(want); ++bad; }
         h = h * 31 + (same ? 1 : 2);
      }
   }
   if(bad)
   {
      c.count(std::string("lit.") + rd + ".inexact");
      c.violation(std::string("literal-inexact:") + rd + "[" + tv + "]", cs,
                  "literal " + L.s + " (denotes " + qshort(L.value) + "): " + detail + " (" + std::to_string(bad) + " positions wrong)");
      return h;
   }
   if(noncanon)
   {
      c.count(std::string("lit.") + rd + ".noncanonical");
      c.violation(std::string("literal-noncanonical:") + rd + "[" + tag_noncanon(L) + "]", cs,
                  "literal " + L.s + ": " + detail + " - value-equal but not in GMP canonical form (" + std::to_string(noncanon) + " positions)");
      return h;
   }
   c.count(std::string("lit.") + rd + ".exact");
   if(c.wantSample() && (L.hasexp || L.frac))
      c.sample("{\"literal\":" + jstr(L.s) + ",\"reader\":" + jstr(rd) + ",\"exact\":" + jstr(qshort(L.value)) + ",\"verdict\":\"exact at 6-7 positions\"}");
   return h;
}

static void enumerate_literals(int maxlen, std::vector<std::string>& out, uint64_t& strings, uint64_t& zeroden)
{
   int na = (int)strlen(ALPHA);
   strings = 0;
   zeroden = 0;
   for(int len = 1; len <= maxlen; ++len)
   {
      std::vector<int> d(len, 0);
      std::string s(len, ALPHA[0]);
      for(;;)
      {
         ++strings;
         for(int k = 0; k < len; ++k) s[k] = ALPHA[d[k]];
         Lit L = parse_literal(s, false);
         if(L.valid) { if(L.denzero) ++zeroden; else out.push_back(s); }
         int k = len - 1;
         while(k >= 0 && ++d[k] == na) { d[k] = 0; --k; }
         if(k < 0) break;
      }
   }
}

static void exponent_family(std::vector<std::string>& out)
{
   const char* mant[] = {"1", "-1", "1.5", ".5", "-0.25", "9", "0", "123456789012345678901234567890", "0.000000000000000000000000000001",
                         "1.00000000000000000000000000001", "-999999999999999999999999999999.5", "4.9406564584124654", "1.7976931348623157", "2.2250738585072011"
                        };
   const long ex[] = {-400, -324, -323, -308, -23, -22, -1, 0, 1, 22, 23, 308, 309, 400};
   for(const char* m : mant)
      for(long e : ex)
         for(const char* ec : {"e", "E"})
            for(int sf = 0; sf < 2; ++sf)
            {
               if(e < 0 && sf == 1) continue;
               std::string s = std::string(m) + ec + (e < 0 ? "-" : sf ? "+" : "") + std::to_string(e < 0 ? -e : e);
               Lit L = parse_literal(s, false);
               if(L.valid && !L.denzero) out.push_back(s);
            }
   for(const char* f : {"123456789012345678901234567890/3", "1/123456789012345678901234567890", "-10/4", "+7/7", "0/5", "22/7", "100000000000000000000/100000000000000000001"})
   {
      Lit L = parse_literal(f, false);
      if(L.valid && !L.denzero) out.push_back(f);
   }
}

// ---------------------------------------------------------------------------------------------
// (b) round trips
// ---------------------------------------------------------------------------------------------
struct RTCfg
{
   int fmt = 0;     // 0 LP, 1 MPS
   int mode = 0;    // 0 real, 1 rational
   int wzo = 0;     // writeZeroObjective
   int names = 0;   // 0 default names (nullptr), 1 user names (one column and one row name have the full 8 characters), 2 user names of at most 7 characters
   int ints = 0;    // 0 no integer markers, 1 column 0, 2 all columns
   int scale = 0;   // real only: 0 LP not scaled; 1 persistently scaled, unscale=true; 2 persistently scaled, unscale=false
   int vm = 0;      // value map
   std::string str() const
   {
      return "fmt=" + std::to_string(fmt) + ",mode=" + std::to_string(mode) + ",wzo=" + std::to_string(wzo) + ",names=" + std::to_string(names) +
             ",ints=" + std::to_string(ints) + ",scale=" + std::to_string(scale) + ",vm=" + std::to_string(vm);
   }
   static RTCfg parse(const std::string& s)
   {
      RTCfg c;
      for(auto& f : split(s, ','))
      {
         size_t e = f.find('=');
         if(e == std::string::npos) continue;
         std::string k = f.substr(0, e);
         int v = atoi(f.c_str() + e + 1);
         if(k == "fmt") c.fmt = v; else if(k == "mode") c.mode = v; else if(k == "wzo") c.wzo = v; else if(k == "names") c.names = v;
         else if(k == "ints") c.ints = v; else if(k == "scale") c.scale = v; else if(k == "vm") c.vm = v;
      }
      return c;
   }
   std::string tag() const { return std::string(fmt ? "MPS" : "LP") + "," + (mode ? "rational" : "real"); }
};

static const char* UCOL[] = {"xa", "yb_col_2", "zc", "wd", "ve", "uf", "tg", "sh"};
static const char* UROW[] = {"ra", "rb_row_2", "rc", "rd"};
static const char* UCOL7[] = {"xa", "yb_col2", "zc", "wd", "ve", "uf", "tg", "sh"};
static const char* UROW7[] = {"ra", "rb_row2", "rc", "rd"};

// lint of a written MPS file: every blank-separated token of a data line must be an indicator, a known name or a number.
// Returns the first token that is none of these ("" if the file is clean).
static std::string mps_lint(const std::string& path, const std::vector<std::string>& cn, const std::vector<std::string>& rn)
{
   std::set<std::string> known = {"N", "L", "G", "E", "LO", "UP", "FX", "FR", "MI", "PL", "BV", "LI", "UI", "RHS", "BOUND", "RANGE", "MINIMIZE", "MARK0001", "'MARKER'", "'INTORG'", "'INTEND'"};
   for(auto& s : cn) known.insert(s);
   for(auto& s : rn) known.insert(s);
   std::ifstream in(path);
   std::string line;
   while(std::getline(in, line))
   {
      if(line.empty() || line[0] != ' ') continue;
      std::istringstream ls(line);
      std::string tok;
      while(ls >> tok)
      {
         if(known.count(tok)) continue;
         char* end = nullptr;
         strtod(tok.c_str(), &end);
         bool num = end && *end == 0;
         if(!num && tok.find('/') != std::string::npos)
         {
            // rational "p/q"
            size_t k = tok.find('/');
            std::string a = tok.substr(0, k), b = tok.substr(k + 1);
            num = !a.empty() && !b.empty() && a.find_first_not_of("-0123456789") == std::string::npos && b.find_first_not_of("0123456789") == std::string::npos;
         }
         if(!num) return tok;
      }
   }
   return "";
}

// value maps: structural data (small integers) -> numerically interesting data.  Real mode: the product is formed in double
// arithmetic and the model is the exact value of the resulting double; rational mode: exact rational factors.
struct VMap { double rA, rc, rb, rs; const char* qA; const char* qc; const char* qb; const char* qs; };
static const VMap VM[] =
{
   {1, 1, 1, 1, "1", "1", "1", "1"},
   {0.1, 1.0 / 3.0, 123456.789, 1e-7, "1/10", "1/3", "123456789/1000", "1/10000000"},
   {8, 0.25, 1000000000000001.0, 9.5367431640625e-07, "1000000000000000000000000000001", "1/1000000000000000000000000000000", "2/7", "1000000000000001/3"},
   {0, 0, 0, 0, "0", "0", "0", "0"}     // 3 = power-of-two skew, position dependent (see below)
};
static double skewA(int i, int j) { return ldexp(1.0, 4 * i - 3 * j + 1); }
static double skewc(int j) { return ldexp(1.0, j); }
static double skewb(int j) { return ldexp(1.0, 2 - j); }
static double skews(int i) { return ldexp(1.0, i + 1); }

static TinyLP map_real(const TinyLP& lp, int vm)
{
   if(vm == 0) return lp;
   TinyLP o = lp;
   auto fin = [](double v) { return v < INF && v > -INF; };
   for(int j = 0; j < lp.n; ++j)
   {
      o.c[j] = lp.c[j] * (vm == 3 ? skewc(j) : VM[vm].rc);
      if(fin(lp.lo[j])) o.lo[j] = lp.lo[j] * (vm == 3 ? skewb(j) : VM[vm].rb);
      if(fin(lp.up[j])) o.up[j] = lp.up[j] * (vm == 3 ? skewb(j) : VM[vm].rb);
   }
   for(int i = 0; i < lp.m; ++i)
   {
      if(fin(lp.lhs[i])) o.lhs[i] = lp.lhs[i] * (vm == 3 ? skews(i) : VM[vm].rs);
      if(fin(lp.rhs[i])) o.rhs[i] = lp.rhs[i] * (vm == 3 ? skews(i) : VM[vm].rs);
      for(int j = 0; j < lp.n; ++j) o.A[i][j] = lp.A[i][j] * (vm == 3 ? skewA(i, j) : VM[vm].rA);
   }
   return o;
}
static XLP map_rational(const TinyLP& lp, int vm)
{
   XLP x = lp.exact();
   if(vm == 0) return x;
   if(vm == 3) return map_real(lp, 3).exact();
   Q fA(VM[vm].qA), fc(VM[vm].qc), fb(VM[vm].qb), fs(VM[vm].qs);
   fA.canonicalize(); fc.canonicalize(); fb.canonicalize(); fs.canonicalize();
   for(int j = 0; j < x.n; ++j)
   {
      x.c[j] *= fc;
      if(x.lo[j].fin()) x.lo[j].v *= fb;
      if(x.up[j].fin()) x.up[j].v *= fb;
   }
   for(int i = 0; i < x.m; ++i)
   {
      if(x.lhs[i].fin()) x.lhs[i].v *= fs;
      if(x.rhs[i].fin()) x.rhs[i].v *= fs;
      for(int j = 0; j < x.n; ++j) x.A[i][j] *= fA;
   }
   return x;
}

static Rational toRat(const Q& q) { Rational r; mpq_set(r.backend().data(), q.get_mpq_t()); return r; }
static Rational toRat(const Ext& e) { return e.inf > 0 ? Rational(1e100) : e.inf < 0 ? Rational(-1e100) : toRat(e.v); }
static Q fromRat(const Rational& r) { Q q(r.backend().data()); q.canonicalize(); return q; }
static Ext extFromRat(const Rational& r)
{
   Q q = fromRat(r);
   if(q >= QINF()) return Ext::pinf();
   if(q <= -QINF()) return Ext::minf();
   return Ext(q);
}

static void load_rational(SoPlex& A, const XLP& x)
{
   A.setIntParam(SoPlex::SYNCMODE, SoPlex::SYNCMODE_AUTO);
   A.setIntParam(SoPlex::OBJSENSE, x.maximize ? SoPlex::OBJSENSE_MAXIMIZE : SoPlex::OBJSENSE_MINIMIZE);
   DSVectorRational empty(0);
   for(int j = 0; j < x.n; ++j) A.addColRational(LPColRational(toRat(x.c[j]), empty, toRat(x.up[j]), toRat(x.lo[j])));
   for(int i = 0; i < x.m; ++i)
   {
      DSVectorRational row(x.n);
      for(int j = 0; j < x.n; ++j) if(x.A[i][j] != 0) row.add(j, toRat(x.A[i][j]));
      A.addRowRational(LPRowRational(toRat(x.lhs[i]), row, toRat(x.rhs[i])));
   }
}

struct ECol { std::string name; Q obj; Ext lo, up; bool isint; int src; };
struct ERow { std::string name; Ext lhs, rhs; int src; bool rangedMps; };
struct Expect { bool maximize; std::vector<ECol> cols; std::vector<ERow> rows; };

static bool row_is_ranged(const XLP& x, int i) { return x.lhs[i].fin() && x.rhs[i].fin() && x.lhs[i].v != x.rhs[i].v; }
static bool row_is_free(const XLP& x, int i) { return !x.lhs[i].fin() && !x.rhs[i].fin(); }
static bool row_is_empty(const XLP& x, int i) { for(int j = 0; j < x.n; ++j) if(x.A[i][j] != 0) return false; return true; }
static bool col_is_empty(const XLP& x, int j) { for(int i = 0; i < x.m; ++i) if(x.A[i][j] != 0) return false; return true; }

static Expect build_expect(const XLP& x, const RTCfg& cfg, const std::vector<std::string>& cn, const std::vector<std::string>& rn, const std::vector<bool>& isint)
{
   Expect e;
   bool mps = cfg.fmt == 1;
   e.maximize = mps ? false : x.maximize;                      // MPS: maximisation is written as minimisation of the negated objective
   for(int j = 0; j < x.n; ++j)
      e.cols.push_back({cn[j], (mps && x.maximize) ? Q(-x.c[j]) : x.c[j], x.lo[j], x.up[j], (bool)isint[j], j});
   for(int i = 0; i < x.m; ++i)
   {
      if(!mps && row_is_ranged(x, i))
      {
         // LP format: ranged row r becomes r_1 (>= lhs) and r_2 (<= rhs)
         e.rows.push_back({rn[i] + "_1", x.lhs[i], Ext::pinf(), i, false});
         e.rows.push_back({rn[i] + "_2", Ext::minf(), x.rhs[i], i, false});
      }
      else
         e.rows.push_back({rn[i], x.lhs[i], x.rhs[i], i, mps && row_is_ranged(x, i)});
   }
   return e;
}

// floating-point MPS prints %.15f: the re-read value must be the double nearest to the 15-decimal rounding of the original
static bool mps15_ok(const Q& orig, double got)
{
   static const Q P15 = qpow10(15);
   Q scaled = orig * P15;
   mpz_class fl;
   mpz_fdiv_q(fl.get_mpz_t(), scaled.get_num_mpz_t(), scaled.get_den_mpz_t());
   Q lo = Q(fl) / P15, hi = Q(fl + 1) / P15;
   Q half = Q(1, 2) / P15;
   if(qabs(orig - lo) <= half && round_to_double(lo) == got) return true;
   if(qabs(orig - hi) <= half && round_to_double(hi) == got) return true;
   return false;
}

struct Cmp
{
   const RTCfg& cfg;
   // compares one real value; returns "" or a description
   std::string real(double got, const Ext& want, bool rangedSum = false, const Q* scale = nullptr) const
   {
      if(std::isnan(got)) return "NaN";
      Ext g = ext_of_double(got);
      if(!want.fin() || !g.fin())
         return (g.inf == want.inf && (g.fin() == want.fin())) ? "" : "got " + TinyLP::num(got) + ", expected " + want.str();
      if(cfg.fmt == 0) return g.v == want.v ? "" : "got " + TinyLP::num(got) + ", expected exactly " + want.v.get_str();
      if(mps15_ok(want.v, got)) return "";
      if(rangedSum && scale)
      {
         // rhs of a ranged row is re-assembled as lhs + range in double arithmetic from two 15-decimal values
         Q tol = Q(1) / qpow10(15) + (*scale) / Q(mpz_class(1) << 51);
         if(qabs(g.v - want.v) <= tol) return "";
      }
      return "got " + TinyLP::num(got) + ", expected " + want.v.get_str() + " to 15 decimals";
   }
   std::string rat(const Rational& got, const Ext& want) const
   {
      Ext g = extFromRat(got);
      if(g == want) return "";
      return "got " + qshort(fromRat(got)) + ", expected " + want.str();
   }
};

// re-read LP equals the model up to positive power-of-two row and column scaling?
static std::string scaled_equiv(const XLP& M, const XLP& R, bool& trivial)
{
   int n = M.n, m = M.m;
   std::vector<Q> r(m, Q(0)), c(n, Q(0));   // 0 = unknown
   auto setf = [](Q & slot, const Q & v) -> bool { if(slot == 0) { slot = v; return true; } return slot == v; };
   auto extratio = [&](const Ext & a, const Ext & b, bool inverse, Q & slot) -> std::string
   {
      if(a.inf != b.inf) return "infinite bound/side changed";
      if(!a.fin()) return "";
      if((a.v == 0) != (b.v == 0)) return "zero pattern changed";
      if(a.v == 0) return "";
      Q f = inverse ? Q(a.v / b.v) : Q(b.v / a.v);
      if(f <= 0) return "sign changed";
      return setf(slot, f) ? "" : "inconsistent scale factors";
   };
   for(int j = 0; j < n; ++j)
   {
      if((M.c[j] == 0) != (R.c[j] == 0)) return "objective zero pattern changed";
      if(M.c[j] != 0) { Q f = R.c[j] / M.c[j]; if(f <= 0) return "objective sign changed"; if(!setf(c[j], f)) return "inconsistent column factors"; }
      std::string s = extratio(M.lo[j], R.lo[j], true, c[j]);
      if(!s.empty()) return "lower: " + s;
      s = extratio(M.up[j], R.up[j], true, c[j]);
      if(!s.empty()) return "upper: " + s;
   }
   for(int i = 0; i < m; ++i)
   {
      std::string s = extratio(M.lhs[i], R.lhs[i], false, r[i]);
      if(!s.empty()) return "lhs: " + s;
      s = extratio(M.rhs[i], R.rhs[i], false, r[i]);
      if(!s.empty()) return "rhs: " + s;
   }
   for(int i = 0; i < m; ++i) for(int j = 0; j < n; ++j) if((M.A[i][j] == 0) != (R.A[i][j] == 0)) return "matrix zero pattern changed";
   bool changed = true;
   while(changed)
   {
      changed = false;
      for(int i = 0; i < m; ++i)
         for(int j = 0; j < n; ++j)
         {
            if(M.A[i][j] == 0) continue;
            Q e = R.A[i][j] / M.A[i][j];
            if(e <= 0) return "matrix sign changed";
            if(r[i] != 0 && c[j] == 0) { c[j] = e / r[i]; changed = true; }
            else if(r[i] == 0 && c[j] != 0) { r[i] = e / c[j]; changed = true; }
         }
      if(!changed)
      {
         // an undetermined component: fix one free factor to 1 and continue
         for(int i = 0; i < m && !changed; ++i)
            for(int j = 0; j < n && !changed; ++j)
               if(M.A[i][j] != 0 && r[i] == 0 && c[j] == 0) { r[i] = 1; changed = true; }
      }
   }
   for(int i = 0; i < m; ++i) if(r[i] == 0) r[i] = 1;
   for(int j = 0; j < n; ++j) if(c[j] == 0) c[j] = 1;
   for(int i = 0; i < m; ++i) for(int j = 0; j < n; ++j) if(M.A[i][j] != 0 && R.A[i][j] != r[i] * M.A[i][j] * c[j]) return "matrix entry not r_i * a_ij * c_j";
   auto pow2 = [](const Q & f)
   {
      mpz_class a = f.get_num(), b = f.get_den();
      auto isp2 = [](const mpz_class & z) { return z > 0 && mpz_popcount(z.get_mpz_t()) == 1; };
      return isp2(a) && isp2(b) && (a == 1 || b == 1);
   };
   trivial = true;
   for(auto& f : r) { if(!pow2(f)) return "row factor " + f.get_str() + " is not a power of two"; if(f != 1) trivial = false; }
   for(auto& f : c) { if(!pow2(f)) return "column factor " + f.get_str() + " is not a power of two"; if(f != 1) trivial = false; }
   return "";
}

static std::string col_tag(const XLP& x, int j, const std::vector<bool>& isint)
{
   std::string t = col_is_empty(x, j) ? "empty-col" : "nonempty-col";
   t += x.c[j] == 0 ? ",zero-cost" : ",nonzero-cost";
   if(isint[j]) t += ",int";
   return t;
}
static std::string bound_tag(const Ext& e) { return e.fin() ? (e.v == 0 ? "zero" : "finite") : "infinite"; }

struct RTCase { TinyLP base; RTCfg cfg; };
static std::string rt_case(const RTCase& k) { return "R|" + k.cfg.str() + "|" + k.base.str(); }

// one write / read-back / compare; returns a digest
static uint64_t run_roundtrip(const RTCase& k, Ctx& c)
{
   const RTCfg& cfg = k.cfg;
   std::string cs = rt_case(k);
   bool mps = cfg.fmt == 1, rat = cfg.mode == 1;
   TinyLP rl;
   XLP model;
   if(rat) model = map_rational(k.base, cfg.vm);
   else { rl = map_real(k.base, cfg.vm); model = rl.exact(); }
   int n = model.n, m = model.m;
   std::vector<bool> isint(n, false);
   if(cfg.ints == 1 && n > 0) isint[0] = true;
   if(cfg.ints == 2) isint.assign(n, true);
   std::vector<std::string> cn(n), rn(m);
   for(int j = 0; j < n; ++j) cn[j] = cfg.names ? std::string((cfg.names == 1 ? UCOL : UCOL7)[j % 8]) : "x" + std::to_string(j);
   for(int i = 0; i < m; ++i) rn[i] = cfg.names ? std::string((cfg.names == 1 ? UROW : UROW7)[i % 4]) : "C" + std::to_string(i);
   std::string sfx = "@" + cfg.tag();
   c.count("rt.roundtrips");
   c.count("rt.cfg." + cfg.tag());
   bool anyFree = false, anyRanged = false, anyEmptyRow = false, anyEmptyCol = false, zeroObj = true, nz = false;
   for(int i = 0; i < m; ++i) { anyFree |= row_is_free(model, i); anyRanged |= row_is_ranged(model, i); anyEmptyRow |= row_is_empty(model, i); }
   for(int j = 0; j < n; ++j) { anyEmptyCol |= col_is_empty(model, j); if(model.c[j] != 0) zeroObj = false; }
   for(int i = 0; i < m; ++i) for(int j = 0; j < n; ++j) if(model.A[i][j] != 0) nz = true;
   if(anyFree) c.count("rt.feature.free_row");
   if(anyRanged) c.count("rt.feature.ranged_row");
   if(anyEmptyRow) c.count("rt.feature.empty_row");
   if(anyEmptyCol) c.count("rt.feature.empty_col");
   if(zeroObj) c.count("rt.feature.zero_objective");
   if(cfg.ints) c.count("rt.feature.int_markers");
   if(cfg.names) c.count(cfg.names == 1 ? "rt.feature.user_names_8_characters" : "rt.feature.user_names_short");
   if(cfg.wzo) c.count("rt.feature.write_zero_objective");
   if(model.maximize && mps) c.count("rt.feature.mps_max_inverted");
   if(anyRanged && !mps) c.count("rt.feature.lp_ranged_split");
   if(nz) c.count("rt.nontrivial");

   // --- object A: enter the LP, write the file
   SoPlex A;
   quiet(A);
   NameSet ucn, urn;
   DIdxSet iv;
   if(cfg.names) { for(auto& s : cn) ucn.add(s.c_str()); for(auto& s : rn) urn.add(s.c_str()); }
   for(int j = 0; j < n; ++j) if(isint[j]) iv.addIdx(j);
   if(rat) load_rational(A, model);
   else
   {
      load_real(A, rl, 0);
      A.setRealParam(SoPlex::OBJ_OFFSET, 0.0);
      if(cfg.scale)
      {
         A.setBoolParam(SoPlex::PERSISTENTSCALING, true);
         A.setIntParam(SoPlex::SCALER, SoPlex::SCALER_BIEQUI);
         A.setIntParam(SoPlex::SIMPLIFIER, SoPlex::SIMPLIFIER_OFF);
         A.optimize();
         if(A._realLP->isScaled()) c.count("rt.scaled.lp_is_scaled"); else c.count("rt.scaled.lp_not_scaled");
      }
   }
   std::string path = wfile(mps ? ".mps" : ".lp");
   if(truncate(path.c_str(), 0) != 0) {}      // a stale file of an earlier case must never be read back (no unlink: keeps the file system quiet)
   try
   {
      bool ok;
      if(rat) ok = A.writeFileRational(path.c_str(), cfg.names ? &urn : nullptr, cfg.names ? &ucn : nullptr, cfg.ints ? &iv : nullptr, cfg.wzo != 0);
      else ok = A.writeFileReal(path.c_str(), cfg.names ? &urn : nullptr, cfg.names ? &ucn : nullptr, cfg.ints ? &iv : nullptr, cfg.scale != 2, cfg.wzo != 0);
      if(!ok)
      {
         c.violation("roundtrip:write-returned-false" + sfx, cs, "writeFile returned false");
         return 2;
      }
   }
   catch(const SPxException& e)
   {
      std::string w = e.what();
      std::string code = w.substr(0, w.find(' '));
      c.count("rt.write_exception");
      c.violation("roundtrip:write-exception:" + code + sfx + (anyFree ? ",free-row" : ",no-free-row"), cs, "writeFile throws SPxException: " + w);
      return 3;
   }

   if(mps)
   {
      // the written text itself: fields of a record must be separated (an 8-character name may not run into the next field)
      std::string tok = mps_lint(path, cn, rn);
      if(!tok.empty())
      {
         bool merged = false;
         for(auto& a : cn) if(a.size() == 8 && tok.size() > 8 && tok.compare(0, 8, a) == 0) merged = true;
         for(auto& a : rn) if(a.size() == 8 && tok.size() > 8 && tok.compare(0, 8, a) == 0) merged = true;
         c.count("rt.mps_lint_failed");
         c.violation(std::string("roundtrip:") + (merged ? "mps-fields-not-separated" : "mps-unknown-token") + sfx, cs,
                     "written MPS file contains the token '" + tok + "'" + (merged ? ": an 8-character name is written without a separator before the next field" : ""));
         return 8;
      }
   }
   // --- object B: read back
   SoPlex B;
   quiet(B);
   B.setIntParam(SoPlex::READMODE, rat ? SoPlex::READMODE_RATIONAL : SoPlex::READMODE_REAL);
   if(rat) B.setIntParam(SoPlex::SYNCMODE, SoPlex::SYNCMODE_AUTO);
   NameSet brn, bcn;
   DIdxSet biv;
   bool ok = B.readFile(path.c_str(), &brn, &bcn, &biv);
   if(!ok)
   {
      std::string f = std::string(anyFree ? "free-row," : "") + (anyEmptyRow ? "empty-row," : "") + (anyEmptyCol ? "empty-col," : "") + (cfg.ints ? "ints," : "") + (cfg.names ? "names," : "");
      c.violation("roundtrip:read-failed" + sfx + "[" + f + "]", cs, "readFile rejects the file written by writeFile");
      return 4;
   }
   c.count("rt.read_ok");
   Expect ex = build_expect(model, cfg, cn, rn, isint);
   Cmp cmp{cfg};
   int nB = rat ? B.numColsRational() : B.numCols(), mB = rat ? B.numRowsRational() : B.numRows();
   uint64_t h = 29;
   int nviol = 0;
   auto viol = [&](const std::string & rule, const std::string & tag, const std::string & detail)
   {
      c.violation("roundtrip:" + rule + sfx + (tag.empty() ? "" : "[" + tag + "]"), cs, detail);
      ++nviol;
      h = h * 31 + fnv_str(rule);
   };
   // sense
   bool bmax = B.intParam(SoPlex::OBJSENSE) == SoPlex::OBJSENSE_MAXIMIZE;
   if(bmax != ex.maximize) viol("sense-mismatch", "", std::string("re-read LP is ") + (bmax ? "max" : "min") + ", expected " + (ex.maximize ? "max" : "min"));
   // columns by name
   std::vector<int> jB(ex.cols.size(), -1);
   int found = 0;
   for(size_t t = 0; t < ex.cols.size(); ++t)
   {
      jB[t] = bcn.number(ex.cols[t].name.c_str());
      if(jB[t] < 0 || jB[t] >= nB)
      {
         jB[t] = -1;
         viol("column-lost", col_tag(model, ex.cols[t].src, isint) + ",wzo=" + std::to_string(cfg.wzo),
              "column " + ex.cols[t].name + " of the written LP does not exist after reading the file back (" + std::to_string(nB) + " columns instead of " + std::to_string(n) + ")");
      }
      else ++found;
   }
   if(nB != found) viol("column-extra", "", "re-read LP has " + std::to_string(nB) + " columns, " + std::to_string(found) + " of them expected");
   std::vector<int> iB(ex.rows.size(), -1);
   int rfound = 0;
   for(size_t t = 0; t < ex.rows.size(); ++t)
   {
      iB[t] = brn.number(ex.rows[t].name.c_str());
      if(iB[t] < 0 || iB[t] >= mB)
      {
         iB[t] = -1;
         viol("row-lost", std::string(row_is_empty(model, ex.rows[t].src) ? "empty-row" : "nonempty-row") + (row_is_free(model, ex.rows[t].src) ? ",free" : ""),
              "row " + ex.rows[t].name + " does not exist after reading the file back (" + std::to_string(mB) + " rows, expected " + std::to_string(ex.rows.size()) + ")");
      }
      else ++rfound;
   }
   if(mB != rfound) viol("row-extra", "", "re-read LP has " + std::to_string(mB) + " rows, " + std::to_string(rfound) + " of them expected");

   if(cfg.scale == 2 && !rat)
   {
      // file holds the persistently scaled LP: must be the model up to positive power-of-two row / column scaling
      if(nviol == 0)
      {
         XLP R;
         R.resize(n, m);
         R.maximize = bmax;
         for(int j = 0; j < n; ++j)
         {
            R.c[j] = q_of_double(B.objReal(jB[j]));
            R.lo[j] = ext_of_double(B.lowerReal(jB[j]));
            R.up[j] = ext_of_double(B.upperReal(jB[j]));
         }
         bool usable = true;
         std::vector<int> rowOf(m, -1), row2(m, -1);
         for(size_t t = 0; t < ex.rows.size(); ++t) { if(rowOf[ex.rows[t].src] < 0) rowOf[ex.rows[t].src] = iB[t]; else row2[ex.rows[t].src] = iB[t]; }
         for(int i = 0; i < m && usable; ++i)
         {
            R.lhs[i] = ext_of_double(B.lhsReal(rowOf[i]));
            R.rhs[i] = ext_of_double(B.rhsReal(rowOf[i]));
            for(int j = 0; j < n; ++j) R.A[i][j] = q_of_double(B.rowVectorRealInternal(rowOf[i])[jB[j]]);
            if(row2[i] >= 0)
            {
               // LP format split a ranged row: r_1 carries the left-hand side, r_2 the right-hand side, both the same vector
               c.count("rt.scaled.split_rows_recombined");
               if(R.rhs[i].inf <= 0 || ext_of_double(B.lhsReal(row2[i])).inf >= 0) { viol("scaled-file-not-equivalent", "", "split ranged row has unexpected sides"); usable = false; break; }
               R.rhs[i] = ext_of_double(B.rhsReal(row2[i]));
               for(int j = 0; j < n; ++j)
                  if(R.A[i][j] != q_of_double(B.rowVectorRealInternal(row2[i])[jB[j]])) { viol("scaled-file-not-equivalent", "", "the two halves of a split ranged row have different vectors"); usable = false; break; }
            }
         }
         if(usable)
         {
            XLP Mx = model;
            if(mps && model.maximize) for(int j = 0; j < n; ++j) Mx.c[j] = -Mx.c[j];
            bool trivial = true;
            std::string why = scaled_equiv(Mx, R, trivial);
            if(!why.empty()) viol("scaled-file-not-equivalent", "", "file written with unscale=false is not a power-of-two row/column scaling of the LP: " + why);
            else c.count(trivial ? "rt.scaled.file_factors_all_one" : "rt.scaled.file_factors_nontrivial");
         }
      }
      for(size_t t = 0; t < ex.cols.size(); ++t) if(jB[t] >= 0 && (biv.pos(jB[t]) >= 0) != ex.cols[t].isint) viol("int-marker-mismatch", "", "column " + ex.cols[t].name);
      if(nviol == 0) c.count("rt.equivalent");
      return h;
   }

   for(size_t t = 0; t < ex.cols.size(); ++t)
   {
      if(jB[t] < 0) continue;
      const ECol& e = ex.cols[t];
      int j = jB[t];
      std::string s;
      s = rat ? cmp.rat(B.objRational(j), Ext(e.obj)) : cmp.real(B.objReal(j), Ext(e.obj));
      if(!s.empty()) viol("objective-mismatch", "", "objective coefficient of " + e.name + ": " + s);
      s = rat ? cmp.rat(B.lowerRational(j), e.lo) : cmp.real(B.lowerReal(j), e.lo);
      if(!s.empty()) viol("lower-mismatch", bound_tag(e.lo) + (e.isint ? ",int" : ""), "lower bound of " + e.name + ": " + s);
      s = rat ? cmp.rat(B.upperRational(j), e.up) : cmp.real(B.upperReal(j), e.up);
      if(!s.empty()) viol("upper-mismatch", bound_tag(e.up) + (e.isint ? ",int" : ""), "upper bound of " + e.name + ": " + s);
      if((biv.pos(j) >= 0) != e.isint)
         viol("int-marker-mismatch", e.isint ? "lost" : std::string("spurious") + ((!e.lo.fin() && e.up.fin()) ? ",lower=-inf,finite-upper" : ""), "column " + e.name + (e.isint ? " was written as integer and is read as continuous" : " is read as integer"));
   }
   for(size_t t = 0; t < ex.rows.size(); ++t)
   {
      if(iB[t] < 0) continue;
      const ERow& e = ex.rows[t];
      int i = iB[t];
      std::string s;
      Q scl = 0;
      if(e.rangedMps) scl = std::max(qabs(e.lhs.v), qabs(e.rhs.v));
      s = rat ? cmp.rat(B.lhsRational(i), e.lhs) : cmp.real(B.lhsReal(i), e.lhs);
      if(!s.empty()) viol("lhs-mismatch", bound_tag(e.lhs), "left-hand side of " + e.name + ": " + s);
      s = rat ? cmp.rat(B.rhsRational(i), e.rhs) : cmp.real(B.rhsReal(i), e.rhs, e.rangedMps, &scl);
      if(!s.empty()) viol("rhs-mismatch", bound_tag(e.rhs) + (e.rangedMps ? ",ranged" : ""), "right-hand side of " + e.name + ": " + s);
      for(size_t u = 0; u < ex.cols.size(); ++u)
      {
         if(jB[u] < 0) continue;
         const Q& a = model.A[e.src][ex.cols[u].src];
         s = rat ? cmp.rat(B.rowVectorRational(i)[jB[u]], Ext(a)) : cmp.real(B.rowVectorRealInternal(i)[jB[u]], Ext(a));
         if(!s.empty()) viol("coefficient-mismatch", "", "coefficient (" + e.name + "," + ex.cols[u].name + "): " + s);
      }
   }
   if(nviol == 0)
   {
      c.count("rt.equivalent");
      if(c.wantSample() && nz && (anyRanged || cfg.vm))
         c.sample("{\"roundtrip\":" + jstr(cfg.str()) + ",\"lp\":" + jstr(model.str()) + ",\"verdict\":\"re-read LP equivalent\"}");
   }
   return h;
}

// --- dual writer -------------------------------------------------------------------------------
static uint64_t run_dual(const TinyLP& lp, int fmt, int wzo, Ctx& c)
{
   std::string cs = "D|fmt=" + std::to_string(fmt) + ",wzo=" + std::to_string(wzo) + "|" + lp.str();
   std::string sfx = std::string("@") + (fmt ? "MPS" : "LP");
   XLP model = lp.exact();
   c.count("dual.cases");
   SoPlex A;
   quiet(A);
   load_real(A, lp, 0);
   std::string path = wfile(fmt ? ".mps" : ".lp");
   if(truncate(path.c_str(), 0) != 0) {}
   bool anyFree = false;
   for(int i = 0; i < model.m; ++i) anyFree |= row_is_free(model, i);
   try
   {
      A.writeDualFileReal(path.c_str(), nullptr, nullptr, nullptr, wzo != 0);
   }
   catch(const SPxException& e)
   {
      std::string w = e.what();
      c.violation("dual:write-exception:" + w.substr(0, w.find(' ')) + sfx + (anyFree ? ",free-row" : ",no-free-row"), cs, "writeDualFileReal throws " + w);
      return 3;
   }
   SoPlex B;
   quiet(B);
   B.setIntParam(SoPlex::READMODE, SoPlex::READMODE_REAL);
   NameSet brn, bcn;
   if(!B.readFile(path.c_str(), &brn, &bcn, nullptr))
   {
      c.violation("dual:read-failed" + sfx + (anyFree ? ",free-row" : ",no-free-row"), cs, "the dual file cannot be read back");
      return 4;
   }
   XLP D;
   int n = B.numCols(), m = B.numRows();
   D.resize(n, m);
   D.maximize = B.intParam(SoPlex::OBJSENSE) == SoPlex::OBJSENSE_MAXIMIZE;
   for(int j = 0; j < n; ++j) { D.c[j] = q_of_double(B.objReal(j)); D.lo[j] = ext_of_double(B.lowerReal(j)); D.up[j] = ext_of_double(B.upperReal(j)); }
   for(int i = 0; i < m; ++i)
   {
      D.lhs[i] = ext_of_double(B.lhsReal(i)); D.rhs[i] = ext_of_double(B.rhsReal(i));
      const SVectorBase<double>& v = B.rowVectorRealInternal(i);
      for(int k = 0; k < v.size(); ++k) D.A[i][v.index(k)] = q_of_double(v.value(k));
   }
   Classification cp = classify(model), cd = classify(D);
   c.count(std::string("dual.primal.") + cp.name());
   c.count(std::string("dual.dual.") + cd.name());
   bool inverted = fmt == 1 && !model.maximize;     // dual of a min problem is a max problem, written inverted in MPS
   std::string ptag = std::string(anyFree ? "free-row" : "no-free-row");
   if(cp.hasopt != cd.hasopt)
   {
      c.violation(std::string("dual:") + (cp.hasopt ? "primal-has-optimum-dual-has-none" : "dual-has-optimum-primal-has-none") + sfx + "[" + ptag + ",primal=" + cp.name() + ",dual=" + cd.name() + "]", cs,
                  "primal " + model.str() + " is " + cp.name() + (cp.hasopt ? " with optimum " + cp.opt.get_str() : "") + "; written dual " + D.str() + " is " + cd.name() + (cd.hasopt ? " with optimum " + cd.opt.get_str() : ""));
      return 5;
   }
   if(cp.hasopt)
   {
      Q dv = inverted ? Q(-cd.opt) : cd.opt;
      if(dv != cp.opt)
      {
         c.violation("dual:optimal-value-differs" + sfx + "[" + ptag + "]", cs, "primal optimum " + cp.opt.get_str() + ", dual file optimum " + dv.get_str() + " (dual LP: " + D.str() + ")");
         return 6;
      }
      c.count("dual.equal_finite_optimum");
      if(c.wantSample() && model.m > 0 && cp.opt != 0)
         c.sample("{\"dual_writer\":" + jstr(fmt ? "MPS" : "LP") + ",\"primal\":" + jstr(model.str()) + ",\"optimum\":" + jstr(cp.opt.get_str()) + ",\"dual\":" + jstr(D.str()) + "}");
   }
   else c.count("dual.both_without_optimum");
   return 7 + (cp.hasopt ? 1 : 0);
}

// ---------------------------------------------------------------------------------------------
// replay
// ---------------------------------------------------------------------------------------------

// --- exact rational round trips with values that are NOT doubles ------------------------------------------------------------------
// LP: min c0 x0 + x1;  row0: L <= a x0 + 3 x1 <= R;  row1: x0 - x1 >= -2;  lo0 <= x0 <= up0;  x1 >= 0.  One "slot pattern" takes menu values, everything
// else stays at harmless defaults.  Written with writeFileRational (LP / MPS), read back in rational read mode, compared EXACTLY; rows are compared through the
// interval [max lhs, min rhs] per distinct row vector, which is insensitive to the documented splitting of ranged rows in LP format.
static std::vector<Q> rat_menu()
{
   Q p17 = 1; for(int i = 0; i < 17; ++i) p17 *= 10;
   Q m30 = 1; for(int i = 0; i < 30; ++i) m30 /= 10;
   Q third(1, 3);
   Q big = 1; big <<= 80; big += 1;
   Q tiny = 1; tiny >>= 90;
   return {third, third + m30, p17, p17 + 1, Q(-7, 5), big, tiny, Q(2), Q(-2) - m30, Q(-2)};
}
static const char* RSLOT[] = {"row-sides", "col-bounds", "obj", "coef", "rhs-only", "lhs-only", "upper-only", "lower-only", "equality-row", "fixed-col"};
static Rational q2r(const Q& q) { return Rational(q.get_mpq_t()); }
static Q r2q(const Rational& r) { Q q(r.backend().data()); q.canonicalize(); return q; }
static uint64_t run_rational_exact(int slot, int i1, int i2, int fmt, Ctx& c)
{
   std::vector<Q> M = rat_menu();
   Q u = M[i1], v = M[i2];
   std::string cs = std::string("Q|slot=") + std::to_string(slot) + ",a=" + std::to_string(i1) + ",b=" + std::to_string(i2) + ",fmt=" + std::to_string(fmt) + "|" + RSLOT[slot] + " " + u.get_str() + " " + v.get_str();
   std::string sfx = std::string("@") + (fmt ? "MPS" : "LP") + ",rational[" + RSLOT[slot] + "]";
   SoPlex A;
   quiet(A);
   A.setIntParam(SoPlex::SYNCMODE, SoPlex::SYNCMODE_AUTO);
   A.setIntParam(SoPlex::OBJSENSE, SoPlex::OBJSENSE_MINIMIZE);
   Rational inf = A.realParam(SoPlex::INFTY), ninf = -inf;
   Rational c0 = 1, a = 1, L = ninf, R = 10, lo0 = ninf, up0 = inf;
   switch(slot)
   {
   case 0: if(!(u < v)) return 0; L = q2r(u); R = q2r(v); break;
   case 1: if(!(u < v)) return 0; lo0 = q2r(u); up0 = q2r(v); break;
   case 2: c0 = q2r(u); break;
   case 3: a = q2r(u); break;
   case 4: R = q2r(u); break;
   case 5: L = q2r(u); R = inf; break;
   case 6: up0 = q2r(u); break;
   case 7: lo0 = q2r(u); break;
   case 8: L = q2r(u); R = q2r(u); break;
   default: lo0 = q2r(u); up0 = q2r(u); break;
   }
   if(slot >= 2 && i2 != 0) return 0;
   DSVectorRational e(0);
   A.addColRational(LPColRational(c0, e, up0, lo0));
   A.addColRational(LPColRational(Rational(1), e, inf, Rational(0)));
   DSVectorRational r0(2), r1(2);
   r0.add(0, a); r0.add(1, Rational(3));
   r1.add(0, Rational(1)); r1.add(1, Rational(-1));
   A.addRowRational(LPRowRational(L, r0, R));
   A.addRowRational(LPRowRational(Rational(-2), r1, inf));
   std::string path = wfile(fmt ? ".mps" : ".lp");
   if(truncate(path.c_str(), 0) != 0) {}
   try { A.writeFileRational(path.c_str(), nullptr, nullptr, nullptr, true); }
   catch(const SPxException& ex) { c.violation("rational-exact:write-exception" + sfx, cs, ex.what()); return 2; }
   SoPlex B;
   quiet(B);
   B.setIntParam(SoPlex::SYNCMODE, SoPlex::SYNCMODE_AUTO);
   B.setIntParam(SoPlex::READMODE, SoPlex::READMODE_RATIONAL);
   c.count("rational_exact.cases");
   if(!B.readFile(path.c_str(), nullptr, nullptr, nullptr)) { c.violation("rational-exact:read-failed" + sfx, cs, "file written by writeFileRational is rejected"); return 3; }
   // columns (names are default names in both directions, so the order is kept)
   if(B.numColsRational() != 2) { c.violation("rational-exact:column-count" + sfx, cs, std::to_string(B.numColsRational()) + " columns read back"); return 4; }
   auto isInf = [&](const Rational & r) { return r >= inf; };
   auto isNinf = [&](const Rational & r) { return r <= ninf; };
   auto sameExt = [&](const Rational & x, const Rational & y) { return (isInf(x) && isInf(y)) || (isNinf(x) && isNinf(y)) || (!isInf(x) && !isInf(y) && !isNinf(x) && !isNinf(y) && x == y); };
   for(int j = 0; j < 2; ++j)
   {
      if(!sameExt(B.lowerRational(j), A.lowerRational(j)) || !sameExt(B.upperRational(j), A.upperRational(j)))
      { c.violation("rational-exact:bounds-differ" + sfx, cs, "column " + std::to_string(j) + ": written [" + A.lowerRational(j).str() + "," + A.upperRational(j).str() + "] read [" + B.lowerRational(j).str() + "," + B.upperRational(j).str() + "]"); return 5; }
      if(B.objRational(j) != A.objRational(j)) { c.violation("rational-exact:objective-differs" + sfx, cs, "column " + std::to_string(j) + ": written " + A.objRational(j).str() + " read " + B.objRational(j).str()); return 6; }
   }
   // rows: interval per distinct row vector
   auto intervals = [&](SoPlex & S)
   {
      std::map<std::string, std::pair<Rational, Rational>> iv;
      for(int i = 0; i < S.numRowsRational(); ++i)
      {
         const SVectorRational& rv = S.rowVectorRational(i);
         std::map<int, std::string> ent;
         for(int k = 0; k < rv.size(); ++k) if(rv.value(k) != 0) ent[rv.index(k)] = rv.value(k).str();
         std::string key;
         for(auto& kv : ent) key += std::to_string(kv.first) + ":" + kv.second + ";";
         Rational l = S.lhsRational(i), r = S.rhsRational(i);
         if(!iv.count(key)) iv[key] = {l, r};
         else { if(l > iv[key].first) iv[key].first = l; if(r < iv[key].second) iv[key].second = r; }
      }
      return iv;
   };
   auto ia = intervals(A), ib = intervals(B);
   if(ia.size() != ib.size()) { c.violation("rational-exact:row-vectors-differ" + sfx, cs, std::to_string(ia.size()) + " distinct row vectors written, " + std::to_string(ib.size()) + " read"); return 7; }
   for(auto& kv : ia)
   {
      if(!ib.count(kv.first)) { c.violation("rational-exact:row-vectors-differ" + sfx, cs, "row vector {" + kv.first + "} is missing after the round trip"); return 7; }
      auto& w = kv.second; auto& g = ib[kv.first];
      if(!sameExt(w.first, g.first) || !sameExt(w.second, g.second))
      { c.violation("rational-exact:row-sides-differ" + sfx, cs, "row {" + kv.first + "}: written [" + w.first.str() + "," + w.second.str() + "] read [" + g.first.str() + "," + g.second.str() + "]"); return 8; }
   }
   c.count("rational_exact.equal");
   if(c.wantSample() && slot == 0 && i1 == 0 && i2 == 1) c.sample("{\"rational_exact_round_trip\":" + jstr(cs) + "}");
   return 9;
}
// ---- planted medium-size LPs through the writers and readers ---------------------------------------------------------------------
// Rows with up to 40 nonzeros (the LP-format writer wraps long rows over several lines, the reader has to glue them again), dozens of rows and columns of every
// bound / side shape.  Write (LP or MPS, floating-point or rational writer), read into a fresh object with name sets, then: same number of columns; every column
// found by its name with the same objective coefficient (up to the documented sign inversion of maximisation in MPS) and bounds - exactly for LP format and for
// the rational path, to 15 decimals for floating-point MPS; and "hence the same feasible set and optimum": the LP read back is solved and must show the planted
// verdict and, for LPs with a finite optimum, the planted optimal value.  (Rows are compared through the solve because LP format may split ranged rows.)
static uint64_t run_planted12(const PlantedSpec& sp, int fmt, int rational, Ctx& c)
{
   PlantedLP P = planted(sp);
   TinyLP t = P.lp;
   Q opt0 = P.cl.opt - q_of_double(t.offset);
   t.offset = 0;
   std::string cfgs = std::string(fmt ? "MPS" : "LP") + "," + (rational ? "rational" : "real") + "+planted";
   std::string cs = "P|fmt=" + std::to_string(fmt) + ",rat=" + std::to_string(rational) + "|" + sp.str();
   bool hasFreeRow = false;
   for(int i = 0; i < t.m; ++i) if(t.lhs[i] <= -1e100 && t.rhs[i] >= 1e100) hasFreeRow = true;
   if(fmt == 1 && hasFreeRow) { c.count("planted.mps_skipped_free_row"); return 1; }      // the MPS writer throws for free rows (recorded known finding)
   std::string f = wfile(fmt ? ".mps" : ".lp");
   SoPlex A;
   quiet(A);
   if(rational) A.setIntParam(SoPlex::SYNCMODE, SoPlex::SYNCMODE_AUTO);
   load_real(A, t, 0);
   bool wok = false;
   try { wok = rational ? A.writeFileRational(f.c_str(), nullptr, nullptr, nullptr) : A.writeFileReal(f.c_str(), nullptr, nullptr, nullptr, true); }
   catch(const SPxException& e) { c.violation("planted:write-exception@" + cfgs, cs, e.what()); unlink(f.c_str()); return 2; }
   if(!wok) { c.violation("planted:write-failed@" + cfgs, cs, ""); unlink(f.c_str()); return 2; }
   c.count("planted.files_written");
   SoPlex B;
   quiet(B);
   if(rational) { B.setIntParam(SoPlex::SYNCMODE, SoPlex::SYNCMODE_AUTO); B.setIntParam(SoPlex::READMODE, SoPlex::READMODE_RATIONAL); }
   NameSet rn, cn;
   bool rok = false;
   try { rok = B.readFile(f.c_str(), &rn, &cn); }
   catch(const SPxException& e) { c.violation("planted:read-exception@" + cfgs, cs, e.what()); unlink(f.c_str()); return 3; }
   unlink(f.c_str());
   if(!rok) { c.violation("planted:read-failed@" + cfgs, cs, "readFile rejected a file written by the writer"); return 3; }
   c.count("rt.roundtrips");
   c.count("planted.roundtrips");
   if(B.numCols() != t.n) { c.violation("planted:column-count-differs@" + cfgs, cs, "written " + std::to_string(t.n) + " read " + std::to_string(B.numCols())); return 4; }
   if(B.numRows() < t.m - (hasFreeRow ? t.m : 0)) { c.violation("planted:row-count-smaller@" + cfgs, cs, "written " + std::to_string(t.m) + " read " + std::to_string(B.numRows())); return 4; }
   bool bmax = B.intParam(SoPlex::OBJSENSE) == SoPlex::OBJSENSE_MAXIMIZE;
   double sg = (bmax == t.maximize) ? 1.0 : -1.0;
   bool exactCmp = (fmt == 0) || rational;
   auto same = [&](double got, double want) { if(want >= 1e100 || want <= -1e100 || got >= 1e100 || got <= -1e100) return (got >= 1e100) == (want >= 1e100) && (got <= -1e100) == (want <= -1e100); return exactCmp ? got == want : fabs(got - want) <= 1e-14 * (1 + fabs(want)); };
   for(int j = 0; j < t.n; ++j)
   {
      std::string nm = "x" + std::to_string(j);
      int k = cn.number(nm.c_str());
      if(k < 0 || k >= B.numCols()) { c.violation("planted:column-name-lost@" + cfgs, cs, "column " + nm + " not found after reading back"); return 5; }
      if(!same(B.objReal(k), sg * t.c[j])) { c.violation("planted:objective-differs@" + cfgs, cs, nm + ": read " + TinyLP::num(B.objReal(k)) + " written " + TinyLP::num(sg * t.c[j])); return 5; }
      if(!same(B.lowerReal(k), t.lo[j])) { c.violation("planted:lower-differs@" + cfgs, cs, nm + ": read " + TinyLP::num(B.lowerReal(k)) + " written " + TinyLP::num(t.lo[j])); return 5; }
      if(!same(B.upperReal(k), t.up[j])) { c.violation("planted:upper-differs@" + cfgs, cs, nm + ": read " + TinyLP::num(B.upperReal(k)) + " written " + TinyLP::num(t.up[j])); return 5; }
   }
   int st = (int)B.optimize();
   c.count("planted.solves_of_the_lp_read_back");
   double want = sg * opt0.get_d();
   if(sp.kind == 0 || sp.kind == 3)
   {
      if(st != 1) c.violation("planted:optimum-lost@" + cfgs, cs, "the LP read back has status " + std::to_string(st) + ", the written LP has the optimum " + opt0.get_str());
      else if(fabs(B.objValueReal() - want) > 1e-6 * (1 + fabs(want))) c.violation("planted:optimal-value-differs@" + cfgs, cs, "read back: " + TinyLP::num(B.objValueReal()) + ", written LP: " + TinyLP::num(want));
   }
   else if(st == 1 || (sp.kind == 2 && st == 3)) c.violation("planted:verdict-differs@" + cfgs, cs, std::string("the written LP is ") + sp.kindName() + ", the LP read back has status " + std::to_string(st));
   return 9 + st;
}

static void replay_one(const std::string& cs, Ctx& c)
{
   auto p = split(cs, '|');
   if(p.size() >= 3 && p[0] == "P")
   {
      int fmt = 0, rat = 0;
      sscanf(p[1].c_str(), "fmt=%d,rat=%d", &fmt, &rat);
      PlantedSpec sp;
      if(PlantedSpec::parse(p[2], sp)) run_planted12(sp, fmt, rat, c);
      return;
   }
   if(p.size() >= 2 && p[0] == "Q")
   {
      int slot = 0, a = 0, b = 0, fmt = 0;
      sscanf(p[1].c_str(), "slot=%d,a=%d,b=%d,fmt=%d", &slot, &a, &b, &fmt);
      run_rational_exact(slot, a, b, fmt, c);
      return;
   }
   if(p.size() >= 3 && p[0] == "L")
   {
      int ctx = atoi(p[1].c_str() + 4);
      std::string lit = cs.substr(cs.find("|lit=") + 5);
      Lit L = parse_literal(lit);
      if(!L.valid || L.denzero) { printf("REPLAY-ERROR literal not in the grammar\n"); return; }
      run_literal(L, ctx, c);
   }
   else if(p.size() >= 3 && p[0] == "R")
   {
      RTCase k;
      k.cfg = RTCfg::parse(p[1]);
      k.base = TinyLP::parse(cs.substr(p[0].size() + p[1].size() + 2));
      run_roundtrip(k, c);
   }
   else if(p.size() >= 3 && p[0] == "D")
   {
      int fmt = 0, wzo = 0;
      for(auto& f : split(p[1], ',')) { if(f.compare(0, 4, "fmt=") == 0) fmt = atoi(f.c_str() + 4); if(f.compare(0, 4, "wzo=") == 0) wzo = atoi(f.c_str() + 4); }
      run_dual(TinyLP::parse(cs.substr(p[0].size() + p[1].size() + 2)), fmt, wzo, c);
   }
   else printf("REPLAY-ERROR unknown case kind\n");
}

// wide LPs: 7 columns x 2 rows, so that rows and objective exceed five entries per line (continuation lines in LP format,
// two-entries-per-record and odd-entry records in MPS)
static TinyLP wide_lp(uint64_t idx)
{
   TinyLP lp;
   lp.resize(7, 2);
   for(int j = 0; j < 7; ++j) { lp.A[0][j] = double(int(idx % 3) - 1); idx /= 3; }
   static const double R1[3][7] = {{1, 0, 2, 0, 0, 0, -1}, {1, 1, 1, 1, 1, 1, 1}, {0, 0, 0, 0, 0, 0, 0}};
   static const double CC[3][7] = {{1, 0, -1, 0, 2, 0, 0}, {1, 2, 3, 4, 5, 6, 7}, {0, 0, 0, 0, 0, 0, 0}};
   int cc = idx % 3; idx /= 3;
   int r1 = idx % 3; idx /= 3;
   for(int j = 0; j < 7; ++j) { lp.A[1][j] = R1[r1][j]; lp.c[j] = CC[cc][j]; }
   for(int j = 0; j < 7; ++j) { const BoundMenu& b = COLB[j % 5]; lp.lo[j] = b.lo; lp.up[j] = b.up; }
   int rs = idx % 4; idx /= 4;
   lp.lhs[0] = ROWS[rs].lo; lp.rhs[0] = ROWS[rs].up;
   lp.lhs[1] = ROWS[3].lo; lp.rhs[1] = ROWS[3].up;
   lp.maximize = idx % 2;
   lp.offset = 0;
   return lp;
}
static const uint64_t NWIDE = 2187ULL * 3 * 3 * 4 * 2;      // complete product; thorough uses the first 2187*3*3*4 (all but the sense), quick the first 2187*3

// numerics: a fixed 2x2 structure in which one or two slots take every value of a list
static const double NUMV[] = {0.1, -1.0 / 3.0, 1e-7, 123456.789, 1000000000000001.0, 9.5367431640625e-07, -0.75, 1e20, 3.0000000000000004, 1e-15, 2.5e-16, 65536.000000000015, -1e15, 0.30000000000000004};
static const int NNUMV = sizeof(NUMV) / sizeof(NUMV[0]);
static const int NSLOT = 12;
static void set_slot(TinyLP& lp, int slot, double v)
{
   switch(slot)
   {
   case 0: lp.A[0][0] = v; break; case 1: lp.A[0][1] = v; break; case 2: lp.A[1][0] = v; break; case 3: lp.A[1][1] = v; break;
   case 4: lp.c[0] = v; break; case 5: lp.c[1] = v; break;
   case 6: lp.lo[0] = v; lp.up[0] = INF; break;
   case 7: lp.up[1] = fabs(v) + 1; lp.lo[1] = -fabs(v); break;
   case 8: lp.lhs[0] = v; lp.rhs[0] = INF; break;
   case 9: lp.rhs[0] = v; lp.lhs[0] = -INF; break;
   case 10: lp.lhs[1] = v; lp.rhs[1] = v; break;
   case 11: lp.lhs[1] = -fabs(v); lp.rhs[1] = 2 * fabs(v); break;
   }
}
static TinyLP numerics_base()
{
   return TinyLP::parse("n=2;m=2;max=0;off=0;c=1,-2;lo=0,-1;up=4,inf;lhs=-inf,-1;rhs=4,2;A=1,2|3,-1");
}

int main(int argc, char** argv)
{
   Args args = parse_args(argc, argv);
   args.prop = "C12";
   g_outdir = args.outdir;
   std::cerr.rdbuf(&g_nullbuf);      // SoPlex prints reader diagnostics to std::cerr directly
   mpfr_set_emin(-1073);
   mpfr_set_emax(1024);
   if(!args.replay.empty())
   {
      std::ifstream in(args.replay);
      std::string doc((std::istreambuf_iterator<char>(in)), std::istreambuf_iterator<char>());
      size_t p = doc.find("\"case\": \"");
      if(p == std::string::npos) { printf("REPLAY-ERROR no case\n"); return 2; }
      p += 9;
      std::string cs = doc.substr(p, doc.find('"', p) - p);
      mallopt(M_PERTURB, 85);
      int rc = replay_case([&](Ctx & c) { replay_one(cs, c); });
      unlink(wfile(".lp").c_str());
      unlink(wfile(".mps").c_str());
      if(rmdir(g_outdir.c_str()) != 0) {}      // only succeeds for the directory parse_args created for this replay
      return rc;
   }
   bool thorough = args.tier == "thorough";
   Report rep(args, "exploration", thorough ? 5400 : 900);
   rep.all.maxSamples = 14;      // room for samples of the literal, round-trip and dual phases
   RunOpts o = rep.opts();
   o.perturb = {85};
   o.watchdog_s = 300;      // a case is 1-64 file round trips (milliseconds); the margin is for a heavily loaded machine / file system
   std::string only = args.get("only");     // debugging aid: run only the phases whose name contains this text
   auto want = [&](const std::string & name) { return only.empty() || name.find(only) != std::string::npos; };

   // ---------------- (a) literals ----------------
   int L = thorough ? 7 : 6;
   if(!args.get("L").empty()) L = atoi(args.get("L").c_str());
   std::vector<std::string> lits;
   uint64_t nstrings = 0, nzeroden = 0;
   enumerate_literals(L, lits, nstrings, nzeroden);
   fprintf(stderr, "[C12] literals: %llu strings of length <= %d over a 10-letter alphabet, %zu match the grammar (+%llu with a zero denominator, skipped)\n",
           (unsigned long long)nstrings, L, lits.size(), (unsigned long long)nzeroden);
   auto litsfx = [&](const std::vector<std::string>& v)
   {
      return [&v](uint64_t idx, uint64_t) { return std::string("@") + CTXNAME[idx % NCTX] + "[" + tag_crash(parse_literal(v[idx / NCTX], false)) + "]"; };
   };
   if(want("literals"))
   rep.phase("literals length<=" + std::to_string(L) + " x 5 readers", lits.size() * NCTX, [&](uint64_t idx, int, Ctx & c) -> uint64_t
   {
      return run_literal(parse_literal(lits[idx / NCTX]), (int)(idx % NCTX), c);
   }, [&](uint64_t idx, uint64_t) { return "L|ctx=" + std::to_string(idx % NCTX) + "|lit=" + lits[idx / NCTX]; }, o, litsfx(lits));
   std::vector<std::string> xl;
   exponent_family(xl);
   if(want("exponent"))
   rep.phase("exponent / long-mantissa family x 5 readers", xl.size() * NCTX, [&](uint64_t idx, int, Ctx & c) -> uint64_t
   {
      return run_literal(parse_literal(xl[idx / NCTX]), (int)(idx % NCTX), c);
   }, [&](uint64_t idx, uint64_t) { return "L|ctx=" + std::to_string(idx % NCTX) + "|lit=" + xl[idx / NCTX]; }, o, litsfx(xl));

   // ---------------- (b) round trips ----------------
   auto base8 = [](int k) { RTCfg c; c.fmt = k & 1; c.mode = (k >> 1) & 1; c.wzo = (k >> 2) & 1; return c; };
   auto rtsfx = [](uint64_t, uint64_t sub) { RTCfg c; c.fmt = sub & 1; c.mode = (sub >> 1) & 1; return "@" + c.tag(); };
   // structural family: every LP x {LP,MPS} x {real,rational} x writeZeroObjective
   Family S1 = famQ();
   S1.offsets = {0};
   Family S2 = famT(2, 2, {-1, 0, 1}, {0, -1}, {0, 1, 2, 3, 4}, {0, 1, 2, 3, 4, 5, 6, 7});
   S2.offsets = {0};
   Family S0 = famT(2, 2, {-1, 0, 1}, {-1, 0, 1}, {0, 1, 3}, {0, 2, 3, 4});     // quick structural family: 3 column types x 4 row types
   S0.offsets = {0};
   const Family& SF = thorough ? S2 : S0;
   if(want("structural"))
   rep.phase(std::string("round trips structural: T(2,2) ") + (thorough ? "5 column x 8 row types" : "3 column x 4 row types") + " x fmt x mode x wzo", SF.size(), [&](uint64_t idx, int, Ctx & c) -> uint64_t
   {
      RTCase k;
      if(!SF.get(idx, k.base)) return 0;
      c.count("rt.lps");
      uint64_t h = 1;
      for(int v = 0; v < 8; ++v) { set_sub(v); k.cfg = base8(v); h = h * 31 + run_roundtrip(k, c); }
      return h;
   }, [&](uint64_t idx, uint64_t sub) { RTCase k; SF.get(idx, k.base); k.cfg = base8((int)sub); return rt_case(k); }, o, rtsfx);

   // deviation dimensions: names x integer markers (x fmt x mode x wzo) on a smaller complete family, plus value maps
   Family S3 = thorough ? famT(2, 2, {0, 1}, {0, 1}, {0, 1, 2, 3, 4}, {0, 3, 4}) : famT(2, 2, {0, 1}, {0, 1}, {0, 1, 2, 3, 4}, {0, 3});
   S3.offsets = {0};
   if(want("names"))
   {
      std::vector<RTCfg> cfgs;
      for(int names = 0; names < 3; ++names) for(int ints = 0; ints < 3; ++ints) for(int v = 0; v < 8; ++v)
            {
               if(names == 0 && ints == 0) continue;      // covered by the structural phase
               RTCfg c = base8(v); c.names = names; c.ints = ints; cfgs.push_back(c);
            }
      rep.phase("round trips: names x integer markers", S3.size(), [&](uint64_t idx, int, Ctx & c) -> uint64_t
      {
         RTCase k;
         if(!S3.get(idx, k.base)) return 0;
         c.count("rt.lps");
         uint64_t h = 1;
         for(size_t v = 0; v < cfgs.size(); ++v) { set_sub(v); k.cfg = cfgs[v]; h = h * 31 + run_roundtrip(k, c); }
         return h;
      }, [&](uint64_t idx, uint64_t sub) { RTCase k; S3.get(idx, k.base); k.cfg = cfgs[sub % cfgs.size()]; return rt_case(k); }, o,
      [&](uint64_t, uint64_t sub) { return "@" + cfgs[sub % cfgs.size()].tag(); });
   }
   // value maps (decimal fractions, 16-digit integers, 1e-7 ..., exact rationals with 30-digit numerators)
   Family S4 = thorough ? famT(2, 2, {0, 1, -1}, {0, 1, -1}, {0, 3, 4}, {0, 2, 3}) : famT(2, 2, {0, 1, -1}, {0, 1}, {0, 3}, {0, 2, 3});
   S4.offsets = {0};
   if(want("value maps"))
   {
      std::vector<RTCfg> cfgs;
      for(int vm = 1; vm <= 3; ++vm) for(int v = 0; v < 8; ++v) { RTCfg c = base8(v); c.vm = vm; if(c.wzo) continue; cfgs.push_back(c); }
      rep.phase("round trips: value maps", S4.size(), [&](uint64_t idx, int, Ctx & c) -> uint64_t
      {
         RTCase k;
         if(!S4.get(idx, k.base)) return 0;
         c.count("rt.lps");
         uint64_t h = 1;
         for(size_t v = 0; v < cfgs.size(); ++v) { set_sub(v); k.cfg = cfgs[v]; h = h * 31 + run_roundtrip(k, c); }
         return h;
      }, [&](uint64_t idx, uint64_t sub) { RTCase k; S4.get(idx, k.base); k.cfg = cfgs[sub % cfgs.size()]; return rt_case(k); }, o,
      [&](uint64_t, uint64_t sub) { return "@" + cfgs[sub % cfgs.size()].tag(); });
   }
   // persistently scaled LP, written unscaled and scaled (real mode only)
   Family S5 = famT(2, 2, {0, 1, -1}, {0, 1}, {0, 3}, {0, 2, 3});
   S5.offsets = {0};
   if(want("scaled"))
   {
      std::vector<RTCfg> cfgs;
      // MPS prints 15 decimals: only the pure power-of-two data (vm 3) keeps every scaled value exactly printable
      for(int sc = 1; sc <= 2; ++sc) for(int fmt = 0; fmt < 2; ++fmt) for(int vm : {3, 2}) { if(fmt == 1 && sc == 2 && vm == 2) continue; RTCfg c; c.fmt = fmt; c.scale = sc; c.vm = vm; cfgs.push_back(c); }
      rep.phase("round trips: persistently scaled LP, unscale on/off", S5.size(), [&](uint64_t idx, int, Ctx & c) -> uint64_t
      {
         RTCase k;
         if(!S5.get(idx, k.base)) return 0;
         c.count("rt.lps");
         uint64_t h = 1;
         for(size_t v = 0; v < cfgs.size(); ++v) { set_sub(v); k.cfg = cfgs[v]; h = h * 31 + run_roundtrip(k, c); }
         return h;
      }, [&](uint64_t idx, uint64_t sub) { RTCase k; S5.get(idx, k.base); k.cfg = cfgs[sub % cfgs.size()]; return rt_case(k); }, o,
      [&](uint64_t, uint64_t sub) { return "@" + cfgs[sub % cfgs.size()].tag(); });
   }
   // wide rows (more than five entries per line)
   if(want("7-column"))
   rep.phase("round trips: 7-column LPs (continuation lines)", thorough ? NWIDE / 2 : 2187ULL * 3, [&](uint64_t idx, int, Ctx & c) -> uint64_t
   {
      RTCase k;
      k.base = wide_lp(idx);
      c.count("rt.lps");
      uint64_t h = 1;
      for(int v = 0; v < 8; ++v) { set_sub(v); k.cfg = base8(v); k.cfg.names = (idx & 1); h = h * 31 + run_roundtrip(k, c); }
      return h;
   }, [&](uint64_t idx, uint64_t sub) { RTCase k; k.base = wide_lp(idx); k.cfg = base8((int)sub); k.cfg.names = (idx & 1); return rt_case(k); }, o, rtsfx);
   // numerics: every slot (and every pair of slots) x every value
   if(want("numerics"))
   {
      uint64_t singles = (uint64_t)NSLOT * NNUMV, pairs = (uint64_t)NSLOT * NSLOT * NNUMV * NNUMV;
      auto mk = [&](uint64_t idx, TinyLP & lp) -> bool
      {
         lp = numerics_base();
         if(idx < singles) { set_slot(lp, idx / NNUMV, NUMV[idx % NNUMV]); return true; }
         idx -= singles;
         int v2 = idx % NNUMV; idx /= NNUMV;
         int v1 = idx % NNUMV; idx /= NNUMV;
         int s2 = idx % NSLOT; idx /= NSLOT;
         int s1 = idx % NSLOT;
         if(s1 >= s2) return false;
         if((s1 == 8 && s2 == 9) || (s1 == 10 && s2 == 11)) return false;     // same row sides
         set_slot(lp, s1, NUMV[v1]);
         set_slot(lp, s2, NUMV[v2]);
         return true;
      };
      rep.phase("round trips: numerics (slots x values, singles and pairs)", singles + pairs, [&](uint64_t idx, int, Ctx & c) -> uint64_t
      {
         RTCase k;
         if(!mk(idx, k.base)) return 0;
         c.count("rt.lps");
         uint64_t h = 1;
         for(int v = 0; v < 4; ++v) { set_sub(v); k.cfg = base8(v); h = h * 31 + run_roundtrip(k, c); }
         return h;
      }, [&](uint64_t idx, uint64_t sub) { RTCase k; mk(idx, k.base); k.cfg = base8((int)sub); return rt_case(k); }, o, rtsfx);
   }
   // exact rational round trips (values that are not doubles)
   if(want("rational-exact"))
   {
      const uint64_t NM = rat_menu().size();
      rep.phase("round trips: rational-exact (10 slot patterns x non-double rational values x LP/MPS)", 10 * NM * NM * 2, [&, NM](uint64_t idx, int, Ctx & c) -> uint64_t
      {
         int fmt = int(idx % 2); idx /= 2;
         int b = int(idx % NM); idx /= NM;
         int a = int(idx % NM); idx /= NM;
         return run_rational_exact((int)idx, a, b, fmt, c);
      }, [&, NM](uint64_t idx, uint64_t)
      {
         int fmt = int(idx % 2); idx /= 2;
         int b = int(idx % NM); idx /= NM;
         int a = int(idx % NM); idx /= NM;
         return "Q|slot=" + std::to_string(idx) + ",a=" + std::to_string(a) + ",b=" + std::to_string(b) + ",fmt=" + std::to_string(fmt) + "|";
      }, o);
   }
   // dual writer
   if(want("dual"))
   {
      // canary: does writeDualFileReal survive an MPS file name at all?  (decides how large the MPS half of the phase can be:
      // a crash costs a worker restart, so a tree in which every call crashes gets the complete 1x1 family only)
      bool mpsAlive = false;
      {
         fflush(stdout); fflush(stderr);
         pid_t pid = fork();
         if(pid == 0)
         {
            SoPlex A;
            quiet(A);
            load_real(A, TinyLP::parse("n=1;m=1;max=0;off=0;c=1;lo=0;up=inf;lhs=1;rhs=inf;A=1"), 0);
            std::string path = wfile(".mps");
            try { A.writeDualFileReal(path.c_str(), nullptr, nullptr, nullptr, false); } catch(...) { _exit(1); }
            _exit(0);
         }
         int st = 0;
         waitpid(pid, &st, 0);
         mpsAlive = WIFEXITED(st) && WEXITSTATUS(st) == 0;
      }
      rep.extra["dual_writer_mps_canary_survives"] = mpsAlive ? "true" : "false";
      const Family& DF = thorough ? S1 : S0;
      Family D11 = famT(1, 1, {-1, 0, 1}, {-1, 0, 1}, {0, 1, 2, 3, 4, 5, 6, 7, 8, 9}, {0, 1, 2, 3, 4, 5, 6, 7});
      D11.offsets = {0};
      // every column-bound shape the dual LP builder distinguishes ((-inf,0], (-inf,u], [0,inf), [l,inf), [0,u], [l,0], [l,u], fixed, free) x every row type, both senses
      Family DS = thorough ? famT(2, 2, {-1, 0, 1}, {-2, 0, 1}, {5, 6, 7, 8, 9, 3}, {0, 1, 2, 3}) : famT(2, 1, {-1, 0, 1}, {-2, 1}, {1, 2, 5, 6, 7, 8, 9, 3}, {0, 1, 2, 3});
      DS.offsets = {0};
      int nfmt = mpsAlive ? 2 : 1;
      rep.phase(std::string("dual writer: ") + (thorough ? "family Q" : "quick structural family") + (mpsAlive ? " x {LP,MPS} x wzo" : " x LP x wzo"), DF.size(), [&](uint64_t idx, int, Ctx & c) -> uint64_t
      {
         TinyLP lp;
         if(!DF.get(idx, lp)) return 0;
         uint64_t h = 1;
         for(int v = 0; v < 2 * nfmt; ++v) { int fmt = nfmt == 2 ? (v & 1) : 0, wzo = nfmt == 2 ? (v >> 1) : v; set_sub(fmt | (wzo << 1)); h = h * 31 + run_dual(lp, fmt, wzo, c); }
         return h;
      }, [&](uint64_t idx, uint64_t sub) { TinyLP lp; DF.get(idx, lp); return "D|fmt=" + std::to_string(sub & 1) + ",wzo=" + std::to_string((sub >> 1) & 1) + "|" + lp.str(); }, o,
      [&](uint64_t, uint64_t sub) { return std::string("@dual,") + ((sub & 1) ? "MPS" : "LP"); });
      rep.phase(std::string("dual writer: column-bound shapes ") + (thorough ? "T(2,2)" : "T(2,1)") + " x LP x wzo", DS.size(), [&](uint64_t idx, int, Ctx & c) -> uint64_t
      {
         TinyLP lp;
         if(!DS.get(idx, lp)) return 0;
         uint64_t h = 1;
         for(int wzo = 0; wzo < 2; ++wzo) { set_sub(wzo << 1); h = h * 31 + run_dual(lp, 0, wzo, c); }
         return h;
      }, [&](uint64_t idx, uint64_t sub) { TinyLP lp; DS.get(idx, lp); return "D|fmt=0,wzo=" + std::to_string((sub >> 1) & 1) + "|" + lp.str(); }, o,
      [&](uint64_t, uint64_t) { return std::string("@dual,LP"); });
      // complete 1x1 family in MPS format (also when the canary died: these are the cases that document the crash)
      rep.phase("dual writer: T(1,1) all menus x MPS x wzo", D11.size() * 2, [&](uint64_t idx, int, Ctx & c) -> uint64_t
      {
         TinyLP lp;
         if(!D11.get(idx / 2, lp)) return 0;
         set_sub(1 | ((idx & 1) << 1));
         return run_dual(lp, 1, (int)(idx & 1), c);
      }, [&](uint64_t idx, uint64_t) { TinyLP lp; D11.get(idx / 2, lp); return "D|fmt=1,wzo=" + std::to_string(idx & 1) + "|" + lp.str(); }, o,
      [&](uint64_t, uint64_t) { return std::string("@dual,MPS"); });
   }
   if(thorough && want("T(3"))
   {
      // larger matrices: T(3,2) and T(2,3) with reduced menus (three-entry columns: MPS pair + single records)
      Family T32 = famT(3, 2, {0, 1}, {0, 1}, {0, 1, 3}, {0, 2, 3}, 6);
      T32.offsets = {0};
      Family T23 = famT(2, 3, {0, -1}, {0, 1}, {0, 3}, {0, 2, 3, 4}, 6);
      T23.offsets = {0};
      for(const Family* F : {&T32, &T23})
         rep.phase("round trips: T(" + std::to_string(F->n) + "," + std::to_string(F->m) + ") x fmt x mode x wzo", F->size(), [&, F](uint64_t idx, int, Ctx & c) -> uint64_t
      {
         RTCase k;
         if(!F->get(idx, k.base)) return 0;
         c.count("rt.lps");
         uint64_t h = 1;
         for(int v = 0; v < 8; ++v) { set_sub(v); k.cfg = base8(v); h = h * 31 + run_roundtrip(k, c); }
         return h;
      }, [&, F](uint64_t idx, uint64_t sub) { RTCase k; F->get(idx, k.base); k.cfg = base8((int)sub); return rt_case(k); }, o, rtsfx);
   }

   auto& C = rep.all.counters;
   uint64_t litcases = 0;
   for(int k = 0; k < NCTX; ++k) litcases += C[std::string("lit.cases.") + CTXNAME[k]];
   if(want("planted"))
   {
      static PlantedGrid pg;
      pg.sizes = {{5, 8}, {10, 10}, {16, 12}, {12, 20}, {24, 24}, {40, 25}, {40, 40}};
      pg.densities = {40, 100};
      pg.seeds = thorough ? 6 : 1;
      pg.kinds = 4;
      pg.magnitudes = 2;
      rep.phase("planted LPs up to 40x40 x {LP, MPS} x {floating-point, rational} writer / reader", pg.size() * 4, [&](uint64_t idx, int, Ctx & c) -> uint64_t
      {
         return run_planted12(pg.at(idx / 4), int(idx & 1), int((idx >> 1) & 1), c);
      }, [&](uint64_t idx, uint64_t) { return "P|fmt=" + std::to_string(idx & 1) + ",rat=" + std::to_string((idx >> 1) & 1) + "|" + pg.at(idx / 4).str(); }, o);
      rep.extra["planted_grid"] = jstr("sizes (n x m) 5x8 10x10 16x12 12x20 24x24 40x25 40x40, densities 40/100 %, degenerate 0/1, min/max, kinds OPT/INF/UNB/COV, plain and power-of-two rescaled, seeds 0.." + std::to_string(pg.seeds - 1));
   }
   rep.evaluations = litcases + C["rt.roundtrips"] + C["dual.cases"];
   rep.rule = "literal case = (string matching the grammar, reader) - every string up to the length bound is generated and filtered by the harness's own "
              "grammar matcher, all are distinct; round-trip case = (LP, format, read/write mode, write options), LPs are the canonical representatives of "
              "complete product families; non-trivial = every literal case, every round trip of an LP with at least one nonzero coefficient, every dual-writer case";
   rep.assumptions =
   {
      "exact literal value: integer mantissa x 10^(exponent - fraction digits) over GMP mpz/mpq in the harness; correctly rounded double: MPFR 53 bit, emin/emax of binary64, mpfr_subnormalize, round to nearest even",
      "literals with a zero denominator denote no number and are skipped (counted)",
      "columns and rows of the re-read LP are matched by name (default names x<j>, C<i> or user names of at most 8 characters)",
      "documented normalisations only: MPS writes max c x as min -c x; LP format splits a ranged row r into r_1 (>=) and r_2 (<=); infinite = |v| >= 1e100",
      "floating-point MPS prints %.15f: the re-read value must be the double nearest to the 15-decimal rounding of the original; the right-hand side of a ranged row is re-assembled as lhs + range and is accepted within 1e-15 + 2^-51 * max(|lhs|,|rhs|)",
      "objective offset is 0 in all LPs: neither file format as implemented carries an offset",
      "unscale=false on a persistently scaled LP: the file must be the LP up to positive power-of-two row / column factors (verified by solving for the factors in exact arithmetic)",
      "dual writer: primal and re-read dual are classified by exact basis enumeration; equal finite optimum (negated when a maximisation dual is written in MPS) or both without optimum"
   };
   rep.extra["literal_length_bound"] = std::to_string(L);
   rep.extra["strings_generated"] = std::to_string(nstrings);
   rep.extra["literals_in_grammar"] = std::to_string(lits.size());
   rep.extra["literals_zero_denominator_skipped"] = std::to_string(nzeroden);
   rep.extra["exponent_family_literals"] = std::to_string(xl.size());
   rep.finish(litcases + C["rt.nontrivial"] + C["dual.cases"]);
   return 0;
}
