// Oracle self-test: the basis-enumeration classifier is cross-examined against an
// independent Fourier-Motzkin elimination over the whole quick family Q and a slice
// of 3x2 / 2x3 / 3x3 LPs before anything it says is believed.
#include "vx_family.hpp"
#include "vx_planted.hpp"
#include "vx_runner.hpp"
using namespace vx;

int main(int argc, char** argv)
{
   Args args = parse_args(argc, argv);
   args.prop = "selftest";
   Report rep(args, "exploration", 600);
   FamilySet fs;
   fs.add(famQ());
   fs.add(famT(3, 2, {-1, 0, 1, 2}, {-1, 1}, {0, 1, 3}, {0, 2, 3}, 4));
   fs.add(famT(2, 3, {-1, 0, 1, 2}, {-1, 1}, {0, 1, 4}, {1, 3, 6}, 4));
   fs.add(famT(1, 1, {-1, 0, 1, 2}, {-1, 0, 1}, {0, 1, 2, 3, 4}, {0, 1, 2, 3, 4, 5, 6, 7}));
   RunOpts o = rep.opts();
   o.perturb = {0};
   auto fn = [&](uint64_t idx, int, Ctx & c) -> uint64_t
   {
      TinyLP lp;
      if(!fs.get(idx, lp)) return 0;
      XLP x = lp.exact();
      Classification cl = classify(x);
      bool feas; Ext tmin, tmax;
      fm_solve(x, feas, tmin, tmax);
      c.count("lps");
      c.count(std::string("class.") + cl.name());
      bool ok = (feas == cl.feasible);
      if(feas)
      {
         const Ext& t = x.maximize ? tmax : tmin;
         if(t.fin() != cl.hasopt) ok = false;
         else if(t.fin() && t.v != cl.opt) ok = false;
      }
      else if(cl.hasopt) ok = false;
      // duality: finite optimum <=> primal feasible and dual feasible
      if(cl.hasopt != (cl.feasible && cl.dualfeasible)) ok = false;
      if(!ok) c.violation("oracle-disagreement", lp.str(), std::string("enum=") + cl.name() + " fm_feasible=" + (feas ? "1" : "0") + " tmin=" + tmin.str() + " tmax=" + tmax.str() + " opt=" + cl.opt.get_str());
      return 0;
   };
   rep.phase("enum-vs-fourier-motzkin", fs.total, fn, [&](uint64_t i, uint64_t) { TinyLP lp; fs.get(i, lp); return lp.str(); }, o);
   // the planted-LP generator (known classification by construction) is cross-examined by basis enumeration on every
   // member small enough for it: all sizes up to 4x3 / 3x4, three densities, both degeneracy modes, both senses, three kinds, 60 seeds
   static PlantedGrid pg;
   pg.sizes = {{1, 1}, {2, 1}, {1, 2}, {2, 2}, {3, 2}, {2, 3}, {3, 3}, {4, 3}, {3, 4}};
   pg.densities = {15, 40, 100};
   pg.seeds = 60;
   pg.magnitudes = 2;
   pg.kinds = 4;
   auto fp = [&](uint64_t idx, int, Ctx & c) -> uint64_t
   {
      PlantedSpec sp = pg.at(idx);
      PlantedLP P = planted(sp);
      XLP x = P.lp.exact();
      Classification cl = classify(x);
      c.count("planted_lps");
      c.count(std::string("planted.") + sp.kindName() + ".enum=" + cl.name());
      std::string bad = planted_selfcheck(P);
      bool ok = bad.empty();
      if(sp.kind == 0 || sp.kind == 3) ok = ok && cl.hasopt && cl.opt == P.cl.opt;
      else if(sp.kind == 1) ok = ok && !cl.feasible;
      else ok = ok && cl.feasible && !cl.hasopt;
      if(!ok) c.violation("planted-generator-disagrees-with-enumeration", sp.str(), std::string("enum=") + cl.name() + " opt=" + cl.opt.get_str() + " planted opt=" + P.cl.opt.get_str() + " " + bad + " lp=" + P.lp.str());
      return 0;
   };
   rep.phase("planted-vs-enumeration", pg.size(), fp, [&](uint64_t i, uint64_t) { return pg.at(i).str(); }, o);
   rep.rule = "every canonical LP of the families is classified by basis enumeration and by Fourier-Motzkin";
   rep.evaluations = rep.all.counters["lps"];
   rep.finish(rep.all.counters["lps"]);
   fprintf(stderr, "selftest: %llu LPs, disagreements=%zu\n", (unsigned long long)rep.all.counters["lps"], rep.all.viol.size());
   for(auto& kv : rep.all.counters) fprintf(stderr, "  %s = %llu\n", kv.first.c_str(), (unsigned long long)kv.second);
   for(auto& kv : rep.all.viol) for(auto& cs : kv.second.cases) fprintf(stderr, "  DISAGREE %s :: %s\n", cs.first.c_str(), cs.second.c_str());
   return rep.all.viol.empty() ? 0 : 1;
}
