// C13: file readers survive arbitrary input without memory errors and fail cleanly.
//
// Fault enumeration over the real readers, driven through the public solver object
// (SoPlex::readFile / readBasisFile / loadSettingsFile):
//   (a) every token sequence up to length k over a per-format token alphabet, inserted at every
//       structural context of a small valid file (LP, MPS, basis, settings),
//   (b) every truncation (every byte offset of small seed files, line boundaries of shipped instances),
//   (c) every single-byte substitution from a byte menu at every offset of seed files (and every pair
//       for one seed), plus faults of the gzip container,
// x two read modes, each followed by the fixed post-read sequence
//   numRows, numCols, optimize, clearLPReal, readFile(valid file), optimize.
//
// Oracle (independent of the code under test): sanitizer reports (ASan + UBSan), signals, foreign
// exceptions, CPU-time limit on the read, heap growth across repeated executions (leak), dependence of
// the outcome on the contents of uninitialised stack (two stack fills), structural invariants of the
// LP computed from both storage orientations, and the hand-computed optimum of the valid file.
#include "soplex.h"
#include "vx_runner.hpp"
#include <zlib.h>
#include <sys/prctl.h>
#include <elf.h>
#include <valgrind/valgrind.h>
#include <sys/syscall.h>
#include <link.h>
#include <sys/time.h>
#include <cmath>
#include <cstdarg>
using namespace soplex;
using namespace vx;

// ---------------------------------------------------------------------------------------------------
// sanitizer glue
// ---------------------------------------------------------------------------------------------------
#ifdef VX_ASAN
extern "C" {
   size_t __sanitizer_get_current_allocated_bytes();
   void __ubsan_get_current_report_data(const char** OutIssueKind, const char** OutMessage, const char** OutFilename,
                                        unsigned* OutLine, unsigned* OutCol, char** OutMemoryAddr);
}
static char g_ubsan_report[256];
extern "C" void __ubsan_on_report()
{
   if(g_ubsan_report[0]) return;
   const char* kind = 0, *msg = 0, *file = 0;
   unsigned line = 0, col = 0;
   char* addr = 0;
   __ubsan_get_current_report_data(&kind, &msg, &file, &line, &col, &addr);
   const char* base = file ? strrchr(file, '/') : 0;
   snprintf(g_ubsan_report, sizeof g_ubsan_report, "ubsan:%s:%s:%u", kind ? kind : "?", base ? base + 1 : (file ? file : "?"), line);
}
static size_t heap_live() { return __sanitizer_get_current_allocated_bytes(); }
static bool asan_pending() { return g_asan_report[0] != 0; }
static bool ubsan_pending() { return g_ubsan_report[0] != 0; }
static std::string take_ubsan_report() { std::string r = g_ubsan_report; g_ubsan_report[0] = 0; return r; }
#else
static size_t heap_live() { struct mallinfo2 mi = mallinfo2(); return mi.uordblks + mi.hblkhd; }
static bool asan_pending() { return false; }
static bool ubsan_pending() { return false; }
static std::string take_ubsan_report() { return std::string(); }
#endif

static std::string slurp_file(const std::string& p)
{
   std::ifstream in(p, std::ios::binary);
   return std::string((std::istreambuf_iterator<char>(in)), std::istreambuf_iterator<char>());
}
struct NullBuf : std::streambuf
{
   int overflow(int c) override { return c; }
   std::streamsize xsputn(const char*, std::streamsize n) override { return n; }
};
static NullBuf g_nullbuf;
static std::ostream g_null(&g_nullbuf);

// ---------------------------------------------------------------------------------------------------
// Every case runs in its own forked process (see exec_case).  Termination oracle: the read itself runs under a
// user-CPU-time limit (ITIMER_VIRTUAL, default action = the process is killed by SIGVTALRM); the whole case runs
// under a wall-clock alarm.  The stage the sequence is in is published in shared memory.
// ---------------------------------------------------------------------------------------------------
static volatile int* g_stage = nullptr;     // MAP_SHARED, written by the case process, read by the worker
static bool g_on_valgrind = false;
static void stage(int st)
{
   if(g_stage) *g_stage = st;
   set_sub(st);
   if(g_on_valgrind) VALGRIND_PRINTF("VGSTAGE %d\n", st);
}
static void arm_cpu(double sec)
{
   struct itimerval it;
   memset(&it, 0, sizeof it);
   it.it_value.tv_sec = (long)sec;
   it.it_value.tv_usec = (long)((sec - (long)sec) * 1e6);
   setitimer(ITIMER_VIRTUAL, &it, 0);
}
static void disarm_cpu()
{
   struct itimerval it;
   memset(&it, 0, sizeof it);
   setitimer(ITIMER_VIRTUAL, &it, 0);
}

// fills the part of the stack the next calls will use with a known byte (uninitialised locals then hold it)
__attribute__((noinline)) static void paint_stack(int fill)
{
   volatile char buf[384 * 1024];
   memset((void*)buf, fill, sizeof buf);
   asm volatile("" :: "r"(buf) : "memory");
}

// ---------------------------------------------------------------------------------------------------
// valid reference problem V (optimum computed by hand):
//   min x + 3y + 3z  s.t. c1: x+y >= 2 (<= 6 in the MPS form), c2: x-y <= 1, c3: x+z = 3, 0<=x<=4, y>=0, z free
//   z = 3-x  =>  9 - 2x + 3y, y >= max(x-1, 2-x, 0)  =>  x = 3/2, y = 1/2, z = 3/2, objective 15/2 (unique)
// ---------------------------------------------------------------------------------------------------
static const double V_OPT = 7.5;
static const double V_X[3] = {1.5, 0.5, 1.5};
static std::vector<std::string> V_LP_LINES =
{
   "Minimize\n", " obj: x + 3 y + 3 z\n", "Subject To\n", " c1: x + y >= 2\n", " c2: x - y <= 1\n", " c3: x + z = 3\n",
   "Bounds\n", " 0 <= x <= 4\n", " z free\n", "Generals\n", " y\n", "End\n"
};
static std::string mps_line(const char* f1, const char* f2, const char* f3 = "", const char* f4 = "", const char* f5 = "", const char* f6 = "")
{
   std::string l(64, ' ');
   auto put = [&](size_t at, const char* s) { size_t n = strlen(s); if(at + n > l.size()) l.resize(at + n, ' '); l.replace(at, n, s); };
   put(1, f1); put(4, f2); put(14, f3); put(24, f4); put(39, f5); put(49, f6);
   size_t e = l.find_last_not_of(' ');
   l.resize(e == std::string::npos ? 0 : e + 1);
   return l + "\n";
}
static std::vector<std::string> V_MPS_LINES;   // filled in init_texts()
static std::string V_BAS, V_SET, V_LP, V_MPS;
static std::string cat(const std::vector<std::string>& v, size_t a, size_t b)
{
   std::string s;
   for(size_t i = a; i < b && i < v.size(); ++i) s += v[i];
   return s;
}
static void init_texts()
{
   V_MPS_LINES =
   {
      "NAME          V\n", "ROWS\n", mps_line("N", "obj"), mps_line("G", "c1"), mps_line("L", "c2"), mps_line("E", "c3"),
      "COLUMNS\n", mps_line("", "x", "obj", "1", "c1", "1"), mps_line("", "x", "c2", "1", "c3", "1"),
      mps_line("", "y", "obj", "3", "c1", "1"), mps_line("", "y", "c2", "-1"), mps_line("", "z", "obj", "3", "c3", "1"),
      "RHS\n", mps_line("", "rhs", "c1", "2", "c2", "1"), mps_line("", "rhs", "c3", "3"),
      "RANGES\n", mps_line("", "rng", "c1", "4"),
      "BOUNDS\n", mps_line("UP", "bnd", "x", "4"), mps_line("FR", "bnd", "z"), "ENDATA\n"
   };
   V_LP = cat(V_LP_LINES, 0, 99);
   V_MPS = cat(V_MPS_LINES, 0, 99);
   V_BAS = "NAME          V\n" + mps_line("XL", "x", "c1") + mps_line("XU", "y", "c2") + mps_line("XU", "z", "c3") + "ENDATA\n";
   V_SET = "# settings seed\nint:iterlimit = 1000\nbool:lifting = true\nuint:random_seed = 7\nint : displayfreq = 100\nbool:rowboundflips=false # c\n";
}

// ---------------------------------------------------------------------------------------------------
// case description
// ---------------------------------------------------------------------------------------------------
enum Fmt { LP = 0, MPS = 1, BAS = 2, SET = 3 };
static const char* FMT[] = {"lp", "mps", "bas", "set"};

static std::string enc(const std::string& d)
{
   std::string o;
   auto one = [&](unsigned char c)
   {
      if(isalnum(c) || strchr(" _+.<>/:'$*#=,-", c)) { if(c) o += (char)c; else o += "%00"; }
      else { char b[8]; snprintf(b, sizeof b, "%%%02X", c); o += b; }
   };
   for(size_t i = 0; i < d.size();)
   {
      size_t j = i;
      while(j < d.size() && d[j] == d[i]) ++j;
      if(j - i >= 12) { o += "{"; one(d[i]); o += "*" + std::to_string(j - i) + "}"; }
      else for(size_t k = i; k < j; ++k) one(d[k]);
      i = j;
   }
   return o;
}
static std::string dec(const std::string& e)
{
   std::string o;
   auto one = [&](size_t& i) -> char
   {
      if(e[i] == '%' && i + 2 < e.size() + 0) { char c = (char)strtol(e.substr(i + 1, 2).c_str(), 0, 16); i += 3; return c; }
      return e[i++];
   };
   for(size_t i = 0; i < e.size();)
   {
      if(e[i] == '{')
      {
         ++i;
         char c = one(i);
         ++i;   // '*'
         size_t q = e.find('}', i);
         size_t n = strtoul(e.substr(i, q - i).c_str(), 0, 10);
         o.append(n, c);
         i = q + 1;
      }
      else o += one(i);
   }
   return o;
}

struct Case
{
   int fmt = LP, mode = 0, gz = 0, names = 1, pre = 0, expValid = 0, twice = 0;
   double cpu = 3.0;                    // user-CPU seconds allowed for the read itself
   mutable double cpuOpt = 8.0;         // ... and for each optimize() of the post-read sequence (set from the input size)
   std::string file;                    // reference form: bytes of this file ...
   long trunc = -1;                     // ... cut to this length ...
   std::vector<std::pair<long, int>> subs;   // ... with these bytes substituted (also applies to inline data)
   long gztrunc = -1;                   // container fault: compressed image cut to this length
   std::pair<long, int> gzsub = { -1, 0};   // container fault: one byte of the compressed image replaced
   std::string data;                    // inline form
   bool skip = false;

   std::string content() const
   {
      std::string d = content0();
      cpuOpt = 8.0 + 60.0 * (double)d.size() / 1e6;
      return d;
   }
   std::string content0() const
   {
      std::string d = data;
      if(!file.empty())
      {
         std::ifstream in(file, std::ios::binary);
         d.assign((std::istreambuf_iterator<char>(in)), std::istreambuf_iterator<char>());
      }
      if(trunc >= 0 && (size_t)trunc < d.size()) d.resize(trunc);
      for(auto& s : subs) if(s.first >= 0 && (size_t)s.first < d.size()) d[s.first] = (char)s.second;
      return d;
   }
   std::string str() const
   {
      std::ostringstream o;
      o << "fmt=" << FMT[fmt] << ";mode=" << (mode ? "rational" : "real") << ";gz=" << gz << ";names=" << names << ";pre=" << pre
        << ";exp=" << expValid << ";ab=" << twice << ";cpu=" << cpu;
      if(trunc >= 0) o << ";trunc=" << trunc;
      if(!subs.empty())
      {
         o << ";sub=";
         for(size_t i = 0; i < subs.size(); ++i) o << (i ? "," : "") << subs[i].first << ":" << subs[i].second;
      }
      if(gztrunc >= 0) o << ";gztrunc=" << gztrunc;
      if(gzsub.first >= 0) o << ";gzsub=" << gzsub.first << ":" << gzsub.second;
      if(!file.empty()) o << ";file=" << file;
      else o << ";data=" << enc(data);
      return o.str();
   }
   static Case parse(const std::string& s)
   {
      Case c;
      size_t dp = s.find(";data=");
      std::string head = dp == std::string::npos ? s : s.substr(0, dp);
      if(dp != std::string::npos) c.data = dec(s.substr(dp + 6));
      for(auto& f : split(head, ';'))
      {
         size_t e = f.find('=');
         if(e == std::string::npos) continue;
         std::string k = f.substr(0, e), v = f.substr(e + 1);
         if(k == "fmt") { for(int i = 0; i < 4; ++i) if(v == FMT[i]) c.fmt = i; }
         else if(k == "mode") c.mode = (v == "rational");
         else if(k == "gz") c.gz = atoi(v.c_str());
         else if(k == "names") c.names = atoi(v.c_str());
         else if(k == "pre") c.pre = atoi(v.c_str());
         else if(k == "exp") c.expValid = atoi(v.c_str());
         else if(k == "ab") c.twice = atoi(v.c_str());
         else if(k == "cpu") c.cpu = atof(v.c_str());
         else if(k == "trunc") c.trunc = atol(v.c_str());
         else if(k == "gztrunc") c.gztrunc = atol(v.c_str());
         else if(k == "gzsub") { auto p = split(v, ':'); c.gzsub = {atol(p[0].c_str()), atoi(p[1].c_str())}; }
         else if(k == "file") c.file = v;
         else if(k == "sub") for(auto& t : split(v, ',')) { auto p = split(t, ':'); if(p.size() == 2) c.subs.push_back({atol(p[0].c_str()), atoi(p[1].c_str())}); }
      }
      return c;
   }
};

static std::string gzip_bytes(const std::string& in)
{
   z_stream zs;
   memset(&zs, 0, sizeof zs);
   deflateInit2(&zs, 6, Z_DEFLATED, 15 + 16, 8, Z_DEFAULT_STRATEGY);
   std::string out(deflateBound(&zs, in.size()) + 64, '\0');
   zs.next_in = (Bytef*)in.data();
   zs.avail_in = (uInt)in.size();
   zs.next_out = (Bytef*)&out[0];
   zs.avail_out = (uInt)out.size();
   deflate(&zs, Z_FINISH);
   out.resize(zs.total_out);
   deflateEnd(&zs);
   return out;
}

// properties of the input that the harness derives from the bytes (used as necessary conditions in signatures)
struct Feat
{
   const char* reader = "lp";
   bool lineOver8191 = false, lineOver16383 = false, lineOver255 = false, lineOver499 = false, hasNul = false, empty = false,
        noEndata = true, hasReal = false, hasLimit = false, zeroDen = false, hugeExp = false;
};
static Feat features(const Case& c, const std::string& d)
{
   Feat f;
   f.empty = d.empty();
   if(c.fmt == BAS) f.reader = "bas";
   else if(c.fmt == SET) f.reader = "set";
   else f.reader = (!d.empty() && (d[0] == '*' || d[0] == 'N')) ? "mps" : "lp";
   size_t a = 0;
   while(a <= d.size())
   {
      size_t b = d.find('\n', a);
      if(b == std::string::npos) b = d.size();
      size_t len = b - a;
      if(len > 8191) f.lineOver8191 = true;
      if(len > 16383) f.lineOver16383 = true;
      if(len > 255) f.lineOver255 = true;
      if(len > 499) f.lineOver499 = true;
      // first blank-separated word of the line as a C string
      std::string w;
      for(size_t i = a; i < b && d[i] != '\0' && d[i] != ' ' && d[i] != '\t' && d[i] != '\r'; ++i) w += d[i];
      if(w == "ENDATA") f.noEndata = false;
      a = b + 1;
   }
   f.hasNul = d.find('\0') != std::string::npos;
   f.hasReal = d.find("real") != std::string::npos;
   f.hasLimit = d.find("limit") != std::string::npos;
   for(size_t i = 0; i + 1 < d.size(); ++i)
   {
      // "/0", "/00", ... not followed by another digit: a rational literal with denominator zero
      if(d[i] == '/' && d[i + 1] == '0')
      {
         size_t j = i + 1;
         while(j < d.size() && d[j] == '0') ++j;
         if(j >= d.size() || !isdigit((unsigned char)d[j])) f.zeroDen = true;
      }
      // digit or dot, 'e', optional '+', digits with a value above 308: the literal overflows a double (pow(10, 309) == inf)
      if((d[i + 1] == 'e' || d[i + 1] == 'E') && (isdigit((unsigned char)d[i]) || d[i] == '.'))
      {
         size_t j = i + 2;
         if(j < d.size() && d[j] == '+') ++j;
         size_t k = j;
         while(k < d.size() && d[k] == '0') ++k;
         size_t k0 = k;
         while(k < d.size() && isdigit((unsigned char)d[k])) ++k;
         if(k - k0 > 3 || (k - k0 == 3 && atoi(d.substr(k0, 3).c_str()) > 308)) f.hugeExp = true;
      }
   }
   return f;
}

static const char* STAGE[] = {"setup", "read", "invariants", "optimize1", "clear", "reread", "optimize2", "teardown", "compare"};
enum { ST_SETUP = 0, ST_READ, ST_INV, ST_OPT1, ST_CLEAR, ST_REREAD, ST_OPT2, ST_TEARDOWN, ST_COMPARE };

static std::string suffix_of(const Case& c, const Feat& f, int stage)
{
   std::string s = std::string("@") + f.reader + "/" + (c.mode ? "rational" : "real");
   if(c.gz) s += "/gz";
   if(!c.names) s += "/nonames";
   if(c.pre) s += "/presolved";
   if(c.gztrunc >= 0 || c.gzsub.first >= 0) s += "/gzfault";
   if(!strcmp(f.reader, "lp") && f.lineOver8191) s += "+line>8191";
   if((!strcmp(f.reader, "mps") || !strcmp(f.reader, "bas")) && f.noEndata) s += "+eof-before-ENDATA";
   if(f.empty) s += "+empty";
   if(c.mode && f.zeroDen && (c.fmt == LP || c.fmt == MPS)) s += "+zero-denominator";
   if(f.hugeExp && c.fmt != BAS) s += "+exponent>308";
   if(g_stage && (g_stage[1] & 1)) s += "+duplicate-matrix-entry";     // observed by the invariant check of this case
   if(g_stage && (g_stage[1] & 2)) s += "+fixed-at-infinity";          // a column or row with lower == upper == +-infinity was read
   s += std::string("/stage=") + STAGE[stage < 9 ? stage : 0];
   return s;
}

// ---------------------------------------------------------------------------------------------------
// one execution of the fixed sequence (no heap memory of the harness survives this function)
// ---------------------------------------------------------------------------------------------------
struct Viol { char sig[200]; char detail[260]; int stage; };
struct Outcome
{
   int readRes = -1;      // 0 failure reported, 1 success, 2 SPxException, 3 foreign exception, 4 CPU limit
   int nrows = -1, ncols = -1, st1 = -99, st2 = -99, ok2 = -1, basics = -1;
   long heapDelta = 0;
   int nviol = 0;
   Viol viol[8];
   uint64_t digest = 0;
   int sanStage = -1;
   int nonfinite = 0, lowerGtUpper = 0, lhsGtRhs = 0, failNonEmpty = 0, spxExc = 0;
};
// state of the case process (set by the worker-side code further down)
static Ctx* g_ctx = nullptr;
static const Case* g_case = nullptr;
static Feat g_ft;
static std::string g_cs;
static uint64_t g_emitted[32];      // signatures already written for the current case
static int g_nemitted = 0;
// A violation is written to the result sink at once (the case process may not live to the end of the sequence) and without
// leaving anything allocated (the heap is being measured); it is also kept in the outcome, which is part of the digest.
static void add_viol(Outcome& o, int stage, const char* sig, const char* fmt, ...)
{
   char detail[260];
   va_list ap;
   va_start(ap, fmt);
   vsnprintf(detail, sizeof detail, fmt, ap);
   va_end(ap);
   if(o.nviol < 8)
   {
      Viol& v = o.viol[o.nviol++];
      snprintf(v.sig, sizeof v.sig, "%s", sig);
      snprintf(v.detail, sizeof v.detail, "%s", detail);
      v.stage = stage;
   }
   if(g_ctx && g_ctx->sink && g_case)
   {
      std::string full = sig + suffix_of(*g_case, g_ft, stage);
      uint64_t h = fnv_str(full);
      for(int i = 0; i < g_nemitted; ++i) if(g_emitted[i] == h) return;
      if(g_nemitted < 32) g_emitted[g_nemitted++] = h;
      // the case itself is written out only for the first three occurrences of a signature in this process
      static uint64_t seenSig[2048];
      static unsigned char seenCnt[2048];
      size_t slot = h % 2048;
      for(int probe = 0; probe < 2048 && seenSig[slot] != 0 && seenSig[slot] != h; ++probe) slot = (slot + 1) % 2048;
      seenSig[slot] = h;
      if(seenCnt[slot] < 3)
      {
         seenCnt[slot]++;
         fprintf(g_ctx->sink, "N\t%s\t1\nV\t%s\t%s\t%s\n", lesc(full).c_str(), lesc(full).c_str(), lesc(g_cs).c_str(), lesc(detail).c_str());
      }
      else fprintf(g_ctx->sink, "N\t%s\t1\n", lesc(full).c_str());
      fflush(g_ctx->sink);
   }
}
static void note_san(Outcome& o, int stage)
{
   if(o.sanStage < 0 && (asan_pending() || ubsan_pending())) o.sanStage = stage;
}

template <class F> static int guarded(Outcome& o, int stage, F f)
{
   ::stage(stage);
   int r = 0;
   try { f(); }
   catch(const SPxException& e) { r = 1; o.spxExc++; }
   catch(const std::exception& e)
   {
      int st;
      char* dn = abi::__cxa_demangle(typeid(e).name(), 0, 0, &st);
      char sig[200];
      snprintf(sig, sizeof sig, "foreign-exception:%s", dn ? dn : "?");
      add_viol(o, stage, sig, "%s", e.what());
      free(dn);
      r = 2;
   }
   catch(...) { add_viol(o, stage, "foreign-exception:unknown", "non-std exception"); r = 2; }
   note_san(o, stage);
   return r;
}

static uint64_t hd(uint64_t h, double v) { return fnv(&v, sizeof v, h); }
static uint64_t hi(uint64_t h, long v) { return fnv(&v, sizeof v, h); }

template <class R> static bool same_val(const R& a, const R& b) { return a == b; }
template <> bool same_val<double>(const double& a, const double& b) { return memcmp(&a, &b, sizeof a) == 0 || a == b; }

// row-wise storage == column-wise storage, indices in range, no duplicate index inside a vector
template <class R> static bool mirror_ok(const SPxLPBase<R>& lp, char* why, size_t n)
{
   int m = lp.nRows(), nc = lp.nCols();
   long nzr = 0, nzc = 0;
   for(int i = 0; i < m; ++i)
   {
      const SVectorBase<R>& r = lp.rowVector(i);
      nzr += r.size();
      for(int k = 0; k < r.size(); ++k)
      {
         int j = r.index(k);
         if(j < 0 || j >= nc) { snprintf(why, n, "row %d holds column index %d (nCols=%d)", i, j, nc); return false; }
         if(r.pos(j) != k) { snprintf(why, n, "row %d holds column %d twice", i, j); return false; }
         const SVectorBase<R>& c = lp.colVector(j);
         int p = c.pos(i);
         if(p < 0) { snprintf(why, n, "entry (%d,%d) is in the row file but not in the column file", i, j); return false; }
         if(!same_val(c.value(p), r.value(k))) { snprintf(why, n, "entry (%d,%d) differs between row file and column file", i, j); return false; }
      }
   }
   for(int j = 0; j < nc; ++j)
   {
      const SVectorBase<R>& c = lp.colVector(j);
      nzc += c.size();
      for(int k = 0; k < c.size(); ++k)
      {
         int i = c.index(k);
         if(i < 0 || i >= m) { snprintf(why, n, "column %d holds row index %d (nRows=%d)", j, i, m); return false; }
         if(c.pos(i) != k) { snprintf(why, n, "column %d holds row %d twice", j, i); return false; }
      }
   }
   if(nzr != nzc) { snprintf(why, n, "row file has %ld nonzeros, column file %ld", nzr, nzc); return false; }
   return true;
}

static void quiet(SoPlex& s, int verb)
{
   for(int v = SPxOut::ERROR; v <= SPxOut::INFO3; ++v) s.spxout.setStream((SPxOut::Verbosity)v, g_null);
   s.setIntParam(SoPlex::VERBOSITY, verb);
}

static void check_final(Outcome& o, SoPlex& s, int stage, int st, bool strictObj, const char* what)
{
   if(st != (int)SPxSolver::OPTIMAL)
   {
      add_viol(o, stage, "valid-file-not-solved", "%s: optimize() of the valid reference problem returned status %d (expected OPTIMAL, objective 7.5)", what, st);
      return;
   }
   if(!strictObj) return;
   double obj = s.objValueReal();
   if(!(fabs(obj - V_OPT) <= 1e-6))
   {
      add_viol(o, stage, "valid-file-wrong-optimum", "%s: objective %.12g instead of 7.5", what, obj);
      return;
   }
   if(s.numCols() == 3)
   {
      VectorReal x(3);
      if(s.getPrimal(x))
         for(int j = 0; j < 3; ++j)
            if(!(fabs(x[j] - V_X[j]) <= 1e-6)) { add_viol(o, stage, "valid-file-wrong-optimum", "%s: x[%d]=%.12g instead of %.12g", what, j, x[j], V_X[j]); return; }
   }
}

// returns false if the run was abandoned by the CPU limit
static void run_core(const Case& c, const Feat& ft, const char* path, const char* validLP, const char* validMPS, int fill, Outcome& o)
{
   size_t h0 = heap_live();
   SoPlex* s = new SoPlex();
   NameSet* rn = new NameSet();
   NameSet* cn = new NameSet();
   NameSet* rn2 = new NameSet();
   NameSet* cn2 = new NameSet();
   DIdxSet* iv = new DIdxSet();
   uint64_t h = 1469598103934665603ULL;
   stage(ST_SETUP);
   quiet(*s, 5);
   s->setIntParam(SoPlex::READMODE, c.mode ? SoPlex::READMODE_RATIONAL : SoPlex::READMODE_REAL);
   if(c.mode) s->setIntParam(SoPlex::SYNCMODE, SoPlex::SYNCMODE_AUTO);
   const char* valid2 = (ft.reader[0] == 'l') ? validMPS : validLP;   // the re-read uses the other format than the faulty read
   volatile bool ok = false;

   if(c.fmt == BAS)
   {
      bool ok0 = false;
      int r0 = guarded(o, ST_SETUP, [&]() { ok0 = s->readFile(validLP, rn, cn, iv); });
      if(r0 || !ok0 || s->numRows() != 3 || s->numCols() != 3) add_viol(o, ST_SETUP, "valid-file-rejected", "readFile(valid LP) before the basis read: ok=%d exc=%d dims %dx%d", (int)ok0, r0, s->numRows(), s->numCols());
      if(c.pre)
      {
         int st0 = -99;
         s->setIntParam(SoPlex::VERBOSITY, 0);
         guarded(o, ST_SETUP, [&]() { st0 = (int)s->optimize(); });
         check_final(o, *s, ST_SETUP, st0, true, "solve before the basis read");
         s->setIntParam(SoPlex::VERBOSITY, 5);
      }
   }

   // ---- the read under test ------------------------------------------------------------------------
   stage(ST_READ);
   {
      if(fill >= 0) paint_stack(fill);      // not under memcheck, which tracks definedness itself
      arm_cpu(g_on_valgrind ? c.cpu * 200 : c.cpu);
      int r = guarded(o, ST_READ, [&]()
      {
         if(c.fmt == SET) ok = s->loadSettingsFile(path);
         else if(c.fmt == BAS) ok = s->readBasisFile(path, c.names ? rn : nullptr, c.names ? cn : nullptr);
         else ok = s->readFile(path, c.names ? rn : nullptr, c.names ? cn : nullptr, c.names ? iv : nullptr);
      });
      disarm_cpu();
      o.readRes = r == 0 ? (ok ? 1 : 0) : (r == 1 ? 2 : 3);
   }
   h = hi(h, o.readRes);
   if(c.fmt == SET) quiet(*s, 0);   // the settings file may have redirected nothing, but verbosity can be anything now
   stage(ST_INV);
   guarded(o, ST_INV, [&]()
   {
      o.nrows = s->numRows();
      o.ncols = s->numCols();
      h = hi(hi(h, o.nrows), o.ncols);
      if(c.fmt == LP || c.fmt == MPS)
      {
         if(o.readRes == 1)
         {
            const SPxLPBase<double>& lp = *s->_realLP;
            char why[200];
            if(lp.nRows() != o.nrows || lp.nCols() != o.ncols) add_viol(o, ST_INV, "lp-inconsistent:dimensions", "numRows/numCols %dx%d but stored LP %dx%d", o.nrows, o.ncols, lp.nRows(), lp.nCols());
            else if(!mirror_ok(lp, why, sizeof why))
            {
               if(g_stage && strstr(why, "twice")) g_stage[1] |= 1;
               add_viol(o, ST_INV, "lp-inconsistent:row-column-mirror", "%s", why);
            }
            if(s->_rationalLP)
            {
               const SPxLPRational& ql = *s->_rationalLP;
               if(ql.nRows() != o.nrows || ql.nCols() != o.ncols) add_viol(o, ST_INV, "lp-inconsistent:rational-dimensions", "real LP %dx%d, rational LP %dx%d", o.nrows, o.ncols, ql.nRows(), ql.nCols());
               else if(!mirror_ok(ql, why, sizeof why)) add_viol(o, ST_INV, "lp-inconsistent:rational-row-column-mirror", "%s", why);
            }
            if(c.names && (rn->num() != o.nrows || cn->num() != o.ncols))
            {
               const char* kind = cn->num() != o.ncols ? "column-names-differ-from-columns" : (rn->num() > o.nrows ? "more-row-names-than-rows" : "fewer-row-names-than-rows");
               char sig[120];
               snprintf(sig, sizeof sig, "lp-inconsistent:name-sets:%s", kind);
               add_viol(o, ST_INV, sig, "%d rows but %d row names, %d columns but %d column names", o.nrows, rn->num(), o.ncols, cn->num());
            }
            for(int i = 0; i < lp.nRows(); ++i)
            {
               double a = lp.lhs(i), b = lp.rhs(i);
               h = hd(hd(h, a), b);
               if(a != a || b != b) o.nonfinite++;
               else if(a == b && fabs(a) >= 1e100 && g_stage) g_stage[1] |= 2;
               else if(a > b) o.lhsGtRhs++;   // only ever seen with literals beyond SoPlex's infinity (1e100): what the file states
               const SVectorBase<double>& r = lp.rowVector(i);
               for(int k = 0; k < r.size(); ++k) { h = hd(hi(h, r.index(k)), r.value(k)); if(!std::isfinite(r.value(k))) o.nonfinite++; }
            }
            for(int j = 0; j < lp.nCols(); ++j)
            {
               double a = lp.lower(j), b = lp.upper(j), cj = lp.maxObj(j);
               h = hd(hd(hd(h, a), b), cj);
               if(a != a || b != b || !std::isfinite(cj)) o.nonfinite++;
               else if(a > b) o.lowerGtUpper++;
               else if(a == b && fabs(a) >= 1e100 && g_stage) g_stage[1] |= 2;
            }
            h = hi(h, (int)lp.spxSense());
         }
         else if(o.nrows != 0 || o.ncols != 0) o.failNonEmpty = 1;
      }
      else if(c.fmt == BAS)
      {
         if(o.nrows != 3 || o.ncols != 3) add_viol(o, ST_INV, "basis-read-changed-lp", "LP is %dx%d after readBasisFile (was 3x3)", o.nrows, o.ncols);
         if((o.readRes == 1) != s->hasBasis()) add_viol(o, ST_INV, "basis-flag-mismatch", "readBasisFile returned %d but hasBasis()=%d", (int)(o.readRes == 1), (int)s->hasBasis());
         if(o.readRes == 1 && o.nrows == 3 && o.ncols == 3)
         {
            SPxSolver::VarStatus rs[3], cs[3];
            s->getBasis(rs, cs);
            int nb = 0;
            for(int i = 0; i < 3; ++i)
            {
               if((int)rs[i] < 0 || (int)rs[i] > 5 || (int)cs[i] < 0 || (int)cs[i] > 5) add_viol(o, ST_INV, "basis-status-out-of-range", "status value outside the VarStatus enum");
               nb += (rs[i] == SPxSolver::BASIC) + (cs[i] == SPxSolver::BASIC);
               h = hi(hi(h, (int)rs[i]), (int)cs[i]);
            }
            o.basics = nb;
         }
      }
   });
   if(c.expValid && (c.fmt == LP || c.fmt == MPS) && (o.readRes != 1 || o.nrows != 3 || o.ncols != 3))
      add_viol(o, ST_INV, "valid-variant-rejected", "a valid variant of the reference file was read with result %d, dimensions %dx%d", o.readRes, o.nrows, o.ncols);
   if(c.expValid && (c.fmt == BAS || c.fmt == SET) && o.readRes != 1)
      add_viol(o, ST_INV, "valid-variant-rejected", "a valid variant of the reference file was read with result %d", o.readRes);

   // ---- fixed post-read sequence --------------------------------------------------------------------
   s->setIntParam(SoPlex::VERBOSITY, 0);
   arm_cpu((g_on_valgrind ? 200 : 1) * c.cpuOpt);
   guarded(o, ST_OPT1, [&]() { o.st1 = (int)s->optimize(); });
   disarm_cpu();
   h = hi(h, o.st1);
   if(c.fmt == BAS) check_final(o, *s, ST_OPT1, o.st1, true, "optimize after readBasisFile");
   else if(c.expValid && c.fmt != SET) check_final(o, *s, ST_OPT1, o.st1, true, "optimize after reading a valid variant");
   guarded(o, ST_CLEAR, [&]() { s->clearLPReal(); });
   if(s->numRows() != 0 || s->numCols() != 0) add_viol(o, ST_CLEAR, "clear-leaves-data", "%dx%d after clearLPReal", s->numRows(), s->numCols());
   bool ok2 = false;
   int r2 = guarded(o, ST_REREAD, [&]() { ok2 = s->readFile(valid2, rn2, cn2, nullptr); });
   o.ok2 = ok2;
   if(r2 || !ok2 || s->numRows() != 3 || s->numCols() != 3 || rn2->num() != 3 || cn2->num() != 3)
      add_viol(o, ST_REREAD, "valid-file-rejected", "readFile(valid file) after the faulty read: ok=%d exc=%d dims %dx%d names %d/%d", (int)ok2, r2, s->numRows(), s->numCols(), rn2->num(), cn2->num());
   else
   {
      arm_cpu((g_on_valgrind ? 200 : 1) * c.cpuOpt);
      int r3 = guarded(o, ST_OPT2, [&]() { o.st2 = (int)s->optimize(); });
      disarm_cpu();
      h = hi(h, o.st2);
      if(r3 == 1 && c.fmt == SET && (ft.hasLimit || ft.hasReal)) {}   // tolerances / limits from the settings file: anything that is not a crash is acceptable
      else if(r3 == 1) add_viol(o, ST_OPT2, "valid-file-not-solved", "SPxException escaped from optimize() of the valid reference problem");
      else if(r3 == 0)
      {
         if(c.fmt == SET)
         {
            // a settings file may legitimately impose limits or tolerances; then only a sane status is required
            bool excused = ft.hasLimit || ft.hasReal;
            if(o.st2 == (int)SPxSolver::OPTIMAL) check_final(o, *s, ST_OPT2, o.st2, !ft.hasReal, "final solve");
            else if(!excused) check_final(o, *s, ST_OPT2, o.st2, true, "final solve");
         }
         else check_final(o, *s, ST_OPT2, o.st2, true, "final solve");
      }
   }
   stage(ST_TEARDOWN);
   guarded(o, ST_TEARDOWN, [&]() { delete s; });
   delete rn; delete cn; delete rn2; delete cn2; delete iv;
   for(int i = 0; i < o.nviol; ++i) h = fnv(o.viol[i].sig, strlen(o.viol[i].sig), h);
   o.digest = h;
   o.heapDelta = (long)heap_live() - (long)h0;
}

// ---------------------------------------------------------------------------------------------------
// one case: write the input, execute twice with different stack fills, judge
// ---------------------------------------------------------------------------------------------------
static std::string g_inpath, g_validLP, g_validMPS;
static void write_file(const std::string& path, const std::string& bytes)
{
   int fd = open(path.c_str(), O_WRONLY | O_CREAT | O_TRUNC, 0644);
   if(fd < 0) { perror("open input"); _exit(3); }
   size_t off = 0;
   while(off < bytes.size())
   {
      ssize_t w = write(fd, bytes.data() + off, bytes.size() - off);
      if(w <= 0) { perror("write input"); _exit(3); }
      off += w;
   }
   close(fd);
}
static std::string g_crashpath;
static bool g_replay = false;

// ---- symbol lookup without an external symbolizer: the ELF symbol table of the executable itself -----------
struct Sym { uint64_t addr, size; std::string name; };
static std::vector<Sym> g_syms;
static uint64_t g_base = 0;
static int phdr_cb(struct dl_phdr_info* info, size_t, void* data)
{
   *(uint64_t*)data = info->dlpi_addr;     // first entry is the main executable
   return 1;
}
static void load_symbols()
{
   if(!g_syms.empty()) return;
   dl_iterate_phdr(phdr_cb, &g_base);
   std::string img = slurp_file("/proc/self/exe");
   if(img.size() < sizeof(Elf64_Ehdr)) return;
   const Elf64_Ehdr* eh = (const Elf64_Ehdr*)img.data();
   if(memcmp(eh->e_ident, ELFMAG, SELFMAG) != 0 || eh->e_shoff == 0) return;
   const Elf64_Shdr* sh = (const Elf64_Shdr*)(img.data() + eh->e_shoff);
   for(int i = 0; i < eh->e_shnum; ++i)
   {
      if(sh[i].sh_type != SHT_SYMTAB) continue;
      const Elf64_Sym* st = (const Elf64_Sym*)(img.data() + sh[i].sh_offset);
      size_t n = sh[i].sh_size / sizeof(Elf64_Sym);
      const char* str = img.data() + sh[sh[i].sh_link].sh_offset;
      for(size_t k = 0; k < n; ++k)
         if(ELF64_ST_TYPE(st[k].st_info) == STT_FUNC && st[k].st_value && st[k].st_size)
            g_syms.push_back({st[k].st_value, st[k].st_size, str + st[k].st_name});
   }
   std::sort(g_syms.begin(), g_syms.end(), [](const Sym & a, const Sym & b) { return a.addr < b.addr; });
}
static std::string function_at(void* pc)
{
   uint64_t a = (uint64_t)pc - g_base;
   size_t lo = 0, hi = g_syms.size();
   while(lo < hi) { size_t m = (lo + hi) / 2; if(g_syms[m].addr <= a) lo = m + 1; else hi = m; }
   if(lo == 0) return "?";
   const Sym& sy = g_syms[lo - 1];
   if(a >= sy.addr + sy.size) return "?";
   int st = 0;
   char* dm = abi::__cxa_demangle(sy.name.c_str(), 0, 0, &st);
   std::string r = (st == 0 && dm) ? short_fn(dm) : sy.name;
   free(dm);
   return r;
}

#ifdef VX_ASAN
extern "C" void __asan_set_error_report_callback(void (*)(const char*));
extern "C" void* __asan_get_report_address();
extern "C" const char* __asan_locate_address(void* addr, char* name, size_t name_size, void** region_address, size_t* region_size);
// External symbolizer only when a single case is replayed for a human; the enumeration itself resolves the faulting
// function from the ELF symbol table (no helper process whose pipe could get out of step when a case process is killed).
// (called by the sanitizer runtime before anything is initialised: raw system calls and hand-written loops only)
extern "C" __attribute__((no_sanitize("address", "undefined"))) const char* __asan_default_options()
{
   static char b[4096];
   long fd = syscall(SYS_open, "/proc/self/cmdline", O_RDONLY);
   long n = 0;
   if(fd >= 0)
   {
      n = syscall(SYS_read, fd, b, sizeof b - 1);
      syscall(SYS_close, fd);
   }
   bool replay = false;
   static const char pat[] = "--replay";
   for(long i = 0; i + 8 <= n; ++i)
   {
      int k = 0;
      while(k < 8 && b[i + k] == pat[k]) ++k;
      if(k == 8) replay = true;
   }
   return replay ? "quarantine_size_mb=8:malloc_context_size=6:detect_stack_use_after_return=0:symbolize=1"
          : "quarantine_size_mb=8:malloc_context_size=6:detect_stack_use_after_return=0:symbolize=0";
}
// the case process stops at the first AddressSanitizer report: the faulting access has not been executed yet, so
// nothing runs on corrupted memory and the signature is the one of the first error
static void on_asan_report(const char*)
{
   g_asan_report[0] = 0;
   std::string sig = std::string("asan:") + __asan_get_report_description() + ":" + (__asan_get_report_access_type() ? "write" : "read") + ":" + function_at(__asan_get_report_pc());
   char var[128];
   var[0] = 0;
   void* ra = 0;
   size_t rs = 0;
   const char* kind = __asan_locate_address(__asan_get_report_address(), var, sizeof var, &ra, &rs);
   if(kind && !strcmp(kind, "stack") && var[0]) sig += std::string("[") + var + ":" + std::to_string(rs) + "]";
   if(g_ctx && g_case)
   {
      g_ctx->violation(sig + suffix_of(*g_case, g_ft, g_stage ? *g_stage : ST_READ), g_cs, "AddressSanitizer report (the case process stops at the first report; replay prints it)");
      g_ctx->count("cases_stopped_at_first_asan_report");
      g_ctx->flushDelta();
   }
   _exit(0);
}
#endif

static void ensure_paths(const std::string& outdir)
{
   static pid_t owner = 0;
   if(owner == getpid()) return;
   owner = getpid();
   g_inpath = outdir + "/in-" + std::to_string(owner);
   g_crashpath = outdir + "/crash-" + std::to_string(owner);
   g_validLP = outdir + "/valid.lp";
   g_validMPS = outdir + "/valid.mps";
   g_stage = (volatile int*)mmap(0, 4096, PROT_READ | PROT_WRITE, MAP_SHARED | MAP_ANONYMOUS, -1, 0);
   load_symbols();
}

// ---- case process ------------------------------------------------------------------------------------
static void case_body(const Case& c, const Feat& ft, const std::string& cs, Ctx& ctx, bool wantSample)
{
   std::string pfx = std::string(ft.reader) + "." + (c.mode ? "rational" : "real");
   ctx.count("cases");
   ctx.count("cases." + pfx);
   if(ft.lineOver8191) ctx.count("input.line_over_8191_bytes");
   if(ft.lineOver16383) ctx.count("input.line_over_16383_bytes");
   if(ft.lineOver255 && (!strcmp(ft.reader, "mps") || !strcmp(ft.reader, "bas"))) ctx.count("input.mps_or_bas_line_over_255_bytes");
   if(ft.lineOver499 && c.fmt == SET) ctx.count("input.settings_line_over_499_bytes");
   if(ft.hasNul) ctx.count("input.has_nul_byte");
   if(ft.empty) ctx.count("input.empty");
   if(c.gz) ctx.count("input.gzip_container");
   if(!c.names) ctx.count("input.no_name_sets_passed");
   if(c.expValid) ctx.count("input.valid_variant_with_known_optimum");
   if((!strcmp(ft.reader, "mps") || !strcmp(ft.reader, "bas")) && ft.noEndata) ctx.count("input.mps_or_bas_without_ENDATA_line");
   ctx.flushDelta();     // what is known about the input survives a later death of this process

   std::set<std::string> seen;
   auto ubsan = [&](const Outcome & o)
   {
      std::string ub = take_ubsan_report();
      if(!ub.empty())
      {
         std::string sig = ub + suffix_of(c, ft, o.sanStage < 0 ? ST_READ : o.sanStage);
         if(seen.insert(sig).second) ctx.violation(sig, cs, "UndefinedBehaviorSanitizer report (replay prints it)");
      }
   };
   // The sequence is executed once; for the families marked "ab" a second time with a different fill of the uninitialised
   // stack (the outcome must be the same).  Whenever the live heap is larger after an execution than before it, the
   // sequence is repeated twice more: growth in both repetitions is a leak (the first execution may legitimately
   // allocate one-time state).
   Outcome A, B;
   int fillA = c.twice ? 0x2A : ((fnv_str(cs) & 1) ? 0x2A : 0xAA);
   run_core(c, ft, g_inpath.c_str(), g_validLP.c_str(), g_validMPS.c_str(), fillA, A);
   ctx.count("reader_runs");
   ubsan(A);
   static const char* RES[] = {"reported_failure", "success", "spx_exception", "foreign_exception"};
   const char* res = RES[A.readRes >= 0 && A.readRes < 4 ? A.readRes : 0];
   ctx.count("read." + pfx + "." + res);
   ctx.count("optimize1.status=" + std::to_string(A.st1));
   if(A.st2 == (int)SPxSolver::OPTIMAL) ctx.count("optimize2.optimal");
   else ctx.count("optimize2.status=" + std::to_string(A.st2));
   if(A.readRes == 1 && (c.fmt == LP || c.fmt == MPS))
   {
      if(A.nrows > 0 || A.ncols > 0) ctx.count("read_success_nonempty_lp");
      else ctx.count("read_success_empty_lp");
      if(A.nonfinite) ctx.count("read_success_with_nonfinite_or_nan_values");
      if(A.lowerGtUpper) ctx.count("read_success_with_lower_above_upper");
      if(A.lhsGtRhs) ctx.count("read_success_with_row_lhs_above_rhs");
   }
   if(A.failNonEmpty) ctx.count("read_failure_left_nonempty_lp");
   if(c.fmt == BAS && A.readRes == 1) ctx.count("basis_read_ok.basics=" + std::to_string(A.basics));
   if(A.spxExc) ctx.count("spx_exceptions_escaped_some_stage");
   if(c.twice || A.heapDelta > 0)
   {
      run_core(c, ft, g_inpath.c_str(), g_validLP.c_str(), g_validMPS.c_str(), c.twice ? 0xAA : fillA, B);
      ctx.count("reader_runs");
      ubsan(B);
      if(c.twice)
      {
         ctx.count("cases_executed_with_two_stack_fills");
         if(A.digest != B.digest)
         {
            char det[300];
            snprintf(det, sizeof det, "stack fill 0x2A: read=%d dims %dx%d status %d/%d; stack fill 0xAA: read=%d dims %dx%d status %d/%d",
                     A.readRes, A.nrows, A.ncols, A.st1, A.st2, B.readRes, B.nrows, B.ncols, B.st1, B.st2);
            ctx.violation("outcome-depends-on-uninitialised-stack" + suffix_of(c, ft, ST_COMPARE), cs, det);
         }
      }
      if(B.heapDelta > 0)
      {
         Outcome C;
         run_core(c, ft, g_inpath.c_str(), g_validLP.c_str(), g_validMPS.c_str(), fillA, C);
         ctx.count("reader_runs");
#ifdef VX_ASAN
         const long LEAKMIN = 1;        // sanitizer allocator statistics are exact
#else
         const long LEAKMIN = 65536;    // glibc's mallinfo includes chunk overhead and cache effects
#endif
         if(C.heapDelta >= LEAKMIN && B.heapDelta >= LEAKMIN)
         {
            char det[240];
            snprintf(det, sizeof det, "live heap grows by %ld and %ld bytes in the 2nd and 3rd execution of the same sequence (all objects destroyed in between); read result: %s", B.heapDelta, C.heapDelta, res);
            ctx.violation("leak" + suffix_of(c, ft, ST_TEARDOWN), cs, det);
         }
         else ctx.count("heap_growth_not_repeated");
      }
   }
   if(wantSample)
   {
      std::ostringstream js;
      js << "{\"case\":" << jstr(cs.size() > 400 ? cs.substr(0, 400) + "..." : cs) << ",\"reader\":" << jstr(ft.reader) << ",\"read\":" << jstr(res)
         << ",\"rows\":" << A.nrows << ",\"cols\":" << A.ncols << ",\"status_first_optimize\":" << A.st1 << ",\"status_final_optimize\":" << A.st2 << "}";
      ctx.samples.push_back(js.str());
   }
}

// ---- worker side ---------------------------------------------------------------------------------------
// The cases of a worker run in a separate "case process" that the worker feeds through a pipe (one line per case,
// the self-contained case string) and that acknowledges every finished case.  When the case process dies (signal,
// CPU limit, wall limit, stop at the first AddressSanitizer report) the worker knows which case and which stage it was
// in, records that, and starts a fresh case process for the next case.  The worker itself never executes SoPlex code.
static const int WALL_LIMIT_S = 180;    // whole case (several executions of the sequence); only a backstop, the read itself has the CPU limit
struct Session { pid_t pid = -1; int wfd = -1, rfd = -1; pid_t owner = 0; };
static Session g_sess;

static void child_loop(int rfd, int wfd, Ctx& ctx)
{
   prctl(PR_SET_PDEATHSIG, SIGKILL);
   int cfd = open(g_crashpath.c_str(), O_RDWR | O_CREAT | O_TRUNC, 0644);
   install_crash_handler(cfd);
   signal(SIGVTALRM, SIG_DFL);
   signal(SIGALRM, SIG_DFL);
   if(!g_replay)
   {
      int dn = open("/dev/null", O_WRONLY);
      if(dn >= 0) dup2(dn, 2);
   }
   ctx.counters.clear();          // pending counts of the worker are the worker's business
   ctx.samples.clear();
   ctx.flushedSamples = 0;
   g_ctx = &ctx;
#ifdef VX_ASAN
   __asan_set_error_report_callback(on_asan_report);
#endif
   FILE* in = fdopen(rfd, "r");
   char* line = nullptr;
   size_t cap = 0;
   for(;;)
   {
      ssize_t n = getline(&line, &cap, in);
      if(n <= 0) _exit(0);
      if(line[n - 1] == '\n') line[--n] = 0;
      bool wantSample = line[0] == '1';
      Case c = Case::parse(std::string(line + 2, n - 2));
      std::string d = c.content();
      g_ft = features(c, d);
      g_case = &c;
      g_cs = c.str();
      g_nemitted = 0;
      alarm(WALL_LIMIT_S);
      case_body(c, g_ft, g_cs, ctx, wantSample);
      alarm(0);
      ctx.flushDelta();
      g_case = nullptr;
      if(write(wfd, "k", 1) != 1) _exit(0);
   }
}

static void session_start(Ctx& ctx)
{
   int a[2], b[2];
   if(pipe(a) || pipe(b)) { perror("pipe"); _exit(3); }
   if(ctx.sink) fflush(ctx.sink);
   fflush(stdout);
   pid_t pid = fork();
   if(pid < 0) { perror("fork"); _exit(3); }
   if(pid == 0)
   {
      close(a[1]);
      close(b[0]);
      child_loop(a[0], b[1], ctx);
      _exit(0);
   }
   close(a[0]);
   close(b[1]);
   g_sess.pid = pid;
   g_sess.wfd = a[1];
   g_sess.rfd = b[0];
   g_sess.owner = getpid();
}

static uint64_t exec_case(const Case& c, Ctx& ctx, const std::string& outdir)
{
   ensure_paths(outdir);
   std::string d = c.content();
   Feat ft = features(c, d);
   std::string bytes = d;
   if(c.gz || c.gztrunc >= 0 || c.gzsub.first >= 0)
   {
      bytes = gzip_bytes(d);
      if(c.gztrunc >= 0 && (size_t)c.gztrunc < bytes.size()) bytes.resize(c.gztrunc);
      if(c.gzsub.first >= 0 && (size_t)c.gzsub.first < bytes.size()) bytes[c.gzsub.first] = (char)c.gzsub.second;
   }
   write_file(g_inpath, bytes);
   std::string cs = c.str();
   static int sampled = 0;
   bool wantSample = sampled < 2;
   sampled++;
   if(g_sess.owner != getpid()) g_sess = Session();     // a session inherited from the parent process is not ours
   if(g_sess.pid < 0) session_start(ctx);
   *g_stage = ST_SETUP;
   g_stage[1] = 0;
   std::string msg = std::string(wantSample ? "1" : "0") + " " + cs + "\n";
   bool sent = true;
   for(size_t off = 0; off < msg.size();)
   {
      ssize_t w = write(g_sess.wfd, msg.data() + off, msg.size() - off);
      if(w <= 0) { if(errno == EINTR) continue; sent = false; break; }
      off += w;
   }
   char ack = 0;
   ssize_t r = -1;
   if(sent) while((r = read(g_sess.rfd, &ack, 1)) < 0 && errno == EINTR) {}
   if(r == 1) return 0;
   // the case process died in this case
   int st = 0;
   while(waitpid(g_sess.pid, &st, 0) < 0 && errno == EINTR) {}
   close(g_sess.wfd);
   close(g_sess.rfd);
   g_sess = Session();
   int stg = *g_stage;
   if(WIFEXITED(st) && WEXITSTATUS(st) == 0) return 0;      // stopped at the first AddressSanitizer report (already recorded)
   ctx.count("case_processes_died");
   std::string sig, detail;
   int signo = WIFSIGNALED(st) ? WTERMSIG(st) : 0;
   if(signo == SIGVTALRM)
   {
      sig = "hang:cpu-limit";
      char b[240];
      if(stg == ST_READ) snprintf(b, sizeof b, "reader still running after %.2f s of user CPU time (normal reads of such inputs take < 5 ms)", c.cpu);
      else snprintf(b, sizeof b, "still in stage %s after %.1f s of user CPU time (a 3x3 LP solves in < 10 ms)", STAGE[stg < 9 ? stg : 0], c.cpuOpt);
      detail = b;
   }
   else if(signo == SIGALRM)
   {
      sig = "hang:wall-limit";
      detail = "case process still running after " + std::to_string(WALL_LIMIT_S) + " s";
   }
   else
   {
      // crash handler of the runner: "X <signo>" + frames + "XEND" in the scratch file, exit code 100 + signo
      std::ifstream in(g_crashpath);
      std::string line;
      std::vector<std::string> frames;
      int hsig = 0;
      bool inX = false;
      while(std::getline(in, line))
      {
         if(line.compare(0, 2, "X\t") == 0) { hsig = atoi(line.c_str() + 2); inX = true; }
         else if(line == "XEND") inX = false;
         else if(inX) frames.push_back(line);
      }
      if(hsig) signo = hsig;
      if(signo)
      {
         sig = "crash:sig" + std::to_string(signo) + ":" + crash_site(frames);
         for(size_t k = 0; k < frames.size() && k < 12; ++k)
         {
            std::string dm = demangle_frame(frames[k]);
            if(!dm.empty()) detail += short_fn(dm) + " <- ";
         }
      }
      else
      {
         sig = "abnormal-exit:" + std::to_string(WIFEXITED(st) ? WEXITSTATUS(st) : -1);
         detail = "case process ended without a result (sanitizer runtime abort or exit() inside the library)";
      }
   }
   ctx.violation(sig + suffix_of(c, ft, stg), cs, detail);
   return 0;
}

// ---------------------------------------------------------------------------------------------------
// enumerators
// ---------------------------------------------------------------------------------------------------
static uint64_t ipow(uint64_t b, int e) { uint64_t r = 1; while(e-- > 0) r *= b; return r; }
static uint64_t nseq(uint64_t A, int k) { uint64_t n = 0; for(int l = 0; l <= k; ++l) n += ipow(A, l); return n; }
static std::vector<int> seq_at(uint64_t idx, uint64_t A, int k)
{
   int l = 0;
   while(l <= k && idx >= ipow(A, l)) { idx -= ipow(A, l); ++l; }
   std::vector<int> v(l);
   for(int i = 0; i < l; ++i) { v[i] = int(idx % A); idx /= A; }
   return v;
}

struct Tok { std::string text; bool keyword; };   // keyword: rendered at column 0 when first on its line (MPS / BAS)
static std::vector<Tok> T_LP, T_MPS, T_BAS, T_SETFRAG;
static std::vector<std::string> BAS_LINES, BAS_LINES_SMALL, SET_LINES;
struct Ctx2 { std::string pre, rest; };
static std::vector<Ctx2> LPCTX, MPSCTX, BASCTX;

static void init_alphabets()
{
   std::string col14 = std::string(13, ' ') + "$";
   auto T = [](const std::string& s, bool kw = false) { return Tok{s, kw}; };
   T_LP =
   {
      T("max"), T("st"), T("bounds"), T("generals"), T("binary"), T("end"), T("free"), T("x"), T("w"), T("c1"),
      T(std::string(8200, 'a')), T(std::string(20000, 'n')), T("1"), T("-0.0"), T("1e"), T("1e999999999"), T("1/0"), T(std::string(9000, '7')),
      T("+"), T("-"), T("<="), T(">="), T("="), T(":"), T("\n"), T(std::string(1, '\0')), T("-inf"), T("\\"), T(std::string(300, 'b'))
   };
   T_MPS =
   {
      T("NAME", true), T("ROWS", true), T("COLUMNS", true), T("RHS", true), T("RANGES", true), T("BOUNDS", true), T("ENDATA", true), T("OBJSENSE", true),
      T("MAX"), T("N"), T("G"), T("E"), T("UP"), T("FR"), T("BV"), T("x"), T("c1"), T("obj"), T("w"),
      T("1"), T("-0.0"), T("1e"), T("1e999999999"), T("1/0"), T(std::string(300, 'b')), T(std::string(9000, '7')),
      T("'MARKER'"), T("'INTORG'"), T("$"), T("\n"), T(std::string(1, '\0')), T(col14), T("*", true)
   };
   T_BAS =
   {
      T("NAME", true), T("ENDATA", true), T("XU"), T("XL"), T("UL"), T("LL"), T("BS"), T("x"), T("y"), T("z"), T("c1"), T("c2"), T("c3"), T("w"),
      T(std::string(300, 'b')), T("\n"), T(std::string(1, '\0')), T("x0"), T("C0"), T("$"), T(col14)
   };
   T_SETFRAG =
   {
      T("int"), T("bool"), T("real"), T("uint"), T(":"), T("="), T("iterlimit"), T("lifting"), T("feastol"), T("random_seed"), T("5"), T("true"), T("1e-6"),
      T("#"), T("\n"), T(std::string(1, '\0')), T(" "), T("\t"), T(std::string(498, 'a')), T(std::string(499, 'a')), T(std::string(2000, 'a'))
   };
   // LP contexts: split points of the valid file
   const auto& L = V_LP_LINES;
   LPCTX =
   {
      {"", V_LP},
      {L[0] + " obj:", " x + 3 y + 3 z\n" + cat(L, 2, 99)},
      {cat(L, 0, 3), cat(L, 3, 99)},
      {cat(L, 0, 3) + " c1: x + y", " >= 2\n" + cat(L, 4, 99)},
      {cat(L, 0, 7), cat(L, 7, 99)},
      {cat(L, 0, 10), cat(L, 10, 99)},
      {V_LP, ""}
   };
   const auto& M = V_MPS_LINES;
   MPSCTX =
   {
      {"", V_MPS}, {cat(M, 0, 1), cat(M, 1, 99)}, {cat(M, 0, 4), cat(M, 4, 99)}, {cat(M, 0, 9), cat(M, 9, 99)}, {cat(M, 0, 14), cat(M, 14, 99)},
      {cat(M, 0, 16), cat(M, 16, 99)}, {cat(M, 0, 19), cat(M, 19, 99)}, {V_MPS, ""}
   };
   BASCTX = { {"", "ENDATA\n"}, {"NAME          V\n", "ENDATA\n"}, {"NAME          V\n" + mps_line("XL", "x", "c1"), mps_line("XU", "z", "c3") + "ENDATA\n"} };
   // basis files as sequences of whole lines
   const char* ind[] = {"XU", "XL", "UL", "LL", "BS", "QQ"};
   const char* cols[] = {"x", "y", "z", "w"};
   const char* rows[] = {"c1", "c2", "c3", "w", ""};
   for(auto i : ind) for(auto cc : cols) for(auto r : rows) BAS_LINES.push_back(mps_line(i, cc, r));
   for(int i = 0; i < 4; ++i) for(int cc = 0; cc < 3; ++cc)
      {
         if(i < 2) for(int r = 0; r < 3; ++r) BAS_LINES_SMALL.push_back(mps_line(ind[i], cols[cc], rows[r]));
         else BAS_LINES_SMALL.push_back(mps_line(ind[i], cols[cc]));
      }
}

static std::string render_lp(const Ctx2& cx, bool rest, const std::vector<int>& t)
{
   std::string s = cx.pre;
   for(size_t i = 0; i < t.size(); ++i) { if(!s.empty() && s.back() != '\n') s += ' '; s += T_LP[t[i]].text; }
   if(!t.empty() && s.back() != '\n') s += '\n';
   if(rest) s += cx.rest;
   return s;
}
static std::string render_fields(const std::vector<Tok>& A, const Ctx2& cx, bool rest, const std::vector<int>& t)
{
   std::string s = cx.pre;
   bool bol = true;
   for(size_t i = 0; i < t.size(); ++i)
   {
      const Tok& k = A[t[i]];
      if(k.text == "\n") { s += '\n'; bol = true; continue; }
      if(bol) s += k.keyword ? "" : " ";
      else s += "  ";
      s += k.text;
      bol = false;
   }
   if(!bol) s += '\n';
   if(rest) s += cx.rest;
   return s;
}

struct Family
{
   std::string name;
   uint64_t N = 0;
   std::function<Case(uint64_t)> gen;
};

static std::vector<std::string> g_instances;   // shipped instances, smallest first
static std::string slurp(const std::string& p)
{
   std::ifstream in(p, std::ios::binary);
   return std::string((std::istreambuf_iterator<char>(in)), std::istreambuf_iterator<char>());
}
static double cpu_for(size_t bytes) { return 0.2 + 6.0 * (double)bytes / 1e6; }

// ---------------------------------------------------------------------------------------------------
// memcheck pass (uninitialised reads, which the sanitizer build does not see): the plain build of this harness executes a
// list of cases under valgrind; markers printed into valgrind's log attribute every report to a case and a stage
// ---------------------------------------------------------------------------------------------------
static void prepare_input(const Case& c, Feat& ft)
{
   std::string d = c.content();
   ft = features(c, d);
   std::string bytes = d;
   if(c.gz || c.gztrunc >= 0 || c.gzsub.first >= 0)
   {
      bytes = gzip_bytes(d);
      if(c.gztrunc >= 0 && (size_t)c.gztrunc < bytes.size()) bytes.resize(c.gztrunc);
      if(c.gzsub.first >= 0 && (size_t)c.gzsub.first < bytes.size()) bytes[c.gzsub.first] = (char)c.gzsub.second;
   }
   write_file(g_inpath, bytes);
}
static int vg_batch_main(const Args& args)
{
   g_on_valgrind = RUNNING_ON_VALGRIND != 0;
   ensure_paths(args.outdir);
   signal(SIGVTALRM, SIG_DFL);
   signal(SIGALRM, SIG_DFL);
   std::ifstream in(args.get("vgbatch"));
   int start = atoi(args.get("vgstart", "0").c_str());
   std::string line;
   int n = 0;
   while(std::getline(in, line))
   {
      if(n++ < start) continue;
      Case c = Case::parse(line);
      Feat ft;
      prepare_input(c, ft);
      VALGRIND_PRINTF("VGCASE %d\n", n - 1);
      alarm(600);
      Outcome o;
      run_core(c, ft, g_inpath.c_str(), g_validLP.c_str(), g_validMPS.c_str(), -1, o);
      alarm(0);
   }
   VALGRIND_PRINTF("VGDONE\n");
   return 0;
}

// may this case be executed in-process without a watchdog?  (input classes of the open defects that crash or never return)
static bool vg_safe(const Case& c, const Feat& ft)
{
   bool mpsish = !strcmp(ft.reader, "mps") || !strcmp(ft.reader, "bas");
   if(mpsish && ft.noEndata) return false;
   if(!strcmp(ft.reader, "lp") && ft.lineOver8191) return false;
   if(c.mode && (ft.zeroDen || ft.hugeExp)) return false;
   if(ft.hugeExp && c.fmt != BAS) return false;
   return true;
}

static std::string g_plain_exe;
static uint64_t vg_run_batch(const std::vector<Case>& cases, uint64_t b, Ctx& ctx, const std::string& outdir)
{
   ensure_paths(outdir);
   std::string list = outdir + "/vg-" + std::to_string(b) + ".list", log = outdir + "/vg-" + std::to_string(b) + ".log";
   std::vector<Feat> fts(cases.size());
   {
      std::ofstream lf(list);
      for(size_t i = 0; i < cases.size(); ++i) { std::string d = cases[i].content(); fts[i] = features(cases[i], d); lf << cases[i].str() << "\n"; }
   }
   size_t start = 0;
   int restarts = 0;
   while(start < cases.size() && restarts < 50)
   {
      std::string sub = outdir + "/vgw-" + std::to_string(b);
      mkdir(sub.c_str(), 0755);
      std::string cmd = "valgrind -q --error-limit=no --num-callers=12 --log-file=" + log + " " + g_plain_exe + " --prop C13 --vgbatch " + list + " --vgstart " + std::to_string(start)
                        + " --out " + sub + " > /dev/null 2>&1";
      int rc = system(cmd.c_str());
      (void)rc;
      // parse the log
      std::ifstream lg(log);
      std::string line;
      long cur = -1;
      int stg = ST_SETUP;
      bool done = false;
      std::string kind;
      std::vector<std::string> frames;
      auto flush = [&]()
      {
         if(kind.empty()) return;
         std::string site;
         for(auto& f : frames) if(f.find("soplex::") != std::string::npos || f.find("zstr::") != std::string::npos) { site = f; break; }
         if(site.empty() && !frames.empty()) site = frames[0];
         std::string slug;
         for(char ch : kind) slug += isalnum((unsigned char)ch) ? (char)tolower(ch) : '-';
         while(slug.find("--") != std::string::npos) slug.erase(slug.find("--"), 1);
         while(!slug.empty() && slug.back() == '-') slug.pop_back();
         if(cur >= 0 && (size_t)cur < cases.size())
         {
            std::string detail = kind + " at";
            for(size_t i = 0; i < frames.size() && i < 6; ++i) detail += " " + short_fn(frames[i]) + " <-";
            ctx.violation("memcheck:" + slug + ":" + short_fn(site) + suffix_of(cases[cur], fts[cur], stg), cases[cur].str(), detail);
            ctx.count("memcheck.reports");
         }
         kind.clear();
         frames.clear();
      };
      while(std::getline(lg, line))
      {
         size_t p = line.find("VGCASE ");
         if(p != std::string::npos) { flush(); cur = atol(line.c_str() + p + 7); ctx.count("memcheck.cases_executed"); continue; }
         p = line.find("VGSTAGE ");
         if(p != std::string::npos) { flush(); stg = atoi(line.c_str() + p + 8); continue; }
         if(line.find("VGDONE") != std::string::npos) { flush(); done = true; continue; }
         if(line.compare(0, 2, "==") != 0) continue;
         size_t q = line.find("== ");
         if(q == std::string::npos) { flush(); continue; }
         std::string t = line.substr(q + 3);
         if(t.empty()) { flush(); continue; }
         if(t.compare(0, 3, "   ") == 0)
         {
            // "   at 0x...: function (in ...)" / "   by 0x...: function (...)"
            size_t c2 = t.find(": ");
            if(!kind.empty() && c2 != std::string::npos && (t.find("at 0x") != std::string::npos || t.find("by 0x") != std::string::npos))
            {
               std::string fn = t.substr(c2 + 2);
               size_t e = fn.rfind(" (");
               if(e != std::string::npos) fn = fn.substr(0, e);
               frames.push_back(fn);
            }
            continue;
         }
         if(t[0] == ' ') continue;                      // auxiliary lines ("  Address ... is ...")
         flush();
         if(t.compare(0, 19, "Process terminating") == 0 || t.compare(0, 6, "Access") == 0 || t.compare(0, 2, "If") == 0 || t.compare(0, 3, "The") == 0
               || t.compare(0, 5, "Stack") == 0 || t.compare(0, 5, "Block") == 0 || t.compare(0, 4, "  at") == 0) continue;
         kind = t;
      }
      flush();
      if(done) break;
      // the process died in case `cur` (crash or limit under memcheck): the sanitizer phases judge such cases; go on behind it
      ctx.count("memcheck.process_died_in_a_case");
      start = (cur < (long)start ? start : (size_t)cur) + 1;
      restarts++;
   }
   unlink(list.c_str());
   unlink(log.c_str());
   return 0;
}

int main(int argc, char** argv)
{
   Args args = parse_args(argc, argv);
   args.prop = "C13";
   mallopt(M_TRIM_THRESHOLD, 1 << 29);   // plain builds: keep the heap mapped between cases (no effect under the sanitizer allocator)
   mallopt(M_MMAP_THRESHOLD, 1 << 30);
   signal(SIGPIPE, SIG_IGN);
   init_texts();
   init_alphabets();
   static std::ostream* keep = &g_null;
   (void)keep;
   std::cerr.rdbuf(&g_nullbuf);   // the readers print syntax errors straight to std::cerr; sanitizers write to fd 2 directly
   write_file(args.outdir + "/valid.lp", V_LP);
   write_file(args.outdir + "/valid.mps", V_MPS);
   if(!args.get("vgbatch").empty()) return vg_batch_main(args);
   if(!args.replay.empty())
   {
      std::ifstream in(args.replay);
      std::string doc((std::istreambuf_iterator<char>(in)), std::istreambuf_iterator<char>());
      size_t p = doc.find("\"case\": \"");
      if(p == std::string::npos) { printf("REPLAY-ERROR no case\n"); return 2; }
      p += 9;
      std::string cs;
      for(size_t i = p; i < doc.size() && doc[i] != '"'; ++i)
      {
         if(doc[i] == '\\' && i + 1 < doc.size()) { ++i; cs += doc[i]; }
         else cs += doc[i];
      }
      Case c = Case::parse(cs);
      c.cpu = std::max(c.cpu * 10, 5.0);   // a replayed hang must survive a ten times larger limit
      g_replay = true;
      return replay_case([&](Ctx & cx)
      {
         // the case runs in its own process here too; what it reports comes back through a sink file
         Ctx tmp;
         std::string sinkPath = args.outdir + "/replay-sink.txt";
         tmp.sink = fopen(sinkPath.c_str(), "w");
         exec_case(c, tmp, args.outdir);
         fclose(tmp.sink);
         tmp.sink = nullptr;
         cx.mergeFile(sinkPath);
      });
   }
   bool thorough = args.tier == "thorough";
   Report rep(args, "fault_enumeration", thorough ? 3300 : 900);
   RunOpts o = rep.opts();
   o.perturb = {85};          // the sanitizer allocator fills fresh blocks itself; the stack is filled by the harness (two fills per case)
   o.watchdog_s = 40;

   {
      std::vector<std::pair<size_t, std::string>> v;
      const char* dir = "/repo/check/instances";
      if(FILE* p = popen((std::string("ls ") + dir).c_str(), "r"))
      {
         char b[512];
         while(fgets(b, sizeof b, p)) { std::string n = b; while(!n.empty() && (n.back() == '\n' || n.back() == '\r')) n.pop_back(); if(n.empty()) continue; std::string f = std::string(dir) + "/" + n; struct stat st; if(stat(f.c_str(), &st) == 0 && S_ISREG(st.st_mode)) v.push_back({(size_t)st.st_size, f}); }
         pclose(p);
      }
      std::sort(v.begin(), v.end());
      for(auto& x : v) g_instances.push_back(x.second);
   }
   auto inst = [&](const char* base) { for(auto& f : g_instances) if(f.size() >= strlen(base) && f.compare(f.size() - strlen(base), strlen(base), base) == 0) return f; return std::string(); };

   std::vector<Family> fams;
   auto klp = atoi(args.get("klp", thorough ? "3" : "2").c_str());
   auto kmps = atoi(args.get("kmps", thorough ? "3" : "2").c_str());
   auto kbas = atoi(args.get("kbas", thorough ? "3" : "2").c_str());
   auto kset = atoi(args.get("kset", thorough ? "4" : "3").c_str());
   const double TOKCPU = 1.0;

   // ---- (a) token sequences ---------------------------------------------------------------------------
   {
      // LP: every context x {rest of the valid file follows, nothing follows} x both modes
      uint64_t S = nseq(T_LP.size(), klp), nctx = LPCTX.size() * 2 - 1;
      Family f;
      f.name = "LP tokens k<=" + std::to_string(klp) + " x 13 contexts x 2 modes";
      f.N = S * nctx * 2;
      f.gen = [ = ](uint64_t idx)
      {
         Case c;
         c.fmt = LP; c.cpu = TOKCPU;
         c.mode = idx % 2; idx /= 2;
         uint64_t cx = idx % nctx; idx /= nctx;
         c.data = render_lp(LPCTX[cx / 2], cx % 2 == 0, seq_at(idx, T_LP.size(), klp));
         return c;
      };
      fams.push_back(f);
      // one level deeper: all sequences of length klp+1 over a 20-letter sub-alphabet at the start of the constraints section
      static const std::vector<int> R20 = {0, 1, 2, 3, 5, 6, 7, 8, 9, 10, 12, 13, 15, 16, 18, 20, 22, 23, 24, 25};
      int k2 = klp + 1;
      uint64_t A = T_LP.size(), A2 = R20.size(), S2 = ipow(A2, k2), nc2 = 1;
      Family g;
      g.name = "LP tokens k=" + std::to_string(k2) + " (20-letter alphabet) at the start of the constraints section x 2 modes";
      g.N = S2 * nc2 * 2;
      g.gen = [ = ](uint64_t idx)
      {
         Case c;
         c.fmt = LP; c.cpu = TOKCPU;
         c.mode = idx % 2; idx /= 2;
         int cx = (nc2 == 1 || idx % 2) ? 2 : 0; idx /= nc2;
         std::vector<int> t(k2);
         for(int i = 0; i < k2; ++i) { t[i] = R20[idx % A2]; idx /= A2; }
         c.data = render_lp(LPCTX[cx], cx == 2, t);
         return c;
      };
      fams.push_back(g);
      // deviations of the container / name-set dimensions over the shorter sequences
      int k1 = std::max(1, klp - 1);
      uint64_t S1 = nseq(A, k1);
      Family d;
      d.name = "LP tokens k<=" + std::to_string(k1) + " x 13 contexts x {gz, no name sets} x 2 modes";
      d.N = S1 * nctx * 2 * 2;
      d.gen = [ = ](uint64_t idx)
      {
         Case c;
         c.fmt = LP; c.cpu = TOKCPU;
         c.mode = idx % 2; idx /= 2;
         if(idx % 2) c.gz = 1; else c.names = 0;
         c.twice = 1;
         idx /= 2;
         uint64_t cx = idx % nctx; idx /= nctx;
         c.data = render_lp(LPCTX[cx / 2], cx % 2 == 0, seq_at(idx, A, k1));
         return c;
      };
      fams.push_back(d);
   }
   {
      // MPS: nothing-follows variants only at the start and the end (inside a section they are the truncation family)
      uint64_t A = T_MPS.size(), S = nseq(A, kmps), nctx = MPSCTX.size() + 1;
      Family f;
      f.name = "MPS fields k<=" + std::to_string(kmps) + " x 9 contexts x 2 modes";
      f.N = S * nctx * 2;
      f.gen = [ = ](uint64_t idx)
      {
         Case c;
         c.fmt = MPS; c.cpu = TOKCPU;
         c.mode = idx % 2; idx /= 2;
         uint64_t cx = idx % nctx; idx /= nctx;
         bool rest = cx < MPSCTX.size();
         c.data = render_fields(T_MPS, MPSCTX[rest ? cx : 0], rest, seq_at(idx, A, kmps));
         if(!rest) c.cpu = 0.3;
         return c;
      };
      fams.push_back(f);
      int k1 = std::max(1, kmps - 1);
      uint64_t S1 = nseq(A, k1);
      Family d;
      d.name = "MPS fields k<=" + std::to_string(k1) + " x 9 contexts x {gz, no name sets} x 2 modes";
      d.N = S1 * nctx * 2 * 2;
      d.gen = [ = ](uint64_t idx)
      {
         Case c;
         c.fmt = MPS; c.cpu = TOKCPU;
         c.mode = idx % 2; idx /= 2;
         if(idx % 2) c.gz = 1; else c.names = 0;
         c.twice = 1;
         idx /= 2;
         uint64_t cx = idx % nctx; idx /= nctx;
         bool rest = cx < MPSCTX.size();
         c.data = render_fields(T_MPS, MPSCTX[rest ? cx : 0], rest, seq_at(idx, A, k1));
         if(!rest) c.cpu = 0.3;
         return c;
      };
      fams.push_back(d);
      // a reduced alphabet one and two levels deeper inside COLUMNS and BOUNDS (five fields = one full data line)
      static const std::vector<int> R = {15, 16, 17, 18, 19, 22, 12, 13, 24, 28, 29, 31};   // x c1 obj w 1 1e999999999 UP FR b*300 $ \n col14$
      int k5 = thorough ? 4 : 3;
      uint64_t S5 = nseq(R.size(), k5);
      Family e;
      e.name = "MPS fields k<=" + std::to_string(k5) + " (12-letter alphabet) x {COLUMNS, RHS, RANGES, BOUNDS} x 2 modes";
      e.N = S5 * 4 * 2;
      e.gen = [ = ](uint64_t idx)
      {
         Case c;
         c.fmt = MPS; c.cpu = TOKCPU;
         c.mode = idx % 2; idx /= 2;
         int cx = 3 + int(idx % 4); idx /= 4;
         std::vector<int> t = seq_at(idx, R.size(), k5);
         for(auto& x : t) x = R[x];
         c.data = render_fields(T_MPS, MPSCTX[cx], true, t);
         return c;
      };
      fams.push_back(e);
   }
   {
      // basis files: field sequences and whole-line sequences, with and without name sets, before and after a solve
      uint64_t A = T_BAS.size(), nctx = BASCTX.size() + 1;   // every context with the rest of the file; the start also with nothing following
      for(int pre = 0; pre < 2; ++pre)
      {
         int kk = pre ? 2 : kbas;
         uint64_t S = nseq(A, kk);
         Family f;
         f.name = "BAS fields k<=" + std::to_string(kk) + " x 4 contexts x {name sets, default names} x 2 modes, LP " + (pre ? "solved before" : "loaded");
         f.N = S * nctx * 2 * 2;
         f.gen = [ = ](uint64_t idx)
         {
            Case c;
            c.fmt = BAS; c.cpu = 0.3; c.pre = pre;
            c.mode = idx % 2; idx /= 2;
            c.names = idx % 2; idx /= 2;
            uint64_t cx = idx % nctx; idx /= nctx;
            bool rest = cx < BASCTX.size();
            c.data = render_fields(T_BAS, BASCTX[rest ? cx : 0], rest, seq_at(idx, A, kk));
            return c;
         };
         fams.push_back(f);
      }
      uint64_t NL = BAS_LINES.size();
      Family g;
      uint64_t combos = thorough ? 4 : 1;
      g.name = std::string("BAS files of <=2 lines over 120 lines x 2 modes") + (thorough ? " x {name sets, default names} x {loaded, solved}" : "");
      g.N = nseq(NL, 2) * 2 * combos;
      g.gen = [ = ](uint64_t idx)
      {
         Case c;
         c.fmt = BAS; c.cpu = 0.3;
         c.mode = idx % 2; idx /= 2;
         if(combos == 4) { c.names = idx % 2; idx /= 2; c.pre = idx % 2; idx /= 2; }
         c.data = "NAME          V\n";
         for(int l : seq_at(idx, NL, 2)) c.data += BAS_LINES[l];
         c.data += "ENDATA\n";
         return c;
      };
      fams.push_back(g);
      uint64_t NS = BAS_LINES_SMALL.size();
      int kl = thorough ? 3 : 2;
      Family h2;
      h2.name = "BAS files of <=" + std::to_string(kl) + " lines over 24 well-formed lines x pre-state x 2 modes";
      h2.N = nseq(NS, kl) * 2 * 2;
      h2.gen = [ = ](uint64_t idx)
      {
         Case c;
         c.fmt = BAS; c.cpu = 0.3;
         c.mode = idx % 2; idx /= 2;
         c.pre = idx % 2; idx /= 2;
         c.data = "NAME          V\n";
         for(int l : seq_at(idx, NS, kl)) c.data += BAS_LINES_SMALL[l];
         c.data += "ENDATA\n";
         return c;
      };
      fams.push_back(h2);
   }
   {
      // settings: every (type, parameter name, value) line; then fragment sequences; then line sequences
      static std::vector<std::string> types = {"bool", "int", "real", "uint", "rational", "xyz", ""};
      static std::vector<std::string> names;
      if(names.empty())
      {
         for(int i = 0; i < SoPlex::BOOLPARAM_COUNT; ++i) names.push_back(SoPlex::Settings::boolParam.name[i]);
         for(int i = 0; i < SoPlex::INTPARAM_COUNT; ++i) names.push_back(SoPlex::Settings::intParam.name[i]);
         for(int i = 0; i < SoPlex::REALPARAM_COUNT; ++i) names.push_back(SoPlex::Settings::realParam.name[i]);
         names.push_back("random_seed");
         names.push_back("nosuchparam");
         names.push_back(std::string(300, 'p'));
      }
      static std::vector<std::string> vals = {"true", "false", "1", "-1", "0", "2147483648", "-0.0", "1e", "1e999999999", "1/0", "abc", std::string(400, '7'), std::string(600, '7'), ""};
      Family f;
      f.name = "settings: 7 types x " + std::to_string(names.size()) + " names x 14 values x 2 modes";
      f.N = types.size() * names.size() * vals.size() * 2;
      f.gen = [ = ](uint64_t idx)
      {
         Case c;
         c.fmt = SET; c.cpu = TOKCPU;
         c.mode = idx % 2; idx /= 2;
         const std::string& v = vals[idx % vals.size()]; idx /= vals.size();
         const std::string& n = names[idx % names.size()]; idx /= names.size();
         const std::string& t = types[idx % types.size()];
         c.data = t + ":" + n + " = " + v + "\n";
         return c;
      };
      fams.push_back(f);
      uint64_t A = T_SETFRAG.size();
      Family g;
      g.name = "settings fragments k<=" + std::to_string(kset) + " over 21 fragments";
      g.N = nseq(A, kset);
      g.gen = [ = ](uint64_t idx)
      {
         Case c;
         c.fmt = SET; c.cpu = TOKCPU;
         c.data.clear();
         for(int t : seq_at(idx, A, kset)) c.data += T_SETFRAG[t].text;
         return c;
      };
      fams.push_back(g);
      SET_LINES = {"int:iterlimit = 5\n", "int : iterlimit = 7\n", "int\n", "int:\n", "int:iterlimit\n", "int:iterlimit =\n", "bool:lifting = true\n", "bool:lifting = maybe\n", "bool\n",
                   "real:feastol = 1e-3\n", "real\n", "uint:random_seed = 3\n", "uint\n", "# c\n", "\n", std::string(499, 'a') + "\n", std::string(500, 'a') + "\n", "int:iterlimit = 9", "int:displayfreq = 10 x\n",
                   "int:verbosity = 5\n", "int:readmode = 1\n", "int:solvemode = 2\n", "int:syncmode = 1\n", std::string(1, '\0') + "\n"
                  };
      uint64_t NLs = SET_LINES.size();
      int kl = thorough ? 3 : 2;
      Family h2;
      h2.name = "settings files of <=" + std::to_string(kl) + " lines over 24 lines x 2 modes";
      h2.N = nseq(NLs, kl) * 2;
      h2.gen = [ = ](uint64_t idx)
      {
         Case c;
         c.fmt = SET; c.cpu = TOKCPU;
         c.mode = idx % 2; idx /= 2;
         for(int l : seq_at(idx, NLs, kl)) c.data += SET_LINES[l];
         return c;
      };
      fams.push_back(h2);
   }
   // ---- valid variants with known optimum: buffer boundaries --------------------------------------------
   {
      static std::vector<Case> list;
      list.clear();
      std::vector<size_t> lens = {8189, 8190, 8191, 8192, 8193, 16382, 16383, 16384, 16385, 24576, 70000};
      for(int mode = 0; mode < 2; ++mode)
         for(int gz = 0; gz < 2; ++gz)
         {
            for(size_t len : lens)
               for(size_t at = 0; at < V_LP_LINES.size(); ++at)
               {
                  // (1) a comment of that length at the end of line `at`, (2) blanks of that length inside the line
                  for(int kind = 0; kind < 2; ++kind)
                  {
                     Case c;
                     c.fmt = LP; c.mode = mode; c.gz = gz; c.expValid = 1; c.cpu = TOKCPU;
                     for(size_t i = 0; i < V_LP_LINES.size(); ++i)
                     {
                        std::string l = V_LP_LINES[i];
                        if(i == at)
                        {
                           l.pop_back();
                           size_t pad = len > l.size() + 2 ? len - l.size() - 2 : 1;
                           l += kind == 0 ? " \\" + std::string(pad, 'k') : std::string(pad + 2, ' ');
                           l += "\n";
                        }
                        c.data += l;
                     }
                     list.push_back(c);
                  }
               }
            // names / labels up to the longest length the LP format allows (255 characters)
            for(size_t len : {16, 255})
            {
               std::string nm(len, 'q');
               Case c;
               c.fmt = LP; c.mode = mode; c.gz = gz; c.expValid = 1; c.cpu = TOKCPU;
               c.data = V_LP;
               size_t p;
               while((p = c.data.find(" z")) != std::string::npos) c.data.replace(p + 1, 1, nm);
               list.push_back(c);
               Case r;
               r.fmt = LP; r.mode = mode; r.gz = gz; r.expValid = 1; r.cpu = TOKCPU;
               r.data = V_LP;
               p = r.data.find("c2:");
               r.data.replace(p, 2, nm);
               list.push_back(r);
            }
            // MPS: names up to the longest line that fits the 256-byte line buffer
            for(size_t len : {8, 100, 200, 230})
            {
               Case c;
               c.fmt = MPS; c.mode = mode; c.gz = gz; c.expValid = 1; c.cpu = TOKCPU;
               std::string nm(len, 'q');
               for(auto l : V_MPS_LINES)
               {
                  if(l.compare(0, 5, "    z") == 0) l = " " + nm + "  obj  3  c3  1\n";
                  if(l.compare(0, 3, " FR") == 0) l = " FR bnd  " + nm + "\n";
                  c.data += l;
               }
               list.push_back(c);
            }
            {
               Case c;
               c.fmt = BAS; c.mode = mode; c.gz = gz; c.expValid = 1; c.cpu = 0.5; c.data = V_BAS;
               list.push_back(c);
               c.names = 1; c.pre = 1;
               list.push_back(c);
               Case s2;
               s2.fmt = SET; s2.mode = mode; s2.gz = gz; s2.expValid = 1; s2.cpu = TOKCPU; s2.data = V_SET;
               list.push_back(s2);
               Case v1;
               v1.fmt = LP; v1.mode = mode; v1.gz = gz; v1.expValid = 1; v1.data = V_LP; v1.names = 0;
               list.push_back(v1);
               v1.names = 1;
               list.push_back(v1);
               v1.fmt = MPS; v1.data = V_MPS;
               list.push_back(v1);
               v1.names = 0;
               list.push_back(v1);
            }
         }
      Family f;
      for(auto& cc : list) cc.twice = 1;
      f.name = "valid variants (long lines, longest legal names) with known optimum";
      f.N = list.size();
      f.gen = [](uint64_t idx) { return list[idx]; };
      fams.push_back(f);
   }
   {
      // names, row labels and numbers whose length brackets the internal buffer sizes (1024-byte name store, 8192-byte token
      // buffers), at every position of the valid LP file; no expectation about the result beyond the common oracle
      static std::vector<Case> list;
      list.clear();
      std::vector<size_t> lens = {1022, 1023, 1024, 1025, 8190, 8191, 8192, 8193, 16384};
      struct Pos { const char* find; int kind; };   // kind 0: replace a name, 1: replace a number
      std::vector<Pos> pos = { {" x +", 0}, {"+ 3 z\n", 0}, {"c1:", 0}, {" x - y", 0}, {"<= x <=", 0}, {" z free", 0}, {" y\nEnd", 0},
         {"3 y", 1}, {">= 2", 1}, {"= 3\n", 1}, {"<= 4", 1}, {" 0 <=", 1}
      };
      for(int mode = 0; mode < 2; ++mode)
         for(size_t len : lens)
            for(auto& ps : pos)
            {
               Case c;
               c.fmt = LP; c.mode = mode; c.cpu = TOKCPU;
               c.data = V_LP;
               size_t p = c.data.find(ps.find);
               if(p == std::string::npos) continue;
               // the first alphanumeric character of the pattern is the token that is replaced
               size_t q = p;
               while(!isalnum((unsigned char)c.data[q])) ++q;
               size_t e = q;
               while(isalnum((unsigned char)c.data[e])) ++e;
               c.data.replace(q, e - q, std::string(len, ps.kind ? '8' : 'q'));
               list.push_back(c);
            }
      Family f;
      for(auto& cc : list) cc.twice = 1;
      f.name = "LP names / labels / numbers of 1022..16384 characters at 12 positions x 2 modes";
      f.N = list.size();
      f.gen = [](uint64_t idx) { return list[idx]; };
      fams.push_back(f);
   }
   {
      // duplicate and colliding names (no expectation about acceptance; the common oracle checks that names match dimensions)
      static std::vector<Case> list;
      list.clear();
      auto rep1 = [](std::string t, const std::string & a, const std::string & b) { size_t p = t.find(a); if(p != std::string::npos) t.replace(p, a.size(), b); return t; };
      std::vector<std::pair<int, std::string>> texts =
      {
         {LP, rep1(V_LP, " c2:", " c1:")},                       // two rows with the same label
         {LP, rep1(rep1(V_LP, " c1:", " C2:"), " c2:", " ")},     // user label C2 collides with the default name of the unnamed second row
         {LP, rep1(rep1(V_LP, " c2:", " "), " c3:", " ")},        // unnamed rows only after a named one
         {LP, rep1(V_LP, " c3: x + z", " c3: x + x")},            // the same column twice in a row
         {LP, rep1(V_LP, " c1: x + y", " x: x + y")},             // row label equal to a column name
         {LP, rep1(V_LP, " y\n", " y\n y\n nosuch\n")},            // repeated and unknown names in the integer section
         {LP, rep1(V_LP, " z free\n", " z free\n z free\n nosuch free\n")},
         {MPS, rep1(V_MPS, mps_line("L", "c2"), mps_line("L", "c1"))},                                         // duplicate row name
         {MPS, rep1(V_MPS, mps_line("", "y", "c2", "-1"), mps_line("", "x", "c2", "-1"))},                     // column x appears again after y
         {MPS, rep1(V_MPS, mps_line("", "x", "c2", "1", "c3", "1"), mps_line("", "x", "c1", "1", "c1", "1"))},  // same row twice in a column
         {MPS, rep1(V_MPS, mps_line("N", "obj"), mps_line("N", "obj") + mps_line("N", "obj2"))},               // two objective rows
         {MPS, rep1(V_MPS, mps_line("E", "c3"), mps_line("E", "c3") + mps_line("G", "obj"))},                  // constraint named like the objective
         {MPS, rep1(V_MPS, mps_line("UP", "bnd", "x", "4"), mps_line("UP", "bnd", "x", "4") + mps_line("UP", "bnd", "x", "-1") + mps_line("LO", "bnd", "nosuch", "1"))}
      };
      for(int mode = 0; mode < 2; ++mode)
         for(int names = 0; names < 2; ++names)
            for(auto& t : texts)
            {
               Case c;
               c.fmt = t.first; c.mode = mode; c.names = names; c.cpu = TOKCPU; c.data = t.second;
               list.push_back(c);
            }
      Family f;
      for(auto& cc : list) cc.twice = 1;
      f.name = "duplicate and colliding names in LP and MPS files x {name sets, none} x 2 modes";
      f.N = list.size();
      f.gen = [](uint64_t idx) { return list[idx]; };
      fams.push_back(f);
   }
   // ---- (b) truncations -----------------------------------------------------------------------------
   struct Seed { int fmt; std::string name, data, file; };
   std::vector<Seed> seeds = { {LP, "V.lp", V_LP, ""}, {MPS, "V.mps", V_MPS, ""}, {BAS, "V.bas", V_BAS, ""}, {SET, "V.set", V_SET, ""},
      {LP, "afiro.lp", "", inst("/afiro.lp")}, {MPS, "galenet.mps", "", inst("/galenet.mps")}, {SET, "exact.set", "", "/repo/settings/exact.set"}, {MPS, "afiro.mps", "", inst("/afiro.mps")}
   };
   size_t nTruncSeeds = thorough ? seeds.size() : 5;
   for(size_t si = 0; si < nTruncSeeds; ++si)
   {
      Seed sd = seeds[si];
      size_t len = sd.file.empty() ? sd.data.size() : slurp(sd.file).size();
      Family f;
      f.name = "truncations of " + sd.name + " at every byte offset x 2 modes x {plain, gz}";
      f.N = (len + 1) * 2 * 2;
      f.gen = [ = ](uint64_t idx)
      {
         Case c;
         c.fmt = sd.fmt; c.cpu = cpu_for(len);
         c.mode = idx % 2; idx /= 2;
         c.gz = idx % 2; idx /= 2;
         c.file = sd.file; c.data = sd.data; c.trunc = (long)idx;
         c.twice = sd.file.empty();
         if(c.gz && sd.fmt != LP && sd.fmt != SET && idx % 8 != 0) c.skip = true;   // hang-prone formats: gz only at every 8th offset
         return c;
      };
      fams.push_back(f);
   }
   {
      // line boundaries of shipped instances
      static std::vector<Case> list;
      list.clear();
      size_t maxLines = thorough ? 300 : 40;
      for(auto& fpath : g_instances)
      {
         std::string d = slurp(fpath);
         std::vector<size_t> bounds;
         for(size_t i = 0; i < d.size(); ++i) if(d[i] == '\n') bounds.push_back(i + 1);
         bool small = bounds.size() <= maxLines;
         for(size_t b = 0; b < bounds.size(); ++b)
         {
            // larger files (thorough only): the boundaries just before and after every line that starts in column 0
            // (section headers) and the last three line boundaries
            size_t ls = b ? bounds[b - 1] : 0;
            auto col0 = [&](size_t p) { return p < d.size() && d[p] != ' ' && d[p] != '\t' && d[p] != '*' && d[p] != '\\' && d[p] != '\n'; };
            bool isLP = fpath.size() > 3 && fpath.compare(fpath.size() - 3, 3, ".lp") == 0;
            if(!small && !(thorough && (col0(ls) || col0(bounds[b]) || b + 3 >= bounds.size()))) continue;
            for(int mode = 0; mode < 2; ++mode)
            {
               Case c;
               c.fmt = isLP ? LP : MPS;
               c.mode = mode; c.file = fpath; c.trunc = (long)bounds[b]; c.cpu = cpu_for(d.size());
               list.push_back(c);
            }
         }
      }
      Family f;
      f.name = "truncations of the shipped instances at line boundaries";
      f.N = list.size();
      f.gen = [](uint64_t idx) { return list[idx]; };
      fams.push_back(f);
   }
   // ---- (c) substitutions ---------------------------------------------------------------------------
   static const int MENU[] = {0, ' ', '\n', '-', 'e', ':', 0xFF};
   size_t nSubSeeds = thorough ? 7 : 5;
   for(size_t si = 0; si < nSubSeeds; ++si)
   {
      Seed sd = seeds[si];
      std::string base = sd.file.empty() ? sd.data : slurp(sd.file);
      size_t len = base.size();
      Family f;
      f.name = "single-byte substitutions in " + sd.name + " (7-byte menu, every offset) x 2 modes";
      f.N = len * 7 * 2;
      f.gen = [ = ](uint64_t idx)
      {
         Case c;
         c.fmt = sd.fmt; c.cpu = cpu_for(len);
         c.mode = idx % 2; idx /= 2;
         int b = MENU[idx % 7]; idx /= 7;
         c.file = sd.file; c.data = sd.data;
         c.subs.push_back({(long)idx, b});
         c.twice = sd.file.empty();
         if((unsigned char)base[idx] == (unsigned char)b) c.skip = true;
         return c;
      };
      fams.push_back(f);
   }
   if(thorough)
   {
      // every pair of positions of V.lp x 3x3 bytes
      static const int M3[] = {0, '\n', ':'};
      size_t len = V_LP.size();
      uint64_t pairs = (uint64_t)len * (len - 1) / 2;
      Family f;
      f.name = "two-byte substitutions in V.lp (all position pairs x {NUL, newline, ':'}^2) x 2 modes";
      f.N = pairs * 9 * 2;
      f.gen = [ = ](uint64_t idx)
      {
         Case c;
         c.fmt = LP; c.cpu = cpu_for(len);
         c.mode = idx % 2; idx /= 2;
         int b1 = M3[idx % 3]; idx /= 3;
         int b2 = M3[idx % 3]; idx /= 3;
         // idx -> (i<j)
         uint64_t j = (uint64_t)((1 + std::sqrt(1.0 + 8.0 * (double)idx)) / 2);
         while(j * (j - 1) / 2 > idx) --j;
         while((j + 1) * j / 2 <= idx) ++j;
         uint64_t i = idx - j * (j - 1) / 2;
         c.data = V_LP;
         c.subs.push_back({(long)i, b1});
         c.subs.push_back({(long)j, b2});
         return c;
      };
      fams.push_back(f);
   }
   {
      // faults of the gzip container itself: every truncation and every byte x {0x00, 0xFF, flip lowest bit} of the compressed image of V.lp / V.mps
      for(int which = 0; which < 2; ++which)
      {
         std::string plain = which ? V_MPS : V_LP;
         size_t zl = gzip_bytes(plain).size();
         std::string z = gzip_bytes(plain);
         Family f;
         f.name = std::string("gzip container faults on ") + (which ? "V.mps" : "V.lp") + " (every truncation, every offset x 3 byte faults) x 2 modes";
         f.N = (zl + zl * 3) * 2;
         f.gen = [ = ](uint64_t idx)
         {
            Case c;
            c.fmt = which ? MPS : LP; c.cpu = 0.5; c.gz = 1; c.twice = 1;
            c.mode = idx % 2; idx /= 2;
            c.data = plain;
            if(idx < zl) c.gztrunc = (long)idx;
            else
            {
               idx -= zl;
               int k = idx % 3; idx /= 3;
               unsigned char old = (unsigned char)z[idx];
               int nb = k == 0 ? 0 : (k == 1 ? 0xFF : (old ^ 1));
               c.gzsub = {(long)idx, nb};
               if(nb == old) c.skip = true;
            }
            return c;
         };
         fams.push_back(f);
      }
   }

   load_symbols();      // once, before the workers are forked
   std::string only = args.get("only");
   uint64_t stride = strtoull(args.get("stride", "1").c_str(), 0, 10);
   if(stride > 1) { rep.exhaustive = false; rep.notes.push_back("development run with --stride: not exhaustive"); }
   for(auto& f : fams)
   {
      if(!only.empty() && f.name.find(only) == std::string::npos) continue;
      Family* fp = &f;
      std::string outdir = args.outdir;
      rep.phase(f.name, f.N, [fp, outdir, stride](uint64_t idx, int, Ctx & c) -> uint64_t
      {
         if(stride > 1 && idx % stride != 0) return 0;     // development aid only (never passed by ./check): look at every stride-th case
         Case cs = fp->gen(idx);
         if(cs.skip) { c.count("skipped_identity_or_thinned"); return 0; }
         return exec_case(cs, c, outdir);
      }, [fp](uint64_t idx, uint64_t) { return fp->gen(idx).str(); }, o,
      [fp](uint64_t idx, uint64_t sub)
      {
         Case cs = fp->gen(idx);
         std::string d = cs.content();
         return suffix_of(cs, features(cs, d), (int)sub);
      });
   }
   // ---- memcheck pass over the short token sequences, the seeds and their truncations -----------------------
   if(only.empty() || std::string("memcheck").find(only) != std::string::npos || only == "memcheck")
   {
      int kv = atoi(args.get("kvg", thorough ? "2" : "1").c_str());
      std::vector<Family> vf;
      {
         uint64_t A = T_LP.size(), nctx = LPCTX.size() * 2 - 1;
         Family f;
         f.N = nseq(A, kv) * nctx * 2;
         f.gen = [ = ](uint64_t idx) { Case c; c.fmt = LP; c.cpu = TOKCPU; c.mode = idx % 2; idx /= 2; uint64_t cx = idx % nctx; idx /= nctx; c.data = render_lp(LPCTX[cx / 2], cx % 2 == 0, seq_at(idx, A, kv)); return c; };
         vf.push_back(f);
      }
      {
         uint64_t A = T_MPS.size(), nctx = MPSCTX.size() + 1;
         Family f;
         f.N = nseq(A, kv) * nctx * 2;
         f.gen = [ = ](uint64_t idx) { Case c; c.fmt = MPS; c.cpu = TOKCPU; c.mode = idx % 2; idx /= 2; uint64_t cx = idx % nctx; idx /= nctx; bool rest = cx < MPSCTX.size(); c.data = render_fields(T_MPS, MPSCTX[rest ? cx : 0], rest, seq_at(idx, A, kv)); return c; };
         vf.push_back(f);
      }
      {
         uint64_t A = T_BAS.size(), nctx = BASCTX.size() + 1;
         Family f;
         f.N = nseq(A, kv) * nctx * 2 * 2;
         f.gen = [ = ](uint64_t idx) { Case c; c.fmt = BAS; c.cpu = 0.3; c.mode = idx % 2; idx /= 2; c.names = idx % 2; idx /= 2; uint64_t cx = idx % nctx; idx /= nctx; bool rest = cx < BASCTX.size(); c.data = render_fields(T_BAS, BASCTX[rest ? cx : 0], rest, seq_at(idx, A, kv)); return c; };
         vf.push_back(f);
      }
      {
         uint64_t A = T_SETFRAG.size();
         int ks = kv + 1;
         Family f;
         f.N = nseq(A, ks);
         f.gen = [ = ](uint64_t idx) { Case c; c.fmt = SET; c.cpu = TOKCPU; for(int t : seq_at(idx, A, ks)) c.data += T_SETFRAG[t].text; return c; };
         vf.push_back(f);
         uint64_t NLs = SET_LINES.size();
         Family g;
         g.N = nseq(NLs, kv);
         g.gen = [ = ](uint64_t idx) { Case c; c.fmt = SET; c.cpu = TOKCPU; for(int l : seq_at(idx, NLs, kv)) c.data += SET_LINES[l]; return c; };
         vf.push_back(g);
      }
      for(size_t si = 0; si < 4; ++si)
      {
         Seed sd = seeds[si];
         size_t len = sd.data.size();
         Family f;
         f.N = (len + 1) * 2;
         f.gen = [ = ](uint64_t idx) { Case c; c.fmt = sd.fmt; c.cpu = TOKCPU; c.mode = idx % 2; idx /= 2; c.data = sd.data; c.trunc = (long)idx; return c; };
         vf.push_back(f);
      }
      static std::vector<std::pair<int, uint64_t>> vlist;
      vlist.clear();
      uint64_t skipped = 0;
      for(size_t fi = 0; fi < vf.size(); ++fi)
         for(uint64_t idx = 0; idx < vf[fi].N; ++idx)
         {
            Case c = vf[fi].gen(idx);
            std::string d = c.content();
            if(vg_safe(c, features(c, d))) vlist.push_back({(int)fi, idx});
            else ++skipped;
         }
      if(FILE* pp = popen("python3 /verif/tools/vbuild.py c13 --flavour plain 2>/dev/null", "r"))
      {
         char b[1024];
         while(fgets(b, sizeof b, pp)) { std::string l = b; while(!l.empty() && (l.back() == '\n' || l.back() == ' ')) l.pop_back(); if(!l.empty() && l[0] == '/') g_plain_exe = l; }
         pclose(pp);
      }
      uint64_t nb = std::max<uint64_t>(1, std::min<uint64_t>(96, vlist.size() / 40));
      if(g_plain_exe.empty() || access(g_plain_exe.c_str(), X_OK) != 0 || system("valgrind --version > /dev/null 2>&1") != 0)
      {
         rep.notes.push_back("memcheck pass not executed: plain build or valgrind not available");
         rep.exhaustive = false;
      }
      else
      {
         RunOpts ov = o;
         ov.watchdog_s = 3000;
         std::string outdir = args.outdir;
         static std::vector<Family> vfs;
         vfs = vf;
         rep.phase("memcheck: tokens k<=" + std::to_string(kv) + " (LP, MPS, BAS), settings fragments k<=" + std::to_string(kv + 1) + ", truncations of the four seed files; " + std::to_string(vlist.size()) + " cases in batches",
                   nb, [nb, outdir](uint64_t b, int, Ctx & c) -> uint64_t
         {
            std::vector<Case> cases;
            for(size_t i = b; i < vlist.size(); i += nb) cases.push_back(vfs[vlist[i].first].gen(vlist[i].second));
            return vg_run_batch(cases, b, c, outdir);
         }, [](uint64_t b, uint64_t) { return "memcheck batch " + std::to_string(b); }, ov);
         rep.all.counters["memcheck.cases_skipped_input_class_of_an_open_crash_or_hang"] += skipped;
      }
   }
   rep.evaluations = rep.all.counters["reader_runs"] + rep.all.counters["memcheck.cases_executed"];
   rep.rule = "case = (reader, read mode, container plain/gz, name sets passed or not, byte string); every member of the stated token-sequence, truncation, "
              "substitution and container-fault families is written to a file and read by the real reader through SoPlex::readFile / readBasisFile / "
              "loadSettingsFile in a sanitizer build (ASan + UBSan), followed by the fixed post-read sequence numRows, numCols, optimize, clearLPReal, "
              "readFile(valid file), optimize; the small families are executed with two different fills of the uninitialised stack, and every case whose "
              "execution leaves the heap larger is repeated twice more (leak = growth in both repetitions); the short token sequences and the seed truncations "
              "are executed once more under valgrind memcheck in a plain build. distinct_nontrivial = cases executed (identity substitutions and thinned gz "
              "duplicates are skipped and not counted); evaluations = executions of the whole sequence";
   rep.assumptions = {"reference problem V and its optimum 15/2 at (3/2,1/2,3/2) are computed by hand; the valid LP and MPS files are written by the harness",
                      "termination oracle: user-CPU-time limit of 0.2 s + 6 s/MB for a read of a truncation/substitution seed, 0.3-1 s for generated files (normal reads take < 5 ms), 8 s + 60 s/MB for each optimize(); replays use a ten times larger read limit",
                      "leak oracle: live heap bytes (sanitizer allocator statistics) must return to the starting value in the 2nd and 3rd execution of the same sequence",
                      "uninitialised reads: memcheck pass over the short sequences (input classes that crash or never return because of open defects are left out of that pass and counted); in the sanitizer pass uninitialised stack is observable only when it changes the outcome, uninitialised heap not at all",
                      "a sanitizer report ends the case process at once (nothing is executed on corrupted memory); the signature carries the input features that are necessary for the defect (+line>8191, +eof-before-ENDATA, +zero-denominator, +exponent>308, +empty, +duplicate-matrix-entry, +fixed-at-infinity)",
                      "settings files that mention a limit or a real-valued parameter may legitimately change the final solve; then only a sane status is required",
                      "lower > upper, lhs > rhs and non-finite values that the file states literally are counted, not flagged"
                     };
   rep.finish(rep.all.counters["cases"] + rep.all.counters["memcheck.cases_executed"]);
   return 0;
}
