// C04: every reported basis is valid, regular (if produced by a solve), consistent across the
// query functions, survives set/get, and is a correct warm start - at every point of a history at
// which hasBasis() is true: after solves of every status, iteration-limited solves (every limit below
// the unlimited iteration count), setBasis with EVERY valid status assignment, readBasisFile, and
// modifications that keep the basis; plus FORCEBASIC exact solves.
#include "vx_history.hpp"
#include "vx_planted.hpp"
using namespace vx;

static ConfigSpace g_cs;
static std::string g_tmp;

static std::string stat_str(const std::vector<SPxSolver::VarStatus>& v)
{
   std::string s;
   for(auto x : v) s += std::to_string((int)x);
   return s;
}

// conditions (1)-(3),(5) and, if `fromSolve`, (4): exact regularity of the basis matrix
static std::string check_state(SoPlex& spx, const Model& mo, const XLP& x, bool fromSolve, Ctx& c)
{
   if(!spx.hasBasis()) return "";
   c.count("states_with_basis");
   std::string b = basis_valid(spx, mo);
   if(!b.empty()) return "invalid-basis|" + b;
   int n = mo.n(), m = mo.m();
   // (5) private mirrors when they are the authority
   if(!spx._isRealLPLoaded)
   {
      c.count("states_with_basis_outside_solver");
      if(spx._basisStatusRows.size() != m || spx._basisStatusCols.size() != n)
         return "status-mirror-size|_basisStatusRows " + std::to_string(spx._basisStatusRows.size()) + "/" + std::to_string(m) + " _basisStatusCols " +
                std::to_string(spx._basisStatusCols.size()) + "/" + std::to_string(n);
   }
   // (3) getBasisInd names the same basic set
   std::vector<SPxSolver::VarStatus> rs(m + 1), cs(n + 1);
   spx.getBasis(rs.data(), cs.data());
   std::vector<int> bind(m + 1, 12345);
   spx.getBasisInd(bind.data());
   std::set<int> a(bind.begin(), bind.begin() + m), bset;
   for(int i = 0; i < m; ++i) if(rs[i] == SPxSolver::BASIC) bset.insert(-1 - i);
   for(int j = 0; j < n; ++j) if(cs[j] == SPxSolver::BASIC) bset.insert(j);
   if(a != bset) return "basis-index-query-differs|getBasisInd " + ivecstr(std::vector<int>(bind.begin(), bind.begin() + m)) + " vs statuses rows " + stat_str(rs) + " cols " + stat_str(cs);
   if(fromSolve && m > 0)
   {
      std::vector<std::vector<Q>> B(m, std::vector<Q>(m));
      int k = 0;
      for(int idx : bset) { int var = idx >= 0 ? idx : n + (-1 - idx); for(int i = 0; i < m; ++i) B[i][k] = x.col(i, var); ++k; }
      if(qdet(B) == 0) return "singular-basis-from-solve|rows " + stat_str(rs) + " cols " + stat_str(cs);
      c.count("solve_bases_regular");
   }
   return "";
}

static std::string judge_status(int st, double obj, const Classification& cl)
{
   if(cl.hasopt)
   {
      if(st != 1) return "status " + std::to_string(st) + " but the LP has optimum " + cl.opt.get_str();
      if(fabs(obj - cl.opt.get_d()) > 1e-6 * (1 + fabs(cl.opt.get_d()))) return "objective " + TinyLP::num(obj) + " != optimum " + cl.opt.get_str();
   }
   else
   {
      if(st == 1) return std::string("OPTIMAL on an LP without optimum (") + cl.name() + ")";
      if(st == 3 && cl.feasible) return "INFEASIBLE on a feasible LP";
   }
   return "";
}

// (7) warm start from the basis currently held by `spx`, in a NEW object holding the same LP
static std::string warm_start_new_object(SoPlex& spx, const TinyLP& t, const Classification& cl, const ConfigSpace::Cfg& cfg, Ctx& c)
{
   int n = t.n, m = t.m;
   std::vector<SPxSolver::VarStatus> rs(m + 1), cs(n + 1);
   spx.getBasis(rs.data(), cs.data());
   SoPlex s2;
   quiet(s2);
   g_cs.apply(s2, cfg);
   load_real(s2, t, 0);
   s2.setBasis(rs.data(), cs.data());
   if(!s2.hasBasis()) return "setBasis of a returned basis did not install a basis";
   // (6) read back
   std::vector<SPxSolver::VarStatus> rs2(m + 1), cs2(n + 1);
   s2.getBasis(rs2.data(), cs2.data());
   for(int i = 0; i < m; ++i) if(rs2[i] != rs[i] && !(rs2[i] == SPxSolver::FIXED && t.lhs[i] == t.rhs[i])) return "getBasis after setBasis differs in row " + std::to_string(i) + ": set " + std::to_string((int)rs[i]) + " got " + std::to_string((int)rs2[i]);
   for(int j = 0; j < n; ++j) if(cs2[j] != cs[j] && !(cs2[j] == SPxSolver::FIXED && t.lo[j] == t.up[j])) return "getBasis after setBasis differs in col " + std::to_string(j) + ": set " + std::to_string((int)cs[j]) + " got " + std::to_string((int)cs2[j]);
   int st = (int)s2.optimize();
   c.count("warm_starts_new_object");
   std::string j = judge_status(st, s2.objValueReal(), cl);
   if(!j.empty()) return "warm start in a new object: " + j;
   return "";
}

static uint64_t run_lp_cl(const TinyLP& t, const XLP& x, const Classification& cl, const std::string& caseName, const std::string& sigTag, const ConfigSpace::Cfg& cfg, Ctx& c);

static uint64_t run_lp(const TinyLP& t, const ConfigSpace::Cfg& cfg, Ctx& c)
{
   XLP x = t.exact();
   Classification cl = classify(x, false, true);
   return run_lp_cl(t, x, cl, t.str(), "", cfg, c);
}

// planted medium-size LP (vx_planted.hpp): the bases are the ones solves produce - the final one and the one each iteration-limited solve stops at
// (limits 0, 1, 2, 3, 5, 8, 13, ... below the unlimited count; dozens of distinct intermediate bases per LP) - each checked for validity, exact
// regularity (determinant over the rationals), consistency of the queries, set/get round trip and as warm start in the same and in a new object;
// "setBasis with every regular basis" of the tiny families is not possible here (no enumeration) and is skipped
static uint64_t run_planted4(const PlantedSpec& sp, const ConfigSpace::Cfg& cfg, Ctx& c)
{
   PlantedLP P = planted(sp);
   XLP x = P.lp.exact();
   c.count(std::string("planted_class.") + sp.kindName());
   return run_lp_cl(P.lp, x, P.cl, sp.str(), "+planted", cfg, c);
}

static uint64_t run_lp_cl(const TinyLP& t, const XLP& x, const Classification& cl, const std::string& caseName, const std::string& sigTag, const ConfigSpace::Cfg& cfg, Ctx& c)
{
   const bool medium = !sigTag.empty();
   Model mo = Model::from(t);
   std::string cs = caseName + "#" + g_cs.str(cfg);
   std::string cfgs = g_cs.str(cfg) + sigTag;
   auto viol = [&](const std::string & res, const std::string & where)
   {
      size_t bar = res.find('|');
      std::string rule = bar == std::string::npos ? "warm-start-wrong" : res.substr(0, bar);
      c.violation(rule + "@" + where + "|" + cfgs, cs, res);
   };
   uint64_t h = 1;
   c.count("lp_x_cfg");
   // --- A: unlimited solve
   int N = 0;
   {
      SoPlex spx;
      quiet(spx);
      g_cs.apply(spx, cfg);
      load_real(spx, t, 0);
      int st = (int)spx.optimize();
      N = spx.numIterations();
      c.count(std::string("status.") + std::to_string(st));
      h = h * 31 + st;
      if(spx.hasBasis())
      {
         std::string r = check_state(spx, mo, x, true, c);
         if(!r.empty()) viol(r, "after-solve:" + std::to_string(st));
         else
         {
            std::string w = warm_start_new_object(spx, t, cl, cfg, c);
            if(!w.empty()) viol(w, "after-solve:" + std::to_string(st));
            // same object: solve again from the basis it holds
            int st2 = (int)spx.optimize();
            c.count("warm_starts_same_object");
            std::string j = judge_status(st2, spx.objValueReal(), cl);
            if(!j.empty()) viol("re-solve in the same object: " + j, "after-solve:" + std::to_string(st));
            // write + read basis file, then the same checks
            std::string f = g_tmp + "/b" + std::to_string(getpid()) + ".bas";
            if(spx.writeBasisFile(f.c_str(), nullptr, nullptr, false))
            {
               std::vector<SPxSolver::VarStatus> r1(t.m + 1), c1(t.n + 1), r2(t.m + 1), c2(t.n + 1);
               spx.getBasis(r1.data(), c1.data());
               spx.clearBasis();
               if(spx.readBasisFile(f.c_str(), nullptr, nullptr))
               {
                  c.count("basis_files_read");
                  std::string r3 = check_state(spx, mo, x, false, c);
                  if(!r3.empty()) viol(r3, "after-readBasisFile");
               }
               unlink(f.c_str());
            }
         }
      }
      else if(st == 1) c.violation("optimal-without-basis@" + cfgs, cs, "");
   }
   // --- iteration-limited solves: every limit below the unlimited iteration count
   for(int lim = 0, prev = 1; lim < N && (medium ? lim < 400 : lim < 12); )
   {
      struct Next { int& l; int& p; bool med; ~Next() { if(!med || l < 3) ++l; else { int n = l + p; p = l; l = n; } } } next{lim, prev, medium};   // medium: 0,1,2,3,5,8,13,...
      if(medium && lim == 3) prev = 2;
      set_sub(100 + lim);
      SoPlex spx;
      quiet(spx);
      g_cs.apply(spx, cfg);
      load_real(spx, t, 0);
      spx.setIntParam(SoPlex::ITERLIMIT, lim);
      int st = (int)spx.optimize();
      c.count("iterlimit_solves");
      if(!spx.hasBasis()) { c.count("iterlimit_no_basis"); continue; }
      std::string r = check_state(spx, mo, x, true, c);
      if(!r.empty()) { viol(r, "after-iterlimit-solve:" + std::to_string(st)); continue; }
      spx.setIntParam(SoPlex::ITERLIMIT, -1);
      std::string w = warm_start_new_object(spx, t, cl, cfg, c);
      if(!w.empty()) viol(w, "after-iterlimit-solve:" + std::to_string(st));
      int st2 = (int)spx.optimize();
      std::string j = judge_status(st2, spx.objValueReal(), cl);
      if(!j.empty()) viol("resume in the same object: " + j, "after-iterlimit-solve:" + std::to_string(st));
   }
   if(c.wantSample() && N >= 2)
      c.sample("{\"lp\":" + (medium ? jstr(caseName) : t.json()) + ",\"config\":" + jstr(cfgs) + ",\"iterations_unlimited\":" + std::to_string(N) + ",\"regular_bases\":" + std::to_string(cl.regular.size()) + ",\"exact_class\":" + jstr(cl.name()) + "}");
   // --- B: setBasis with every valid status assignment (regular bases x nonbasic placements), LP inside / outside the solver
   int n = t.n, m = t.m;
   for(int outside = 0; outside <= 1; ++outside)
   {
      int bno = 0;
      for(auto& basic : cl.regular)
      {
         std::vector<bool> isb(n + m, false);
         for(int k : basic) isb[k] = true;
         std::vector<int> nb;
         for(int k = 0; k < n + m; ++k) if(!isb[k]) nb.push_back(k);
         long total = 1;
         std::vector<std::array<int, 2>> opts(nb.size());
         std::vector<int> nopt(nb.size());
         for(size_t q = 0; q < nb.size(); ++q)
         {
            int o[2], no;
            nb_options(x.vlo(nb[q]), x.vup(nb[q]), o, no);
            opts[q] = {o[0], no > 1 ? o[1] : o[0]}; nopt[q] = no; total *= no;
         }
         for(long p = 0; p < total; ++p)
         {
            set_sub(1000 + (++bno));
            std::vector<SPxSolver::VarStatus> rs(m + 1, SPxSolver::BASIC), csx(n + 1, SPxSolver::BASIC);
            long r = p;
            for(size_t q = 0; q < nb.size(); ++q)
            {
               SPxSolver::VarStatus stv = (SPxSolver::VarStatus)opts[q][r % nopt[q]];
               r /= nopt[q];
               if(nb[q] < n) csx[nb[q]] = stv; else rs[nb[q] - n] = stv;
            }
            SoPlex spx;
            quiet(spx);
            g_cs.apply(spx, cfg);
            load_real(spx, t, 0);
            if(outside) spx.optimize();    // with the default simplifier the LP is then held outside the solver
            spx.setBasis(rs.data(), csx.data());
            c.count("setbasis_calls");
            if(!spx.hasBasis()) { viol("setbasis|hasBasis() false after setBasis of a valid regular basis", outside ? "after-setBasis(post-solve)" : "after-setBasis"); continue; }
            std::vector<SPxSolver::VarStatus> rs2(m + 1), cs2(n + 1);
            spx.getBasis(rs2.data(), cs2.data());
            bool same = true;
            for(int i = 0; i < m; ++i) if(rs2[i] != rs[i] && !(rs2[i] == SPxSolver::FIXED && t.lhs[i] == t.rhs[i])) same = false;
            for(int j = 0; j < n; ++j) if(cs2[j] != csx[j] && !(cs2[j] == SPxSolver::FIXED && t.lo[j] == t.up[j])) same = false;
            if(!same) { viol("setbasis-readback|set rows " + stat_str(rs) + " cols " + stat_str(csx) + " got rows " + stat_str(rs2) + " cols " + stat_str(cs2), outside ? "after-setBasis(post-solve)" : "after-setBasis"); continue; }
            std::string r0 = check_state(spx, mo, x, false, c);
            if(!r0.empty()) { viol(r0, outside ? "after-setBasis(post-solve)" : "after-setBasis"); continue; }
            int st = (int)spx.optimize();
            std::string j = judge_status(st, spx.objValueReal(), cl);
            bool freeRowNonbasic = false;
            for(int i = 0; i < m; ++i) if(rs[i] == SPxSolver::ZERO) freeRowNonbasic = true;
            if(!j.empty()) viol("solve started from setBasis: " + j, std::string(outside ? "after-setBasis(post-solve)" : "after-setBasis") + (freeRowNonbasic ? "+nonbasic-free-row" : ""));
            else if(spx.hasBasis())
            {
               std::string r1 = check_state(spx, mo, x, true, c);
               if(!r1.empty()) viol(r1, "after-solve-from-setBasis");
            }
         }
      }
   }
   // --- modifications that keep the basis (depth 1 from the solved state)
   {
      auto ops = alphabet(n, m, true);
      for(size_t k = 0; k < ops.size(); ++k)
      {
         if(!is_modification(ops[k].kind) || ops[k].kind == OP_CLEARLP) continue;
         set_sub(5000 + k);
         SoPlex spx;
         quiet(spx);
         g_cs.apply(spx, cfg);
         load_real(spx, t, 0);
         spx.optimize();
         Model m2 = mo;
         std::vector<Model> alts;
         apply_op(spx, m2, ops[k], &alts);
         if(!alts.empty() && !compare_real(spx, m2).empty()) m2 = alts[0];
         c.count("modifications");
         if(!spx.hasBasis()) continue;
         XLP x2 = m2.tiny().exact();
         std::string r = check_state(spx, m2, x2, false, c);
         if(!r.empty()) { viol(r, std::string("after-") + OPNAME[ops[k].kind]); continue; }
         // ... and the kept basis is a correct warm start for the modified LP: re-optimise from it, then the basis the solve leaves must again be valid and regular
         // (a column fixed while basic, a row made an equation while basic, ... leave the basis through branches a solve from scratch never takes)
         if(m2.n() == 0) continue;
         bool nbFreeRow = false;
         {
            std::vector<SPxSolver::VarStatus> rs(m2.m() + 1), csx(m2.n() + 1);
            spx.getBasis(rs.data(), csx.data());
            for(int i = 0; i < m2.m(); ++i) if(rs[i] == SPxSolver::ZERO) nbFreeRow = true;
         }
         int st = 0;
         try { st = (int)spx.optimize(); }
         catch(const SPxException& e) { viol(std::string("exception|") + e.what(), std::string("reoptimize-after-") + OPNAME[ops[k].kind] + (nbFreeRow ? "+nonbasic-free-row" : "")); continue; }
         c.count("reoptimisations_after_modification");
         if(spx.hasBasis())
         {
            std::string r2 = check_state(spx, m2, x2, true, c);
            if(!r2.empty()) { viol(r2, std::string("reoptimize-after-") + OPNAME[ops[k].kind] + (nbFreeRow ? "+nonbasic-free-row" : "")); continue; }
         }
         if(!medium)
         {
            Classification cl2 = classify(x2);
            std::string j = judge_status(st, spx.objValueReal(), cl2);
            if(!j.empty()) viol("re-optimisation from the kept basis: " + j, std::string("reoptimize-after-") + OPNAME[ops[k].kind] + (nbFreeRow ? "+nonbasic-free-row" : ""));
         }
      }
   }
   return h;
}

// FORCEBASIC exact solve: rational primal/dual are exactly the basic solution of the returned basis
// variant bits: 1 = equality transformation on, 2 = simplifier off
static const char* FBTAG[] = {"", "@eqtrans=1", "@simplifier=0", "@eqtrans=1,simplifier=0"};
static uint64_t run_forcebasic(const TinyLP& t, Ctx& c, int variant = 0)
{
   XLP x = t.exact();
   if(x.m > 0 && x.n > 0 && x.A[0][0] != 0) x.A[0][0] = Q(1, 3);
   SoPlex spx;
   quiet(spx);
   spx.setIntParam(SoPlex::SYNCMODE, SoPlex::SYNCMODE_AUTO);
   spx.setIntParam(SoPlex::SOLVEMODE, SoPlex::SOLVEMODE_RATIONAL);
   spx.setIntParam(SoPlex::CHECKMODE, SoPlex::CHECKMODE_RATIONAL);
   spx.setRealParam(SoPlex::FEASTOL, 0.0);
   spx.setRealParam(SoPlex::OPTTOL, 0.0);
   spx.setBoolParam(SoPlex::FORCEBASIC, true);
   if(variant & 1) spx.setBoolParam(SoPlex::EQTRANS, true);
   if(variant & 2) spx.setIntParam(SoPlex::SIMPLIFIER, SoPlex::SIMPLIFIER_OFF);
   load_real(spx, t, 0);
   if(x.m > 0 && x.n > 0 && x.A[0][0] != 0) spx.changeElementRational(0, 0, Rational(x.A[0][0].get_mpq_t()));
   int st = (int)spx.optimize();
   c.count("forcebasic_solves");
   c.count("forcebasic.status." + std::to_string(st));
   if(getenv("VX_DEBUG")) printf("DEBUG forcebasic variant=%d status=%d hasBasis=%d\n", variant, st, (int)spx.hasBasis());
   if(st != 1 || !spx.hasBasis()) return st;
   int n = x.n, m = x.m;
   std::vector<SPxSolver::VarStatus> rs(m + 1), cs(n + 1);
   spx.getBasis(rs.data(), cs.data());
   BasicSol bs;
   bs.stat.assign(n + m, V_BASIC);
   std::vector<int> basic;
   for(int j = 0; j < n; ++j) { bs.stat[j] = (int)cs[j]; if(cs[j] == SPxSolver::BASIC) basic.push_back(j); }
   for(int i = 0; i < m; ++i) { bs.stat[n + i] = (int)rs[i]; if(rs[i] == SPxSolver::BASIC) basic.push_back(n + i); }
   std::string cstr = t.str() + "#fb:" + std::to_string(variant);
   if(getenv("VX_DEBUG")) printf("DEBUG rows %s cols %s\n", stat_str(rs).c_str(), stat_str(cs).c_str());
   const std::string tag = FBTAG[variant & 3];
   if((int)basic.size() != m) { c.violation("forcebasic:basis-count" + tag, cstr, ""); return st; }
   if(!basic_solution(x, basic, bs)) { c.violation("forcebasic:singular-basis" + tag, cstr, ""); return st; }
   VectorRational px(n), py(m);
   spx.getPrimalRational(px);
   spx.getDualRational(py);
   for(int j = 0; j < n; ++j)
   {
      Q got(px[j].backend().data());
      got.canonicalize();
      if(got != bs.x[j])
      {
         // is the returned point the basic solution of the same basic set with some nonbasic boxed variables at their other bound? then the defect is a status, not the point
         std::vector<int> boxed;
         for(int k = 0; k < n + m; ++k) if(bs.stat[k] != V_BASIC && x.vlo(k).fin() && x.vup(k).fin() && x.vlo(k).v != x.vup(k).v) boxed.push_back(k);
         bool flipped = false;
         for(unsigned mask = 1; !flipped && boxed.size() <= 6 && mask < (1u << boxed.size()); ++mask)
         {
            BasicSol b2;
            b2.stat = bs.stat;
            for(int k : basic) b2.stat[k] = V_BASIC;
            for(size_t q = 0; q < boxed.size(); ++q) if((mask >> q) & 1) b2.stat[boxed[q]] = (bs.stat[boxed[q]] == V_ON_UPPER) ? V_ON_LOWER : V_ON_UPPER;
            if(!basic_solution(x, basic, b2)) continue;
            bool same = true;
            for(int jj = 0; same && jj < n; ++jj) { Q g(px[jj].backend().data()); g.canonicalize(); same = (g == b2.x[jj]); }
            flipped = same;
         }
         if(flipped) { c.violation("forcebasic:nonbasic-status-at-the-wrong-bound" + tag, cstr, "the returned primal is the basic solution of the returned basic set, but with a boxed nonbasic variable at its other bound: rows " + stat_str(rs) + " cols " + stat_str(cs)); return st; }
      }
      if(got != bs.x[j]) { c.violation("forcebasic:primal-not-basic-solution" + tag, cstr, "x" + std::to_string(j) + " = " + got.get_str() + " but the basis gives " + bs.x[j].get_str() + " rows " + stat_str(rs) + " cols " + stat_str(cs)); return st; }
   }
   for(int i = 0; i < m; ++i)
   {
      Q got(py[i].backend().data());
      got.canonicalize();
      if(got != bs.y[i]) { c.violation("forcebasic:dual-not-basic-solution" + tag, cstr, "y" + std::to_string(i) + " = " + got.get_str() + " but the basis gives " + bs.y[i].get_str() + " rows " + stat_str(rs) + " cols " + stat_str(cs)); return st; }
   }
   c.count("forcebasic_checked");
   return st;
}

int main(int argc, char** argv)
{
   Args args = parse_args(argc, argv);
   args.prop = "C04";
   g_cs = ConfigSpace::algorithmic();
   g_tmp = args.outdir;
   std::vector<ConfigSpace::Cfg> cfgs =
   {
      g_cs.defaults(), g_cs.parse("simplifier=0"), g_cs.parse("representation=2"), g_cs.parse("algorithm=0,simplifier=0"),
      g_cs.parse("simplifier=0,scaler=0"), g_cs.parse("representation=2,simplifier=0,persistentscaling=0"), g_cs.parse("pricer=5,ratiotester=1")
   };
   if(!args.replay.empty())
   {
      std::ifstream in(args.replay);
      std::string doc((std::istreambuf_iterator<char>(in)), std::istreambuf_iterator<char>());
      size_t p = doc.find("\"case\": \"");
      if(p == std::string::npos) { printf("REPLAY-ERROR no case\n"); return 2; }
      p += 9;
      std::string cs = doc.substr(p, doc.find('"', p) - p);
      size_t h = cs.find('#');
      mallopt(M_PERTURB, 85);
      PlantedSpec psp;
      if(cs.compare(0, 2, "P:") == 0 && PlantedSpec::parse(cs.substr(0, h), psp))
      {
         ConfigSpace::Cfg cfgp = g_cs.parse(cs.substr(h + 1));
         return replay_case([&](Ctx & c) { run_planted4(psp, cfgp, c); });
      }
      TinyLP t = TinyLP::parse(cs.substr(0, h));
      if(h == std::string::npos) return replay_case([&](Ctx & c) { run_forcebasic(t, c); });
      if(cs.compare(h + 1, 3, "fb:") == 0) { int v = atoi(cs.c_str() + h + 4); return replay_case([&](Ctx & c) { run_forcebasic(t, c, v); }); }
      ConfigSpace::Cfg cfg = g_cs.parse(cs.substr(h + 1));
      return replay_case([&](Ctx & c) { run_lp(t, cfg, c); });
   }
   bool thorough = args.tier == "thorough";
   Report rep(args, "model_checking", thorough ? 3000 : 400);
   FamilySet fs;
   fs.add(famQ());
   if(thorough) fs.add(famT(3, 2, {-1, 0, 1, 2}, {-1, 1}, {0, 1, 3}, {0, 2, 3}, 4));
   uint64_t stride = thorough ? 5 : 97;
   uint64_t NC = cfgs.size();
   RunOpts o = rep.opts();
   o.perturb = {85};
   auto lpAt = [&](uint64_t k, TinyLP & t) -> bool
   {
      uint64_t raw = k * stride, lim = std::min<uint64_t>(raw + stride, fs.total);
      while(raw < lim && !fs.get(raw, t)) ++raw;
      return raw < lim;
   };
   rep.phase("histories on Q-subset x 7 parameter vectors", (fs.total / stride) * NC, [&](uint64_t idx, int, Ctx & c) -> uint64_t
   {
      TinyLP t;
      if(!lpAt(idx / NC, t)) return 0;
      return run_lp(t, cfgs[idx % NC], c);
   }, [&](uint64_t idx, uint64_t) { TinyLP t; lpAt(idx / NC, t); return t.str() + "#" + g_cs.str(cfgs[idx % NC]); }, o,
   [&](uint64_t idx, uint64_t sub) { return "@" + std::string(sub >= 5000 ? "after-modification" : sub >= 1000 ? "setBasis" : sub >= 100 ? "iterlimit-solve" : "solve") + "|" + g_cs.str(cfgs[idx % NC]); });
   {
      static PlantedGrid pg;
      pg.sizes = {{6, 5}, {10, 8}, {8, 12}, {16, 12}, {12, 20}};
      pg.densities = {40};
      pg.seeds = thorough ? 8 : 1;
      pg.magnitudes = 2;
      rep.phase("planted LPs up to 16x12 / 12x20 x 7 parameter vectors: bases of solves and iteration-limited solves, modifications", pg.size() * NC, [&](uint64_t idx, int, Ctx & c) -> uint64_t
      {
         return run_planted4(pg.at(idx / NC), cfgs[idx % NC], c);
      }, [&](uint64_t idx, uint64_t) { return pg.at(idx / NC).str() + "#" + g_cs.str(cfgs[idx % NC]); }, o,
      [&](uint64_t idx, uint64_t sub) { return "@" + std::string(sub >= 5000 ? "after-modification" : sub >= 1000 ? "setBasis" : sub >= 100 ? "iterlimit-solve" : "solve") + "|" + g_cs.str(cfgs[idx % NC]) + "+planted"; });
      rep.extra["planted_grid"] = jstr("sizes (n x m) 6x5 10x8 8x12 16x12 12x20, density 40 %, degenerate 0/1, min/max, kinds OPT/INF/UNB, plain and power-of-two rescaled, seeds 0.." + std::to_string(pg.seeds - 1));
   }
   uint64_t stride2 = thorough ? 2 : 7;
   rep.phase("FORCEBASIC exact solves x {eqtrans} x {simplifier}", fs.total / stride2, [&](uint64_t idx, int, Ctx & c) -> uint64_t
   {
      TinyLP t;
      uint64_t raw = idx * stride2, lim = std::min<uint64_t>(raw + stride2, fs.total);
      while(raw < lim && !fs.get(raw, t)) ++raw;
      if(raw >= lim) return 0;
      uint64_t h = 0;
      for(int v = 0; v < 4; ++v) { set_sub(v); h = h * 7 + run_forcebasic(t, c, v); }
      return h;
   }, [&](uint64_t idx, uint64_t sub)
   {
      TinyLP t;
      uint64_t raw = idx * stride2, lim = std::min<uint64_t>(raw + stride2, fs.total);
      while(raw < lim && !fs.get(raw, t)) ++raw;
      return t.str() + "#fb:" + std::to_string(sub & 3);
   }, o, [&](uint64_t, uint64_t sub) { return std::string("@forcebasic") + FBTAG[sub & 3]; });
   // the equality transformation replaces every ranged row by an equation with a boxed slack column and maps the slack's status back afterwards: every LP of Q with a
   // ranged row, eqtrans on, simplifier on and off
   rep.phase("FORCEBASIC + eqtrans on every LP of Q with a ranged row", fs.total / (thorough ? 1 : 2), [&](uint64_t idx, int, Ctx & c) -> uint64_t
   {
      TinyLP t;
      if(!fs.get(idx * (thorough ? 1 : 2), t)) return 0;
      bool ranged = false;
      for(int i = 0; i < t.m; ++i) ranged |= (t.lhs[i] > -INF && t.rhs[i] < INF && t.lhs[i] < t.rhs[i]);
      if(!ranged) return 0;
      uint64_t h = 0;
      for(int v : {1, 3}) { set_sub(v); h = h * 7 + run_forcebasic(t, c, v); }
      return h;
   }, [&](uint64_t idx, uint64_t sub) { TinyLP t; fs.get(idx * (thorough ? 1 : 2), t); return t.str() + "#fb:" + std::to_string(sub & 3); }, o,
   [&](uint64_t, uint64_t sub) { return std::string("@forcebasic") + FBTAG[sub & 3]; });
   auto& C = rep.all.counters;
   rep.evaluations = C["lp_x_cfg"] + C["iterlimit_solves"] + C["setbasis_calls"] + C["modifications"] + C["forcebasic_solves"];
   rep.rule = "a history = (LP, parameter vector) followed by one of: unlimited solve; solve with ITERLIMIT j for every j below the unlimited iteration count; "
              "setBasis with every valid status assignment (all regular bases x all nonbasic placements, before a solve and after a presolved solve); "
              "write+readBasisFile; each reduced-alphabet modification after a solve; each then followed by warm starts in the same and in a new object. "
              "The invariant is evaluated at every state with hasBasis(); states = such states visited, transitions = operations executed";
   rep.assumptions = {"exact regularity test (rational determinant) and exact classification of the LP", "reference statuses follow soplex.h: one BASIC per row, no ON_LOWER/ON_UPPER on an infinite bound, FIXED only for equal bounds, ZERO only for free variables"};
   rep.finish(C["solve_bases_regular"] + C["setbasis_calls"], C["states_with_basis"], rep.evaluations + C["warm_starts_new_object"] + C["warm_starts_same_object"], rep.evaluations);
   return 0;
}
