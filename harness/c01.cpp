// C01 / C02: floating-point solves over (tiny-LP family) x (configuration vectors), verdicts and
// certificates judged in exact arithmetic against the LP as entered by the harness.
#include "vx_spx.hpp"
#include "vx_planted.hpp"
using namespace vx;

static std::string g_prop;
static ConfigSpace g_cs;

static const char* status_name(int st)
{
   switch(st)
   {
   case 1: return "OPTIMAL";
   case 2: return "UNBOUNDED";
   case 3: return "INFEASIBLE";
   case 4: return "INForUNBD";
   case 5: return "OPTIMAL_UNSCALED_VIOLATIONS";
   case 0: return "UNKNOWN";
   case -1: return "RUNNING";
   case -2: return "REGULAR";
   case -3: return "NO_PROBLEM";
   case -4: return "SINGULAR";
   case -5: return "ABORT_VALUE";
   case -6: return "ABORT_ITER";
   case -7: return "ABORT_TIME";
   case -8: return "ABORT_CYCLING";
   case -11: return "NOT_INIT";
   case -12: return "NO_SOLVER";
   case -13: return "NO_PRICER";
   case -14: return "NO_RATIOTESTER";
   case -15: return "ERROR";
   default: return "OTHER";
   }
}

static const char* PS_NAME[17] = {"EMPTY_ROW", "FREE_ROW", "SINGLETON_ROW", "FORCE_ROW", "EMPTY_COL", "FIX_COL", "FREE_ZOBJ_COL",
                                   "ZOBJ_SINGLETON_COL", "DOUBLETON_ROW", "FREE_SINGLETON_COL", "DOMINATED_COL",
                                   "WEAKLY_DOMINATED_COL", "DUPLICATE_ROW", "FIX_DUPLICATE_COL", "SUB_DUPLICATE_COL",
                                   "AGGREGATION", "MULTI_AGG"
                                  };
// which presolve reductions fired in the last solve (part of the violation signature)
static std::string g_pstag;
static std::string ps_tag(SoPlex& spx)
{
   if(spx.intParam(SoPlex::SIMPLIFIER) == SoPlex::SIMPLIFIER_OFF || spx._simplifierMainSM.m_stat.size() < 17) return "";
   std::string t;
   for(int k = 0; k < 17; ++k)
      if(spx._simplifierMainSM.m_stat[k] > 0) t += (t.empty() ? "" : ",") + std::string(PS_NAME[k]);
   return "+ps[" + t + "]";
}

// one solve + verdict; returns the name of the violated rule ("" if none)
static std::string solve_and_judge(const TinyLP& lp, const XLP& x, const Classification& cl,
                                   const ConfigSpace::Cfg& cfg, std::string& why, RealResult& r, Ctx* c, std::ostringstream* capture = nullptr)
{
   SoPlex spx;
   quiet(spx);
   if(capture)
   {
      // log of the solve (only used to name the internal exception optimize() swallowed, for the violation signature)
      spx.setIntParam(SoPlex::VERBOSITY, SoPlex::VERBOSITY_NORMAL);
      for(int v = SPxOut::ERROR; v <= SPxOut::INFO3; ++v) spx.spxout.setStream((SPxOut::Verbosity)v, *capture);
   }
   g_cs.apply(spx, cfg);
   load_real(spx, lp, g_cs.value(cfg, "loadmode") == 1 ? 1 : 0);
   try
   {
      spx.optimize();
   }
   catch(const SPxException& e)
   {
      why = e.what();
      return "exception-from-optimize";
   }
   fetch(spx, r);
   g_pstag = ps_tag(spx);
   if(c && !g_pstag.empty() && g_pstag != "+ps[]") c->count("presolve_active_solves");
   int st = r.status;
   if(c) c->count(std::string("status.") + status_name(st));
   if(c && r.iters > 0) c->count("solves_with_iterations");
   if(g_prop == "C01")
   {
      if(st == 1)
      {
         std::string rule = check_optimal_certificate(x, r, cl, 1e-6, 1e-6, why);
         if(!rule.empty()) return rule;
      }
      else if(cl.hasopt)
      {
         why = std::string("LP has finite optimum ") + cl.opt.get_str() + " but status is " + status_name(st);
         return std::string("finite-optimum-not-solved:") + status_name(st);
      }
   }
   else
   {
      if(st == 3 && cl.feasible) { why = "INFEASIBLE returned for a feasible LP"; return "infeasible-on-feasible-lp"; }
      if((st == 2 || st == 4) && cl.hasopt) { why = std::string(status_name(st)) + " returned for an LP with finite optimum"; return "unbounded-on-lp-with-optimum"; }
      if(st == 1 && !cl.hasopt) { why = std::string("OPTIMAL returned for an LP without finite optimum (") + cl.name() + ")"; return "optimal-on-lp-without-optimum"; }
      if(r.hasFarkas)
      {
         if(c) c->count("farkas_checked");
         std::string rule = check_farkas(x, r.farkas, why);
         if(!rule.empty()) { why += " farkas=" + vecstr(r.farkas); return rule; }
      }
      if(r.hasRay)
      {
         if(c) c->count("rays_checked");
         std::string rule = check_ray(x, r.ray, why);
         if(!rule.empty()) { why += " ray=" + vecstr(r.ray); return rule; }
      }
      if(g_cs.value(cfg, "ensureray") == 1)
      {
         if(st == 3 && !r.hasFarkas) { why = "ENSURERAY: INFEASIBLE without Farkas vector"; return "ensureray-no-farkas"; }
         if(st == 2 && !r.hasRay) { why = "ENSURERAY: UNBOUNDED without primal ray"; return "ensureray-no-ray"; }
      }
   }
   return "";
}

// smallest sub-configuration (fewest deviations) that still violates the same rule
static ConfigSpace::Cfg minimise(const TinyLP& lp, const XLP& x, const Classification& cl, ConfigSpace::Cfg cfg,
                                 const std::string& rule)
{
   bool changed = true;
   while(changed)
   {
      changed = false;
      for(size_t i = 0; i < cfg.size(); ++i)
      {
         if(cfg[i] == g_cs.dims[i].def) continue;
         ConfigSpace::Cfg t = cfg;
         t[i] = g_cs.dims[i].def;
         std::string why;
         RealResult r;
         if(solve_and_judge(lp, x, cl, t, why, r, nullptr) == rule) { cfg = t; changed = true; }
      }
   }
   return cfg;
}

static std::string result_str(const RealResult& r)
{
   std::ostringstream o;
   o << "status=" << status_name(r.status) << " obj=" << TinyLP::num(r.obj) << " x=" << vecstr(r.x) << " s=" << vecstr(r.s)
     << " y=" << vecstr(r.y) << " d=" << vecstr(r.d) << " rstat=" << ivecstr(r.rstat) << " cstat=" << ivecstr(r.cstat);
   return o.str();
}

static uint64_t run_lp_core(const TinyLP& lp, const XLP& x, const Classification& cl, const std::string& caseName, const std::string& sigTag,
                            const std::vector<ConfigSpace::Cfg>& cfgs, Ctx& c, bool countNT, uint64_t subBase);

static uint64_t run_lp(const TinyLP& lp, const std::vector<ConfigSpace::Cfg>& cfgs, Ctx& c, bool countNT = true, uint64_t subBase = 0)
{
   XLP x = lp.exact();
   Classification cl = classify(x);
   c.count("lps");
   c.count(std::string("class.") + cl.name());
   return run_lp_core(lp, x, cl, lp.str(), "", cfgs, c, countNT, subBase);
}

// planted medium-size LP (classification and optimum known by construction, see vx_planted.hpp)
static uint64_t run_planted(const PlantedSpec& sp, const std::vector<ConfigSpace::Cfg>& cfgs, Ctx& c, bool countNT = true)
{
   PlantedLP P = planted(sp);
   XLP x = P.lp.exact();
   c.count("planted_lps");
   c.count(std::string("planted_class.") + sp.kindName());
   std::string bad = planted_selfcheck(P);
   if(!bad.empty()) { c.violation("harness-error:planted-lp-inconsistent", sp.str() + "#default", bad); return 0; }
   return run_lp_core(P.lp, x, P.cl, sp.str(), std::string("+planted-") + sp.kindName(), cfgs, c, countNT, 0);
}

static uint64_t run_lp_core(const TinyLP& lp, const XLP& x, const Classification& cl, const std::string& caseName, const std::string& sigTag,
                            const std::vector<ConfigSpace::Cfg>& cfgs, Ctx& c, bool countNT, uint64_t subBase)
{
   uint64_t h = 7;
   bool anyIter = false;
   for(size_t k = 0; k < cfgs.size(); ++k)
   {
      set_sub(subBase + k);
      std::string why;
      RealResult r;
      std::string rule = solve_and_judge(lp, x, cl, cfgs[k], why, r, &c);
      c.count("solves");
      if(r.iters > 0) anyIter = true;
      h = fnv_str(rule, h) ^ digest(r) * 31;
      if(!rule.empty())
      {
         ConfigSpace::Cfg mc = (rule == "exception-from-optimize") ? cfgs[k] : minimise(lp, x, cl, cfgs[k], rule);
         {
            // presolve tag of the minimised configuration
            std::string w2;
            RealResult r2;
            solve_and_judge(lp, x, cl, mc, w2, r2, nullptr);
         }
         std::string exc;
         if(rule.compare(0, 26, "finite-optimum-not-solved:") == 0)
         {
            // name the internal exception (if any) that optimize() caught and turned into this status
            std::ostringstream log;
            std::string w3;
            RealResult r3;
            solve_and_judge(lp, x, cl, mc, w3, r3, nullptr, &log);
            std::string L = log.str();
            size_t q = L.find("Caught exception <");
            if(q != std::string::npos)
            {
               size_t e = L.find_first_of(" >", q + 18);
               exc = "+exc[" + L.substr(q + 18, e == std::string::npos ? 8 : e - q - 18) + "]";
            }
         }
         c.violation(rule + "@" + g_cs.str(mc) + g_pstag + exc + sigTag, caseName + "#" + g_cs.str(cfgs[k]), why + " | " + (lp.n <= 6 ? result_str(r) : std::string("status=") + status_name(r.status) + " obj=" + TinyLP::num(r.obj) + " iters=" + std::to_string(r.iters)) + " | class=" + cl.name());
      }
      else if(c.wantSample() && k == cfgs.size() / 2)
         c.sample("{\"lp\":" + (lp.n <= 6 ? lp.json() : jstr(caseName)) + ",\"config\":" + jstr(g_cs.str(cfgs[k])) + ",\"exact_class\":" + jstr(cl.name())
                  + ",\"result\":" + (lp.n <= 6 ? jstr(result_str(r)) : jstr(std::string("status=") + status_name(r.status) + " obj=" + TinyLP::num(r.obj) + " iters=" + std::to_string(r.iters))) + "}");
   }
   if(countNT && (g_prop == "C01" ? (cl.hasopt && anyIter) : !cl.hasopt)) c.count("nontrivial_lps");
   return h;
}

// ---- shipped instances (check/instances/*.mps) -------------------------------------------------------------------------------------
// The file is read once by a reader object; the harness copies the LP out through the accessors (sparse rows of exact rationals),
// enters THAT copy into a fresh object through addColReal/addRowReal and solves it under the configuration.  Reference: the value in
// check/testset/quick.solu (the suite's own, independent of this tree) or its verdict "infeasible" / "unbounded".
// Certificate tolerance: 1e-5 = ten times the feasibility / optimality tolerance, because SoPlex tests the tolerances on the scaled LP
// (measured on the unchanged tree: all residuals <= 1e-8 except dual sign conditions up to 6.1e-7 on etamacro); defects of the kind this
// phase is for (wrong sign, wrong exponent, stale vector) are orders of magnitude above that.
struct SparseLP
{
   int n = 0, m = 0;
   bool maximize = false;
   double offset = 0;
   std::vector<double> c, lo, up, lhs, rhs;
   std::vector<std::vector<std::pair<int, double>>> rows;
};
static std::string repo_dir() { const char* e = getenv("VERIF_REPO"); return e && *e ? e : "/repo"; }
static bool read_instance(const std::string& name, SparseLP& L)
{
   SoPlex rd;
   quiet(rd);
   std::ostringstream sink;                               // the MPS reader writes its "entry ignored" warnings straight to std::cerr
   std::streambuf* oldbuf = std::cerr.rdbuf(sink.rdbuf());
   bool okread = rd.readFile((repo_dir() + "/check/instances/" + name).c_str());
   std::cerr.rdbuf(oldbuf);
   if(!okread) return false;
   L.n = rd.numCols(); L.m = rd.numRows();
   L.maximize = rd.intParam(SoPlex::OBJSENSE) == SoPlex::OBJSENSE_MAXIMIZE;
   L.offset = rd.realParam(SoPlex::OBJ_OFFSET);
   L.c.resize(L.n); L.lo.resize(L.n); L.up.resize(L.n); L.lhs.resize(L.m); L.rhs.resize(L.m); L.rows.assign(L.m, {});
   for(int j = 0; j < L.n; ++j) { L.c[j] = rd.objReal(j); L.lo[j] = rd.lowerReal(j); L.up[j] = rd.upperReal(j); }
   for(int i = 0; i < L.m; ++i)
   {
      L.lhs[i] = rd.lhsReal(i); L.rhs[i] = rd.rhsReal(i);
      DSVector r;
      rd.getRowVectorReal(i, r);
      for(int k = 0; k < r.size(); ++k) L.rows[i].push_back({r.index(k), r.value(k)});
   }
   return true;
}
// reference from quick.solu: 0 = optimal value in `val`, 1 = infeasible, 2 = unbounded, -1 = not listed
static int solu_reference(const std::string& base, double& val)
{
   std::ifstream in(repo_dir() + "/check/testset/quick.solu");
   std::string tag, nm, v;
   while(in >> tag >> nm >> v)
      if(nm == base)
      {
         if(v == "infeasible") return 1;
         if(v == "unbounded") return 2;
         val = strtod(v.c_str(), 0);
         return 0;
      }
   return -1;
}
static std::string judge_instance(const SparseLP& L, const RealResult& r, int ref, double refval, bool ensureray, std::string& why, Ctx* c)
{
   const double TOL = 1e-5;
   int n = L.n, m = L.m, st = r.status;
   if(g_prop == "C01")
   {
      if(ref != 0) return "";
      if(st != 1) { why = std::string("instance has the finite optimum ") + TinyLP::num(refval) + " but status is " + status_name(st); return std::string("finite-optimum-not-solved:") + status_name(st); }
      if(!r.hasPrimal || !r.hasDual) { why = "OPTIMAL without primal / dual vectors"; return "optimal-without-primal"; }
      Q tol = q_of_double(TOL);
      std::vector<Q> x(n), d(n), aty(n, Q(0));
      for(int j = 0; j < n; ++j) { if(!std::isfinite(r.x[j]) || !std::isfinite(r.d[j])) { why = "non-finite entry"; return "nonfinite-solution"; } x[j] = q_of_double(r.x[j]); d[j] = q_of_double(r.d[j]); }
      int sg = L.maximize ? -1 : 1;
      for(int j = 0; j < n; ++j)
      {
         if(L.lo[j] > -INF && x[j] < q_of_double(L.lo[j]) - tol) { why = "x" + std::to_string(j) + " below lower"; return "primal-bound-violated"; }
         if(L.up[j] < INF && x[j] > q_of_double(L.up[j]) + tol) { why = "x" + std::to_string(j) + " above upper"; return "primal-bound-violated"; }
      }
      for(int i = 0; i < m; ++i)
      {
         if(!std::isfinite(r.s[i]) || !std::isfinite(r.y[i])) { why = "non-finite entry"; return "nonfinite-solution"; }
         Q act = 0, y = q_of_double(r.y[i]);
         for(auto& pr : L.rows[i]) { Q a = q_of_double(pr.second); act += a * x[pr.first]; aty[pr.first] += a * y; }
         if(qabs(act - q_of_double(r.s[i])) > tol) { why = "slack " + std::to_string(i) + " != activity"; return "slack-not-activity"; }
         if(L.lhs[i] > -INF && act < q_of_double(L.lhs[i]) - tol) { why = "row " + std::to_string(i) + " below lhs"; return "row-side-violated"; }
         if(L.rhs[i] < INF && act > q_of_double(L.rhs[i]) + tol) { why = "row " + std::to_string(i) + " above rhs"; return "row-side-violated"; }
         Q v = y * sg;
         if(v < -tol && !(L.rhs[i] < INF)) { why = "dual sign of row " + std::to_string(i) + " needs finite rhs"; return "dual-sign"; }
         if(v > tol && !(L.lhs[i] > -INF)) { why = "dual sign of row " + std::to_string(i) + " needs finite lhs"; return "dual-sign"; }
      }
      Q cx = q_of_double(L.offset);
      for(int j = 0; j < n; ++j)
      {
         Q cj = q_of_double(L.c[j]);
         if(qabs(cj - aty[j] - d[j]) > tol) { why = "redcost " + std::to_string(j) + " != c - A^T y"; return "stationarity-violated"; }
         Q v = d[j] * sg;
         if(v < -tol && !(L.up[j] < INF)) { why = "redcost sign of col " + std::to_string(j) + " needs finite upper"; return "redcost-sign"; }
         if(v > tol && !(L.lo[j] > -INF)) { why = "redcost sign of col " + std::to_string(j) + " needs finite lower"; return "redcost-sign"; }
         cx += cj * x[j];
      }
      double cxd = cx.get_d();
      if(fabs(r.obj - cxd) > 1e-7 * (1 + fabs(cxd))) { why = "objValue " + TinyLP::num(r.obj) + " != c x + offset " + TinyLP::num(cxd); return "objective-mismatch"; }
      if(fabs(r.obj - refval) > 1e-6 * (1 + fabs(refval))) { why = "objective " + TinyLP::num(r.obj) + " != reference optimum " + TinyLP::num(refval); return "objective-not-optimal"; }
      if(c) c->count("instance_certificates_checked");
      return "";
   }
   // C02
   if(ref == 0 && st == 3) { why = "INFEASIBLE returned for an instance with a finite optimum"; return "infeasible-on-feasible-lp"; }
   if(ref == 2 && st == 3) { why = "INFEASIBLE returned for an unbounded (hence feasible) instance"; return "infeasible-on-feasible-lp"; }
   if(ref == 0 && (st == 2 || st == 4)) { why = std::string(status_name(st)) + " returned for an instance with a finite optimum"; return "unbounded-on-lp-with-optimum"; }
   if(ref > 0 && st == 1) { why = "OPTIMAL returned for an instance without a finite optimum"; return "optimal-on-lp-without-optimum"; }
   if(ensureray)
   {
      if(st == 3 && !r.hasFarkas) { why = "ENSURERAY: INFEASIBLE without Farkas vector"; return "ensureray-no-farkas"; }
      if(st == 2 && !r.hasRay) { why = "ENSURERAY: UNBOUNDED without primal ray"; return "ensureray-no-ray"; }
   }
   if(r.hasFarkas)
   {
      // interval separation in exact arithmetic; entries / column combinations below 1e-9 of the largest entry count as zero (as in check_farkas)
      double mx = 0;
      for(double v : r.farkas) { if(!std::isfinite(v)) { why = "non-finite Farkas entry"; return "farkas-invalid"; } mx = std::max(mx, fabs(v)); }
      if(mx == 0) { why = "zero Farkas vector"; return "farkas-invalid"; }
      std::vector<Q> t(n, Q(0));
      Q slo = 0, sup = 0, xlo = 0, xup = 0;
      bool sloF = true, supF = true, xloF = true, xupF = true;
      double colscale = 0;
      for(int i = 0; i < m; ++i)
      {
         if(fabs(r.farkas[i]) < 1e-9 * mx) continue;
         Q y = q_of_double(r.farkas[i]);
         for(auto& pr : L.rows[i]) { t[pr.first] += q_of_double(pr.second) * y; colscale = std::max(colscale, fabs(pr.second * r.farkas[i])); }
         double a = y > 0 ? L.lhs[i] : L.rhs[i], b = y > 0 ? L.rhs[i] : L.lhs[i];
         if(fabs(a) < INF) slo += y * q_of_double(a); else sloF = false;
         if(fabs(b) < INF) sup += y * q_of_double(b); else supF = false;
      }
      Q eps = q_of_double(1e-9 * std::max(mx, colscale));
      for(int j = 0; j < n; ++j)
      {
         if(qabs(t[j]) < eps) continue;
         double a = t[j] > 0 ? L.lo[j] : L.up[j], b = t[j] > 0 ? L.up[j] : L.lo[j];
         if(fabs(a) < INF) xlo += t[j] * q_of_double(a); else xloF = false;
         if(fabs(b) < INF) xup += t[j] * q_of_double(b); else xupF = false;
      }
      bool sep = (supF && xloF && xlo > sup) || (xupF && sloF && slo > xup);
      if(c) c->count(sep ? "instance_farkas_valid" : "instance_farkas_not_separating");
      if(!sep) { why = "Farkas vector does not separate y^T A x from y^T s on the instance"; return "farkas-invalid"; }
   }
   if(r.hasRay)
   {
      double mx = 0;
      for(double v : r.ray) { if(!std::isfinite(v)) { why = "non-finite ray entry"; return "ray-invalid"; } mx = std::max(mx, fabs(v)); }
      if(mx == 0) { why = "zero ray"; return "ray-invalid"; }
      std::vector<Q> rr(n);
      for(int j = 0; j < n; ++j) rr[j] = fabs(r.ray[j]) < 1e-9 * mx ? Q(0) : q_of_double(r.ray[j]);
      for(int j = 0; j < n; ++j)
      {
         if(L.lo[j] > -INF && rr[j] < 0) { why = "ray decreases col " + std::to_string(j) + " with finite lower"; return "ray-invalid"; }
         if(L.up[j] < INF && rr[j] > 0) { why = "ray increases col " + std::to_string(j) + " with finite upper"; return "ray-invalid"; }
      }
      for(int i = 0; i < m; ++i)
      {
         Q t = 0; double sc = 0;
         for(auto& pr : L.rows[i]) { t += q_of_double(pr.second) * rr[pr.first]; sc = std::max(sc, fabs(pr.second * r.ray[pr.first])); }
         if(qabs(t) < q_of_double(1e-9 * std::max(mx, sc))) continue;
         if(L.lhs[i] > -INF && t < 0) { why = "ray decreases row " + std::to_string(i) + " with finite lhs"; return "ray-invalid"; }
         if(L.rhs[i] < INF && t > 0) { why = "ray increases row " + std::to_string(i) + " with finite rhs"; return "ray-invalid"; }
      }
      Q cr = 0;
      for(int j = 0; j < n; ++j) cr += q_of_double(L.c[j]) * rr[j];
      if(L.maximize ? !(cr > 0) : !(cr < 0)) { why = "ray does not improve the objective"; return "ray-invalid"; }
      if(c) c->count("instance_rays_valid");
   }
   return "";
}
static std::string solve_instance(const SparseLP& L, const ConfigSpace::Cfg& cfg, int ref, double refval, std::string& why, RealResult& r, Ctx* c)
{
   SoPlex spx;
   quiet(spx);
   g_cs.apply(spx, cfg);
   spx.setIntParam(SoPlex::OBJSENSE, L.maximize ? SoPlex::OBJSENSE_MAXIMIZE : SoPlex::OBJSENSE_MINIMIZE);
   spx.setRealParam(SoPlex::OBJ_OFFSET, L.offset);
   DSVector empty(0);
   for(int j = 0; j < L.n; ++j) spx.addColReal(LPCol(L.c[j], empty, L.up[j], L.lo[j]));
   for(int i = 0; i < L.m; ++i)
   {
      DSVector row((int)L.rows[i].size());
      for(auto& pr : L.rows[i]) row.add(pr.first, pr.second);
      spx.addRowReal(LPRow(L.lhs[i], row, L.rhs[i]));
   }
   try { spx.optimize(); }
   catch(const SPxException& e) { why = e.what(); return "exception-from-optimize"; }
   fetch(spx, r);
   g_pstag = "";
   if(c) { c->count(std::string("instance_status.") + status_name(r.status)); c->count("instance_iterations", r.iters); }
   return judge_instance(L, r, ref, refval, g_cs.value(cfg, "ensureray") == 1, why, c);
}
static uint64_t run_instance(const std::string& name, const ConfigSpace::Cfg& cfg, Ctx& c)
{
   SparseLP L;
   std::string cs = "N:" + name + "#" + g_cs.str(cfg);
   if(!read_instance(name, L)) { c.violation("harness-error:instance-unreadable", cs, "readFile failed for " + name); return 0; }
   double refval = 0;
   int ref = solu_reference(name.substr(0, name.find('.')), refval);
   if(ref < 0) { c.count("instances_without_reference"); return 0; }
   std::string why;
   RealResult r;
   std::string rule = solve_instance(L, cfg, ref, refval, why, r, &c);
   c.count("solves");
   c.count("instance_solves");
   if(!rule.empty())
      c.violation(rule + "@" + g_cs.str(cfg) + "+instance[" + name.substr(0, name.find('.')) + "]", cs, why + " | status=" + status_name(r.status) + " obj=" + TinyLP::num(r.obj) + " iters=" + std::to_string(r.iters));
   else if(c.wantSample()) c.sample("{\"instance\":" + jstr(name) + ",\"config\":" + jstr(g_cs.str(cfg)) + ",\"status\":" + jstr(status_name(r.status)) + ",\"objective\":" + jstr(TinyLP::num(r.obj)) + ",\"iterations\":" + std::to_string(r.iters) + "}");
   if((g_prop == "C01") == (ref == 0) && r.iters > 0) c.count("nontrivial_instance_solves");
   return digest(r);
}
static const char* INSTANCES[] = {"adlittle.mps", "afiro.mps", "agg.mps", "beaconfd.mps", "blend.mps", "bore3d.mps", "brandy.mps", "capri.mps", "etamacro.mps", "finnis.mps", "grow7.mps",
                                  "israel.mps", "kb2.mps", "lotfi.mps", "recipe.mps", "sc105.mps", "sc205.mps", "sc50a.mps", "sc50b.mps", "scagr25.mps", "scagr7.mps", "scfxm1.mps",
                                  "scorpion.mps", "scrs8.mps", "scsd1.mps", "seba.mps", "share1b.mps", "share2b.mps", "shell.mps", "vtp-base.mps", "gas11.mps", "bgetam.mps", "box1.mps",
                                  "ex72a.mps", "forest6.mps", "galenet.mps", "gams10am.mps", "klein1.mps", "refinery.mps", "woodinfe.mps"
                                 };
static const int NINST = sizeof(INSTANCES) / sizeof(INSTANCES[0]);

// curated micro-family: one LP per structural class (for the complete configuration product)
static std::vector<TinyLP> micro_family()
{
   const char* S[] =
   {
      // degenerate vertex (three constraints through one point)
      "n=2;m=3;max=1;off=3;c=1,1;lo=0,0;up=inf,inf;lhs=-inf,-inf,-inf;rhs=2,2,4;A=1,0|0,1|1,1",
      // ranged rows + boxed columns
      "n=2;m=2;max=0;off=3;c=1,-2;lo=-1,-1;up=2,2;lhs=-1,-1;rhs=2,2;A=1,1|1,-1",
      // free column
      "n=2;m=2;max=0;off=3;c=1,1;lo=-inf,0;up=inf,inf;lhs=1,-1;rhs=inf,2;A=1,1|1,-1",
      // fixed column
      "n=3;m=2;max=1;off=3;c=1,2,1;lo=1,0,0;up=1,inf,3;lhs=-inf,-inf;rhs=4,3;A=1,1,1|0,1,-1",
      // empty row
      "n=2;m=2;max=1;off=3;c=1,1;lo=0,0;up=2,inf;lhs=-inf,-1;rhs=3,1;A=1,1|0,0",
      // duplicate rows
      "n=2;m=3;max=1;off=0;c=2,1;lo=0,0;up=inf,inf;lhs=-inf,-inf,-inf;rhs=2,2,3;A=1,1|1,1|1,0",
      // duplicate columns
      "n=3;m=2;max=0;off=3;c=1,1,-1;lo=0,0,0;up=inf,inf,2;lhs=2,-inf;rhs=inf,3;A=1,1,0|1,1,1",
      // infeasible
      "n=2;m=2;max=0;off=3;c=1,1;lo=0,0;up=inf,inf;lhs=-inf,2;rhs=1,inf;A=1,1|1,1",
      // unbounded
      "n=2;m=1;max=1;off=3;c=1,1;lo=0,0;up=inf,inf;lhs=-inf;rhs=1;A=1,-1",
      // primal and dual infeasible
      "n=2;m=2;max=1;off=3;c=1,1;lo=-inf,-inf;up=inf,inf;lhs=-inf,1;rhs=0,inf;A=1,-1|1,-1",
      // equality constraints, minimisation
      "n=3;m=2;max=0;off=3;c=1,2,3;lo=0,0,0;up=inf,inf,inf;lhs=1,2;rhs=1,2;A=1,1,0|0,1,1",
      // upper-bounded-only columns
      "n=2;m=2;max=1;off=3;c=-1,-1;lo=-inf,-inf;up=1,1;lhs=-1,-inf;rhs=inf,1;A=1,1|1,-2",
      // singleton rows + columns (presolve food)
      "n=3;m=3;max=0;off=3;c=1,1,1;lo=0,0,0;up=inf,inf,inf;lhs=1,-inf,2;rhs=inf,5,inf;A=1,0,0|0,2,0|1,1,1",
      // zero objective
      "n=2;m=2;max=0;off=3;c=0,0;lo=0,0;up=inf,inf;lhs=1,-inf;rhs=inf,4;A=1,1|1,2",
      // empty column with cost pushing to finite bound
      "n=3;m=2;max=1;off=3;c=1,1,1;lo=0,0,-1;up=inf,inf,2;lhs=-inf,-inf;rhs=2,3;A=1,1,0|1,2,0",
      // free row + doubleton equation
      "n=2;m=3;max=0;off=3;c=1,-1;lo=0,0;up=4,4;lhs=-inf,0,-inf;rhs=inf,0,3;A=1,1|1,-1|2,1",
      // badly scaled
      "n=2;m=2;max=1;off=3;c=1,1024;lo=0,0;up=inf,inf;lhs=-inf,-inf;rhs=4096,1;A=1024,1|0.0009765625,1",
      // degenerate dual (multiple optima)
      "n=2;m=2;max=1;off=3;c=1,1;lo=0,0;up=inf,inf;lhs=-inf,-inf;rhs=2,3;A=1,1|1,0",
      // 3x3 dense
      "n=3;m=3;max=1;off=3;c=1,2,-1;lo=0,0,0;up=inf,2,inf;lhs=-inf,-1,-inf;rhs=3,2,4;A=1,1,1|1,-1,2|2,1,-1",
      // infeasible by bounds vs row
      "n=2;m=1;max=0;off=3;c=1,0;lo=0,0;up=1,1;lhs=3;rhs=inf;A=1,1",
   };
   std::vector<TinyLP> v;
   for(const char* s : S) v.push_back(TinyLP::parse(s));
   return v;
}

static RunOpts o3n(Report& rep) { RunOpts o = rep.opts(); o.perturb = {85}; o.watchdog_s = 300; return o; }

int main(int argc, char** argv)
{
   Args args = parse_args(argc, argv);
   g_prop = args.prop.empty() ? "C01" : args.prop;
   args.prop = g_prop;
   g_cs = ConfigSpace::algorithmic();
   g_cs.dims.push_back({"loadmode", false, -1, {0, 1}, 0});

   if(!args.replay.empty())
   {
      std::ifstream in(args.replay);
      std::string doc((std::istreambuf_iterator<char>(in)), std::istreambuf_iterator<char>());
      size_t p = doc.find("\"case\": \"");
      if(p == std::string::npos) { printf("REPLAY-ERROR no case in file\n"); return 2; }
      p += 9;
      size_t e = doc.find('"', p);
      std::string cs = doc.substr(p, e - p);
      size_t h = cs.find('#');
      ConfigSpace::Cfg cfg = g_cs.parse(h == std::string::npos ? "default" : cs.substr(h + 1));
      mallopt(M_PERTURB, 85);
      if(cs.compare(0, 2, "N:") == 0)
      {
         std::string nm = cs.substr(2, h - 2);
         return replay_case([&](Ctx & c) { run_instance(nm, cfg, c); });
      }
      PlantedSpec psp;
      if(cs.compare(0, 2, "P:") == 0 && PlantedSpec::parse(cs.substr(0, h), psp))
         return replay_case([&](Ctx & c) { run_planted(psp, {cfg}, c); });
      TinyLP lp = TinyLP::parse(cs.substr(0, h));
      return replay_case([&](Ctx & c) { run_lp(lp, {cfg}, c); });
   }

   bool thorough = args.tier == "thorough";
   Report rep(args, "exploration", thorough ? 3300 : 420);
   auto cfg1 = g_cs.upto(1), cfg2 = g_cs.upto(2);
   auto sigsfx = [](const std::vector<ConfigSpace::Cfg>* cfgs)
   {
      return [cfgs](uint64_t, uint64_t sub) { return "@" + (sub < cfgs->size() ? g_cs.str((*cfgs)[sub]) : std::string("?")); };
   };

   // phase A: family x all configurations with <= 1 deviation
   FamilySet fa;
   if(!thorough)
      fa.add(famQ());
   else
   {
      fa.add(famT(1, 1, {-1, 0, 1, 2}, {-1, 0, 1}, {0, 1, 2, 3, 4}, {0, 1, 2, 3, 4, 5, 6, 7}));
      fa.add(famT(2, 1, {-1, 0, 1, 2}, {-1, 0, 1}, {0, 1, 2, 3, 4}, {0, 1, 2, 3, 4, 5, 6, 7}));
      fa.add(famT(1, 2, {-1, 0, 1, 2}, {-1, 0, 1}, {0, 1, 2, 3, 4}, {0, 1, 2, 3, 4, 5, 6, 7}));
      fa.add(famT(2, 2, {-1, 0, 1, 2}, {-1, 0, 1}, {0, 1, 2, 3, 4}, {0, 1, 2, 3, 4, 5, 6, 7}));
      fa.add(famT(3, 2, {-1, 0, 1, 2}, {-1, 1}, {0, 1, 3}, {0, 2, 3}, 5));
      fa.add(famT(2, 3, {-1, 0, 1, 2}, {-1, 1}, {0, 1, 4}, {1, 3, 6}, 5));
      fa.add(famT(3, 3, {-1, 0, 1}, {-1, 1}, {0, 3}, {0, 2}, 6));
   }
   RunOpts o = rep.opts();
   o.perturb = thorough ? std::vector<int>{85, 165} : std::vector<int>{85};
   auto descA = [&](const FamilySet * f, const std::vector<ConfigSpace::Cfg>* cfgs)
   {
      return [f, cfgs](uint64_t i, uint64_t sub)
      {
         TinyLP lp;
         f->get(i, lp);
         return lp.str() + "#" + (sub < cfgs->size() ? g_cs.str((*cfgs)[sub]) : std::string("default"));
      };
   };
   rep.phase(thorough ? "F x dev<=1" : "Q x dev<=1", fa.total, [&](uint64_t idx, int pass, Ctx & c) -> uint64_t
   {
      TinyLP lp;
      if(!fa.get(idx, lp)) return 0;
      return run_lp(lp, cfg1, c, pass == 0);
   }, descA(&fa, &cfg1), o, sigsfx(&cfg1));

   {
      // phase A2: mixed-magnitude coefficients (8, 1/4): the scalers produce non-trivial row and column exponents, so every unscaling step of the solution path does real work
      FamilySet fs;
      fs.add(famT(2, 2, {-1, 0, 8, 0.25}, {-1, 1}, {0, 3}, {0, 1, 3}));
      if(thorough) fs.add(famT(3, 2, {0, 1, 8, 0.25}, {-1, 1}, {0, 3}, {0, 3}, 5));
      static FamilySet fsS;
      fsS = fs;
      rep.phase("S (coefficients 8 and 1/4) x dev<=1", fsS.total, [&](uint64_t idx, int pass, Ctx & c) -> uint64_t
      {
         TinyLP lp;
         if(!fsS.get(idx, lp)) return 0;
         return run_lp(lp, cfg1, c, pass == 0);
      }, descA(&fsS, &cfg1), o, sigsfx(&cfg1));
   }
   {
      // phase A3: 3x3 LPs with ranged rows and boxed columns under the default configuration only (multi-round presolve: aggregation, multi-aggregation, bound
      // propagation interact only from three rows / columns on); every stride-th member of the 6.8e7-member family
      static FamilySet f3;
      f3 = FamilySet();
      f3.add(famT(3, 3, {-1, 0, 1}, {-1, 1}, {0, 3}, {0, 2, 3}, 6));
      static std::vector<ConfigSpace::Cfg> cfgD;
      cfgD.assign(1, cfg1[0]);
      uint64_t stride3 = f3.total / (thorough ? 6000000 : 400000) + 1;
      auto lp3 = [stride3](uint64_t k, TinyLP & lp) -> bool
      {
         uint64_t raw = k * stride3, lim = std::min<uint64_t>(raw + stride3, f3.total);
         while(raw < lim && !f3.get(raw, lp)) ++raw;
         return raw < lim;
      };
      rep.phase("T(3,3) with ranged rows and boxed columns x default (every " + std::to_string(stride3) + "th)", f3.total / stride3, [&, lp3](uint64_t idx, int pass, Ctx & c) -> uint64_t
      {
         TinyLP lp;
         if(!lp3(idx, lp)) return 0;
         return run_lp(lp, cfgD, c, pass == 0);
      }, [lp3](uint64_t idx, uint64_t) { TinyLP lp; lp3(idx, lp); return lp.str() + "#default"; }, o, sigsfx(&cfgD));
   }
   {
      // phase P: planted LPs up to 40x40 (finite optimum / infeasible / unbounded known by construction) x all configurations with <= 1 deviation.
      // This is the part of the statement the tiny families cannot reach: "completeness for LPs with small-integer data up to ~40x40".
      static PlantedGrid pg;
      pg.sizes = {{4, 3}, {5, 8}, {8, 5}, {10, 10}, {16, 12}, {12, 20}, {24, 24}, {40, 25}, {30, 40}, {40, 40}};
      pg.densities = {15, 40, 100};
      pg.seeds = thorough ? 60 : 6;
      pg.magnitudes = 2;
      pg.kinds = 4;
      rep.phase("planted LPs up to 40x40 x dev<=1", pg.size(), [&](uint64_t idx, int pass, Ctx & c) -> uint64_t
      {
         return run_planted(pg.at(idx), cfg1, c, pass == 0);
      }, [&](uint64_t idx, uint64_t sub) { return pg.at(idx).str() + "#" + (sub < cfg1.size() ? g_cs.str(cfg1[sub]) : std::string("default")); }, o, sigsfx(&cfg1));
      rep.extra["planted_grid"] = jstr("sizes (n x m) 4x3 5x8 8x5 10x10 16x12 12x20 24x24 40x25 30x40 40x40; densities 15/40/100 %; degenerate 0/1; min/max; kinds OPT/INF/UNB/COV; each member also rescaled by powers of two 2^-8..2^8 per row and column; seeds 0.." + std::to_string(pg.seeds - 1));
   }
   {
      // phase N: the 40 shipped MPS instances of the pinned suite x all configurations with <= 1 deviation (the suite itself runs 12 settings and compares one number)
      rep.phase("shipped instances x dev<=1", (uint64_t)NINST * cfg1.size(), [&](uint64_t idx, int, Ctx & c) -> uint64_t
      {
         return run_instance(INSTANCES[idx / cfg1.size()], cfg1[idx % cfg1.size()], c);
      }, [&](uint64_t idx, uint64_t) { return std::string("N:") + INSTANCES[idx / cfg1.size()] + "#" + g_cs.str(cfg1[idx % cfg1.size()]); }, o3n(rep),
      [&](uint64_t idx, uint64_t) { return "@" + g_cs.str(cfg1[idx % cfg1.size()]) + "+instance[" + std::string(INSTANCES[idx / cfg1.size()]).substr(0, std::string(INSTANCES[idx / cfg1.size()]).find('.')) + "]"; });
   }
   if(thorough)
   {
      // phase B: Q x all configurations with exactly 2 deviations
      FamilySet fq;
      fq.add(famQ());
      std::vector<ConfigSpace::Cfg> only2(cfg2.begin() + cfg1.size(), cfg2.end());
      RunOpts o2 = rep.opts();
      o2.perturb = {85};
      rep.phase("Q x dev==2", fq.total, [&](uint64_t idx, int, Ctx & c) -> uint64_t
      {
         TinyLP lp;
         if(!fq.get(idx, lp)) return 0;
         return run_lp(lp, only2, c, false);
      }, descA(&fq, &only2), o2, sigsfx(&only2));
   }
   {
      // phase C: curated micro-family x complete configuration product (quick: every 64th vector, offset by seed)
      std::vector<TinyLP> mf = micro_family();
      uint64_t P = g_cs.productSize();
      uint64_t stride = thorough ? 1 : 97;
      uint64_t per = (P + stride - 1) / stride;
      uint64_t block = 64;
      uint64_t nblocks = (per + block - 1) / block;
      RunOpts o3 = rep.opts();
      o3.perturb = {85};
      auto cfgOf = [&](uint64_t b, uint64_t k) { return g_cs.fromProductIndex(((b * block + k) * stride + (uint64_t)args.seed % stride) % P); };
      rep.phase(thorough ? "micro x full product" : "micro x product/97", nblocks * mf.size(), [&](uint64_t idx, int, Ctx & c) -> uint64_t
      {
         const TinyLP& lp = mf[idx % mf.size()];
         uint64_t b = idx / mf.size();
         std::vector<ConfigSpace::Cfg> cf;
         for(uint64_t k = 0; k < block && b * block + k < per; ++k) cf.push_back(cfgOf(b, k));
         return run_lp(lp, cf, c, b == 0);
      }, [&](uint64_t idx, uint64_t sub)
      {
         return mf[idx % mf.size()].str() + "#" + g_cs.str(cfgOf(idx / mf.size(), sub));
      }, o3, [&](uint64_t idx, uint64_t sub) { return "@" + g_cs.str(cfgOf(idx / mf.size(), sub)); });
      rep.extra["config_product_size"] = std::to_string(P);
      rep.extra["config_product_stride"] = std::to_string(stride);
   }
   rep.evaluations = rep.all.counters["solves"];
   rep.rule = g_prop == "C01"
              ? "case = (canonical tiny LP, configuration vector), every member of the stated products is executed; an LP counts as "
              "non-trivial if it has a finite optimum and at least one configuration needed >= 1 simplex iteration (counted per "
              "distinct LP; LPs are distinct by construction: one representative per row/column permutation class)"
              : "case = (canonical tiny LP, configuration vector); an LP counts as non-trivial if it has no finite optimum "
              "(infeasible, unbounded or both), counted per distinct LP";
   rep.assumptions =
   {
      "exact oracle: basis enumeration over GMP rationals, cross-checked against Fourier-Motzkin in ./check --setup",
      "feasibility/optimality tolerance 1e-6 (defaults); data are small integers so no verdict is marginal",
      "every worker runs under glibc M_PERTURB so uninitialised heap reads are deterministic"
   };
   rep.extra["configs_dev_le1"] = std::to_string(cfg1.size());
   rep.extra["configs_dev_le2"] = std::to_string(cfg2.size());
   rep.finish(rep.all.counters["nontrivial_lps"]);
   return 0;
}
