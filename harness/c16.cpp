// C16: limits and interrupts stop the solve honestly and resumably.
// Stop-point enumeration under a virtual clock (libc times()/gettimeofday() are interposed by this executable):
// one unlimited run records N iterations and C clock reads; then one run per stop point:
//   ITERLIMIT = k for every k in 0..N+1; the interrupt flag raised from inside the clock at every clock read c;
//   the virtual clock jumping past TIMELIMIT at every clock read c; TIMELIMIT = 0; objective limits on both sides of the optimum.
// After every stopped run the limit is lifted and optimize() must reach the exact status and optimum.
#include "vx_history.hpp"
#include "vx_planted.hpp"
#include <sys/times.h>
#include <sys/time.h>
using namespace vx;

// ---- virtual clock ---------------------------------------------------------------------------------------
static long g_reads = 0;            // clock reads so far in this run
static long g_jumpAt = -1;          // at this read the clock jumps far ahead
static long g_raiseAt = -1;         // at this read the interrupt flag is raised
static volatile bool g_interrupt = false;
static long g_ticks = 0;
static long vclock_read()
{
   ++g_reads;
   ++g_ticks;
   if(g_jumpAt >= 0 && g_reads == g_jumpAt) g_ticks += 100000000L;
   if(g_raiseAt >= 0 && g_reads == g_raiseAt) g_interrupt = true;
   return g_ticks;
}
extern "C" clock_t times(struct tms* buf)
{
   long t = vclock_read();
   if(buf) { buf->tms_utime = t; buf->tms_stime = 0; buf->tms_cutime = 0; buf->tms_cstime = 0; }
   return t;
}
extern "C" int gettimeofday(struct timeval* tv, void*)
{
   long t = vclock_read();
   if(tv) { tv->tv_sec = t / 100; tv->tv_usec = (t % 100) * 10000; }
   return 0;
}
static void vclock_reset() { g_reads = 0; g_jumpAt = -1; g_raiseAt = -1; g_interrupt = false; g_ticks = 0; }

static ConfigSpace g_cs;

static std::string judge_final(int st, double obj, const Classification& cl)
{
   if(cl.hasopt)
   {
      if(st != 1) return "status " + std::to_string(st) + " but the LP has optimum " + cl.opt.get_str();
      if(fabs(obj - cl.opt.get_d()) > 1e-6 * (1 + fabs(cl.opt.get_d()))) return "objective " + TinyLP::num(obj) + " != optimum " + cl.opt.get_str();
   }
   else
   {
      if(st == 1) return std::string("OPTIMAL on an LP without optimum (") + cl.name() + ")";
      if(st == 3 && cl.feasible) return "INFEASIBLE on a feasible LP";
      if(st < 0 && st != -4 && st != -8) return "status " + std::to_string(st) + " without any limit";   // SINGULAR / ABORT_CYCLING on LPs without optimum are give-ups, not verdicts
   }
   return "";
}
// a verdict returned by a stopped run must be true
static std::string judge_verdict(int st, double obj, const Classification& cl)
{
   if(st == 1)
   {
      if(!cl.hasopt) return std::string("OPTIMAL on an LP without optimum (") + cl.name() + ")";
      if(fabs(obj - cl.opt.get_d()) > 1e-6 * (1 + fabs(cl.opt.get_d()))) return "OPTIMAL with objective " + TinyLP::num(obj) + " != optimum " + cl.opt.get_str();
   }
   if(st == 3 && cl.feasible) return "INFEASIBLE on a feasible LP";
   if((st == 2 || st == 4) && cl.hasopt) return "UNBOUNDED/INForUNBD on an LP with finite optimum";
   return "";
}

enum StopKind { K_ITER, K_INTERRUPT, K_TIMEJUMP, K_TIMEZERO, K_OBJLIM };
static const char* KNAME[] = {"iterlimit", "interrupt", "timelimit", "timelimit0", "objlimit"};

struct Setup { const TinyLP* t; const ConfigSpace::Cfg* cfg; bool exact; };
static void prepare(SoPlex& spx, const Setup& s)
{
   quiet(spx);
   g_cs.apply(spx, *s.cfg);
   if(s.exact)
   {
      spx.setIntParam(SoPlex::SYNCMODE, SoPlex::SYNCMODE_AUTO);
      spx.setIntParam(SoPlex::SOLVEMODE, SoPlex::SOLVEMODE_RATIONAL);
      spx.setRealParam(SoPlex::FEASTOL, 0.0);
      spx.setRealParam(SoPlex::OPTTOL, 0.0);
   }
   spx.setRealParam(SoPlex::TIMELIMIT, 1e6);      // finite, so that the solver reads the clock in every iteration
   load_real(spx, *s.t, 0);
}

static uint64_t run_case_cl(const TinyLP& t, const Classification& cl, const std::string& caseName, const std::string& sigTag, const ConfigSpace::Cfg& cfg, bool exact, Ctx& c);

static uint64_t run_case(const TinyLP& t, const ConfigSpace::Cfg& cfg, bool exact, Ctx& c)
{
   XLP x = t.exact();
   Classification cl = classify(x);
   return run_case_cl(t, cl, t.str(), "", cfg, exact, c);
}

// planted LP (vx_planted.hpp): dozens of iterations per solve instead of the one to four of the tiny families, so every kind of stop lands in
// the middle of phase 1, phase 2, the primal/dual switch, the cleanup after perturbation ... ; classification known by construction
static uint64_t run_planted16(const PlantedSpec& sp, const ConfigSpace::Cfg& cfg, bool exact, Ctx& c)
{
   PlantedLP P = planted(sp);
   if(exact) { if(sp.kind == 0 || sp.kind == 3) P.cl.opt -= Q(P.lp.offset); P.lp.offset = 0; }
   c.count(std::string("planted_class.") + sp.kindName());
   return run_case_cl(P.lp, P.cl, sp.str(), "+planted", cfg, exact, c);
}

static uint64_t run_case_cl(const TinyLP& t, const Classification& cl, const std::string& caseName, const std::string& sigTag, const ConfigSpace::Cfg& cfg, bool exact, Ctx& c)
{
   Model mo = Model::from(t);
   Setup su{&t, &cfg, exact};
   std::string cfgs = g_cs.str(cfg) + (exact ? ",exact" : "") + sigTag;
   std::string cs = caseName + "#" + g_cs.str(cfg) + (exact ? "#exact" : "");
   // unlimited reference run under the virtual clock
   int N = 0;
   long C = 0;
   {
      vclock_reset();
      SoPlex spx;
      prepare(spx, su);
      int st = (int)spx.optimize();
      N = spx.numIterations();
      C = g_reads;
      c.count("reference_runs");
      std::string j = judge_final(st, spx.objValueReal(), cl);
      if(!j.empty()) { c.violation("unlimited-run-wrong@" + cfgs, cs, j); return 1; }
   }
   uint64_t h = N * 131 + C;
   auto stopped_run = [&](StopKind kind, long point, double objlimLo, double objlimUp)
   {
      vclock_reset();
      SoPlex spx;
      prepare(spx, su);
      std::string where = std::string(KNAME[kind]) + "@" + cfgs;
      std::string pt = " [stop point " + std::to_string(point) + " of N=" + std::to_string(N) + ",C=" + std::to_string(C) + "]";
      int expectAbort = 0;
      switch(kind)
      {
      case K_ITER: spx.setIntParam(SoPlex::ITERLIMIT, (int)point); expectAbort = -6; break;
      case K_INTERRUPT: g_raiseAt = point; expectAbort = -7; break;
      case K_TIMEJUMP: g_jumpAt = point; expectAbort = -7; break;
      case K_TIMEZERO: spx.setRealParam(SoPlex::TIMELIMIT, 0.0); expectAbort = -7; break;
      case K_OBJLIM: spx.setRealParam(SoPlex::OBJLIMIT_LOWER, objlimLo); spx.setRealParam(SoPlex::OBJLIMIT_UPPER, objlimUp); expectAbort = -5; break;      // SPxSolver::ABORT_VALUE == -5
      }
      int st;
      try
      {
         st = (int)spx.optimize(kind == K_INTERRUPT ? &g_interrupt : nullptr);
      }
      catch(const SPxException& e)
      {
         c.violation("exception:" + where, cs, std::string(e.what()) + pt);
         return;
      }
      c.count(std::string("stopped_runs.") + KNAME[kind]);
      c.count(std::string("stopped_status.") + KNAME[kind] + "." + std::to_string(st));
      double obj = spx.objValueReal();
      // (1) a verdict is only allowed if true; otherwise the matching abort status
      std::string v = judge_verdict(st, obj, cl);
      if(!v.empty()) { c.violation("false-verdict-when-stopped:" + where, cs, v + pt); return; }
      if(st < 0 && st != expectAbort && kind != K_OBJLIM)   // the statement prescribes the abort status for iteration / time / interrupt stops only
      {
         // another give-up status: allowed only if it is an abort caused by the injected stop
         if(!(st == -6 || st == -7 || st == -5) || (kind == K_ITER && st != -6) || ((kind == K_INTERRUPT || kind == K_TIMEJUMP || kind == K_TIMEZERO) && st != -7))
            if(!(!cl.hasopt && (st == -4 || st == -8)))
            { c.violation("wrong-abort-status:got" + std::to_string(st) + ":" + where, cs, "status " + std::to_string(st) + " expected " + std::to_string(expectAbort) + " or a true verdict" + pt); return; }
      }
      if(kind == K_OBJLIM && st == -5)
      {
         // ABORT_VALUE only if the optimum really lies beyond the limit in the direction of optimisation
         bool beyond = cl.hasopt && (t.maximize ? cl.opt.get_d() <= objlimLo + 1e-9 : cl.opt.get_d() >= objlimUp - 1e-9);
         if(!beyond && cl.hasopt) { c.violation("abort-value-although-optimum-inside-limit:" + where, cs, "optimum " + cl.opt.get_str() + " limits [" + TinyLP::num(objlimLo) + "," + TinyLP::num(objlimUp) + "]" + pt); return; }
         if(!cl.hasopt && !cl.feasible) { /* dual unbounded: objective bound passes every limit; allowed */ }
      }
      // (2) iteration count
      if(kind == K_ITER && spx.numIterations() > point) { c.violation("more-iterations-than-limit:" + where, cs, std::to_string(spx.numIterations()) + " iterations with ITERLIMIT " + std::to_string(point) + pt); return; }
      // (3) basis left behind is valid
      if(spx.hasBasis())
      {
         std::string b = basis_valid(spx, mo);
         if(!b.empty()) { c.violation("invalid-basis-after-stop:" + where, cs, b + pt); return; }
         c.count("stopped_with_basis");
      }
      else c.count("stopped_without_basis");
      // (4) resume with the limit lifted
      vclock_reset();
      spx.setIntParam(SoPlex::ITERLIMIT, -1);
      spx.setRealParam(SoPlex::TIMELIMIT, 1e6);
      spx.setRealParam(SoPlex::OBJLIMIT_LOWER, -1e100);
      spx.setRealParam(SoPlex::OBJLIMIT_UPPER, 1e100);
      bool wsFree = false;
      if(spx.hasBasis())
      {
         std::vector<SPxSolver::VarStatus> rs(t.m + 1), csx(t.n + 1);
         spx.getBasis(rs.data(), csx.data());
         for(int i = 0; i < t.m; ++i) if(rs[i] == SPxSolver::ZERO) wsFree = true;
      }
      int st2;
      try
      {
         st2 = (int)spx.optimize();
      }
      catch(const SPxException& e)
      {
         c.violation("exception-on-resume:" + where, cs, std::string(e.what()) + pt);
         return;
      }
      c.count("resumed_runs");
      std::string j = judge_final(st2, spx.objValueReal(), cl);
      if(!j.empty()) c.violation("resume-wrong:" + where + (wsFree ? "+warmstart-with-nonbasic-free-row" : ""), cs, "after stop with status " + std::to_string(st) + ": " + j + pt);
      h = h * 31 + st * 7 + st2;
   };
   // second-stage stops: the interrupt flag is already raised when optimize() is called (a) on an object that was stopped by ITERLIMIT k before (it continues from the stored
   // basis) and (b) from scratch with far-away objective limits set. The call must come back with ABORT_TIME; a verdict is accepted only if the call performed no simplex
   // iteration (the state was already final). Afterwards the flag is cleared and the solve must finish with the true verdict.
   auto interrupted_continuation = [&](long k, bool objlimits)
   {
      vclock_reset();
      SoPlex spx;
      prepare(spx, su);
      std::string where = std::string(objlimits ? "interrupt-at-entry-with-objlimits@" : "interrupt-at-entry-after-iterlimit-stop@") + cfgs;
      std::string pt = " [first stop: ITERLIMIT " + std::to_string(k) + " of N=" + std::to_string(N) + "]";
      int st1 = 0, st2, st3;
      try
      {
         if(objlimits) { spx.setRealParam(SoPlex::OBJLIMIT_LOWER, -1e6); spx.setRealParam(SoPlex::OBJLIMIT_UPPER, 1e6); }
         else
         {
            spx.setIntParam(SoPlex::ITERLIMIT, (int)k);
            st1 = (int)spx.optimize();
            if(st1 != -6) return;      // not stopped: nothing to continue
            spx.setIntParam(SoPlex::ITERLIMIT, -1);
         }
         g_interrupt = true;
         st2 = (int)spx.optimize(&g_interrupt);
         int it2 = spx.numIterations();
         c.count("interrupted_continuations");
         c.count("interrupted_continuation_status." + std::to_string(st2));
         std::string v = judge_verdict(st2, spx.objValueReal(), cl);
         if(!v.empty()) { c.violation("false-verdict-when-stopped:" + where, cs, v + pt); return; }
         // under solution polishing a true OPTIMAL may come back together with a few (polishing) pivots: the statement allows a verdict that "was actually established",
         // and which of the pivots came after it cannot be observed from outside - counted, not judged (the eleven configurations without polishing keep the strict rule)
         const bool polishing = g_cs.value(cfg, "solution_polishing") != 0;
         if(st2 != -7 && it2 > 0 && polishing) c.count("observation.verdict_with_iterations_under_polishing_despite_raised_flag");
         else if(st2 != -7 && it2 > 0) { c.violation("interrupt-ignored:" + where, cs, "optimize(&flag) with the flag raised on entry returned status " + std::to_string(st2) + " after " + std::to_string(it2) + " simplex iterations" + pt); return; }
         if(spx.hasBasis()) { std::string b = basis_valid(spx, mo); if(!b.empty()) { c.violation("invalid-basis-after-stop:" + where, cs, b + pt); return; } }
         g_interrupt = false;
         spx.setRealParam(SoPlex::OBJLIMIT_LOWER, -1e100);
         spx.setRealParam(SoPlex::OBJLIMIT_UPPER, 1e100);
         bool wsFree = false;
         if(spx.hasBasis())
         {
            std::vector<SPxSolver::VarStatus> rs(t.m + 1), csx(t.n + 1);
            spx.getBasis(rs.data(), csx.data());
            for(int i = 0; i < t.m; ++i) if(rs[i] == SPxSolver::ZERO) wsFree = true;
         }
         st3 = (int)spx.optimize();
         std::string j = judge_final(st3, spx.objValueReal(), cl);
         if(!j.empty()) c.violation("resume-wrong:" + where + (wsFree ? "+warmstart-with-nonbasic-free-row" : ""), cs, "after stops with status " + std::to_string(st1) + ", " + std::to_string(st2) + ": " + j + pt);
         h = h * 31 + st2 * 7 + st3;
      }
      catch(const SPxException& e)
      {
         c.violation("exception:" + where, cs, std::string(e.what()) + pt);
      }
   };
   for(long k = 0; k <= N + 1 && k <= 40; ++k) { set_sub(k); stopped_run(K_ITER, k, 0, 0); }
   if(!exact)
   {
      for(long k = 0; k < N && k <= 12; ++k) { set_sub(500 + k); interrupted_continuation(k, false); }
      set_sub(499);
      interrupted_continuation(0, true);
   }
   if(!exact || C < 400)
   {
      long step = C > 300 ? C / 150 : 1;
      for(long r = 1; r <= C; r += step) { set_sub(1000 + r); stopped_run(K_INTERRUPT, r, 0, 0); }
      for(long r = 1; r <= C; r += step) { set_sub(100000 + r); stopped_run(K_TIMEJUMP, r, 0, 0); }
   }
   set_sub(999999);
   stopped_run(K_TIMEZERO, 0, 0, 0);
   if(cl.hasopt && !exact)
   {
      double opt = cl.opt.get_d();
      const double D[] = {-1.0, -0.5, 0.5, 1.0};
      for(double d : D)
      {
         stopped_run(K_OBJLIM, 0, -1e100, opt + d);     // upper limit (binding for minimisation when below the optimum)
         stopped_run(K_OBJLIM, 1, opt + d, 1e100);      // lower limit (binding for maximisation when above the optimum)
      }
   }
   if(c.wantSample() && N >= 2)
      c.sample("{\"lp\":" + (t.n <= 6 ? t.json() : jstr(caseName)) + ",\"config\":" + jstr(cfgs) + ",\"iterations_unlimited\":" + std::to_string(N) + ",\"clock_reads_unlimited\":" + std::to_string(C) + "}");
   if(N >= 1) c.count("nontrivial");
   return h;
}

int main(int argc, char** argv)
{
   Args args = parse_args(argc, argv);
   args.prop = "C16";
   g_cs = ConfigSpace::algorithmic();
   std::vector<ConfigSpace::Cfg> cfgs;
   for(int alg = 0; alg <= 1; ++alg) for(int rep = 1; rep <= 2; ++rep) for(int simp = 0; simp <= 1; ++simp)
            cfgs.push_back(g_cs.parse("algorithm=" + std::to_string(alg) + ",representation=" + std::to_string(rep) + ",simplifier=" + std::to_string(simp)));
   cfgs.push_back(g_cs.parse("pricer=5,simplifier=0"));
   cfgs.push_back(g_cs.parse("ratiotester=3,simplifier=0"));
   cfgs.push_back(g_cs.parse("pricer=1,ratiotester=0,simplifier=0"));
   // solution polishing: extra pivots after optimality, which have to respect the limits as well (added after seeded change C16-d)
   cfgs.push_back(g_cs.parse("solution_polishing=1,simplifier=0"));
   cfgs.push_back(g_cs.parse("solution_polishing=2"));
   if(!args.replay.empty())
   {
      std::ifstream in(args.replay);
      std::string doc((std::istreambuf_iterator<char>(in)), std::istreambuf_iterator<char>());
      size_t p = doc.find("\"case\": \"");
      if(p == std::string::npos) { printf("REPLAY-ERROR no case\n"); return 2; }
      p += 9;
      std::string cs = doc.substr(p, doc.find('"', p) - p);
      auto parts = split(cs, '#');
      ConfigSpace::Cfg cfg = g_cs.parse(parts.size() > 1 ? parts[1] : "default");
      bool exact = parts.size() > 2;
      mallopt(M_PERTURB, 85);
      PlantedSpec psp;
      if(cs.compare(0, 2, "P:") == 0 && PlantedSpec::parse(parts[0], psp))
         return replay_case([&](Ctx & c) { run_planted16(psp, cfg, exact, c); });
      TinyLP t = TinyLP::parse(parts[0]);
      return replay_case([&](Ctx & c) { run_case(t, cfg, exact, c); });
   }
   bool thorough = args.tier == "thorough";
   Report rep(args, "fault_enumeration", thorough ? 3000 : 400);
   FamilySet fs;
   fs.add(famQ());
   fs.add(famT(3, 3, {-1, 0, 1}, {-1, 1}, {0, 3}, {0, 2, 3}, 6));
   uint64_t stride = fs.total / (thorough ? 60000 : 5000) + 1;   // about 60000 / 5000 LPs, evenly spread over the families
   uint64_t NC = cfgs.size();
   RunOpts o = rep.opts();
   o.perturb = {85};
   auto lpAt = [&](uint64_t k, TinyLP & t) -> bool
   {
      uint64_t raw = k * stride, lim = std::min<uint64_t>(raw + stride, fs.total);
      while(raw < lim && !fs.get(raw, t)) ++raw;
      return raw < lim;
   };
   rep.phase("stop points: LP x 13 configurations (floating point)", (fs.total / stride) * NC, [&](uint64_t idx, int, Ctx & c) -> uint64_t
   {
      TinyLP t;
      if(!lpAt(idx / NC, t)) return 0;
      c.count("lp_x_cfg");
      return run_case(t, cfgs[idx % NC], false, c);
   }, [&](uint64_t idx, uint64_t) { TinyLP t; lpAt(idx / NC, t); return t.str() + "#" + g_cs.str(cfgs[idx % NC]); }, o,
   [&](uint64_t idx, uint64_t sub) { return std::string("@") + (sub >= 999999 ? "timelimit0" : sub >= 100000 ? "timelimit" : sub >= 1000 ? "interrupt" : sub >= 499 ? "interrupt-at-entry" : "iterlimit") + "|" + g_cs.str(cfgs[idx % NC]); });
   uint64_t stride2 = fs.total / (thorough ? 6000 : 600) + 1;
   rep.phase("stop points: exact solves", (fs.total / stride2) * 2, [&](uint64_t idx, int, Ctx & c) -> uint64_t
   {
      TinyLP t;
      uint64_t raw = (idx / 2) * stride2, lim = std::min<uint64_t>(raw + stride2, fs.total);
      while(raw < lim && !fs.get(raw, t)) ++raw;
      if(raw >= lim) return 0;
      t.offset = 0;     // the exact path's handling of the objective offset is C03's business, not part of this property
      c.count("lp_x_cfg_exact");
      return run_case(t, cfgs[(idx % 2) ? 0 : 7], true, c);
   }, [&](uint64_t idx, uint64_t)
   {
      TinyLP t;
      uint64_t raw = (idx / 2) * stride2, lim = std::min<uint64_t>(raw + stride2, fs.total);
      while(raw < lim && !fs.get(raw, t)) ++raw;
      t.offset = 0;
      return t.str() + "#" + g_cs.str(cfgs[(idx % 2) ? 0 : 7]) + "#exact";
   }, o);
   {
      // planted LPs: complete grid x the 11 configurations (floating point) and x 2 configurations (exact)
      static PlantedGrid pg;
      pg.sizes = {{5, 8}, {8, 5}, {10, 10}, {16, 12}, {12, 20}};
      pg.densities = {40};
      pg.seeds = thorough ? 10 : 2;
      pg.kinds = 4;     // with the covering LPs: the dual simplex starts dual feasible, so objective limits really stop it (ABORT_VALUE)
      auto sfxP = [&](uint64_t idx, uint64_t sub) { return std::string("@") + (sub >= 999999 ? "timelimit0" : sub >= 100000 ? "timelimit" : sub >= 1000 ? "interrupt" : sub >= 499 ? "interrupt-at-entry" : "iterlimit") + "|" + g_cs.str(cfgs[idx % NC]) + "+planted"; };
      rep.phase("stop points: planted LPs up to 16x12 / 12x20 x 13 configurations (floating point)", pg.size() * NC, [&](uint64_t idx, int, Ctx & c) -> uint64_t
      {
         c.count("lp_x_cfg_planted");
         return run_planted16(pg.at(idx / NC), cfgs[idx % NC], false, c);
      }, [&](uint64_t idx, uint64_t) { return pg.at(idx / NC).str() + "#" + g_cs.str(cfgs[idx % NC]); }, o, sfxP);
      static PlantedGrid pe;
      pe.sizes = {{5, 8}, {8, 5}, {10, 10}};
      pe.densities = {40};
      pe.seeds = thorough ? 4 : 1;
      pe.kinds = 4;
      rep.phase("stop points: planted LPs up to 10x10, exact solves", pe.size() * 2, [&](uint64_t idx, int, Ctx & c) -> uint64_t
      {
         c.count("lp_x_cfg_planted_exact");
         return run_planted16(pe.at(idx / 2), cfgs[(idx % 2) ? 0 : 7], true, c);
      }, [&](uint64_t idx, uint64_t) { return pe.at(idx / 2).str() + "#" + g_cs.str(cfgs[(idx % 2) ? 0 : 7]) + "#exact"; }, o);
      rep.extra["planted_grid"] = jstr("floating point: sizes (n x m) 5x8 8x5 10x10 16x12 12x20, density 40 %, degenerate 0/1, min/max, kinds OPT/INF/UNB/COV, seeds 0.." + std::to_string(pg.seeds - 1) + "; exact: 5x8 8x5 10x10, seeds 0.." + std::to_string(pe.seeds - 1));
   }
   auto& C = rep.all.counters;
   uint64_t stopped = C["stopped_runs.iterlimit"] + C["stopped_runs.interrupt"] + C["stopped_runs.timelimit"] + C["stopped_runs.timelimit0"] + C["stopped_runs.objlimit"] + C["interrupted_continuations"];
   rep.evaluations = C["reference_runs"] + stopped + C["resumed_runs"];
   rep.rule = "fault/stop-point enumeration: for each (LP, configuration) one reference run under the virtual clock, then one run per stop point - every iteration limit 0..N+1, the interrupt "
              "flag and a clock jump past the time limit at every clock read (every C/150-th when C > 300), time limit 0, and eight objective limits around the exact optimum - each followed by a resumed run; "
              "non-trivial = (LP, configuration) pairs whose unlimited solve needed at least one iteration";
   rep.assumptions = {"libc times() and gettimeofday() are interposed by the harness executable: all SoPlex timers follow a deterministic virtual clock", "exact oracle for what a verdict may say and for the resumed solve"};
   rep.extra["stopped_runs"] = std::to_string(stopped);
   rep.finish(C["nontrivial"]);
   return 0;
}
