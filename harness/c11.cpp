// C11: the rational LU factorisation is exact.
//  (A) SLUFactorRational standalone on all small matrices over an alphabet of rationals with widely varying
//      bit length (including matrices whose double image is singular / has a different inverse);
//  (B) the rational basis-inverse queries of SoPlex on every basis reached by exact solves of a tiny-LP family,
//      again after each cache-invalidating modification.
#include "vx_spx.hpp"
#include <set>
using namespace vx;

static Rational to_spx(const Q& q) { return Rational(q.get_mpq_t()); }
static Q from_spx(const Rational& r) { Q q(r.backend().data()); q.canonicalize(); return q; }
static Q qq(long a, long b) { Q q(a, b); q.canonicalize(); return q; }

static std::vector<Q> ALPHA6()
{
   Q big = 1; big <<= 40; big += 1;                // 2^40 + 1
   Q tiny = 1; tiny >>= 40;                         // 2^-40
   Q near1 = 1; near1 >>= 60; near1 += 1;           // 1 + 2^-60 (rounds to 1 in double)
   return {Q(0), Q(1), Q(-1, 3), big, tiny, near1};
}

typedef std::vector<std::vector<Q>> QMat;

static std::string qmat_str(const QMat& M)
{
   std::string s;
   for(size_t i = 0; i < M.size(); ++i)
   {
      if(i) s += "|";
      for(size_t j = 0; j < M.size(); ++j) s += (j ? "," : "") + M[i][j].get_str();
   }
   return s;
}
static QMat qmat_parse(const std::string& s)
{
   QMat M;
   for(auto& r : split(s, '|'))
   {
      std::vector<Q> row;
      for(auto& e : split(r, ',')) { Q q(e); q.canonicalize(); row.push_back(q); }
      M.push_back(row);
   }
   return M;
}

static const char* RVARIANT[] = {"solveRight(V,V)", "solveRight(SSV,SV)", "solveRight4update", "solve2right4update", "solve3right4update",
                                 "solveLeft(V,V)", "solveLeft(SSV,SV)", "solveLeft2", "solveLeft3"
                                };
static const int NRV = 9;

static DSVectorRational dsvq(const std::vector<Q>& v)
{
   DSVectorRational d((int)v.size() + 1);
   for(size_t i = 0; i < v.size(); ++i) if(v[i] != 0) d.add((int)i, to_spx(v[i]));
   return d;
}

// one matrix: load, singular <=> det 0, every variant on every rhs exact
static uint64_t run_matrix(const QMat& M, Ctx& c)
{
   int n = (int)M.size();
   std::vector<DSVectorRational> cols(n);
   std::vector<const SVectorRational*> ptrs;
   for(int j = 0; j < n; ++j)
   {
      cols[j] = DSVectorRational(n + 1);
      for(int i = 0; i < n; ++i) if(M[i][j] != 0) cols[j].add(i, to_spx(M[i][j]));
   }
   for(int j = 0; j < n; ++j) ptrs.push_back(&cols[j]);
   SLUFactorRational lu;
   auto st = lu.load(ptrs.data(), n);
   Q det = qdet(M);
   c.count("matrices");
   if(det == 0)
   {
      c.count("singular");
      if(st != SLinSolverRational::SINGULAR)
         c.violation("singular-not-reported", qmat_str(M), "load() returned " + std::to_string((int)st) + " for det 0");
      return 3;
   }
   if(st != SLinSolverRational::OK)
   {
      c.violation("nonsingular-rejected", qmat_str(M), "load() returned " + std::to_string((int)st) + " det=" + det.get_str());
      return 5;
   }
   c.count("nonsingular");
   if(c.wantSample() && n == 3) c.sample("{\"matrix\":" + jstr(qmat_str(M)) + ",\"det\":" + jstr(det.get_str()) + "}");
   // does the double image differ? (counted for the evidence)
   {
      std::vector<std::vector<Q>> D(n, std::vector<Q>(n));
      for(int i = 0; i < n; ++i) for(int j = 0; j < n; ++j) D[i][j] = q_of_double(M[i][j].get_d());
      if(qdet(D) == 0) c.count("nonsingular_but_double_image_singular");
      else if(D != M) c.count("nonsingular_with_inexact_double_image");
   }
   QMat MT(n, std::vector<Q>(n));
   for(int i = 0; i < n; ++i) for(int j = 0; j < n; ++j) MT[i][j] = M[j][i];
   // right-hand sides: unit vectors + one dense rational vector
   std::vector<std::vector<Q>> R;
   for(int k = 0; k < n; ++k) { std::vector<Q> e(n, Q(0)); e[k] = 1; R.push_back(e); }
   std::vector<Q> dn(n);
   for(int k = 0; k < n; ++k) dn[k] = qq(k + 1, 7);
   R.push_back(dn);
   int nR = (int)R.size();
   uint64_t h = 1;
   // two passes over the solve variants on the SAME factorisation object: the natural order with every right-hand side, and a
   // second order (dense left solve before sparse right solve, etc.) with two right-hand sides - no state may leak between solves
   static const int ORDER2[NRV] = {5, 1, 7, 0, 8, 2, 6, 3, 4};
   for(int pass = 0; pass < 2; ++pass)
   for(int vi = 0; vi < NRV; ++vi)
   {
      int v = pass ? ORDER2[vi] : vi;
      set_sub(v);
      bool left = v >= 5;
      for(int k = 0; k < nR; ++k)
      {
         if(pass == 1 && k != 1 % nR && k != nR - 1) continue;
         const std::vector<Q>& b1 = R[k], &b2 = R[(k + 1) % nR], &b3 = R[(k + 2) % nR];
         std::vector<Q> z1, z2, z3;
         qsolve(left ? MT : M, b1, z1); qsolve(left ? MT : M, b2, z2); qsolve(left ? MT : M, b3, z3);
         if(v == 2 || v == 3 || v == 4) lu.load(ptrs.data(), n);   // the 4update solves leave an update vector behind
         VectorRational vb(n), vx(n), vy(n), vz(n);
         for(int i = 0; i < n; ++i) vb[i] = to_spx(b1[i]);
         DSVectorRational sb = dsvq(b1);
         SSVectorRational x(n), d(n), e(n);
         x.clear();
         d = dsvq(b2);
         e = dsvq(b3);
         // The index arrays of these vectors have room for n entries.  On the unchanged tree some solves write more than n indices (known_findings.json); as a heap
         // overflow that damages the worker (and the sanitizer reports a faulty instruction only once per process).  So the arrays get slack filled with a sentinel
         // and every write behind the n-th entry is detected by looking at the slack afterwards - same defect, deterministic verdict, no damage.
         const int SLACK = 4 * n + 16, SENT = -123456789;
         SSVectorRational* guarded[3] = {&x, &d, &e};
         for(auto* g : guarded) { g->setMax(n + SLACK); for(int t = n; t < n + SLACK; ++t) g->idx[t] = SENT; }
         int nout = 1;
         std::vector<Q> o1(n), o2(n), o3(n);
         auto get = [&](const VectorRational & w, std::vector<Q>& o) { for(int i = 0; i < n; ++i) o[i] = from_spx(w[i]); };
         switch(v)
         {
         case 0: lu.solveRight(vx, vb); get(vx, o1); break;
         case 1: lu.solveRight(x, sb); get(x, o1); break;
         case 2: lu.solveRight4update(x, sb); get(x, o1); break;
         case 3: lu.solve2right4update(x, vy, sb, d); get(x, o1); get(vy, o2); nout = 2; break;
         case 4: lu.solve3right4update(x, vy, vz, sb, d, e); get(x, o1); get(vy, o2); get(vz, o3); nout = 3; break;
         case 5: lu.solveLeft(vx, vb); get(vx, o1); break;
         case 6: lu.solveLeft(x, sb); get(x, o1); break;
         case 7: lu.solveLeft(x, vy, sb, d); get(x, o1); get(vy, o2); nout = 2; break;
         case 8: lu.solveLeft(x, vy, vz, sb, d, e); get(x, o1); get(vy, o2); get(vz, o3); nout = 3; break;
         }
         c.count("solves");
         {
            static const char* GNAME[3] = {"result", "rhs2", "rhs3"};
            bool overrun = false;
            for(int gi = 0; gi < 3; ++gi)
            {
               int written = 0;
               for(int t = n; t < n + SLACK; ++t) if(guarded[gi]->idx[t] != SENT) ++written;
               if(written)
               {
                  c.violation(std::string("index-array-overrun:") + GNAME[gi] + "@variant=" + RVARIANT[v], qmat_str(M) + ";variant=" + std::to_string(v) + ";rhs=" + std::to_string(k),
                              std::to_string(written) + " entries written behind the " + std::to_string(n) + " entries the index array of a dimension-" + std::to_string(n) + " vector has");
                  overrun = true;
               }
            }
            if(overrun) c.count("solves_with_index_array_overrun");
         }
         {
            // sanitizer reports are attributed to the solve variant that triggered them
            std::string ar = take_asan_report();
            if(!ar.empty())
               c.violation(ar + "@variant=" + RVARIANT[v], qmat_str(M) + ";variant=" + std::to_string(v) + ";rhs=" + std::to_string(k), "AddressSanitizer report during this solve");
         }
         const std::vector<Q>* got[3] = {&o1, &o2, &o3};
         const std::vector<Q>* want[3] = {&z1, &z2, &z3};
         for(int t = 0; t < nout; ++t)
            if(*got[t] != *want[t])
            {
               int bad = 0;
               for(int i = 0; i < n; ++i) if((*got[t])[i] != (*want[t])[i]) { bad = i; break; }
               c.violation(std::string("inexact-solution:") + RVARIANT[v], qmat_str(M) + ";variant=" + std::to_string(v) + ";rhs=" + std::to_string(k),
                           "output " + std::to_string(t) + " component " + std::to_string(bad) + ": got " + (*got[t])[bad].get_str() + " want " + (*want[t])[bad].get_str());
               h = h * 31 + 7;
               break;
            }
      }
   }
   return h;
}

// ---- part A2: structured sparse matrices of dimension 8..40 ------------------------------------------------------
// The tiny matrices of part A never fill the column / row files of the working matrix, so the relocation and compaction
// code of the rational factorisation (remaxCol / remaxRow / packColumns / packRows) is dead for them.  This family is
// built to cause fill-in: diagonal + k pseudo-random off-diagonals per row, band + far entries, arrow + random, dense
// bump; values are small rationals from an integer LCG; a member is reproducible from (pattern, n, k, singular, seed)
// and the family is the complete product of the stated grid.  Oracle: exact residuals A x = b / y^T A = b^T (the
// solution of a nonsingular system is unique, so a zero residual is a complete check), det = 0 <=> SINGULAR.
struct BigSpec
{
   int pattern = 0, n = 8, k = 3, singular = 0, seed = 0;
   std::string str() const { char b[80]; snprintf(b, sizeof b, "B:%d:%d:%d:%d:%d", pattern, n, k, singular, seed); return b; }
   static bool parse(const std::string& s, BigSpec& p) { return sscanf(s.c_str(), "B:%d:%d:%d:%d:%d", &p.pattern, &p.n, &p.k, &p.singular, &p.seed) == 5; }
};
struct Lcg11
{
   uint64_t s;
   explicit Lcg11(uint64_t seed) : s(seed * 0x9E3779B97F4A7C15ULL + 0x2545F4914F6CDD1DULL) { next(); next(); }
   uint32_t next() { s = s * 6364136223846793005ULL + 1442695040888963407ULL; return (uint32_t)(s >> 33); }
   int upto(int k) { return (int)(next() % (uint32_t)k); }
};
static QMat big_matrix(const BigSpec& sp)
{
   int n = sp.n;
   static const long VN[] = {1, -1, 2, -3, 1, -5, 7, 3}, VD[] = {1, 1, 1, 1, 3, 2, 4, 1};
   Lcg11 g((uint64_t)sp.seed * 7919 + sp.pattern * 101 + sp.n * 13 + sp.k);
   auto val = [&]() { int t = g.upto(8); return qq(VN[t], VD[t]); };
   QMat M(n, std::vector<Q>(n, Q(0)));
   for(int i = 0; i < n; ++i) M[i][i] = val();
   switch(sp.pattern)
   {
   case 0:     // diagonal + k off-diagonals per row
      for(int i = 0; i < n; ++i) for(int t = 0; t < sp.k; ++t) { int j = g.upto(n); if(j != i) M[i][j] = val(); }
      break;
   case 1:     // band of half-width 2 + k far entries per 4 rows
      for(int i = 0; i < n; ++i)
      {
         for(int d = -2; d <= 2; ++d) if(d && i + d >= 0 && i + d < n) M[i][i + d] = val();
         if(i % 4 == 0) for(int t = 0; t < sp.k; ++t) { int j = g.upto(n); if(j != i) M[i][j] = val(); }
      }
      break;
   case 2:     // arrow (dense first row and column) + k random entries per 3 rows
      for(int i = 1; i < n; ++i) { M[0][i] = val(); M[i][0] = val(); }
      for(int i = 1; i < n; ++i) if(i % 3 == 0) for(int t = 0; t < sp.k; ++t) { int j = g.upto(n); if(j != i) M[i][j] = val(); }
      break;
   default:    // dense bump of size min(n, 2k) at a pseudo-random offset inside a sparse matrix
   {
      int b = std::min(n, 2 * sp.k), off = g.upto(n - b + 1);
      for(int i = 0; i < b; ++i) for(int j = 0; j < b; ++j) M[off + i][off + j] = val();
      for(int i = 0; i < n; ++i) { int j = g.upto(n); if(j != i) M[i][j] = val(); }
      break;
   }
   }
   if(sp.singular == 1 && n >= 2)
   {
      // last column := 2 * column a - 1/3 * column b  (exactly singular)
      int a = g.upto(n - 1), b = g.upto(n - 1);
      for(int i = 0; i < n; ++i) M[i][n - 1] = 2 * M[i][a] - qq(1, 3) * M[i][b];
   }
   else if(sp.singular == 2 && n >= 2)
   {
      int a = g.upto(n - 1);          // duplicate row
      M[n - 1] = M[a];
   }
   return M;
}

static uint64_t run_big(const BigSpec& sp, Ctx& c)
{
   QMat M = big_matrix(sp);
   int n = sp.n;
   std::vector<DSVectorRational> cols(n);
   std::vector<const SVectorRational*> ptrs;
   int nnz = 0;
   for(int j = 0; j < n; ++j)
   {
      cols[j] = DSVectorRational(n + 1);
      for(int i = 0; i < n; ++i) if(M[i][j] != 0) { cols[j].add(i, to_spx(M[i][j])); ++nnz; }
   }
   for(int j = 0; j < n; ++j) ptrs.push_back(&cols[j]);
   SLUFactorRational lu;
   auto st = lu.load(ptrs.data(), n);
   Q det = qdet(M);
   c.count("big_matrices");
   std::string cs = sp.str();
   {
      std::string ar = take_asan_report();
      if(!ar.empty()) c.violation(ar + "@load,big", cs, "AddressSanitizer report during load()");
   }
   if(det == 0)
   {
      c.count("big_singular");
      if(st != SLinSolverRational::SINGULAR) c.violation("singular-not-reported@big", cs, "load() returned " + std::to_string((int)st) + " for det 0");
      return 3;
   }
   if(st != SLinSolverRational::OK)
   {
      c.violation("nonsingular-rejected@big", cs, "load() returned " + std::to_string((int)st) + " for det != 0");
      return 5;
   }
   c.count("big_nonsingular");
   c.count("big_nonzeros", nnz);
   // fill-in observed in the factor (read from the private column file; observation only)
   c.count("big_colfile_used", lu.u.col.used);
   if(lu.u.col.size > std::max(100, 5 * nnz)) c.count("big_colfile_grew_beyond_initial_size");
   if(c.wantSample()) c.sample("{\"big_matrix\":" + jstr(cs) + ",\"nonzeros\":" + std::to_string(nnz) + ",\"colfile_used\":" + std::to_string(lu.u.col.used) + "}");
   std::vector<std::vector<Q>> R;
   { std::vector<Q> e(n, Q(0)); e[0] = 1; R.push_back(e); }
   { std::vector<Q> e(n, Q(0)); e[n - 1] = qq(-2, 3); e[n / 2] += 1; R.push_back(e); }
   { std::vector<Q> dn(n); for(int k = 0; k < n; ++k) dn[k] = qq(k + 1, 7); R.push_back(dn); }
   int nR = 3;
   uint64_t h = 1;
   static const int ORDER2[NRV] = {5, 1, 7, 0, 8, 2, 6, 3, 4};
   auto residual_ok = [&](bool left, const std::vector<Q>& z, const std::vector<Q>& b)
   {
      for(int i = 0; i < n; ++i)
      {
         Q t = 0;
         if(!left) { for(int j = 0; j < n; ++j) if(M[i][j] != 0) t += M[i][j] * z[j]; }
         else { for(int j = 0; j < n; ++j) if(M[j][i] != 0) t += M[j][i] * z[j]; }
         if(t != b[i]) return false;
      }
      return true;
   };
   for(int pass = 0; pass < 2; ++pass)
   for(int vi = 0; vi < NRV; ++vi)
   {
      int v = pass ? ORDER2[vi] : vi;
      set_sub(v);
      bool left = v >= 5;
      for(int k = 0; k < nR; ++k)
      {
         if(pass == 1 && k != 1) continue;
         const std::vector<Q>& b1 = R[k], &b2 = R[(k + 1) % nR], &b3 = R[(k + 2) % nR];
         if(v == 2 || v == 3 || v == 4) lu.load(ptrs.data(), n);
         VectorRational vb(n), vx(n), vy(n), vz(n);
         for(int i = 0; i < n; ++i) vb[i] = to_spx(b1[i]);
         DSVectorRational sb = dsvq(b1);
         SSVectorRational x(n), d(n), e(n);
         x.clear();
         d = dsvq(b2);
         e = dsvq(b3);
         const int SLACK = 4 * n + 16, SENT = -123456789;
         SSVectorRational* guarded[3] = {&x, &d, &e};
         for(auto* gq : guarded) { gq->setMax(n + SLACK); for(int t = n; t < n + SLACK; ++t) gq->idx[t] = SENT; }
         int nout = 1;
         std::vector<Q> o1(n), o2(n), o3(n);
         auto get = [&](const VectorRational & w, std::vector<Q>& o) { for(int i = 0; i < n; ++i) o[i] = from_spx(w[i]); };
         switch(v)
         {
         case 0: lu.solveRight(vx, vb); get(vx, o1); break;
         case 1: lu.solveRight(x, sb); get(x, o1); break;
         case 2: lu.solveRight4update(x, sb); get(x, o1); break;
         case 3: lu.solve2right4update(x, vy, sb, d); get(x, o1); get(vy, o2); nout = 2; break;
         case 4: lu.solve3right4update(x, vy, vz, sb, d, e); get(x, o1); get(vy, o2); get(vz, o3); nout = 3; break;
         case 5: lu.solveLeft(vx, vb); get(vx, o1); break;
         case 6: lu.solveLeft(x, sb); get(x, o1); break;
         case 7: lu.solveLeft(x, vy, sb, d); get(x, o1); get(vy, o2); nout = 2; break;
         case 8: lu.solveLeft(x, vy, vz, sb, d, e); get(x, o1); get(vy, o2); get(vz, o3); nout = 3; break;
         }
         c.count("solves");
         c.count("big_solves");
         {
            static const char* GNAME[3] = {"result", "rhs2", "rhs3"};
            for(int gi = 0; gi < 3; ++gi)
            {
               int written = 0;
               for(int t = n; t < n + SLACK; ++t) if(guarded[gi]->idx[t] != SENT) ++written;
               if(written)
                  c.violation(std::string("index-array-overrun:") + GNAME[gi] + "@variant=" + RVARIANT[v], cs + ";variant=" + std::to_string(v) + ";rhs=" + std::to_string(k),
                              std::to_string(written) + " entries written behind the " + std::to_string(n) + " entries the index array of a dimension-" + std::to_string(n) + " vector has");
            }
         }
         {
            std::string ar = take_asan_report();
            if(!ar.empty()) c.violation(ar + "@variant=" + RVARIANT[v], cs + ";variant=" + std::to_string(v) + ";rhs=" + std::to_string(k), "AddressSanitizer report during this solve");
         }
         const std::vector<Q>* got[3] = {&o1, &o2, &o3};
         const std::vector<Q>* rhs[3] = {&b1, &b2, &b3};
         for(int t = 0; t < nout; ++t)
            if(!residual_ok(left, *got[t], *rhs[t]))
            {
               c.violation(std::string("inexact-solution:") + RVARIANT[v] + ",big", cs + ";variant=" + std::to_string(v) + ";rhs=" + std::to_string(k),
                           "output " + std::to_string(t) + ": exact residual of the returned vector is not zero (n=" + std::to_string(n) + ", " + std::to_string(nnz) + " nonzeros)");
               h = h * 31 + 7;
               break;
            }
      }
   }
   return h;
}

// ---- part B: SoPlex-level rational basis inverse -------------------------------------------------------
struct QLP     // exact model of the LP held by SoPlex (only what the basis matrix needs, plus what the ops change)
{
   XLP x;
};

static std::string check_basis_inverse(SoPlex& spx, const XLP& lp, Ctx& c, const std::string& when)
{
   int n = lp.n, m = lp.m;
   if(m == 0) return "";
   DataArray<int> bind;
   if(!spx.getBasisIndRational(bind)) { c.count("basis_inverse_unavailable"); return ""; }
   if(bind.size() != m) return "getBasisIndRational size " + std::to_string(bind.size()) + " != numRows " + std::to_string(m) + " " + when;
   QMat B(m, std::vector<Q>(m, Q(0)));
   for(int k = 0; k < m; ++k)
   {
      if(bind[k] >= 0)
      {
         if(bind[k] >= n) return "basis index " + std::to_string(bind[k]) + " out of range " + when;
         for(int i = 0; i < m; ++i) B[i][k] = lp.A[i][bind[k]];
      }
      else
      {
         int r = -1 - bind[k];
         if(r < 0 || r >= m) return "slack basis index out of range " + when;
         B[r][k] = 1;
      }
   }
   {
      // the rational basis indices must name the basis the solver currently holds: the BASIC set of getBasis() (a cached factorisation of an earlier basis would be
      // consistent with its own index array, so only this comparison exposes it)
      std::vector<SPxSolver::VarStatus> rs(m + 1), cs(n + 1);
      spx.getBasis(rs.data(), cs.data());
      std::set<int> a, b;
      for(int k = 0; k < m; ++k) a.insert(bind[k]);
      for(int i = 0; i < m; ++i) if(rs[i] == SPxSolver::BASIC) b.insert(-1 - i);
      for(int j = 0; j < n; ++j) if(cs[j] == SPxSolver::BASIC) b.insert(j);
      if(a != b)
      {
         std::string sa, sb;
         for(int v : a) sa += std::to_string(v) + " ";
         for(int v : b) sb += std::to_string(v) + " ";
         return "getBasisIndRational names { " + sa + "} but the BASIC variables of getBasis() are { " + sb + "} " + when;
      }
   }
   QMat Inv;
   if(!qinverse(B, Inv)) return "rational basis reported as factorised but B is singular " + when;
   c.count("bases_checked");
   for(int r = 0; r < m; ++r)
   {
      SSVectorRational vec(m);
      if(!spx.getBasisInverseRowRational(r, vec)) return "getBasisInverseRowRational failed " + when;
      for(int k = 0; k < m; ++k) if(from_spx(vec[k]) != Inv[r][k]) return "getBasisInverseRowRational(" + std::to_string(r) + ")[" + std::to_string(k) + "] = " + from_spx(vec[k]).get_str() + " != " + Inv[r][k].get_str() + " " + when;
      SSVectorRational col(m);
      if(!spx.getBasisInverseColRational(r, col)) return "getBasisInverseColRational failed " + when;
      for(int k = 0; k < m; ++k) if(from_spx(col[k]) != Inv[k][r]) return "getBasisInverseColRational(" + std::to_string(r) + ")[" + std::to_string(k) + "] = " + from_spx(col[k]).get_str() + " != " + Inv[k][r].get_str() + " " + when;
      c.count("inverse_rows_cols_checked", 2);
   }
   // times-vector with a sparse rational rhs
   {
      std::vector<Q> v(m, Q(0));
      v[0] = qq(2, 3);
      v[m - 1] += Q(-5);
      DSVectorRational rhs = dsvq(v);
      SSVectorRational sol(m);
      if(!spx.getBasisInverseTimesVecRational(rhs, sol)) return "getBasisInverseTimesVecRational failed " + when;
      for(int i = 0; i < m; ++i)
      {
         Q w = 0;
         for(int k = 0; k < m; ++k) w += Inv[i][k] * v[k];
         if(from_spx(sol[i]) != w) return "getBasisInverseTimesVecRational[" + std::to_string(i) + "] = " + from_spx(sol[i]).get_str() + " != " + w.get_str() + " " + when;
      }
   }
   return "";
}

static const char* INVAL_OPS[] = {"none", "changeElementRational(0,0,5/3)", "changeElementReal(0,0,2)", "addRowReal", "removeRowReal(last)", "addColReal",
                                  "changeRowReal(0)", "changeColRational(0)", "changeBoundsReal(0)", "clearBasis+optimize",
                                  // objective-only changes leave the basis matrix alone (the cached factorisation may stay) - but the warm-started re-solve that follows pivots to
                                  // another basis, and the queries must then describe THAT basis
                                  "changeObjReal(negated)", "changeObjRational(reversed)"
                                 };
static const int NINVAL = 12;

static uint64_t run_lp(const TinyLP& t, int op, Ctx& c)
{
   SoPlex spx;
   quiet(spx);
   spx.setIntParam(SoPlex::SYNCMODE, SoPlex::SYNCMODE_AUTO);
   spx.setIntParam(SoPlex::SOLVEMODE, SoPlex::SOLVEMODE_RATIONAL);
   spx.setIntParam(SoPlex::CHECKMODE, SoPlex::CHECKMODE_RATIONAL);
   spx.setRealParam(SoPlex::FEASTOL, 0.0);
   spx.setRealParam(SoPlex::OPTTOL, 0.0);
   load_real(spx, t, 0);
   XLP lp = t.exact();
   // make the data non-dyadic
   if(lp.m > 0 && lp.n > 0 && lp.A[0][0] != 0)
   {
      lp.A[0][0] = Q(1, 3);
      spx.changeElementRational(0, 0, to_spx(lp.A[0][0]));
   }
   spx.optimize();
   c.count("exact_solves");
   c.count(std::string("status.") + std::to_string((int)spx.status()));
   if(!spx.hasBasis()) { c.count("no_basis_after_solve"); return 1; }
   std::string err = check_basis_inverse(spx, lp, c, "after exact solve");
   if(!err.empty()) { c.violation("rational-basis-inverse-wrong@after-solve", t.str() + "#" + std::to_string(op), err); return 2; }
   if(op == 0) return 3;
   // cache-invalidating operation, then the queries again: a stale factorisation must never be served
   int n = lp.n, m = lp.m;
   switch(op)
   {
   case 1: if(m > 0 && n > 0) { lp.A[0][0] = Q(5, 3); spx.changeElementRational(0, 0, to_spx(lp.A[0][0])); } break;
   case 2: if(m > 0 && n > 0) { lp.A[0][0] = Q(2); spx.changeElementReal(0, 0, 2.0); } break;
   case 3:
   {
      DSVector row(n + 1);
      std::vector<Q> a(n, Q(0));
      for(int j = 0; j < n; ++j) { a[j] = (j % 2) ? Q(-1) : Q(2); row.add(j, a[j].get_d()); }
      spx.addRowReal(LPRow(-INF, row, 7.0));
      lp.A.push_back(a); lp.lhs.push_back(Ext::minf()); lp.rhs.push_back(Ext(Q(7))); lp.m++;
      break;
   }
   case 4:
      if(m > 1) { spx.removeRowReal(m - 1); lp.A.pop_back(); lp.lhs.pop_back(); lp.rhs.pop_back(); lp.m--; }
      break;
   case 5:
   {
      DSVector col(m + 1);
      for(int i = 0; i < m; ++i) { Q v = (i % 2) ? Q(1) : Q(-2); col.add(i, v.get_d()); lp.A[i].push_back(v); }
      spx.addColReal(LPCol(1.0, col, INF, 0.0));
      lp.c.push_back(Q(1)); lp.lo.push_back(Ext(Q(0))); lp.up.push_back(Ext::pinf()); lp.n++;
      break;
   }
   case 6:
      if(m > 0)
      {
         DSVector row(n + 1);
         for(int j = 0; j < n; ++j) { Q v = Q(j + 1); row.add(j, v.get_d()); lp.A[0][j] = v; }
         spx.changeRowReal(0, LPRow(-INF, row, 9.0));
         lp.lhs[0] = Ext::minf(); lp.rhs[0] = Ext(Q(9));
      }
      break;
   case 7:
      if(n > 0)
      {
         DSVectorRational col(m + 1);
         for(int i = 0; i < m; ++i) { Q v = qq(i + 2, 3); col.add(i, to_spx(v)); lp.A[i][0] = v; }
         spx.changeColRational(0, LPColRational(to_spx(Q(1)), col, to_spx(Q(10)), to_spx(Q(0))));
         lp.c[0] = 1; lp.lo[0] = Ext(Q(0)); lp.up[0] = Ext(Q(10));
      }
      break;
   case 8: if(n > 0) { spx.changeBoundsReal(0, -1.0, 2.0); lp.lo[0] = Ext(Q(-1)); lp.up[0] = Ext(Q(2)); } break;
   case 9: spx.clearBasis(); spx.optimize(); break;
   case 10: for(int j = 0; j < n; ++j) { lp.c[j] = -lp.c[j] - (j == 0 ? 1 : 0); spx.changeObjReal(j, lp.c[j].get_d()); } break;
   case 11: for(int j = 0; j < n; ++j) { Q v = lp.c[n - 1 - j] * 2 + qq(j + 1, 3); spx.changeObjRational(j, to_spx(v)); } for(int j = 0; j < n; ++j) lp.c[j] = from_spx(spx.objRational(j)); break;
   }
   c.count(std::string("op.") + INVAL_OPS[op]);
   if(!spx.hasBasis()) { c.count("basis_dropped_by_op"); return 5; }
   err = check_basis_inverse(spx, lp, c, std::string("after ") + INVAL_OPS[op]);
   if(!err.empty()) { c.violation(std::string("rational-basis-inverse-wrong@after-") + INVAL_OPS[op], t.str() + "#" + std::to_string(op), err); return 6; }
   // re-solve exactly and check once more
   spx.optimize();
   if(spx.hasBasis())
   {
      err = check_basis_inverse(spx, lp, c, std::string("after ") + INVAL_OPS[op] + " and re-solve");
      if(!err.empty()) { c.violation(std::string("rational-basis-inverse-wrong@after-") + INVAL_OPS[op] + "+optimize", t.str() + "#" + std::to_string(op), err); return 7; }
   }
   return 9;
}

static uint64_t ipow(uint64_t b, int e) { uint64_t r = 1; while(e-- > 0) r *= b; return r; }

int main(int argc, char** argv)
{
   Args args = parse_args(argc, argv);
   args.prop = "C11";
   if(!args.replay.empty())
   {
      std::ifstream in(args.replay);
      std::string doc((std::istreambuf_iterator<char>(in)), std::istreambuf_iterator<char>());
      size_t p = doc.find("\"case\": \"");
      if(p == std::string::npos) { printf("REPLAY-ERROR no case\n"); return 2; }
      p += 9;
      std::string cs = doc.substr(p, doc.find('"', p) - p);
      mallopt(M_PERTURB, 85);
      if(cs.compare(0, 2, "n=") == 0)
      {
         size_t h = cs.find('#');
         TinyLP t = TinyLP::parse(cs.substr(0, h));
         int op = atoi(cs.c_str() + h + 1);
         return replay_case([&](Ctx & c) { run_lp(t, op, c); });
      }
      BigSpec bsp;
      if(cs.compare(0, 2, "B:") == 0 && BigSpec::parse(cs.substr(0, cs.find(';')), bsp))
         return replay_case([&](Ctx & c) { run_big(bsp, c); });
      QMat M = qmat_parse(cs.substr(0, cs.find(';')));
      return replay_case([&](Ctx & c) { run_matrix(M, c); });
   }
   bool thorough = args.tier == "thorough";
   const uint64_t thin = (args.tier == "thorough") ? 1 : 3;   // quick: every 3rd matrix of the 3x3 family (whole harness runs under ASan)
   Report rep(args, "exploration", thorough ? 2400 : 600);
   RunOpts o = rep.opts();
   o.perturb = {85};
   auto A6 = ALPHA6();
   std::vector<Q> A4 = {A6[0], A6[1], A6[2], A6[3]};
   auto matOf = [](uint64_t idx, int n, const std::vector<Q>& al)
   {
      QMat M(n, std::vector<Q>(n));
      for(int i = 0; i < n; ++i) for(int j = 0; j < n; ++j) { M[i][j] = al[idx % al.size()]; idx /= al.size(); }
      return M;
   };
   auto sfx = [](uint64_t, uint64_t sub) { return std::string("@variant=") + (sub < (uint64_t)NRV ? RVARIANT[sub] : "?"); };
   rep.phase("all 2x2 over 6 letters", ipow(6, 4), [&](uint64_t idx, int, Ctx & c) { return run_matrix(matOf(idx, 2, A6), c); },
   [&](uint64_t idx, uint64_t) { return qmat_str(matOf(idx, 2, A6)); }, o, sfx);
   rep.phase("all 3x3 over {0,1,-1/3,2^40+1}", ipow(4, 9), [&](uint64_t idx, int, Ctx & c) -> uint64_t { if(idx % thin) return 0; return run_matrix(matOf(idx, 3, A4), c); },
   [&](uint64_t idx, uint64_t) { return qmat_str(matOf(idx, 3, A4)); }, o, sfx);
   if(thorough)
   {
      rep.phase("3x3 over 6 letters, <=5 nonzeros", ipow(6, 9), [&](uint64_t idx, int, Ctx & c) -> uint64_t
      {
         QMat M = matOf(idx, 3, A6);
         int nz = 0;
         for(auto& r : M) for(auto& v : r) if(v != 0) ++nz;
         if(nz > 5 || idx % thin) return 0;
         return run_matrix(M, c);
      }, [&](uint64_t idx, uint64_t) { return qmat_str(matOf(idx, 3, A6)); }, o, sfx);
      std::vector<Q> A3 = {A6[0], A6[1], A6[2]};
      rep.phase("4x4 over {0,1,-1/3}, <=7 nonzeros", ipow(3, 16), [&](uint64_t idx, int, Ctx & c) -> uint64_t
      {
         QMat M = matOf(idx, 4, A3);
         int nz = 0;
         for(auto& r : M) for(auto& v : r) if(v != 0) ++nz;
         if(nz > 7 || idx % thin) return 0;
         return run_matrix(M, c);
      }, [&](uint64_t idx, uint64_t) { return qmat_str(matOf(idx, 4, A3)); }, o, sfx);
   }
   {
      // part A2: structured sparse matrices, complete grid  pattern(4) x n(8) x k(3) x singular(3) x seeds
      static const int NS[] = {8, 12, 16, 20, 26, 30, 34, 40}, KS[] = {3, 5, 8};
      const int seeds = thorough ? 12 : 3;
      auto specOf = [=](uint64_t idx)
      {
         BigSpec b;
         b.singular = idx % 3; idx /= 3;
         b.k = KS[idx % 3]; idx /= 3;
         b.n = NS[idx % 8]; idx /= 8;
         b.pattern = idx % 4; idx /= 4;
         b.seed = (int)idx;
         return b;
      };
      rep.phase("structured sparse matrices, dimension 8..40", (uint64_t)3 * 3 * 8 * 4 * seeds, [&](uint64_t idx, int, Ctx & c) { return run_big(specOf(idx), c); },
      [&](uint64_t idx, uint64_t) { return specOf(idx).str(); }, o, sfx);
      // fill-in sub-family: the relocation / compaction code of the column and row files only runs when the working matrix outgrows its
      // initial allocation (5 x nonzeros), which needs a large non-triangular nucleus: pattern 0 with 4..8 off-diagonals per row, every
      // even dimension from 24 to 40, nonsingular members only
      const int fseeds = thorough ? 16 : 5;
      auto fillOf = [=](uint64_t idx)
      {
         BigSpec b;
         b.pattern = 0; b.singular = 0;
         b.k = 4 + (int)(idx % 5); idx /= 5;
         b.n = 24 + 2 * (int)(idx % 9); idx /= 9;
         b.seed = 100 + (int)idx;
         return b;
      };
      rep.phase("fill-in family: diagonal + 4..8 off-diagonals per row, dimension 24..40", (uint64_t)5 * 9 * fseeds, [&](uint64_t idx, int, Ctx & c) { return run_big(fillOf(idx), c); },
      [&](uint64_t idx, uint64_t) { return fillOf(idx).str(); }, o, sfx);
      rep.extra["big_grid"] = jstr("patterns diag+k-offdiagonals / band+far / arrow+random / dense bump; n in {8,12,16,20,26,30,34,40}; k in {3,5,8}; nonsingular, dependent last column, duplicate row; seeds 0.." + std::to_string(seeds - 1));
   }
   // part B
   {
      FamilySet fs;
      fs.add(famQ());
      if(thorough) fs.add(famT(3, 2, {-1, 0, 1, 2}, {-1, 1}, {0, 1, 3}, {0, 2, 3}, 5));
      uint64_t stride = thorough ? 7 : 61;
      uint64_t N = fs.total / stride;
      rep.phase("rational basis inverse on solver bases", N * NINVAL, [&](uint64_t idx, int, Ctx & c) -> uint64_t
      {
         TinyLP t;
         // every stride-th raw index, advanced to the next canonical member
         uint64_t raw = (idx / NINVAL) * stride;
         uint64_t lim = std::min<uint64_t>(raw + stride, fs.total);
         while(raw < lim && !fs.get(raw, t)) ++raw;
         if(raw >= lim) return 0;
         c.count("lps_x_ops");
         return run_lp(t, int(idx % NINVAL), c);
      }, [&](uint64_t idx, uint64_t)
      {
         TinyLP t;
         uint64_t raw = (idx / NINVAL) * stride;
         uint64_t lim = std::min<uint64_t>(raw + stride, fs.total);
         while(raw < lim && !fs.get(raw, t)) ++raw;
         return t.str() + "#" + std::to_string(idx % NINVAL);
      }, o, [&](uint64_t idx, uint64_t) { return std::string("@op=") + INVAL_OPS[idx % NINVAL]; });
   }
   rep.evaluations = rep.all.counters["solves"] + rep.all.counters["inverse_rows_cols_checked"];
   rep.rule = "part A: every matrix of the stated finite families x every solve variant x unit and dense rational right-hand sides, compared by mpq equality with "
              "the harness's Gaussian elimination (non-trivial = nonsingular matrix; matrices are distinct by enumeration); part B: every stride-th canonical tiny LP "
              "x 10 cache-invalidating operations, rational basis inverse rows/columns/solves compared exactly with the inverse of B assembled from the harness's copy of the LP";
   rep.assumptions = {"reference: exact Gaussian elimination over GMP mpq_class in the harness (independent of SoPlex's Rational wrapper)"};
   rep.finish(rep.all.counters["nonsingular"] + rep.all.counters["bases_checked"]);
   return 0;
}
