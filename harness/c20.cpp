// C20: the C interface (src/soplex_interface.cpp) does exactly what the C++ calls do.
// Bounded-exhaustive history exploration: all sequences of instantiated SoPlex_* calls up to a depth
// bound, from five initial states, every call mirrored on a C++ SoPlex object by the documented
// equivalent written in this file.  After every call the returned scalars / arrays / strings are
// compared with what the C++ getters return on the mirror, and the C++ accessor digest of the object
// behind the handle is compared with the mirror's.  Every array goes to the C side as a heap block of
// exactly the advertised length (ASan turns any access outside it into a verdict).
#include "soplex.h"
#include "soplex_interface.h"
#include "vx_runner.hpp"
#include <gmpxx.h>
#include <setjmp.h>
#include <memory>
#include <climits>
using namespace vx;
using namespace soplex;

#ifdef VX_ASAN
extern "C" size_t __sanitizer_get_allocated_size(const volatile void* p);
extern "C" size_t __sanitizer_get_current_allocated_bytes();
// freed memory is overwritten with a known byte (the ASan counterpart of the runner's M_PERTURB fill): a value read from an object that
// was already destroyed then shows up as garbage in the result instead of as the stale - and plausible - old value.  GMP is not
// instrumented, so ASan itself does not see such reads.
extern "C" const char* __asan_default_options() { return "max_free_fill_size=1048576:free_fill_byte=85:quarantine_size_mb=48"; }
static size_t block_size(const void* p) { return __sanitizer_get_allocated_size(p); }
static size_t heap_bytes() { return __sanitizer_get_current_allocated_bytes(); }
#else
static size_t block_size(const void* p) { return malloc_usable_size((void*)p); }
static size_t heap_bytes() { struct mallinfo2 mi = mallinfo2(); return mi.uordblks; }
#endif

static const double PINF = 1e100;   // SoPlex's default infinity (realParam INFTY)

// ---------------------------------------------------------------------------
// crash guard: a SIGSEGV/SIGBUS/SIGFPE/SIGABRT inside one guarded call is turned into a verdict for
// that call; outside a guarded region the runner's handler takes over.
// ---------------------------------------------------------------------------
static sigjmp_buf g_jb;
static volatile sig_atomic_t g_guard = 0;
static volatile sig_atomic_t g_sig = 0;
static struct sigaction g_old[32];
static void guard_handler(int sig)
{
   if(g_guard)
   {
      g_guard = 0;
      g_sig = sig;
      siglongjmp(g_jb, 1);
   }
   if(g_old[sig & 31].sa_handler && g_old[sig & 31].sa_handler != SIG_DFL && g_old[sig & 31].sa_handler != SIG_IGN)
      g_old[sig & 31].sa_handler(sig);
   _exit(100 + (sig & 31));
}
static void install_guard()
{
   static bool done = false;
   if(done) return;
   done = true;
   static char altstack[1 << 16];
   stack_t ss;
   ss.ss_sp = altstack; ss.ss_size = sizeof altstack; ss.ss_flags = 0;
   sigaltstack(&ss, 0);
   struct sigaction sa;
   memset(&sa, 0, sizeof sa);
   sa.sa_handler = guard_handler;
   sa.sa_flags = SA_ONSTACK | SA_NODEFER;
   for(int s : {SIGSEGV, SIGBUS, SIGFPE, SIGABRT}) sigaction(s, &sa, &g_old[s & 31]);
}
struct CallOutcome { int sig = 0; bool threw = false; std::string what; };
// runs f; returns the signal that killed it (0 = returned) and whether an exception escaped
static CallOutcome guarded(const std::function<void()>& f)
{
   CallOutcome o;
   g_guard = 1;
   if(sigsetjmp(g_jb, 1) == 0)
   {
      try { f(); }
      catch(const std::exception& e) { o.threw = true; o.what = e.what(); }
      catch(...) { o.threw = true; o.what = "unknown"; }
      g_guard = 0;
   }
   else
      o.sig = g_sig;
   return o;
}

// ---------------------------------------------------------------------------
// exact-length heap blocks
// ---------------------------------------------------------------------------
template <class T> struct Blk
{
   T* p; size_t n;
   explicit Blk(size_t len) : n(len) { p = (T*)malloc(len * sizeof(T)); }
   Blk(const std::vector<T>& v) : n(v.size()) { p = (T*)malloc(n * sizeof(T)); for(size_t i = 0; i < n; ++i) p[i] = v[i]; }
   Blk(size_t len, T fill) : n(len) { p = (T*)malloc(len * sizeof(T)); for(size_t i = 0; i < n; ++i) p[i] = fill; }
   ~Blk() { free(p); }
   Blk(const Blk&) = delete;
   std::vector<T> vec() const { return std::vector<T>(p, p + n); }
};
static uint64_t g_blocks = 0;
static uint64_t g_storedLonger = 0;   // array getter called while the stored solution vector is longer than the LP dimension

static std::string hexd(double x) { char b[40]; snprintf(b, sizeof b, "%a", x); return b; }
static std::string numd(double x)
{
   if(x >= PINF) return "inf";
   if(x <= -PINF) return "-inf";
   char b[40]; snprintf(b, sizeof b, "%.17g", x); return b;
}
static Rational mkq(long num, long den)
{
   mpq_class q{mpz_class(num), mpz_class(den)};
   q.canonicalize();
   return Rational(q.get_mpq_t());
}
static std::string qstr(long num, long den) { return std::to_string(num) + "/" + std::to_string(den); }
static bool fits_long(const Rational& r, long& num, long& den)
{
   mpq_class q(r.backend().data());
   if(!q.get_num().fits_slong_p() || !q.get_den().fits_slong_p()) return false;
   num = q.get_num().get_si(); den = q.get_den().get_si();
   return true;
}

// ---------------------------------------------------------------------------
// files used by the read* / write* calls (written once by the parent into the run directory)
// ---------------------------------------------------------------------------
static std::string g_dir;
static std::string g_files[8];   // 0 lp, 1 mps, 2 missing.lp, 3 basis, 4 missing.bas, 5 settings, 6 missing.set
static std::ofstream g_null;

static void silence(SoPlex* s)
{
   for(int v = 0; v <= 5; ++v) s->spxout.setStream((SPxOut::Verbosity)v, g_null);
}

static void make_files()
{
   g_null.open("/dev/null");
   std::cerr.rdbuf(g_null.rdbuf());   // SPX_MSG_ERROR / MPSInput::syntaxError write to std::cerr directly
   g_files[0] = g_dir + "/c20-a.lp";
   g_files[1] = g_dir + "/c20-b.mps";
   g_files[2] = g_dir + "/c20-missing.lp";
   g_files[3] = g_dir + "/c20-a.bas";
   g_files[4] = g_dir + "/c20-missing.bas";
   g_files[5] = g_dir + "/c20-a.set";
   g_files[6] = g_dir + "/c20-missing.set";
   {
      std::ofstream f(g_files[0]);
      f << "Maximize\n obj: 2 x + 3 y - z\nSubject To\n c1: x + y + z <= 4\n c2: x - 0.5 y >= -1\nBounds\n 0 <= x <= 3\n -1 <= z <= 1\nEnd\n";
   }
   {
      SoPlex s;
      silence(&s);
      DSVector e;
      s.addColReal(LPCol(1.0, e, 4.0, 0.0));
      s.addColReal(LPCol(-1.0, e, PINF, 0.0));
      DSVector r0; r0.add(0, 1.0); r0.add(1, 2.0);
      s.addRowReal(LPRow(-PINF, r0, 6.0));
      DSVector r1; r1.add(0, 1.0); r1.add(1, -1.0);
      s.addRowReal(LPRow(-2.0, r1, 2.0));
      DSVector r2; r2.add(1, 1.0);
      s.addRowReal(LPRow(0.5, r2, PINF));
      s.writeFile(g_files[1].c_str());
   }
   {
      // basis file for a 2x2 LP with default names, produced by SoPlex's own writer
      SoPlex s;
      silence(&s);
      DSVector e;
      s.addColReal(LPCol(1.0, e, 4.0, 0.0));
      s.addColReal(LPCol(2.0, e, PINF, 0.0));
      DSVector r0; r0.add(0, 1.0); r0.add(1, 1.0);
      s.addRowReal(LPRow(-PINF, r0, 4.0));
      DSVector r1; r1.add(0, 1.0); r1.add(1, -1.0);
      s.addRowReal(LPRow(-1.0, r1, 2.0));
      s.optimize();
      s.writeBasisFile(g_files[3].c_str());
   }
   {
      std::ofstream f(g_files[5]);
      f << "# c20 settings\nint:iterlimit = 7\nbool:lifting = true\nreal:feastol = 1e-07\nint:objsense = -1\n";
   }
}
static void remove_files()
{
   for(auto& f : g_files) if(!f.empty()) unlink(f.c_str());
}

// ---------------------------------------------------------------------------
// accessor digest of a SoPlex object (C++ getters only; the same function is applied to the object behind
// the handle and to the mirror)
// ---------------------------------------------------------------------------
static std::string digest(SoPlex& s)
{
   std::ostringstream o;
   int m = s.numRows(), n = s.numCols();
   o << "R" << m << "x" << n << "z" << s.numNonzeros() << ";";
   for(int i = 0; i < m; ++i)
   {
      o << "r" << i << "[" << hexd(s.lhsReal(i)) << "," << hexd(s.rhsReal(i)) << "]";
      DSVector row;
      s.getRowVectorReal(i, row);
      for(int k = 0; k < row.size(); ++k) o << row.index(k) << ":" << hexd(row.value(k)) << " ";
   }
   for(int j = 0; j < n; ++j)
   {
      o << "c" << j << "[" << hexd(s.lowerReal(j)) << "," << hexd(s.upperReal(j)) << "," << hexd(s.objReal(j)) << "]";
      DSVector col;
      s.getColVectorReal(j, col);
      for(int k = 0; k < col.size(); ++k) o << col.index(k) << ":" << hexd(col.value(k)) << " ";
   }
   o << ";P";
   for(int k = 0; k < SoPlex::BOOLPARAM_COUNT; ++k) o << (s.boolParam((SoPlex::BoolParam)k) ? '1' : '0');
   for(int k = 0; k < SoPlex::INTPARAM_COUNT; ++k) o << "," << s.intParam((SoPlex::IntParam)k);
   for(int k = 0; k < SoPlex::REALPARAM_COUNT; ++k) o << "," << hexd(s.realParam((SoPlex::RealParam)k));
   o << ";Q";
   if(s._rationalLP != nullptr)
   {
      int mr = s.numRowsRational(), nr = s.numColsRational();
      o << mr << "x" << nr << "z" << s.numNonzerosRational() << ";";
      for(int i = 0; i < mr; ++i)
      {
         o << "r" << i << "[" << s.lhsRational(i).str() << "," << s.rhsRational(i).str() << "]";
         const SVectorRational& row = s.rowVectorRational(i);
         for(int k = 0; k < row.size(); ++k) o << row.index(k) << ":" << row.value(k).str() << " ";
      }
      for(int j = 0; j < nr; ++j)
      {
         o << "c" << j << "[" << s.lowerRational(j).str() << "," << s.upperRational(j).str() << "," << s.objRational(j).str() << "]";
         const SVectorRational& col = s.colVectorRational(j);
         for(int k = 0; k < col.size(); ++k) o << col.index(k) << ":" << col.value(k).str() << " ";
      }
   }
   else
      o << "-";
   o << ";S" << (int)s.status() << "b" << s.hasBasis() << "s" << s.hasSol() << "i" << s.numIterations() << "h" << s._hasSolReal << s._hasSolRational;
   if(s.hasBasis())
   {
      o << "B";
      for(int i = 0; i < m; ++i) o << (int)s.basisRowStatus(i);
      o << "|";
      for(int j = 0; j < n; ++j) o << (int)s.basisColStatus(j);
   }
   if(s._hasSolReal)
   {
      o << "x";
      for(int j = 0; j < s._solReal._primal.dim(); ++j) o << hexd(s._solReal._primal[j]) << " ";
      o << "y";
      for(int i = 0; i < s._solReal._dual.dim(); ++i) o << hexd(s._solReal._dual[i]) << " ";
      o << "d";
      for(int j = 0; j < s._solReal._redCost.dim(); ++j) o << hexd(s._solReal._redCost[j]) << " ";
      o << "v" << hexd(s._solReal._objVal);
   }
   if(s._hasSolRational)
   {
      o << "X";
      for(int j = 0; j < s._solRational._primal.dim(); ++j) o << s._solRational._primal[j].str() << " ";
      o << "V" << s._solRational._objVal.str();
   }
   return o.str();
}
static std::string first_diff(const std::string& a, const std::string& b)
{
   size_t k = 0;
   while(k < a.size() && k < b.size() && a[k] == b[k]) ++k;
   size_t s = k > 30 ? k - 30 : 0;
   return "handle: ..." + a.substr(s, 90) + " | mirror: ..." + b.substr(s, 90);
}

// ---------------------------------------------------------------------------
// operations: (function, variant).  Arguments are derived from the variant and the current dimensions.
// ---------------------------------------------------------------------------
enum Fn
{
   CREATE_FREE2, FREE_CREATE, READ_INSTANCE, READ_BASIS, READ_SETTINGS, CLEAR_LP, NUM_ROWS, NUM_COLS, SET_RATIONAL, SET_BOOL, SET_INT,
   SET_REAL, GET_INT, ADD_COL_REAL, REMOVE_COL_REAL, ADD_COL_RAT, ADD_ROW_REAL, REMOVE_ROW_REAL, ADD_ROW_RAT, GET_PRIMAL_REAL,
   GET_PRIMAL_RATSTR, GET_DUAL_REAL, GET_REDCOST_REAL, OPTIMIZE, GET_STATUS, GET_SOLVING_TIME, GET_NUM_ITER, CHG_OBJ_REAL, CHG_OBJ_RAT,
   CHG_LHS_REAL, CHG_ROW_LHS_REAL, CHG_LHS_RAT, CHG_RHS_REAL, CHG_ROW_RHS_REAL, CHG_RHS_RAT, CHG_RANGE_REAL, CHG_ROW_RANGE_REAL,
   WRITE_FILE_REAL, OBJ_VALUE_REAL, OBJ_VALUE_RATSTR, CHG_BOUNDS_REAL, CHG_VAR_BOUNDS_REAL, CHG_VAR_BOUNDS_RAT, CHG_LOWER_REAL,
   CHG_VAR_LOWER_REAL, GET_LOWER_REAL, GET_OBJ_REAL, CHG_UPPER_REAL, CHG_VAR_UPPER_REAL, GET_UPPER_REAL, BASIS_ROW_STATUS,
   BASIS_COL_STATUS, GET_ROW_VEC_REAL, GET_ROW_VEC_RAT, GET_ROW_BOUNDS_REAL, GET_ROW_BOUNDS_RAT, NFN
};
static const char* FNAME[NFN] =
{
   "SoPlex_create+SoPlex_free", "SoPlex_free+SoPlex_create", "SoPlex_readInstanceFile", "SoPlex_readBasisFile", "SoPlex_readSettingsFile",
   "SoPlex_clearLPReal", "SoPlex_numRows", "SoPlex_numCols", "SoPlex_setRational", "SoPlex_setBoolParam", "SoPlex_setIntParam",
   "SoPlex_setRealParam", "SoPlex_getIntParam", "SoPlex_addColReal", "SoPlex_removeColReal", "SoPlex_addColRational", "SoPlex_addRowReal",
   "SoPlex_removeRowReal", "SoPlex_addRowRational", "SoPlex_getPrimalReal", "SoPlex_getPrimalRationalString", "SoPlex_getDualReal",
   "SoPlex_getRedCostReal", "SoPlex_optimize", "SoPlex_getStatus", "SoPlex_getSolvingTime", "SoPlex_getNumIterations", "SoPlex_changeObjReal",
   "SoPlex_changeObjRational", "SoPlex_changeLhsReal", "SoPlex_changeRowLhsReal", "SoPlex_changeLhsRational", "SoPlex_changeRhsReal",
   "SoPlex_changeRowRhsReal", "SoPlex_changeRhsRational", "SoPlex_changeRangeReal", "SoPlex_changeRowRangeReal", "SoPlex_writeFileReal",
   "SoPlex_objValueReal", "SoPlex_objValueRationalString", "SoPlex_changeBoundsReal", "SoPlex_changeVarBoundsReal",
   "SoPlex_changeVarBoundsRational", "SoPlex_changeLowerReal", "SoPlex_changeVarLowerReal", "SoPlex_getLowerReal", "SoPlex_getObjReal",
   "SoPlex_changeUpperReal", "SoPlex_changeVarUpperReal", "SoPlex_getUpperReal", "SoPlex_basisRowStatus", "SoPlex_basisColStatus",
   "SoPlex_getRowVectorReal", "SoPlex_getRowVectorRational", "SoPlex_getRowBoundsReal", "SoPlex_getRowBoundsRational"
};

struct Op
{
   int fn = 0, v = 0;
   std::string str() const { return std::to_string(fn) + "." + std::to_string(v); }
   static Op parse(const std::string& s) { Op o; auto p = split(s, '.'); o.fn = atoi(p[0].c_str()); o.v = p.size() > 1 ? atoi(p[1].c_str()) : 0; return o; }
};

static bool g_allow_scaled_grow = false;   // --allow-scaled-grow 1: demonstration switch, see the note at alphabet()
// what the alphabet depends on (read from the mirror)
struct St
{
   int n = 0, m = 0;       // real LP
   bool rat = false;       // rational LP exists
   bool scaled = false;    // the real LP is persistently scaled
   int nr = 0, mr = 0;     // rational LP dimensions
};
static St state_of(SoPlex& s)
{
   St t;
   t.n = s.numCols(); t.m = s.numRows();
   t.rat = s._rationalLP != nullptr;
   if(t.rat) { t.nr = s.numColsRational(); t.mr = s.numRowsRational(); }
   t.scaled = s._realLP->isScaled() && !g_allow_scaled_grow;
   return t;
}

struct PV { int code; double val; const char* label; };
static const PV BOOLV[] = {{SoPlex::LIFTING, 1, "LIFTING=1"}, {SoPlex::ROWBOUNDFLIPS, 1, "ROWBOUNDFLIPS=1"}, {SoPlex::PERSISTENTSCALING, 0, "PERSISTENTSCALING=0"}};
static const PV INTV[] = {{SoPlex::OBJSENSE, -1, "OBJSENSE=MINIMIZE"}, {SoPlex::OBJSENSE, 1, "OBJSENSE=MAXIMIZE"}, {SoPlex::ITERLIMIT, 0, "ITERLIMIT=0"},
   {SoPlex::SIMPLIFIER, 0, "SIMPLIFIER=OFF"}, {SoPlex::SYNCMODE, 1, "SYNCMODE=AUTO"}, {SoPlex::SOLVEMODE, 2, "SOLVEMODE=RATIONAL"}
};
static const PV REALV[] = {{SoPlex::OBJ_OFFSET, 3.0, "OBJ_OFFSET=3"}, {SoPlex::FEASTOL, 0.0009765625, "FEASTOL=2^-10"}, {SoPlex::OPTTOL, 0.0009765625, "OPTTOL=2^-10"}};
static const int GETINTV[] = {SoPlex::OBJSENSE, SoPlex::ITERLIMIT, SoPlex::SOLVEMODE};

static int sel(int k, int cnt) { return k == 0 ? 0 : cnt - 1; }

// short variant label for signatures (condition, not values)
static std::string vlabel(const Op& op)
{
   int v = op.v;
   switch(op.fn)
   {
   case READ_INSTANCE: return v == 0 ? "lp" : v == 1 ? "mps" : "missing";
   case READ_BASIS: case READ_SETTINGS: return v == 0 ? "file" : "missing";
   case SET_BOOL: return v >= 100 ? "sweep" : BOOLV[v].label;
   case SET_INT: return v >= 100 ? "sweep" : INTV[v].label;
   case SET_REAL: return v >= 100 ? "sweep" : REALV[v].label;
   case GET_INT: return v >= 100 ? "sweep" : "core";
   case ADD_COL_REAL: case ADD_ROW_REAL:
   { static const char* L[] = {"exact", "empty", "nnz-underadvertised", "larger-size", "size0", "larger-size-new-index"}; return L[v]; }
   case ADD_COL_RAT: case ADD_ROW_RAT:
   { static const char* L[] = {"exact", "empty", "noncanonical-big", "larger-size", "larger-size-new-index"}; return L[v]; }
   case GET_PRIMAL_REAL: case GET_DUAL_REAL: case GET_REDCOST_REAL: case GET_PRIMAL_RATSTR: return v == 0 ? "dim-exact" : "dim-larger";
   case GET_LOWER_REAL: case GET_UPPER_REAL: case GET_OBJ_REAL: return v == 0 ? "dim-exact" : v == 1 ? "dim-larger" : "dim-smaller";
   case WRITE_FILE_REAL: return v == 0 ? "lp" : "mps";
   case REMOVE_COL_REAL: case REMOVE_ROW_REAL: case BASIS_ROW_STATUS: case BASIS_COL_STATUS: case GET_ROW_VEC_REAL: case GET_ROW_VEC_RAT:
   case GET_ROW_BOUNDS_REAL: case GET_ROW_BOUNDS_RAT: return v == 0 ? "first" : "last";
   default: return "v" + std::to_string(v);
   }
}

static std::vector<Op> alphabet(const St& s)
{
   std::vector<Op> a;
   auto add = [&](int fn, int nv) { for(int v = 0; v < nv; ++v) { Op o; o.fn = fn; o.v = v; a.push_back(o); } };
   int ci = s.n > 1 ? 2 : s.n > 0 ? 1 : 0;      // index selectors available for columns
   int ri = s.m > 1 ? 2 : s.m > 0 ? 1 : 0;
   int rri = s.rat ? (s.mr > 1 ? 2 : s.mr > 0 ? 1 : 0) : 0;
   int rci = s.rat ? (s.nr > 1 ? 2 : s.nr > 0 ? 1 : 0) : ci;
   add(CREATE_FREE2, 1); add(FREE_CREATE, 1); add(READ_INSTANCE, 3); add(READ_BASIS, 2); add(READ_SETTINGS, 2); add(CLEAR_LP, 1);
   add(NUM_ROWS, 1); add(NUM_COLS, 1); add(SET_RATIONAL, 1); add(SET_BOOL, 3); add(SET_INT, 6); add(SET_REAL, 3); add(GET_INT, 3);
   // "larger-size": the dense array is one longer than the current dimension (trailing entry zero) and nnonzeros over-advertised.
   // "larger-size-new-index": the trailing entry is nonzero, which makes SoPlex create the missing row / column.  On a persistently scaled
   // LP that C++ path reads scaling exponents that do not exist yet (SPxLPBase::doAddCol/doAddRow), so the result is not a function of the
   // arguments and cannot be mirrored; the variant is enumerated only while the LP is unscaled.
   int grow = s.scaled ? 0 : 1;
   add(ADD_COL_REAL, 5 + grow); add(REMOVE_COL_REAL, ci); add(ADD_COL_RAT, 4 + grow); add(ADD_ROW_REAL, 5 + grow); add(REMOVE_ROW_REAL, ri); add(ADD_ROW_RAT, 4 + grow);
   add(GET_PRIMAL_REAL, 2); add(GET_PRIMAL_RATSTR, 2); add(GET_DUAL_REAL, 2); add(GET_REDCOST_REAL, 2);
   add(OPTIMIZE, 1); add(GET_STATUS, 1); add(GET_SOLVING_TIME, 1); add(GET_NUM_ITER, 1);
   add(CHG_OBJ_REAL, 2); add(CHG_OBJ_RAT, 2); add(CHG_LHS_REAL, 2); add(CHG_ROW_LHS_REAL, ri * 2); add(CHG_LHS_RAT, 2); add(CHG_RHS_REAL, 2);
   add(CHG_ROW_RHS_REAL, ri * 2); add(CHG_RHS_RAT, 2); add(CHG_RANGE_REAL, 2); add(CHG_ROW_RANGE_REAL, ri * 3);
   add(WRITE_FILE_REAL, 2); add(OBJ_VALUE_REAL, 1); add(OBJ_VALUE_RATSTR, 1);
   add(CHG_BOUNDS_REAL, 2); add(CHG_VAR_BOUNDS_REAL, ci * 3); add(CHG_VAR_BOUNDS_RAT, rci * 3); add(CHG_LOWER_REAL, 2); add(CHG_VAR_LOWER_REAL, ci * 2);
   // (a dim smaller than numCols is not a valid argument of the C++ vector getters: SPxScaler::get*Unscaled requires equal dimensions)
   add(GET_LOWER_REAL, 2); add(GET_OBJ_REAL, 2); add(CHG_UPPER_REAL, 2); add(CHG_VAR_UPPER_REAL, ci * 2);
   add(GET_UPPER_REAL, 2);
   add(BASIS_ROW_STATUS, ri); add(BASIS_COL_STATUS, ci); add(GET_ROW_VEC_REAL, ri); add(GET_ROW_VEC_RAT, rri); add(GET_ROW_BOUNDS_REAL, ri);
   add(GET_ROW_BOUNDS_RAT, rri);
   return a;
}
// one variant per function (used on the deepest level of the thorough tier when the full alphabet does not fit)
static std::vector<Op> alphabet_small(const St& s)
{
   std::vector<Op> a, full = alphabet(s);
   static const int KEEP_V[NFN] = {0};
   (void)KEEP_V;
   int last = -1;
   for(auto& o : full)
   {
      // keep the first variant of every function, plus the argument-shape variants that matter for array bounds
      bool shape = (o.fn == ADD_COL_REAL || o.fn == ADD_ROW_REAL) && o.v == 3;
      shape = shape || ((o.fn == ADD_COL_RAT || o.fn == ADD_ROW_RAT) && o.v == 3);
      shape = shape || ((o.fn == GET_LOWER_REAL || o.fn == GET_UPPER_REAL || o.fn == GET_OBJ_REAL || o.fn == GET_PRIMAL_REAL || o.fn == GET_DUAL_REAL
                         || o.fn == GET_REDCOST_REAL) && o.v == 1);
      shape = shape || (o.fn == SET_INT && o.v == 2);
      // the file read of the deepest level is the MPS one: if the tree leaks in LP-format reads (see run_seq_iso) such a sequence has to
      // be executed in a forked child, which is affordable on levels 1 and 2 (one fork per subtree) but not once per leaf
      if(o.fn == READ_INSTANCE) { if(o.v == 1) a.push_back(o); last = o.fn; continue; }
      if(o.fn != last || shape) a.push_back(o);
      last = o.fn;
   }
   return a;
}
// parameter sweep: every parameter code x boundary values
static std::vector<Op> sweep_ops()
{
   std::vector<Op> a;
   auto add = [&](int fn, int v) { Op o; o.fn = fn; o.v = v; a.push_back(o); };
   for(int c = 0; c < SoPlex::BOOLPARAM_COUNT; ++c) for(int b = 0; b < 2; ++b) add(SET_BOOL, 100 + c * 2 + b);
   for(int c = 0; c < SoPlex::INTPARAM_COUNT; ++c) for(int k = 0; k < 4; ++k) add(SET_INT, 100 + c * 4 + k);
   for(int c = 0; c < SoPlex::REALPARAM_COUNT; ++c) for(int k = 0; k < 3; ++k) add(SET_REAL, 100 + c * 4 + k);
   return a;
}
static std::vector<Op> sweep_get_ops()
{
   std::vector<Op> a;
   for(int c = 0; c < SoPlex::INTPARAM_COUNT; ++c) { Op o; o.fn = GET_INT; o.v = 100 + c; a.push_back(o); }
   return a;
}
static int sweep_int_value(int code, int k)
{
   auto& ip = SoPlex::Settings::intParam;
   switch(k)
   {
   case 0: return ip.lower[code];
   case 1: return ip.upper[code];
   case 2: return ip.defaultValue[code];
   default: return ip.lower[code] > INT_MIN ? ip.lower[code] - 1 : ip.lower[code];   // just outside the range: must be rejected identically
   }
}
static double sweep_real_value(int code, int k)
{
   auto& rp = SoPlex::Settings::realParam;
   return k == 0 ? rp.lower[code] : k == 1 ? rp.upper[code] : rp.defaultValue[code];
}

// ---------------------------------------------------------------------------
// one mirrored step
// ---------------------------------------------------------------------------
struct Step
{
   CallOutcome c, m;
   std::string asanC, asanM;
   long heapC = 0, heapM = 0;
   bool heapcmp = true;
   std::string rule, diff;   // first return-value mismatch
   int compared = 0;          // returned values compared
   int unrepresentable = 0;   // rational results that do not fit a long (not judged)
   std::string pretty;
   void mismatch(const std::string& r, const std::string& d) { if(rule.empty()) { rule = r; diff = d; } }
};
// The mirror call runs first.  In recover mode ASan reports a faulty instruction only once per process: a defect inside the C++ library
// that the C call and the C++ call reach alike is then reported under the mirror (and silently repeated by the C call), whereas an
// access that only the C function performs - its own array loops, or library code driven by a wrong length - is reported under the C call.
static void run_pair(Step& st, const std::function<void()>& cfn, const std::function<void()>& mfn)
{
   size_t h0 = heap_bytes();
   st.m = guarded(mfn);
   st.heapM = (long)heap_bytes() - (long)h0;
   st.asanM = take_asan_report();
   h0 = heap_bytes();
   st.c = guarded(cfn);
   st.heapC = (long)heap_bytes() - (long)h0;
   st.asanC = take_asan_report();
}
template <class T> static void cmp_scalar(Step& st, const char* what, T c, T m)
{
   st.compared++;
   if(c != m) { std::ostringstream o; o.precision(17); o << what << ": C returned " << c << ", C++ " << m; st.mismatch("return-mismatch", o.str()); }
}
static void cmp_darr(Step& st, const char* what, const std::vector<double>& c, const std::vector<double>& m, size_t upto)
{
   for(size_t k = 0; k < upto; ++k)
   {
      st.compared++;
      if(memcmp(&c[k], &m[k], sizeof(double)) != 0)
      {
         st.mismatch("array-mismatch", std::string(what) + "[" + std::to_string(k) + "]: C wrote " + numd(c[k]) + ", C++ gives " + numd(m[k]));
         return;
      }
   }
}
// checks a char* returned by the C side against the expected text; frees it
static void cmp_cstring(Step& st, const char* what, char* ret, const std::string& expect, bool prefixOnly = false)
{
   st.compared++;
   if(ret == nullptr) { st.mismatch("string-null", std::string(what) + ": NULL returned, expected '" + expect + "'"); return; }
   size_t cap = block_size(ret);
   const void* z = cap ? memchr(ret, 0, cap) : nullptr;
   if(!z)
   {
      st.mismatch("string-unterminated", std::string(what) + ": returned block of " + std::to_string(cap) + " byte(s) '" + jesc(std::string(ret, std::min<size_t>(cap, 40)))
                  + "' has no NUL terminator; C++ value is '" + expect + "' (needs " + std::to_string(expect.size() + 1) + " bytes)");
   }
   else if(prefixOnly ? strncmp(ret, expect.c_str(), expect.size()) != 0 : expect != ret)
      st.mismatch("string-mismatch", std::string(what) + ": C returned '" + jesc(ret) + "', C++ value is '" + expect + "'");
   else if(prefixOnly)
   {
      // tokens beyond the values the C++ getter defines: whatever they are, each must be a rational in canonical form
      // (anything Rational::str() prints for a live object is); garbage means the wrapper formatted an object that no longer exists
      for(auto& tok : split(std::string(ret + expect.size()), ' '))
      {
         if(tok.empty()) continue;
         mpq_class q;
         bool ok = q.set_str(tok, 10) == 0;
         if(ok) { mpq_class r = q; r.canonicalize(); ok = (r.get_str() == tok); }
         if(!ok) { st.mismatch("string-garbage-token", std::string(what) + ": C returned '" + jesc(ret) + "'; the C++ getter defines '" + expect + "' and the extra token '" + jesc(tok) + "' is not a rational in canonical form"); break; }
      }
   }
   delete[] ret;
}
static std::string file_content(const std::string& p)
{
   std::ifstream in(p);
   return std::string((std::istreambuf_iterator<char>(in)), std::istreambuf_iterator<char>());
}
static void inject_time(SoPlex* s)
{
   UserTimer* t = dynamic_cast<UserTimer*>(s->_statistics->solvingTime);
   if(t && t->status != Timer::RUNNING) t->uAccount = 125;
}
static std::string dvec(const std::vector<double>& v) { std::string s = "{"; for(size_t k = 0; k < v.size(); ++k) s += (k ? "," : "") + numd(v[k]); return s + "}"; }
static std::string lvec(const std::vector<long>& v) { std::string s = "{"; for(size_t k = 0; k < v.size(); ++k) s += (k ? "," : "") + std::to_string(v[k]); return s + "}"; }

struct DenseSpec { std::vector<double> e; int nnzArg = 0; double obj = 0, lb = 0, ub = 0; };
static DenseSpec dense_spec(int v, int len, bool col)
{
   DenseSpec d;
   static const double COLB[6][3] = {{1, 0, PINF}, {-2, -PINF, 2}, {0, -1, 2}, {3, 1, 1}, {1, 0, 5}, {-1, -1, 1}};      // obj, lb, ub
   static const double ROWB[6][2] = {{-PINF, 4}, {1, PINF}, {-1, 2}, {2, 2}, {0, 3}, {-2, 1}};
   if(col) { d.obj = COLB[v][0]; d.lb = COLB[v][1]; d.ub = COLB[v][2]; }
   else { d.lb = ROWB[v][0]; d.ub = ROWB[v][1]; }
   switch(v)
   {
   case 0: d.e.resize(len); for(int i = 0; i < len; ++i) d.e[i] = (i % 2) ? -0.5 * (i + 1) : (i + 1); d.nnzArg = len; break;
   case 1: d.e.assign(len, 0.0); d.nnzArg = 0; break;
   case 2: d.e.assign(len, 0.0); if(len > 0) d.e[0] = 2; d.nnzArg = 0; break;
   case 3: d.e.assign(len + 1, 0.0); if(len > 0) d.e[0] = -1; d.nnzArg = len + 3; break;
   case 5: d.e.assign(len + 1, 0.0); if(len > 0) d.e[0] = -1; d.e[len] = 0.5; d.nnzArg = len + 3; break;
   default: d.nnzArg = 0; break;
   }
   return d;
}
struct RatSpec { std::vector<long> num, den; int nnzArg = 0; long on = 0, od = 1, ln = 0, ld = 1, un = 0, ud = 1; };
static RatSpec rat_spec(int v, int len, bool col)
{
   RatSpec d;
   static const long COLB[5][6] = {{-1, 3, 0, 1, 1000000, 1}, {-2, 1, -5, 1, 7, 1}, {2, 4, -3, 6, 5000000000L, 1}, {0, 1, 1, 2, 1, 2}, {-7, 2, -1, 1, 1, 1}};   // obj, lb, ub pairs
   static const long ROWB[5][4] = {{-1000000, 1, 4, 3}, {-5, 1, 7, 1}, {-3, 6, 5000000000L, 1}, {1, 2, 1, 2}, {-2, 1, 1, 3}};
   if(col) { d.on = COLB[v][0]; d.od = COLB[v][1]; d.ln = COLB[v][2]; d.ld = COLB[v][3]; d.un = COLB[v][4]; d.ud = COLB[v][5]; }
   else { d.ln = ROWB[v][0]; d.ld = ROWB[v][1]; d.un = ROWB[v][2]; d.ud = ROWB[v][3]; }
   switch(v)
   {
   case 0: d.num.resize(len); d.den.resize(len); for(int i = 0; i < len; ++i) { d.num[i] = (i % 2) ? -(i + 1) : (i + 2); d.den[i] = (i % 2) ? 3 : 1; } d.nnzArg = len; break;
   case 1: d.num.assign(len, 0); d.den.assign(len, 1); d.nnzArg = 0; break;
   case 2: d.num.assign(len, 0); d.den.assign(len, 1); if(len > 0) { d.num[0] = 6; d.den[0] = 4; } if(len > 1) { d.num[1] = 5000000000L; d.den[1] = 10000000000L; } d.nnzArg = 0; break;
   case 3: d.num.assign(len + 1, 0); d.den.assign(len + 1, 1); if(len > 0) { d.num[0] = -3; d.den[0] = 1; } d.nnzArg = len + 3; break;
   default: d.num.assign(len + 1, 0); d.den.assign(len + 1, 1); d.num[len] = -1; d.den[len] = 2; d.nnzArg = len + 3; break;
   }
   return d;
}

// executes op on the handle and on the mirror; fills st
static void apply(const Op& op, void*& h, std::unique_ptr<SoPlex>& mp, const St& s, Step& st)
{
   SoPlex& M = *mp;
   int v = op.v;
   std::ostringstream P;
   P << FNAME[op.fn] << "(";
   switch(op.fn)
   {
   case CREATE_FREE2:
   {
      P << "second handle";
      run_pair(st, [&] { void* h2 = SoPlex_create(); SoPlex_free(h2); }, [&] { SoPlex* s2 = new SoPlex(); delete s2; });
      break;
   }
   case FREE_CREATE:
   {
      st.heapcmp = false;
      run_pair(st, [&] { SoPlex_free(h); h = nullptr; h = SoPlex_create(); }, [&] { mp.reset(); mp.reset(new SoPlex()); });
      if(h) silence((SoPlex*)h);
      if(mp) silence(mp.get());
      break;
   }
   case READ_INSTANCE: case READ_BASIS: case READ_SETTINGS:
   {
      const std::string& fn = op.fn == READ_INSTANCE ? g_files[v] : op.fn == READ_BASIS ? g_files[3 + v] : g_files[5 + v];
      P << (fn.substr(fn.rfind('/') + 1));
      Blk<char> name(std::vector<char>(fn.c_str(), fn.c_str() + fn.size() + 1)); g_blocks++;
      int rc = -7, rm = -7;
      run_pair(st, [&] { rc = op.fn == READ_INSTANCE ? SoPlex_readInstanceFile(h, name.p) : op.fn == READ_BASIS ? SoPlex_readBasisFile(h, name.p) : SoPlex_readSettingsFile(h, name.p); },
               [&] { rm = op.fn == READ_INSTANCE ? (int)M.readFile(fn.c_str()) : op.fn == READ_BASIS ? (int)M.readBasisFile(fn.c_str()) : (int)M.loadSettingsFile(fn.c_str()); });
      cmp_scalar(st, "return value", rc, rm);
      P << ")=" << rc;
      break;
   }
   case CLEAR_LP: run_pair(st, [&] { SoPlex_clearLPReal(h); }, [&] { M.clearLPReal(); }); break;
   case NUM_ROWS: { int a = -7, b = -7; run_pair(st, [&] { a = SoPlex_numRows(h); }, [&] { b = M.numRows(); }); cmp_scalar(st, "numRows", a, b); P << ")=" << a; break; }
   case NUM_COLS: { int a = -7, b = -7; run_pair(st, [&] { a = SoPlex_numCols(h); }, [&] { b = M.numCols(); }); cmp_scalar(st, "numCols", a, b); P << ")=" << a; break; }
   case SET_RATIONAL:
      run_pair(st, [&] { SoPlex_setRational(h); }, [&]
      {
         M.setIntParam(SoPlex::READMODE, SoPlex::READMODE_RATIONAL);
         M.setIntParam(SoPlex::SOLVEMODE, SoPlex::SOLVEMODE_RATIONAL);
         M.setIntParam(SoPlex::CHECKMODE, SoPlex::CHECKMODE_RATIONAL);
         M.setIntParam(SoPlex::SYNCMODE, SoPlex::SYNCMODE_AUTO);
         M.setRealParam(SoPlex::FEASTOL, 0.0);
         M.setRealParam(SoPlex::OPTTOL, 0.0);
      });
      break;
   case SET_BOOL:
   {
      int code = v >= 100 ? (v - 100) / 2 : BOOLV[v].code, val = v >= 100 ? (v - 100) % 2 : (int)BOOLV[v].val;
      P << SoPlex::Settings::boolParam.name[code] << "(" << code << ")," << val;
      run_pair(st, [&] { SoPlex_setBoolParam(h, code, val); }, [&] { M.setBoolParam((SoPlex::BoolParam)code, val != 0); });
      break;
   }
   case SET_INT:
   {
      int code = v >= 100 ? (v - 100) / 4 : INTV[v].code, val = v >= 100 ? sweep_int_value(code, (v - 100) % 4) : (int)INTV[v].val;
      P << SoPlex::Settings::intParam.name[code] << "(" << code << ")," << val;
      run_pair(st, [&] { SoPlex_setIntParam(h, code, val); }, [&] { M.setIntParam((SoPlex::IntParam)code, val); });
      break;
   }
   case SET_REAL:
   {
      int code = v >= 100 ? (v - 100) / 4 : REALV[v].code;
      double val = v >= 100 ? sweep_real_value(code, (v - 100) % 4) : REALV[v].val;
      P << SoPlex::Settings::realParam.name[code] << "(" << code << ")," << numd(val);
      run_pair(st, [&] { SoPlex_setRealParam(h, code, val); }, [&] { M.setRealParam((SoPlex::RealParam)code, val); });
      break;
   }
   case GET_INT:
   {
      int code = v >= 100 ? v - 100 : GETINTV[v];
      int a = -7777, b = -7777;
      run_pair(st, [&] { a = SoPlex_getIntParam(h, code); }, [&] { b = M.intParam((SoPlex::IntParam)code); });
      cmp_scalar(st, "intParam", a, b);
      P << SoPlex::Settings::intParam.name[code] << "(" << code << "))=" << a;
      break;
   }
   case ADD_COL_REAL: case ADD_ROW_REAL:
   {
      bool col = op.fn == ADD_COL_REAL;
      DenseSpec d = dense_spec(v, col ? s.m : s.n, col);
      Blk<double> e(d.e); g_blocks++;
      P << dvec(d.e) << ",size=" << d.e.size() << ",nnonzeros=" << d.nnzArg << (col ? ",obj=" + numd(d.obj) : std::string()) << ",lb=" << numd(d.lb) << ",ub=" << numd(d.ub);
      run_pair(st, [&]
      {
         if(col) SoPlex_addColReal(h, e.p, (int)e.n, d.nnzArg, d.obj, d.lb, d.ub);
         else SoPlex_addRowReal(h, e.p, (int)e.n, d.nnzArg, d.lb, d.ub);
      }, [&]
      {
         DSVector vec;
         for(size_t i = 0; i < d.e.size(); ++i) if(d.e[i] != 0.0) vec.add((int)i, d.e[i]);
         if(col) M.addColReal(LPCol(d.obj, vec, d.ub, d.lb));
         else M.addRowReal(LPRow(d.lb, vec, d.ub));
      });
      break;
   }
   case ADD_COL_RAT: case ADD_ROW_RAT:
   {
      bool col = op.fn == ADD_COL_RAT;
      RatSpec d = rat_spec(v, col ? (s.rat ? s.mr : s.m) : (s.rat ? s.nr : s.n), col);
      Blk<long> nu(d.num), de(d.den); g_blocks += 2;
      P << "nums=" << lvec(d.num) << ",denoms=" << lvec(d.den) << ",size=" << d.num.size() << ",nnonzeros=" << d.nnzArg
        << (col ? ",obj=" + qstr(d.on, d.od) : std::string()) << ",lb=" << qstr(d.ln, d.ld) << ",ub=" << qstr(d.un, d.ud);
      run_pair(st, [&]
      {
         if(col) SoPlex_addColRational(h, nu.p, de.p, (int)nu.n, d.nnzArg, d.on, d.od, d.ln, d.ld, d.un, d.ud);
         else SoPlex_addRowRational(h, nu.p, de.p, (int)nu.n, d.nnzArg, d.ln, d.ld, d.un, d.ud);
      }, [&]
      {
         DSVectorRational vec;
         for(size_t i = 0; i < d.num.size(); ++i) if(d.num[i] != 0) vec.add((int)i, mkq(d.num[i], d.den[i]));
         if(col) M.addColRational(LPColRational(mkq(d.on, d.od), vec, mkq(d.un, d.ud), mkq(d.ln, d.ld)));
         else M.addRowRational(LPRowRational(mkq(d.ln, d.ld), vec, mkq(d.un, d.ud)));
      });
      break;
   }
   case REMOVE_COL_REAL: { int j = sel(v, s.n); P << j; run_pair(st, [&] { SoPlex_removeColReal(h, j); }, [&] { M.removeColReal(j); }); break; }
   case REMOVE_ROW_REAL: { int i = sel(v, s.m); P << i; run_pair(st, [&] { SoPlex_removeRowReal(h, i); }, [&] { M.removeRowReal(i); }); break; }
   case GET_PRIMAL_REAL: case GET_DUAL_REAL: case GET_REDCOST_REAL:
   {
      int need = op.fn == GET_DUAL_REAL ? s.m : s.n;
      int dim = need + (v ? 2 : 0);
      // After a rational solve that ends INFEASIBLE/UNBOUNDED the stored solution vectors keep the dimension of the transformed LP (numCols()+1 ...).  The
      // array getters used to copy the whole stored vector (one value behind an array of exactly dim entries; repaired in /repo, see known_findings.json:
      // KF-C20-real-getters-overflow-after-infeasible-rational-solve).  The call is executed on an exact-length block, so a return of that defect is an
      // AddressSanitizer report attributed to this call; how often the situation is reached is counted.
      {
         int stored = -1;
         if(M.hasSol())
         {
            if(M._hasSolReal) stored = op.fn == GET_PRIMAL_REAL ? M._solReal._primal.dim() : op.fn == GET_DUAL_REAL ? M._solReal._dual.dim() : M._solReal._redCost.dim();
            else if(M._hasSolRational) stored = op.fn == GET_PRIMAL_REAL ? M._solRational._primal.dim() : op.fn == GET_DUAL_REAL ? M._solRational._dual.dim() : M._solRational._redCost.dim();
         }
         if(stored > dim) g_storedLonger++;
      }
      Blk<double> out(dim, -777.25); g_blocks++;
      std::vector<double> exp(dim, -777.25);
      run_pair(st, [&]
      {
         if(op.fn == GET_PRIMAL_REAL) SoPlex_getPrimalReal(h, out.p, dim);
         else if(op.fn == GET_DUAL_REAL) SoPlex_getDualReal(h, out.p, dim);
         else SoPlex_getRedCostReal(h, out.p, dim);
      }, [&]
      {
         if(op.fn == GET_PRIMAL_REAL) M.getPrimalReal(exp.data(), dim);
         else if(op.fn == GET_DUAL_REAL) M.getDualReal(exp.data(), dim);
         else M.getRedCostReal(exp.data(), dim);
      });
      if(!st.c.sig) { cmp_darr(st, "output array", out.vec(), exp, dim); P << "dim=" << dim << ")->" << dvec(out.vec()); }
      break;
   }
   case GET_PRIMAL_RATSTR:
   {
      int dim = (s.rat ? s.nr : s.n) + (v ? 1 : 0);
      st.heapcmp = false;
      char* ret = nullptr;
      std::string exp;
      run_pair(st, [&] { ret = SoPlex_getPrimalRationalString(h, dim); }, [&]
      {
         VectorRational x(dim);
         M.getPrimalRational(x);     // on success the vector comes back with numCols entries
         for(int i = 0; i < dim && i < x.dim(); ++i) { exp += x[i].str(); exp += " "; }
      });
      P << "dim=" << dim << ")";
      // with dim larger than numCols the C++ getter defines numCols values; only that prefix is compared (ASan judges what the wrapper reads beyond)
      if(!st.c.sig && !st.c.threw) { P << "->'" << exp << "'"; cmp_cstring(st, "primal string", ret, exp, v != 0); }
      break;
   }
   case OPTIMIZE: { int a = -77, b = -77; run_pair(st, [&] { a = SoPlex_optimize(h); }, [&] { b = (int)M.optimize(); }); cmp_scalar(st, "status returned by optimize", a, b); P << ")=" << a; break; }
   case GET_STATUS: { int a = -77, b = -77; run_pair(st, [&] { a = SoPlex_getStatus(h); }, [&] { b = (int)M.status(); }); cmp_scalar(st, "status", a, b); P << ")=" << a; break; }
   case GET_NUM_ITER: { int a = -77, b = -77; run_pair(st, [&] { a = SoPlex_getNumIterations(h); }, [&] { b = M.numIterations(); }); cmp_scalar(st, "numIterations", a, b); P << ")=" << a; break; }
   case GET_SOLVING_TIME:
   {
      // the accumulated tick count of the (stopped) solving-time timer is set to 125 ticks on both objects so that the expected value is not 0
      inject_time((SoPlex*)h); inject_time(&M);
      double a = -7, b = -7;
      run_pair(st, [&] { a = SoPlex_getSolvingTime(h); }, [&] { b = M.solveTime(); });
      cmp_scalar(st, "solveTime", a, b);
      P << ")=" << a;
      break;
   }
   case OBJ_VALUE_REAL: { double a = -7, b = -7; run_pair(st, [&] { a = SoPlex_objValueReal(h); }, [&] { b = M.objValueReal(); }); cmp_scalar(st, "objValueReal", a, b); P << ")=" << numd(a); break; }
   case OBJ_VALUE_RATSTR:
   {
      st.heapcmp = false;
      char* ret = nullptr;
      std::string exp;
      run_pair(st, [&] { ret = SoPlex_objValueRationalString(h); }, [&] { exp = M.objValueRational().str(); });
      P << ")";
      if(!st.c.sig && !st.c.threw) { P << " expected '" << exp << "'"; cmp_cstring(st, "objective string", ret, exp); }
      break;
   }
   case CHG_OBJ_REAL: case CHG_LHS_REAL: case CHG_RHS_REAL: case CHG_LOWER_REAL: case CHG_UPPER_REAL:
   {
      bool rowv = op.fn == CHG_LHS_REAL || op.fn == CHG_RHS_REAL;
      int dim = rowv ? s.m : s.n;
      std::vector<double> a(dim);
      for(int k = 0; k < dim; ++k)
      {
         switch(op.fn)
         {
         case CHG_OBJ_REAL: a[k] = v == 0 ? 0.5 * (k + 1) : ((k % 2) ? 0.0 : -2.0 - k); break;
         case CHG_LHS_REAL: a[k] = v == 0 ? -3.0 - k : -PINF; break;
         case CHG_RHS_REAL: a[k] = v == 0 ? 5.0 + k : PINF; break;
         case CHG_LOWER_REAL: a[k] = v == 0 ? -1.5 - k : -PINF; break;
         default: a[k] = v == 0 ? 6.0 + k : PINF; break;
         }
      }
      Blk<double> b(a); g_blocks++;
      P << dvec(a) << ",dim=" << dim;
      run_pair(st, [&]
      {
         switch(op.fn)
         {
         case CHG_OBJ_REAL: SoPlex_changeObjReal(h, b.p, dim); break;
         case CHG_LHS_REAL: SoPlex_changeLhsReal(h, b.p, dim); break;
         case CHG_RHS_REAL: SoPlex_changeRhsReal(h, b.p, dim); break;
         case CHG_LOWER_REAL: SoPlex_changeLowerReal(h, b.p, dim); break;
         default: SoPlex_changeUpperReal(h, b.p, dim); break;
         }
      }, [&]
      {
         VectorReal x(dim);
         for(int k = 0; k < dim; ++k) x[k] = a[k];
         switch(op.fn)
         {
         case CHG_OBJ_REAL: M.changeObjReal(x); break;
         case CHG_LHS_REAL: M.changeLhsReal(x); break;
         case CHG_RHS_REAL: M.changeRhsReal(x); break;
         case CHG_LOWER_REAL: M.changeLowerReal(x); break;
         default: M.changeUpperReal(x); break;
         }
      });
      break;
   }
   case CHG_RANGE_REAL: case CHG_BOUNDS_REAL:
   {
      bool rowv = op.fn == CHG_RANGE_REAL;
      int dim = rowv ? s.m : s.n;
      std::vector<double> lo(dim), up(dim);
      for(int k = 0; k < dim; ++k)
      {
         if(v == 0) { lo[k] = -1; up[k] = 2.0 + k; }
         else if(rowv) { lo[k] = 1; up[k] = 1; }
         else { lo[k] = (k % 2) ? 1 : 0; up[k] = (k % 2) ? 1 : PINF; }
      }
      Blk<double> bl(lo), bu(up); g_blocks += 2;
      P << dvec(lo) << "," << dvec(up) << ",dim=" << dim;
      run_pair(st, [&] { if(rowv) SoPlex_changeRangeReal(h, bl.p, bu.p, dim); else SoPlex_changeBoundsReal(h, bl.p, bu.p, dim); }, [&]
      {
         VectorReal x(dim), y(dim);
         for(int k = 0; k < dim; ++k) { x[k] = lo[k]; y[k] = up[k]; }
         if(rowv) M.changeRangeReal(x, y); else M.changeBoundsReal(x, y);
      });
      break;
   }
   case CHG_OBJ_RAT: case CHG_LHS_RAT: case CHG_RHS_RAT:
   {
      int dim = op.fn == CHG_OBJ_RAT ? (s.rat ? s.nr : s.n) : (s.rat ? s.mr : s.m);
      std::vector<long> nu(dim), de(dim);
      for(int k = 0; k < dim; ++k)
      {
         if(op.fn == CHG_OBJ_RAT) { if(v == 0) { nu[k] = -(k + 1); de[k] = 3; } else { nu[k] = 2 * (k + 3); de[k] = 4; } }
         else if(op.fn == CHG_LHS_RAT) { if(v == 0) { nu[k] = -7 - 2 * k; de[k] = 2; } else { nu[k] = -1000000; de[k] = 1; } }
         else { if(v == 0) { nu[k] = 11 + 2 * k; de[k] = 2; } else { nu[k] = 1000000; de[k] = 1; } }
      }
      Blk<long> bn(nu), bd(de); g_blocks += 2;
      P << "nums=" << lvec(nu) << ",denoms=" << lvec(de) << ",dim=" << dim;
      run_pair(st, [&]
      {
         if(op.fn == CHG_OBJ_RAT) SoPlex_changeObjRational(h, bn.p, bd.p, dim);
         else if(op.fn == CHG_LHS_RAT) SoPlex_changeLhsRational(h, bn.p, bd.p, dim);
         else SoPlex_changeRhsRational(h, bn.p, bd.p, dim);
      }, [&]
      {
         VectorRational x(dim);
         for(int k = 0; k < dim; ++k) x[k] = mkq(nu[k], de[k]);
         if(op.fn == CHG_OBJ_RAT) M.changeObjRational(x);
         else if(op.fn == CHG_LHS_RAT) M.changeLhsRational(x);
         else M.changeRhsRational(x);
      });
      break;
   }
   case CHG_ROW_LHS_REAL: case CHG_ROW_RHS_REAL: case CHG_VAR_LOWER_REAL: case CHG_VAR_UPPER_REAL:
   {
      bool rowv = op.fn == CHG_ROW_LHS_REAL || op.fn == CHG_ROW_RHS_REAL;
      int idx = sel(v / 2, rowv ? s.m : s.n);
      static const double VAL[4][2] = {{-3.5, -PINF}, {5.5, PINF}, {-1.5, -PINF}, {6.5, PINF}};
      int w = op.fn == CHG_ROW_LHS_REAL ? 0 : op.fn == CHG_ROW_RHS_REAL ? 1 : op.fn == CHG_VAR_LOWER_REAL ? 2 : 3;
      double x = VAL[w][v % 2];
      P << idx << "," << numd(x);
      run_pair(st, [&]
      {
         if(w == 0) SoPlex_changeRowLhsReal(h, idx, x); else if(w == 1) SoPlex_changeRowRhsReal(h, idx, x);
         else if(w == 2) SoPlex_changeVarLowerReal(h, idx, x); else SoPlex_changeVarUpperReal(h, idx, x);
      }, [&]
      {
         if(w == 0) M.changeLhsReal(idx, x); else if(w == 1) M.changeRhsReal(idx, x);
         else if(w == 2) M.changeLowerReal(idx, x); else M.changeUpperReal(idx, x);
      });
      break;
   }
   case CHG_ROW_RANGE_REAL: case CHG_VAR_BOUNDS_REAL:
   {
      bool rowv = op.fn == CHG_ROW_RANGE_REAL;
      int idx = sel(v / 3, rowv ? s.m : s.n);
      static const double RV[3][2] = {{-1, 3}, {1, 1}, {-PINF, PINF}};
      static const double BV[3][2] = {{-1, 3}, {1, 1}, {0, PINF}};
      double lo = rowv ? RV[v % 3][0] : BV[v % 3][0], up = rowv ? RV[v % 3][1] : BV[v % 3][1];
      P << idx << "," << numd(lo) << "," << numd(up);
      run_pair(st, [&] { if(rowv) SoPlex_changeRowRangeReal(h, idx, lo, up); else SoPlex_changeVarBoundsReal(h, idx, lo, up); },
               [&] { if(rowv) M.changeRangeReal(idx, lo, up); else M.changeBoundsReal(idx, lo, up); });
      break;
   }
   case CHG_VAR_BOUNDS_RAT:
   {
      int idx = sel(v / 3, s.rat ? s.nr : s.n);
      static const long BV[3][4] = {{-1, 2, 7, 3}, {3, 1, 3, 1}, {-1000000, 1, 5000000000L, 1}};
      const long* b = BV[v % 3];
      P << idx << "," << qstr(b[0], b[1]) << "," << qstr(b[2], b[3]);
      run_pair(st, [&] { SoPlex_changeVarBoundsRational(h, idx, b[0], b[1], b[2], b[3]); }, [&] { M.changeBoundsRational(idx, mkq(b[0], b[1]), mkq(b[2], b[3])); });
      break;
   }
   case WRITE_FILE_REAL:
   {
      std::string fc = g_dir + "/c20-w" + std::to_string(getpid()) + "-c." + (v == 0 ? "lp" : "mps");
      std::string fm = g_dir + "/c20-w" + std::to_string(getpid()) + "-m." + (v == 0 ? "lp" : "mps");
      Blk<char> name(std::vector<char>(fc.c_str(), fc.c_str() + fc.size() + 1)); g_blocks++;
      unlink(fc.c_str()); unlink(fm.c_str());
      run_pair(st, [&] { SoPlex_writeFileReal(h, name.p); }, [&] { M.writeFile(fm.c_str()); });
      std::string a = file_content(fc), b = file_content(fm);
      st.compared++;
      if(a != b) st.mismatch("file-mismatch", "file written through the C interface differs from the one written by writeFile(): '" + jesc(a.substr(0, 200)) + "' vs '" + jesc(b.substr(0, 200)) + "'");
      else if(a.empty()) st.mismatch("file-mismatch", "no file written");
      unlink(fc.c_str()); unlink(fm.c_str());
      P << (v == 0 ? "*.lp" : "*.mps") << ") " << a.size() << " bytes";
      break;
   }
   case GET_LOWER_REAL: case GET_UPPER_REAL: case GET_OBJ_REAL:
   {
      int dim = v == 0 ? s.n : v == 1 ? s.n + 2 : s.n - 1;
      Blk<double> out(dim, -777.25); g_blocks++;
      std::vector<double> exp;
      exp.reserve(dim + s.n + 4);      // no allocation inside the measured mirror call
      run_pair(st, [&]
      {
         if(op.fn == GET_LOWER_REAL) SoPlex_getLowerReal(h, out.p, dim);
         else if(op.fn == GET_UPPER_REAL) SoPlex_getUpperReal(h, out.p, dim);
         else SoPlex_getObjReal(h, out.p, dim);
      }, [&]
      {
         VectorReal x(dim);
         if(op.fn == GET_LOWER_REAL) M.getLowerReal(x);
         else if(op.fn == GET_UPPER_REAL) M.getUpperReal(x);
         else M.getObjReal(x);
         for(int k = 0; k < x.dim(); ++k) exp.push_back(x[k]);
      });
      // the C++ getter yields numCols values; entries of a longer caller array beyond that are not specified
      if(!st.c.sig) { cmp_darr(st, "output array", out.vec(), exp, std::min<size_t>(exp.size(), dim)); P << "dim=" << dim << ")->" << dvec(out.vec()); }
      break;
   }
   case BASIS_ROW_STATUS: case BASIS_COL_STATUS:
   {
      bool rowv = op.fn == BASIS_ROW_STATUS;
      int idx = sel(v, rowv ? s.m : s.n);
      int a = -77, b = -77;
      run_pair(st, [&] { a = rowv ? SoPlex_basisRowStatus(h, idx) : SoPlex_basisColStatus(h, idx); }, [&] { b = rowv ? (int)M.basisRowStatus(idx) : (int)M.basisColStatus(idx); });
      cmp_scalar(st, "basis status", a, b);
      P << idx << ")=" << a;
      break;
   }
   case GET_ROW_VEC_REAL:
   {
      int i = sel(v, s.m);
      DSVector row;
      M.getRowVectorReal(i, row);       // const getter: tells the harness how long the caller's arrays have to be
      int nnz = row.size();
      Blk<int> cnt(1, -777); Blk<long> idx(nnz, -777L); Blk<double> co(nnz, -777.25); g_blocks += 3;
      DSVector row2;
      st.heapcmp = false;               // the mirror's result vector stays allocated
      run_pair(st, [&] { SoPlex_getRowVectorReal(h, i, cnt.p, idx.p, co.p); }, [&] { M.getRowVectorReal(i, row2); });
      if(!st.c.sig)
      {
         cmp_scalar(st, "nnonzeros", cnt.p[0], row2.size());
         for(int k = 0; k < nnz && k < row2.size(); ++k) { cmp_scalar(st, "index", idx.p[k], (long)row2.index(k)); cmp_scalar(st, "coefficient", co.p[k], row2.value(k)); }
         P << i << ")->nnz=" << cnt.p[0] << " idx=" << lvec(idx.vec()) << " coefs=" << dvec(co.vec());
      }
      break;
   }
   case GET_ROW_VEC_RAT:
   {
      int i = sel(v, s.mr);
      int nnz = M.rowVectorRational(i).size();
      Blk<int> cnt(1, -777); Blk<long> idx(nnz, -777L), nu(nnz, -777L), de(nnz, -777L); g_blocks += 4;
      LPRowRational lr;
      st.heapcmp = false;
      P << i << ") row has " << nnz << " nonzeros";
      run_pair(st, [&] { SoPlex_getRowVectorRational(h, i, cnt.p, idx.p, nu.p, de.p); }, [&] { M.getRowRational(i, lr); });
      if(!st.c.sig)
      {
         const SVectorRational& rv = lr.rowVector();
         cmp_scalar(st, "nnonzeros", cnt.p[0], rv.size());
         for(int k = 0; k < nnz && k < rv.size(); ++k)
         {
            long en, ed;
            cmp_scalar(st, "index", idx.p[k], (long)rv.index(k));
            if(fits_long(rv.value(k), en, ed)) { cmp_scalar(st, "numerator", nu.p[k], en); cmp_scalar(st, "denominator", de.p[k], ed); }
            else st.unrepresentable++;
         }
         P << "->nnz=" << cnt.p[0] << " idx=" << lvec(idx.vec()) << " nums=" << lvec(nu.vec()) << " denoms=" << lvec(de.vec());
      }
      break;
   }
   case GET_ROW_BOUNDS_REAL:
   {
      int i = sel(v, s.m);
      Blk<double> lo(1, -777.25), up(1, -777.25); g_blocks += 2;
      double el = 0, eu = 0;
      run_pair(st, [&] { SoPlex_getRowBoundsReal(h, i, lo.p, up.p); }, [&] { el = M.lhsReal(i); eu = M.rhsReal(i); });
      if(!st.c.sig) { cmp_scalar(st, "lb", lo.p[0], el); cmp_scalar(st, "ub", up.p[0], eu); P << i << ")->[" << numd(lo.p[0]) << "," << numd(up.p[0]) << "]"; }
      break;
   }
   case GET_ROW_BOUNDS_RAT:
   {
      int i = sel(v, s.mr);
      Blk<long> ln(1, -777L), ld(1, -777L), un(1, -777L), ud(1, -777L); g_blocks += 4;
      Rational el, eu;
      st.heapcmp = false;
      run_pair(st, [&] { SoPlex_getRowBoundsRational(h, i, ln.p, ld.p, un.p, ud.p); }, [&] { el = M.lhsRational(i); eu = M.rhsRational(i); });
      if(!st.c.sig)
      {
         long a, b;
         if(fits_long(el, a, b)) { cmp_scalar(st, "lbnum", ln.p[0], a); cmp_scalar(st, "lbdenom", ld.p[0], b); } else st.unrepresentable++;
         if(fits_long(eu, a, b)) { cmp_scalar(st, "ubnum", un.p[0], a); cmp_scalar(st, "ubdenom", ud.p[0], b); } else st.unrepresentable++;
         P << i << ")->[" << qstr(ln.p[0], ld.p[0]) << "," << qstr(un.p[0], ud.p[0]) << "]";
      }
      break;
   }
   }
   std::string p = P.str();
   int bal = 0;
   for(char ch : p) bal += (ch == '(') - (ch == ')');
   while(bal-- > 0) p += ")";
   st.pretty = p;
}

// ---------------------------------------------------------------------------
// initial states (built through the C interface on the handle and through C++ on the mirror)
// ---------------------------------------------------------------------------
static const char* INITNAME[] = {"fresh", "loaded", "solved", "rational", "rational-solved"};
static const int NINIT = 5;

// cside = false builds only the mirror (used by the parent process to size the first-level alphabet: no C-interface code runs before the
// workers are forked, because ASan reports a faulty instruction only once per process and forked workers inherit that memory)
static void make_init(int init, void*& h, std::unique_ptr<SoPlex>& mp, bool cside = true)
{
   h = cside ? SoPlex_create() : nullptr;
   mp.reset(new SoPlex());
   if(cside) silence((SoPlex*)h);
   silence(mp.get());
   SoPlex& M = *mp;
   if(init == 0) return;
   if(init == 1 || init == 2)
   {
      if(cside)
      {
         Blk<double> z(0), r0(std::vector<double>{1, 1}), r1(std::vector<double>{1, -1});
         SoPlex_addColReal(h, z.p, 0, 0, 1.0, 0.0, 4.0);
         SoPlex_addColReal(h, z.p, 0, 0, 2.0, 0.0, PINF);
         SoPlex_addRowReal(h, r0.p, 2, 2, -PINF, 4.0);
         SoPlex_addRowReal(h, r1.p, 2, 2, -1.0, 2.0);
      }
      DSVector e;
      M.addColReal(LPCol(1.0, e, 4.0, 0.0));
      M.addColReal(LPCol(2.0, e, PINF, 0.0));
      DSVector a; a.add(0, 1.0); a.add(1, 1.0);
      M.addRowReal(LPRow(-PINF, a, 4.0));
      DSVector b; b.add(0, 1.0); b.add(1, -1.0);
      M.addRowReal(LPRow(-1.0, b, 2.0));
   }
   else
   {
      if(cside)
      {
         SoPlex_setRational(h);
         Blk<long> z(0), n0(std::vector<long>{1, 1}), d0(std::vector<long>{3, 1}), n1(std::vector<long>{1, -1}), d1(std::vector<long>{1, 1});
         SoPlex_addColRational(h, z.p, z.p, 0, 0, 1, 1, 0, 1, 4, 1);
         SoPlex_addColRational(h, z.p, z.p, 0, 0, 2, 3, 0, 1, 1000000, 1);
         SoPlex_addRowRational(h, n0.p, d0.p, 2, 2, -1000000, 1, 4, 3);
         SoPlex_addRowRational(h, n1.p, d1.p, 2, 2, -1, 2, 2, 1);
      }
      M.setIntParam(SoPlex::READMODE, SoPlex::READMODE_RATIONAL);
      M.setIntParam(SoPlex::SOLVEMODE, SoPlex::SOLVEMODE_RATIONAL);
      M.setIntParam(SoPlex::CHECKMODE, SoPlex::CHECKMODE_RATIONAL);
      M.setIntParam(SoPlex::SYNCMODE, SoPlex::SYNCMODE_AUTO);
      M.setRealParam(SoPlex::FEASTOL, 0.0);
      M.setRealParam(SoPlex::OPTTOL, 0.0);
      DSVectorRational e;
      M.addColRational(LPColRational(mkq(1, 1), e, mkq(4, 1), mkq(0, 1)));
      M.addColRational(LPColRational(mkq(2, 3), e, mkq(1000000, 1), mkq(0, 1)));
      DSVectorRational a; a.add(0, mkq(1, 3)); a.add(1, mkq(1, 1));
      M.addRowRational(LPRowRational(mkq(-1000000, 1), a, mkq(4, 3)));
      DSVectorRational b; b.add(0, mkq(1, 1)); b.add(1, mkq(-1, 1));
      M.addRowRational(LPRowRational(mkq(-1, 2), b, mkq(2, 1)));
   }
   if(init == 2 || init == 4)
   {
      if(cside) SoPlex_optimize(h);
      M.optimize();
   }
}

struct Seq
{
   int init = 0;
   std::vector<Op> ops;
   std::string str() const
   {
      std::string s = "init=" + std::to_string(init) + ";ops=";
      for(size_t k = 0; k < ops.size(); ++k) s += (k ? "/" : "") + ops[k].str();
      return s;
   }
   static Seq parse(const std::string& cs)
   {
      Seq s;
      for(auto& f : split(cs, ';'))
      {
         size_t e = f.find('=');
         if(e == std::string::npos) continue;
         std::string k = f.substr(0, e), val = f.substr(e + 1);
         if(k == "init") s.init = atoi(val.c_str());
         else if(k == "ops" && !val.empty()) for(auto& o : split(val, '/')) s.ops.push_back(Op::parse(o));
      }
      return s;
   }
};

struct SeqResult { bool alive = false; St st; uint64_t h = 0; };

// accessor digest under the crash guard; returns false when a C++ accessor died; asan receives a sanitizer report raised inside the accessors
static bool safe_digest(SoPlex* s, std::string& out, std::string& asan)
{
   CallOutcome o = guarded([&] { out = digest(*s); });
   asan = take_asan_report();
   return !o.sig && !o.threw;
}

static std::string sig_of(const std::string& rule, const Op& op) { return rule + ":" + FNAME[op.fn] + "[" + vlabel(op) + "]"; }

// executes the sequence on a fresh handle + fresh mirror; judges the LAST call (every prefix is a sequence of its own)
static SeqResult run_seq(const Seq& q, Ctx& c, uint64_t beforeHash = 0)
{
   install_guard();
   if(g_myshm) g_myshm->seq++;    // progress for the runner's watchdog is per sequence, not per case (a case is a whole subtree)
   SeqResult res;
   void* h = nullptr;
   std::unique_ptr<SoPlex> mp;
   std::string trace = std::string("from '") + INITNAME[q.init] + "': ";
   make_init(q.init, h, mp);
   {
      std::string ar = take_asan_report();
      if(!ar.empty()) c.violation(ar + "@initial-state[" + INITNAME[q.init] + "]", q.str(), "AddressSanitizer report while the initial state was built through the C interface");
   }
   bool dead = false;      // crashed: the objects are abandoned
   bool diverged = false;
   if(q.ops.empty())
   {
      std::string a, b, ra, rb;
      safe_digest((SoPlex*)h, a, ra); safe_digest(mp.get(), b, rb);
      c.count("init_states_checked");
      if(a != b) { c.violation(std::string("init-mismatch:") + INITNAME[q.init], q.str(), first_diff(a, b)); diverged = true; }
      res.h = fnv_str(b);
   }
   std::string before;
   for(size_t k = 0; k < q.ops.size() && !dead; ++k)
   {
      const Op& op = q.ops[k];
      bool last = k + 1 == q.ops.size();
      St s = state_of(*mp);
      if(last && !beforeHash) { std::string r; safe_digest(mp.get(), before, r); beforeHash = fnv_str(before); }
      Step st;
      apply(op, h, mp, s, st);
      trace += (k ? " ; " : "") + st.pretty;
      c.count("calls_mirrored");
      if(st.c.sig || st.m.sig) dead = true;
      if(!last) continue;
      c.count("sequences");
      c.count(std::string("fn.") + FNAME[op.fn]);
      c.count(std::string("variant.") + FNAME[op.fn] + "[" + vlabel(op) + "]");
      c.count("values_compared", st.compared);
      if(st.unrepresentable) c.count("rational_results_not_fitting_long(not judged)", st.unrepresentable);
      if(op.fn == OPTIMIZE && !st.m.sig) c.count("optimize.status=" + std::to_string((int)mp->status()) + (mp->intParam(SoPlex::SOLVEMODE) == 2 ? ".rational" : ".real"));
      if(st.c.sig && st.m.sig)
         c.violation(sig_of("crash-both:sig" + std::to_string(st.c.sig), op), q.str(), "the C function and the mirrored C++ call both died | " + trace);
      else if(st.c.sig)
         c.violation(sig_of("crash:sig" + std::to_string(st.c.sig), op), q.str(), "the C function died on signal " + std::to_string(st.c.sig) + ", the mirrored C++ call returned | " + trace);
      else if(st.m.sig)
         c.violation(sig_of("crash-mirror:sig" + std::to_string(st.m.sig), op), q.str(), "the mirrored C++ call died, the C function returned | " + trace);
      if(!st.asanM.empty())
      {
         // a sanitizer report inside the equivalent C++ call (which runs first): a defect of the C++ library that the C call reaches in the
         // same way (ASan stays silent the second time).  Not something the C layer adds; counted, printed with C20_DEBUG, and not extended.
         c.count("asan_report_inside_the_mirrored_Cxx_call(C++ library, not judged)." + st.asanM + "@" + FNAME[op.fn] + "[" + vlabel(op) + "]");
         if(getenv("C20_DEBUG")) fprintf(stderr, "C20_DEBUG asan report in mirrored C++ call: %s | %s | %s\n", q.str().c_str(), trace.c_str(), st.asanM.c_str());
         dead = true;
      }
      if(!st.asanC.empty())
      {
         c.violation(st.asanC + "@" + FNAME[op.fn] + "[" + vlabel(op) + "]", q.str(), "AddressSanitizer report inside the C function (mirrored C++ call: " + (st.asanM.empty() ? std::string("none") : st.asanM) + ") | " + trace);
         diverged = true;
      }
      if(dead) break;
      if(st.c.threw != st.m.threw)
      {
         c.violation(sig_of("exception-mismatch", op), q.str(), std::string("C side ") + (st.c.threw ? "threw " + st.c.what : "returned") + ", C++ side " + (st.m.threw ? "threw " + st.m.what : "returned") + " | " + trace);
         diverged = true;
      }
      else if(st.c.threw) c.count("exceptions_on_both_sides");
      if(!st.rule.empty()) { c.violation(sig_of(st.rule, op), q.str(), st.diff + " | " + trace); diverged = true; }
      // observation, not a verdict: bytes that stay allocated after the C call vs after the equivalent C++ call (exact under ASan)
      if(st.heapcmp && st.heapC != st.heapM) c.count(std::string("note.heap_retained_by_C_call_differs_from_Cxx_call.") + FNAME[op.fn]);
      if(s.rat && (op.fn == ADD_COL_RAT || op.fn == ADD_ROW_RAT || op.fn == CHG_OBJ_RAT || op.fn == CHG_LHS_RAT || op.fn == CHG_RHS_RAT || op.fn == CHG_VAR_BOUNDS_RAT))
         c.count("rational_modifier_calls_on_an_existing_rational_lp");
      std::string a, b, ra, rb;
      bool oka = safe_digest((SoPlex*)h, a, ra), okb = safe_digest(mp.get(), b, rb);
      if(!oka || !okb || !ra.empty() || !rb.empty())
      {
         // a C++ accessor itself died or raised a sanitizer report.  On both objects alike: a defect of the C++ library in a state both sides
         // reached identically - nothing the C layer can be blamed for, counted and not extended.  On one object only: the objects differ.
         if((oka != okb) || (ra.empty() != rb.empty()))
            c.violation(sig_of("state-mismatch-accessor-failure", op), q.str(), std::string("C++ accessors ") + (oka ? "worked" : "died") + "/" + ra + " on the handle, " + (okb ? "worked" : "died") + "/" + rb + " on the mirror | " + trace);
         else
         {
            c.count(std::string("cxx_accessor_failure_on_both_objects(not judged).after.") + FNAME[op.fn] + "[" + vlabel(op) + "]");
            if(getenv("C20_DEBUG")) fprintf(stderr, "C20_DEBUG accessor failure on both objects: %s | %s | %s\n", q.str().c_str(), trace.c_str(), ra.c_str());
         }
         dead = true;
         break;
      }
      c.count("digests_compared");
      if(a != b) { c.violation(sig_of("state-mismatch", op), q.str(), first_diff(a, b) + " | " + trace); diverged = true; }
      res.h = fnv_str(b);
      if(res.h != beforeHash) c.count("state_changing_sequences");
      if(res.h != beforeHash || st.compared > 0) c.count("nontrivial_sequences");
      if(mp->_rationalLP != nullptr) c.count("final_states_with_rational_lp");
      if(mp->hasSol()) c.count("final_states_with_solution");
      c.state(std::to_string(res.h));
      if(c.wantSample() && q.ops.size() >= 2 && (fnv_str(q.str()) % 1499) == 0)
         c.sample("{\"sequence\":" + jstr(trace) + ",\"case\":" + jstr(q.str()) + "}");
   }
   if(g_blocks) { c.count("blocks", g_blocks); g_blocks = 0; }
   if(g_storedLonger) { c.count("array_getter_calls_with_stored_vector_longer_than_lp", g_storedLonger); g_storedLonger = 0; }
   if(!dead)
   {
      res.st = state_of(*mp);
      res.alive = !diverged;
      // every sequence ends with SoPlex_free on the handle
      CallOutcome g = guarded([&] { mp.reset(); });
      std::string am = take_asan_report();
      CallOutcome f = guarded([&] { SoPlex_free(h); });
      std::string ar = take_asan_report();
      if(g.sig) { mp.release(); c.violation(std::string(f.sig ? "crash-both" : "crash-mirror") + ":sig" + std::to_string(g.sig) + ":~SoPlex[end-of-sequence]", q.str(), trace); }
      if(f.sig && !g.sig) c.violation("crash:sig" + std::to_string(f.sig) + ":SoPlex_free[end-of-sequence]", q.str(), trace);
      if(!am.empty()) c.violation("mirror-" + am + "@~SoPlex[end-of-sequence]", q.str(), trace);
      if(!ar.empty()) c.violation(ar + "@SoPlex_free[end-of-sequence]", q.str(), trace);
   }
   else
   {
      c.count("sequences_ended_by_crash");
      // try to release what can be released; the handle may be in an undefined state
      guarded([&] { SoPlex_free(h); });
      guarded([&] { mp.reset(); });
      mp.release();
      take_asan_report();
   }
   return res;
}

// Before commit 86a38ae SPxLPBase::readLPF released its private NameSets without running their destructors (about 1 MB per read on the
// handle + mirror, also for well-formed input); a worker that executed every sequence containing an LP-format read itself then grew until
// the machine ran out of memory.  main() measures whether an LP read retains memory; only if it does, those sequences are executed in a
// forked child of the worker (violations and counters reach the worker's result file through the shared sink).
static bool g_isolate_lp = false;
static bool lp_read_leaks()
{
   SoPlex s;
   silence(&s);
   s.readFile(g_files[0].c_str());
   size_t h0 = heap_bytes();
   for(int k = 0; k < 3; ++k) s.readFile(g_files[0].c_str());
   return heap_bytes() > h0 + 300000;
}
static SeqResult run_seq_iso(const Seq& q, Ctx& c, uint64_t beforeHash = 0)
{
   bool lp = false;
   if(g_isolate_lp) for(auto& o : q.ops) if(o.fn == READ_INSTANCE && o.v == 0) lp = true;
   if(!lp || !c.sink) return run_seq(q, c, beforeHash);
   int fd[2];
   if(pipe(fd) != 0) return run_seq(q, c, beforeHash);
   c.flushDelta();
   fflush(c.sink);
   pid_t p = fork();
   if(p == 0)
   {
      close(fd[0]);
      SeqResult r = run_seq(q, c, beforeHash);
      c.flushDelta();
      fflush(c.sink);
      if(write(fd[1], &r, sizeof r) < 0) {}
      _exit(0);
   }
   close(fd[1]);
   SeqResult r;
   ssize_t got = p > 0 ? read(fd[0], &r, sizeof r) : -1;
   close(fd[0]);
   int st = 0;
   if(p > 0) waitpid(p, &st, 0);
   if(got != (ssize_t)sizeof r)
   {
      // the child died outside a guarded call
      r = SeqResult();
      c.violation(std::string("crash-in-isolated-sequence:") + (WIFSIGNALED(st) ? "sig" + std::to_string(WTERMSIG(st)) : "exit" + std::to_string(WEXITSTATUS(st)))
                  + "@" + FNAME[q.ops.back().fn] + "[" + vlabel(q.ops.back()) + "]", q.str(), "the forked executor of a sequence containing an LP-format read died");
   }
   c.count("sequences_executed_in_a_forked_child(LP-format read leaks)");
   return r;
}

static bool has_lp_read(const Seq& q)
{
   if(!g_isolate_lp) return false;
   for(auto& o : q.ops) if(o.fn == READ_INSTANCE && o.v == 0) return true;
   return false;
}
// runs body in a forked child of the worker (same reason as run_seq_iso, for a whole subtree at once)
static uint64_t in_child(Ctx& c, const std::function<uint64_t()>& body, const Seq& what)
{
   int fd[2];
   if(!c.sink || pipe(fd) != 0) return body();
   c.flushDelta();
   fflush(c.sink);
   pid_t p = fork();
   if(p == 0)
   {
      close(fd[0]);
      uint64_t r = body();
      c.flushDelta();
      fflush(c.sink);
      if(write(fd[1], &r, sizeof r) < 0) {}
      _exit(0);
   }
   close(fd[1]);
   uint64_t r = 0;
   ssize_t got = p > 0 ? read(fd[0], &r, sizeof r) : -1;
   close(fd[0]);
   int st = 0;
   if(p > 0) waitpid(p, &st, 0);
   if(got != (ssize_t)sizeof r)
      c.violation(std::string("crash-in-isolated-subtree:") + (WIFSIGNALED(st) ? "sig" + std::to_string(WTERMSIG(st)) : "exit" + std::to_string(WEXITSTATUS(st)))
                  + "@" + FNAME[what.ops.back().fn] + "[" + vlabel(what.ops.back()) + "]", what.str(), "the forked executor of the subtree below this sequence (it contains an LP-format read) died");
   c.count("subtrees_executed_in_a_forked_child(LP-format read leaks)");
   return r;
}

static uint64_t opcode(const Op& o) { return (uint64_t)o.fn * 1000 + o.v + 1; }
static Op opdecode(uint64_t c) { Op o; c -= 1; o.fn = (int)(c / 1000); o.v = (int)(c % 1000); return o; }

int main(int argc, char** argv)
{
   Args args = parse_args(argc, argv);
   args.prop = "C20";
   g_dir = args.outdir;
   make_files();
   if(!args.replay.empty())
   {
      std::ifstream in(args.replay);
      std::string doc((std::istreambuf_iterator<char>(in)), std::istreambuf_iterator<char>());
      size_t p = doc.find("\"case\": \"");
      if(p == std::string::npos) { printf("REPLAY-ERROR no case\n"); return 2; }
      p += 9;
      Seq s = Seq::parse(doc.substr(p, doc.find('"', p) - p));
      int rc = replay_case([&](Ctx & c) { run_seq(s, c); });
      remove_files();
      rmdir(g_dir.c_str());
      return rc;
   }
   bool thorough = args.tier == "thorough";
   int depth = atoi(args.get("depth", thorough ? "3" : "2").c_str());
   bool small3 = args.get("l3", "small") == "small";
   g_allow_scaled_grow = args.get("allow-scaled-grow", "0") == "1";
   Report rep(args, "model_checking", thorough ? 3300 : 420);
   g_isolate_lp = lp_read_leaks();
   rep.extra["lp_format_read_retains_memory(sequences_with_it_run_in_a_forked_child)"] = g_isolate_lp ? "true" : "false";

   struct First { int init; Op op; };
   std::vector<First> firsts;
   for(int in = 0; in < NINIT; ++in)
   {
      void* h; std::unique_ptr<SoPlex> mp;
      make_init(in, h, mp, false);
      St s = state_of(*mp);
      for(auto& op : alphabet(s)) firsts.push_back({in, op});
   }
   if(!args.get("first").empty())
   {
      // development aid: --first "init=3;ops=16.1,init=4;ops=42.4" restricts the first level to the listed (initial state, call) pairs
      std::vector<First> keep;
      for(auto& want : split(args.get("first"), ','))
         for(auto& f : firsts) { Seq t; t.init = f.init; t.ops = {f.op}; if(t.str() == want) keep.push_back(f); }
      firsts = keep;
   }
   RunOpts o = rep.opts();
   o.perturb = {85};
   o.watchdog_s = 120;
   uint64_t NI = NINIT;
   auto fn = [&](uint64_t idx, int, Ctx & c) -> uint64_t
   {
      if(idx < NI) { Seq s0; s0.init = (int)idx; return run_seq(s0, c).h; }    // the initial states themselves
      const First& f = firsts[idx - NI];
      Seq s;
      s.init = f.init; s.ops = {f.op};
      SeqResult r1 = run_seq_iso(s, c);
      uint64_t h = r1.h;
      c.count("transitions");
      if(!r1.alive) { c.count("subtrees_pruned_after_violation"); return h; }
      if(depth >= 2)
         for(auto& op2 : alphabet(r1.st))
         {
            if(now_s() > rep.deadline) { c.count("subtrees_cut_by_the_deadline"); break; }
            Seq s2 = s;
            s2.ops.push_back(op2);
            bool lp12 = has_lp_read(s2);
            auto body = [&]() -> uint64_t
            {
               set_sub(opcode(op2) * 1000000);
               SeqResult r2 = run_seq(s2, c, r1.h);
               uint64_t hh = r2.h;
               c.count("transitions");
               if(!r2.alive) { c.count("subtrees_pruned_after_violation"); return hh; }
               if(depth >= 3)
                  for(auto& op3 : (small3 ? alphabet_small(r2.st) : alphabet(r2.st)))
                  {
                     Seq s3 = s2;
                     s3.ops.push_back(op3);
                     set_sub(opcode(op2) * 1000000 + opcode(op3));
                     hh = hh * 31 + (lp12 ? run_seq(s3, c, r2.h) : run_seq_iso(s3, c, r2.h)).h;
                     c.count("transitions");
                  }
               return hh;
            };
            h = h * 31 + (lp12 ? in_child(c, body, s2) : body());
         }
      return h;
   };
   auto seq_at = [&](uint64_t idx, uint64_t sub)
   {
      Seq s;
      if(idx < NI) { s.init = (int)idx; return s; }
      s.init = firsts[idx - NI].init; s.ops = {firsts[idx - NI].op};
      if(sub / 1000000) s.ops.push_back(opdecode(sub / 1000000));
      if(sub % 1000000) s.ops.push_back(opdecode(sub % 1000000));
      return s;
   };
   // (runs first: it is cheap and must not be starved when the histories use up the budget)
   // parameter-code sweep: every bool / int / real parameter code with boundary values, then every SoPlex_getIntParam code
   std::vector<Op> sw = sweep_ops(), sg = sweep_get_ops();
   auto fn2 = [&](uint64_t idx, int, Ctx & c) -> uint64_t
   {
      Seq s;
      s.init = (int)(idx / sw.size()); s.ops = {sw[idx % sw.size()]};
      SeqResult r1 = run_seq(s, c);
      uint64_t h = r1.h;
      c.count("transitions");
      c.count("sweep.set_calls");
      if(!r1.alive) return h;
      for(auto& g : sg)
      {
         Seq s2 = s;
         s2.ops.push_back(g);
         set_sub(opcode(g) * 1000000);
         h = h * 31 + run_seq(s2, c, r1.h).h;
         c.count("transitions");
         c.count("sweep.get_calls");
      }
      return h;
   };
   auto seq2_at = [&](uint64_t idx, uint64_t sub)
   {
      Seq s;
      s.init = (int)(idx / sw.size()); s.ops = {sw[idx % sw.size()]};
      if(sub / 1000000) s.ops.push_back(opdecode(sub / 1000000));
      return s;
   };
   rep.phase("parameter-code sweep", (uint64_t)NINIT * sw.size(), fn2, [&](uint64_t idx, uint64_t sub) { return seq2_at(idx, sub).str(); }, o,
             [&](uint64_t idx, uint64_t sub) { Seq s = seq2_at(idx, sub); return std::string("@") + FNAME[s.ops.back().fn] + "[sweep]"; });

   rep.phase("histories depth<=" + std::to_string(depth), NI + firsts.size(), fn,
             [&](uint64_t idx, uint64_t sub) { return seq_at(idx, sub).str(); }, o,
             [&](uint64_t idx, uint64_t sub) { Seq s = seq_at(idx, sub); return s.ops.empty() ? std::string("@init") : std::string("@") + FNAME[s.ops.back().fn] + "[" + vlabel(s.ops.back()) + "]"; });

   if(rep.all.counters.count("subtrees_cut_by_the_deadline")) rep.exhaustive = false;
   int reached = 0;
   for(int f = 0; f < NFN; ++f) if(rep.all.counters.count(std::string("fn.") + FNAME[f])) ++reached;
   rep.evaluations = rep.all.counters["sequences"] + rep.all.counters["init_states_checked"];
   rep.rule = "a case is a call sequence (initial state, call_1..call_k, k<=depth) over the instantiated alphabet of the SoPlex_* functions; every sequence is "
              "executed on a fresh handle and a fresh C++ mirror by replaying its prefix (levels 1 and 2 use the full alphabet, level 3 one variant per function "
              "plus the array-shape variants), and judged after its last call (return values, arrays, strings, "
              "accessor digest of the object behind the handle vs the mirror, ASan, crash); distinct_nontrivial counts the sequences whose last call changed the "
              "accessor digest or returned at least one value that was compared; states = distinct accessor digests of the mirror";
   rep.assumptions = {"the mirror is a C++ SoPlex object driven by the documented equivalent of every C call, written in the harness (own dense->sparse conversion, rationals built with GMP mpq_class from the long pairs)",
                      "valid arguments only: vector changes get dim = current dimension, indices are existing rows/columns, rational getters only when a rational LP exists; rational results that do not fit a long are not judged",
                      "arrays whose length is not advertised (SoPlex_getRowVector*) get exactly as many entries as the row has nonzeros; every other array has exactly the advertised length; returned strings are checked for a NUL inside their allocation",
                      "SoPlex_getSolvingTime: the accumulated ticks of the stopped solving-time timer are set to 125 on both objects before the call",
                      "a sequence whose last call violated the property is not extended (its subtree is pruned)",
                      "if (and only if) an LP-format read is measured to retain memory (SPxLPBase::readLPF before 86a38ae), sequences containing an LP-format SoPlex_readInstanceFile run in a forked child of the worker; on level 3 the file read is the MPS one"
                     };
   rep.extra["depth"] = std::to_string(depth);
   rep.extra["initial_states"] = std::to_string(NINIT);
   rep.extra["first_level_operations"] = std::to_string(firsts.size());
   rep.extra["c_functions_reached_as_last_call"] = jstr(std::to_string(reached) + " of " + std::to_string((int)NFN) + " (SoPlex_create/SoPlex_free additionally begin and end every sequence)");
   rep.extra["deepest_level_alphabet"] = jstr(depth >= 3 && small3 ? "one variant per function + shape variants" : "full");
   rep.extra["exact_length_blocks_handed_to_C"] = std::to_string(rep.all.counters["blocks"]);
   rep.finish(rep.all.counters["nontrivial_sequences"], rep.all.states.size(), rep.all.counters["transitions"], rep.all.counters["sequences"]);
   remove_files();
   return 0;
}
