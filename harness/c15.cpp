// C15: parameters - what is set is what is used; invalid values rejected atomically.
//
// Reference model: a table {kind, name, lower, upper, default, current} for the 26 bool, 28 int, 27 real parameters and the
// random seed.  "Documented range" = what the library publishes in SoPlex::Settings::{bool,int,real}Param plus the enumerator
// lists of soplex.h (only OBJSENSE has a hole inside [lower,upper]) plus the build configuration (PaPILO-only choices).
// Three front ends (typed setters, parseSettingsString, loadSettingsFile of a one-line file) are run on every value of the
// value menu; then operation histories over {set, save(onlyChanged 0/1), load(last saved), reset, setSettings(other), copy}.
// After the last operation of every case: return value, all 82 getters, the internal wiring (which component / tolerance
// is actually in use), the saved file (parsed by the harness) and the LP (compare_real against the dense Model) are compared
// with the model.  Nothing is sampled.
#include "vx_history.hpp"
#include <cfloat>
#include <climits>
#include <cmath>
#include <typeinfo>
#include <memory>
using namespace vx;

// ---------------------------------------------------------------------------------------------------------------------
// parameter identities and values
// ---------------------------------------------------------------------------------------------------------------------
enum { KB = 0, KI = 1, KR = 2, KS = 3 };
static const char* KNAME[] = {"bool", "int", "real", "uint"};
static const int NB = SoPlex::BOOLPARAM_COUNT, NI = SoPlex::INTPARAM_COUNT, NR = SoPlex::REALPARAM_COUNT;
static const int NPAR = NB + NI + NR + 1;
#ifdef SOPLEX_WITH_PAPILO
static const bool HAVE_PAPILO = true;
#else
static const bool HAVE_PAPILO = false;
#endif

struct PId
{
   int kind = KB, idx = 0;
   bool operator==(const PId& o) const { return kind == o.kind && idx == o.idx; }
};
static PId pid_of(int g)
{
   PId p;
   if(g < NB) { p.kind = KB; p.idx = g; }
   else if(g < NB + NI) { p.kind = KI; p.idx = g - NB; }
   else if(g < NB + NI + NR) { p.kind = KR; p.idx = g - NB - NI; }
   else { p.kind = KS; p.idx = 0; }
   return p;
}
static std::string pname(PId p)
{
   switch(p.kind)
   {
   case KB: return SoPlex::Settings::boolParam.name[p.idx];
   case KI: return SoPlex::Settings::intParam.name[p.idx];
   case KR: return SoPlex::Settings::realParam.name[p.idx];
   }
   return "random_seed";
}

struct Val
{
   int kind = KB;
   bool b = false;
   int i = 0;
   double r = 0;
   unsigned u = 0;
};
static Val vb(bool x) { Val v; v.kind = KB; v.b = x; return v; }
static Val vi(int x) { Val v; v.kind = KI; v.i = x; return v; }
static Val vr(double x) { Val v; v.kind = KR; v.r = x; return v; }
static Val vu(unsigned x) { Val v; v.kind = KS; v.u = x; return v; }
static std::string rtext(double d)
{
   if(std::isnan(d)) return "nan";
   if(std::isinf(d)) return d > 0 ? "inf" : "-inf";
   char b[48];
   snprintf(b, sizeof b, "%.17g", d);
   return b;
}
static std::string vtext(const Val& v)
{
   switch(v.kind)
   {
   case KB: return v.b ? "true" : "false";
   case KI: return std::to_string(v.i);
   case KR: return rtext(v.r);
   }
   return std::to_string(v.u);
}
static Val vparse(int kind, const std::string& s)
{
   switch(kind)
   {
   case KB: return vb(s == "true");
   case KI: return vi((int)strtol(s.c_str(), 0, 10));
   case KR: return vr(strtod(s.c_str(), 0));
   }
   return vu((unsigned)strtoul(s.c_str(), 0, 10));
}
static bool same_bits(double a, double b) { return memcmp(&a, &b, sizeof a) == 0; }

// percent-encoding for case strings (no tab / CR / quote / separators inside a field)
static std::string penc(const std::string& s)
{
   std::string o;
   for(unsigned char ch : s)
   {
      if(ch < 0x21 || ch == '%' || ch == '|' || ch == '"' || ch == '\\' || ch == '/' || ch == '&' || ch >= 0x7f)
      {
         char b[8];
         snprintf(b, sizeof b, "%%%02X", ch);
         o += b;
      }
      else o += (char)ch;
   }
   return o;
}
static std::string pdec(const std::string& s)
{
   std::string o;
   for(size_t k = 0; k < s.size(); ++k)
   {
      if(s[k] == '%' && k + 3 <= s.size()) { o += (char)strtol(s.substr(k + 1, 2).c_str(), 0, 16); k += 2; }
      else o += s[k];
   }
   return o;
}

// ---------------------------------------------------------------------------------------------------------------------
// the reference model
// ---------------------------------------------------------------------------------------------------------------------
struct PState
{
   std::vector<char> b;
   std::vector<int> i;
   std::vector<double> r;
   unsigned seed = 0;
   bool operator==(const PState& o) const
   {
      if(b != o.b || i != o.i || seed != o.seed) return false;
      for(int k = 0; k < NR; ++k) if(!same_bits(r[k], o.r[k])) return false;
      return true;
   }
   std::string digest() const
   {
      uint64_t h = fnv(b.data(), b.size());
      h = fnv(i.data(), i.size() * sizeof(int), h);
      h = fnv(r.data(), r.size() * sizeof(double), h);
      h = fnv(&seed, sizeof seed, h);
      return std::to_string(h);
   }
   Val get(PId p) const
   {
      switch(p.kind)
      {
      case KB: return vb(b[p.idx] != 0);
      case KI: return vi(i[p.idx]);
      case KR: return vr(r[p.idx]);
      }
      return vu(seed);
   }
};
static PState defaults()
{
   PState s;
   s.b.resize(NB); s.i.resize(NI); s.r.resize(NR);
   for(int k = 0; k < NB; ++k) s.b[k] = SoPlex::Settings::boolParam.defaultValue[k];
   for(int k = 0; k < NI; ++k) s.i[k] = SoPlex::Settings::intParam.defaultValue[k];
   for(int k = 0; k < NR; ++k) s.r[k] = SoPlex::Settings::realParam.defaultValue[k];
   s.seed = 0;   // "# range [0, UINT_MAX], default 0" in every saved settings file
   return s;
}
static bool papilo_bool(int idx) { return idx >= SoPlex::SIMPLIFIER_SINGLETONCOLS && idx <= SoPlex::SIMPLIFIER_DOMINATEDCOLS; }
static int ilo(int k) { return SoPlex::Settings::intParam.lower[k]; }
static int iup(int k) { return SoPlex::Settings::intParam.upper[k]; }
static double rlo(int k) { return SoPlex::Settings::realParam.lower[k]; }
static double rup(int k) { return SoPlex::Settings::realParam.upper[k]; }

// must a typed set of v be accepted (documented range, enumerator lists, build configuration)?
static bool model_valid(const PState& st, PId p, const Val& v)
{
   switch(p.kind)
   {
   case KB:
      if(!HAVE_PAPILO && papilo_bool(p.idx)) return (st.b[p.idx] != 0) == v.b;   // "only possible if SoPlex is build with PaPILO"
      return true;
   case KI:
      if(v.i < ilo(p.idx) || v.i > iup(p.idx)) return false;
      if(p.idx == SoPlex::OBJSENSE && v.i != SoPlex::OBJSENSE_MINIMIZE && v.i != SoPlex::OBJSENSE_MAXIMIZE) return false;
      if(p.idx == SoPlex::SIMPLIFIER && v.i == SoPlex::SIMPLIFIER_PAPILO && !HAVE_PAPILO) return false;
      return true;
   case KR:
      if(std::isnan(v.r)) return false;
      if(v.r < rlo(p.idx) || v.r > rup(p.idx)) return false;
      if(p.idx == SoPlex::SIMPLIFIER_MODIFYROWFAC && !HAVE_PAPILO) return same_bits(st.r[p.idx], v.r) || st.r[p.idx] == v.r;
      return true;
   }
   return true;
}
static bool model_set(PState& st, PId p, const Val& v)
{
   if(!model_valid(st, p, v)) return false;
   switch(p.kind)
   {
   case KB: st.b[p.idx] = v.b; break;
   case KI: st.i[p.idx] = v.i; break;
   case KR: st.r[p.idx] = v.r; break;
   default: st.seed = v.u;
   }
   return true;
}

// ---------------------------------------------------------------------------------------------------------------------
// driving the real object
// ---------------------------------------------------------------------------------------------------------------------
struct NullBuf : std::streambuf
{
   int overflow(int c) override { return c; }
   std::streamsize xsputn(const char*, std::streamsize n) override { return n; }
};
static NullBuf g_nullbuf;
static std::ostream g_nullstream(&g_nullbuf);
// keeps stdout quiet WITHOUT touching the VERBOSITY parameter
static void silence(SoPlex& s) { for(int v = 0; v <= 5; ++v) s.spxout.setStream((SPxOut::Verbosity)v, g_nullstream); }

struct CallRes
{
   bool ret = false, threw = false;
   std::string exc;
};
template <class F> static CallRes guarded(F f)
{
   CallRes r;
   try { r.ret = f(); }
   catch(const SPxException& e) { r.threw = true; r.exc = "soplex::SPxException"; }
   catch(const std::exception& e)
   {
      int st = 0;
      char* dn = abi::__cxa_demangle(typeid(e).name(), 0, 0, &st);
      r.threw = true;
      r.exc = dn ? dn : "std::exception";
      free(dn);
   }
   return r;
}
static CallRes do_typed(SoPlex& s, PId p, const Val& v)
{
   return guarded([&]() -> bool
   {
      switch(p.kind)
      {
      case KB: return s.setBoolParam((SoPlex::BoolParam)p.idx, v.b);
      case KI: return s.setIntParam((SoPlex::IntParam)p.idx, v.i);
      case KR: return s.setRealParam((SoPlex::RealParam)p.idx, v.r);
      }
      s.setRandomSeed(v.u);
      return true;
   });
}
static CallRes do_parse(SoPlex& s, const std::string& text)
{
   std::vector<char> buf(text.begin(), text.end());
   buf.push_back(0);
   return guarded([&]() -> bool { return s.parseSettingsString(buf.data()); });
}
static CallRes do_load(SoPlex& s, const std::string& path)
{
   return guarded([&]() -> bool { return s.loadSettingsFile(path.c_str()); });
}

static PState getters(SoPlex& s)
{
   PState g;
   g.b.resize(NB); g.i.resize(NI); g.r.resize(NR);
   for(int k = 0; k < NB; ++k) g.b[k] = s.boolParam((SoPlex::BoolParam)k);
   for(int k = 0; k < NI; ++k) g.i[k] = s.intParam((SoPlex::IntParam)k);
   for(int k = 0; k < NR; ++k) g.r[k] = s.realParam((SoPlex::RealParam)k);
   g.seed = s.randomSeed();
   return g;
}
// first difference between two states ("" if none): name, and both values in `detail`
static std::string first_diff(const PState& a, const PState& b, std::string& detail)
{
   for(int g = 0; g < NPAR; ++g)
   {
      PId p = pid_of(g);
      Val x = a.get(p), y = b.get(p);
      bool eq = p.kind == KB ? x.b == y.b : p.kind == KI ? x.i == y.i : p.kind == KR ? same_bits(x.r, y.r) : x.u == y.u;
      if(!eq) { detail = std::string(KNAME[p.kind]) + ":" + pname(p) + " is " + vtext(x) + ", expected " + vtext(y); return pname(p); }
   }
   return "";
}

// --- the wiring: which component / value the solver would actually use -------------------------------------------------
static const char* WNAME[] =
{
   "lp.sense", "lp.offset", "slufactor.utype", "basis.maxupdates", "solver.displayfreq", "spxout.verbosity", "simplifier", "scaler",
   "starter", "pricer", "ratiotester", "solver.timer", "solver.polishing", "solver.printbasismetric", "solver.storebasisfreq",
   "boundflipping.rowflips", "solver.fullperturbation", "rationallp.present", "tol.feastol", "tol.opttol", "tol.epsilon",
   "tol.epsfactor", "tol.epsupdate", "tol.epspivot", "tol.fpfeastol", "tol.fpopttol", "rational.feastol", "rational.opttol",
   "rational.posinfty", "rational.neginfty", "rational.maxscaleincr", "slufactor.markowitz", "leastsq.maxrounds", "leastsq.acrcy"
};
static const int NW = sizeof(WNAME) / sizeof(WNAME[0]);
static std::string qd(const Rational& q) { return rtext(q.template convert_to<double>()); }

static void wiring_actual(SoPlex& s, std::vector<std::string>& w)
{
   w.clear();
   w.push_back(s._realLP->spxSense() == SPxLPBase<double>::MAXIMIZE ? "1" : "-1");
   w.push_back(rtext(s._realLP->objOffset()));
   w.push_back(s._slufactor.utype() == SLUFactor<double>::ETA ? "0" : "1");
   w.push_back(std::to_string(s._solver.basis().getMaxUpdates()));
   w.push_back(std::to_string(s._solver.getDisplayFreq()));
   w.push_back(std::to_string((int)s.spxout.getVerbosity()));
   w.push_back(s._simplifier == nullptr ? "off" : (void*)s._simplifier == (void*)&s._simplifierMainSM ? "mainsm"
               : (void*)s._simplifier == (void*)&s._simplifierPaPILO ? "papilo" : "foreign-object");
   {
      const void* sc = s._scaler;
      const void* mine[7] = {nullptr, &s._scalerUniequi, &s._scalerBiequi, &s._scalerGeo1, &s._scalerGeo8, &s._scalerLeastsq, &s._scalerGeoequi};
      std::string r = "foreign-object";
      for(int k = 0; k < 7; ++k) if(sc == mine[k]) r = std::to_string(k);
      w.push_back(r);
   }
   {
      const void* st = s._starter;
      const void* mine[4] = {nullptr, &s._starterWeight, &s._starterSum, &s._starterVector};
      std::string r = "foreign-object";
      for(int k = 0; k < 4; ++k) if(st == mine[k]) r = std::to_string(k);
      if((const void*)s._solver.starter() != st) r += "+solver-holds-another";
      w.push_back(r);
   }
   {
      const SPxPricer<double>* pr = s._solver.pricer();
      std::string r = "none";
      if(pr)
      {
         const std::type_info& t = typeid(*pr);
         r = t == typeid(SPxAutoPR<double>) ? "0" : t == typeid(SPxDantzigPR<double>) ? "1" : t == typeid(SPxParMultPR<double>) ? "2"
             : t == typeid(SPxDevexPR<double>) ? "3" : t == typeid(SPxSteepPR<double>) ? "4" : t == typeid(SPxSteepExPR<double>) ? "5" : "other";
      }
      w.push_back(r);
   }
   {
      const SPxRatioTester<double>* rt = s._solver.ratiotester();
      std::string r = "none";
      if(rt)
      {
         const std::type_info& t = typeid(*rt);
         r = t == typeid(SPxDefaultRT<double>) ? "0" : t == typeid(SPxHarrisRT<double>) ? "1" : t == typeid(SPxFastRT<double>) ? "2"
             : t == typeid(SPxBoundFlippingRT<double>) ? "3" : "other";
      }
      w.push_back(r);
   }
   w.push_back(std::to_string((int)s._solver.getTiming()));
   w.push_back(std::to_string((int)s._solver.polishObj));
   w.push_back(std::to_string(s._solver.printBasisMetric));
   w.push_back(std::to_string(s._solver.storeBasisSimplexFreq));
   w.push_back(s._ratiotesterBoundFlipping.enableRowBoundFlips ? "1" : "0");
   w.push_back(s._solver.fullPerturbation ? "1" : "0");
   w.push_back(s._rationalLP != nullptr ? "1" : "0");
   Tolerances& t = *s._tolerances;
   w.push_back(rtext(t.feastol())); w.push_back(rtext(t.opttol())); w.push_back(rtext(t.epsilon()));
   w.push_back(rtext(t.epsilonFactorization())); w.push_back(rtext(t.epsilonUpdate())); w.push_back(rtext(t.epsilonPivot()));
   w.push_back(rtext(t.floatingPointFeastol())); w.push_back(rtext(t.floatingPointOpttol()));
   w.push_back(qd(s._rationalFeastol)); w.push_back(qd(s._rationalOpttol)); w.push_back(qd(s._rationalPosInfty));
   w.push_back(qd(s._rationalNegInfty)); w.push_back(qd(s._rationalMaxscaleincr));
   w.push_back(rtext(s._slufactor.markowitz()));
   w.push_back(std::to_string(s._scalerLeastsq.maxrounds));
   w.push_back(rtext(s._scalerLeastsq.acrcydivisor));
}
// "?" = not owned by the parameters in this situation (never compared)
static void wiring_expected(const PState& st, std::vector<std::string>& w, bool solved)
{
   w.clear();
   w.push_back(std::to_string(st.i[SoPlex::OBJSENSE]));
   w.push_back(rtext(st.r[SoPlex::OBJ_OFFSET]));
   w.push_back(std::to_string(st.i[SoPlex::FACTOR_UPDATE_TYPE]));
   w.push_back(std::to_string(st.i[SoPlex::FACTOR_UPDATE_MAX] == 0 ? 200 : st.i[SoPlex::FACTOR_UPDATE_MAX]));   // "0 - auto" = refactor interval 200
   w.push_back(std::to_string(st.i[SoPlex::DISPLAYFREQ]));
   w.push_back(std::to_string(st.i[SoPlex::VERBOSITY]));
   // optimize() re-derives the simplifier / scaler pointers and the floating-point working tolerances from the parameters at
   // every solve and leaves them in a solve-specific state afterwards: they are parameter-owned only before the first solve
   w.push_back(solved ? "?" : st.i[SoPlex::SIMPLIFIER] == 0 ? "off" : st.i[SoPlex::SIMPLIFIER] == 2 ? "papilo" : "mainsm");
   w.push_back(solved ? "?" : std::to_string(st.i[SoPlex::SCALER]));
   w.push_back(std::to_string(st.i[SoPlex::STARTER]));
   w.push_back(std::to_string(st.i[SoPlex::PRICER]));
   w.push_back(std::to_string(st.i[SoPlex::RATIOTESTER]));
   w.push_back(std::to_string(st.i[SoPlex::TIMER]));
   w.push_back(std::to_string(st.i[SoPlex::SOLUTION_POLISHING]));
   w.push_back(std::to_string(st.i[SoPlex::PRINTBASISMETRIC]));
   w.push_back(std::to_string(st.i[SoPlex::STORE_BASIS_SIMPLEX_FREQ]));
   w.push_back(st.b[SoPlex::ROWBOUNDFLIPS] ? "1" : "0");
   w.push_back(st.b[SoPlex::FULLPERTURBATION] ? "1" : "0");
   w.push_back(st.i[SoPlex::SYNCMODE] != SoPlex::SYNCMODE_ONLYREAL ? "1" : "0");
   w.push_back(rtext(st.r[SoPlex::FEASTOL])); w.push_back(rtext(st.r[SoPlex::OPTTOL])); w.push_back(rtext(st.r[SoPlex::EPSILON_ZERO]));
   w.push_back(rtext(st.r[SoPlex::EPSILON_FACTORIZATION])); w.push_back(rtext(st.r[SoPlex::EPSILON_UPDATE])); w.push_back(rtext(st.r[SoPlex::EPSILON_PIVOT]));
   w.push_back(solved ? "?" : rtext(st.r[SoPlex::FPFEASTOL])); w.push_back(solved ? "?" : rtext(st.r[SoPlex::FPOPTTOL]));
   // rationals have no signed zero
   w.push_back(rtext(st.r[SoPlex::FEASTOL] + 0.0)); w.push_back(rtext(st.r[SoPlex::OPTTOL] + 0.0)); w.push_back(rtext(st.r[SoPlex::INFTY]));
   w.push_back(rtext(-st.r[SoPlex::INFTY])); w.push_back(rtext(st.r[SoPlex::MAXSCALEINCR]));
   w.push_back(rtext(st.r[SoPlex::MIN_MARKOWITZ]));
   // the least-squares scaler's own settings are "in use" only while that scaler is selected
   bool lsq = st.i[SoPlex::SCALER] == SoPlex::SCALER_LEASTSQ;
   w.push_back(lsq ? std::to_string(st.i[SoPlex::LEASTSQ_MAXROUNDS]) : "?");
   w.push_back(lsq ? rtext(st.r[SoPlex::LEASTSQ_ACRCY]) : "?");
}

// ---------------------------------------------------------------------------------------------------------------------
// initial states
// ---------------------------------------------------------------------------------------------------------------------
enum { INIT_EMPTY = 0, INIT_LOADED = 1, INIT_SOLVED = 2, NINIT = 3 };
static const char* INITNAME[] = {"no-lp", "lp-loaded", "lp-solved"};
static const char* LPTXT = "n=2;m=2;max=0;off=3;c=-1,-2;lo=0,0;up=4,inf;lhs=-inf,-1;rhs=4,2;A=8,1|0.5,-2";

static void make_init(SoPlex& s, Model& mo, PState& st, int init)
{
   silence(s);
   st = defaults();
   mo = Model();
   if(init == INIT_EMPTY) return;
   static const TinyLP lp = TinyLP::parse(LPTXT);
   load_real(s, lp, 0);      // sets OBJSENSE (minimize) and OBJ_OFFSET (3) through the typed setters
   mo = Model::from(lp);
   st.i[SoPlex::OBJSENSE] = SoPlex::OBJSENSE_MINIMIZE;
   st.r[SoPlex::OBJ_OFFSET] = 3;
   if(init == INIT_SOLVED) s.optimize();
}

// ---------------------------------------------------------------------------------------------------------------------
// the saved file, read by the harness itself
// ---------------------------------------------------------------------------------------------------------------------
struct FileLine { std::string type, name, value; };
static std::string trim(const std::string& s)
{
   size_t a = 0, b = s.size();
   while(a < b && (s[a] == ' ' || s[a] == '\t' || s[a] == '\r')) ++a;
   while(b > a && (s[b - 1] == ' ' || s[b - 1] == '\t' || s[b - 1] == '\r')) --b;
   return s.substr(a, b - a);
}
static bool read_settings_file(const std::string& path, std::vector<FileLine>& out, std::string& err)
{
   std::ifstream in(path);
   if(!in) { err = "cannot open " + path; return false; }
   std::string line;
   int ln = 0;
   while(std::getline(in, line))
   {
      ++ln;
      size_t h = line.find('#');
      if(h != std::string::npos) line = line.substr(0, h);
      line = trim(line);
      if(line.empty()) continue;
      size_t c = line.find(':'), e = line.find('=');
      if(c == std::string::npos || e == std::string::npos || e < c) { err = "line " + std::to_string(ln) + " is not type:name = value: " + line; return false; }
      FileLine f;
      f.type = trim(line.substr(0, c)); f.name = trim(line.substr(c + 1, e - c - 1)); f.value = trim(line.substr(e + 1));
      if(f.type.empty() || f.name.empty() || f.value.empty() || f.value.find(' ') != std::string::npos) { err = "line " + std::to_string(ln) + " malformed: " + line; return false; }
      out.push_back(f);
   }
   return true;
}
static bool find_param(const std::string& type, const std::string& name, PId& p)
{
   for(int g = 0; g < NPAR; ++g)
   {
      PId q = pid_of(g);
      if(type == KNAME[q.kind] && name == pname(q)) { p = q; return true; }
   }
   return false;
}
// strict literal -> value (what a correct loader must understand of a file written by saveSettingsFile)
static bool strict_value(int kind, const std::string& s, Val& v)
{
   char* end = nullptr;
   errno = 0;
   switch(kind)
   {
   case KB:
      if(s == "true") { v = vb(true); return true; }
      if(s == "false") { v = vb(false); return true; }
      return false;
   case KI:
   {
      long x = strtol(s.c_str(), &end, 10);
      if(*end || errno || x < INT_MIN || x > INT_MAX) return false;
      v = vi((int)x);
      return true;
   }
   case KR:
   {
      double x = strtod(s.c_str(), &end);
      if(*end) return false;
      v = vr(x);
      return true;
   }
   }
   unsigned long x = strtoul(s.c_str(), &end, 10);
   if(*end || errno || x > UINT_MAX || s[0] == '-') return false;
   v = vu((unsigned)x);
   return true;
}
// does the value have at most 9 significant decimal digits?
static bool nine_digit(double d)
{
   if(!std::isfinite(d)) return false;
   char b[48];
   snprintf(b, sizeof b, "%.8e", d);
   return same_bits(strtod(b, 0), d) || strtod(b, 0) == d;
}
// checks the file against the model; "" if fine
static std::string check_saved_file(const std::string& path, const PState& st, bool onlyChanged, Ctx& c, std::string& what)
{
   std::vector<FileLine> lines;
   std::string err;
   if(!read_settings_file(path, lines, err)) { what = "unreadable"; return err; }
   PState d = defaults();
   std::vector<int> seen(NPAR, 0);
   for(auto& f : lines)
   {
      PId p;
      if(!find_param(f.type, f.name, p)) { what = "unknown-line"; return "saved file has a line for an unknown parameter: " + f.type + ":" + f.name; }
      int g = p.kind == KB ? p.idx : p.kind == KI ? NB + p.idx : p.kind == KR ? NB + NI + p.idx : NPAR - 1;
      if(seen[g]++) { what = "duplicate-line"; return "saved file has two lines for " + f.name; }
      Val v;
      if(!strict_value(p.kind, f.value, v)) { what = "bad-literal/" + std::string(KNAME[p.kind]); return "saved file: unreadable value '" + f.value + "' for " + f.name; }
      Val m = st.get(p);
      bool ok = true;
      if(p.kind == KB) ok = v.b == m.b;
      else if(p.kind == KI) ok = v.i == m.i;
      else if(p.kind == KS) ok = v.u == m.u;
      else
      {
         if(nine_digit(m.r))
         {
            ok = (v.r == m.r);
            c.count("save.real_value_with_at_most_9_digits_checked_exact");
            char b6[48];
            snprintf(b6, sizeof b6, "%.5e", m.r);
            if(strtod(b6, 0) != m.r) c.count("save.real_value_needing_7_to_9_digits_checked_exact");
         }
         else { ok = std::fabs(v.r - m.r) <= 5e-9 * std::fabs(m.r); c.count("save.real_value_with_more_digits_checked_5e-9"); }
      }
      if(!ok) { what = "wrong-value/" + std::string(KNAME[p.kind]); return "saved file says " + f.type + ":" + f.name + " = " + f.value + " but the value set is " + vtext(m); }
   }
   for(int g = 0; g < NPAR; ++g)
   {
      PId p = pid_of(g);
      Val m = st.get(p), dv = d.get(p);
      bool isdef = p.kind == KB ? m.b == dv.b : p.kind == KI ? m.i == dv.i : p.kind == KR ? m.r == dv.r : m.u == dv.u;
      bool want = !onlyChanged || !isdef;
      if(want && !seen[g]) { what = "missing-line/" + std::string(KNAME[p.kind]); return "saved file lacks " + std::string(KNAME[p.kind]) + ":" + pname(p) + " (value " + vtext(m) + ")"; }
      if(!want && seen[g]) { what = "default-written-with-onlyChanged/" + std::string(KNAME[p.kind]); return "onlyChanged file contains the default-valued " + pname(p); }
   }
   return "";
}
// effect of loading a file on the model = the typed setter calls of its lines, in order
static void model_load(const std::string& path, PState& st, Ctx& c)
{
   std::vector<FileLine> lines;
   std::string err;
   if(!read_settings_file(path, lines, err)) return;
   for(auto& f : lines)
   {
      PId p;
      Val v;
      if(!find_param(f.type, f.name, p) || !strict_value(p.kind, f.value, v)) continue;
      if(model_set(st, p, v)) c.count("load.lines_applied_to_model");
      else c.count("load.lines_rejected_by_model");
   }
}

// ---------------------------------------------------------------------------------------------------------------------
// judging an object against the model
// ---------------------------------------------------------------------------------------------------------------------
static std::map<std::string, uint64_t> g_sigcount;   // per worker process
struct Judge
{
   Ctx& c;
   std::function<std::string()> cs;       // case string (built only when needed)
   std::function<std::string()> pretty;   // human-readable description
   bool bad = false;
   void viol(const std::string& sig, const std::string& detail)
   {
      bad = true;
      // the known findings about copies fire on every history that contains a copy: after the first 500 occurrences of a
      // signature in a worker process further ones are only counted (keeps the result stream small); nothing is dropped silently
      if(++g_sigcount[sig] > 500) { c.count("violations_counted_not_itemised." + sig); return; }
      c.violation(sig, cs(), detail + " | " + pretty());
   }
};

// getters + wiring + LP against the model; `op` is the short operation name used in wiring signatures, `opdesc` the full one,
// `who` a suffix ("@copy" when the object judged was produced by the copy constructor)
static void check_state(SoPlex& s, const PState& st, Model& mo, Judge& j, const std::string& op, const std::string& opdesc, bool solved,
                        const std::string& who = "", bool wiring = true)
{
   std::string detail;
   PState g = getters(s);
   std::string d = first_diff(g, st, detail);
   if(!d.empty()) { j.viol("getter-mismatch:" + opdesc + who + "/" + d, detail); }
   std::vector<std::string> wa, we;
   wiring_actual(s, wa);
   wiring_expected(st, we, solved);
   for(int k = 0; wiring && k < NW; ++k)
      if(we[k] != "?" && wa[k] != we[k])
         j.viol(std::string("used-differs-from-set:") + WNAME[k] + ":" + op + who, std::string(WNAME[k]) + " in use is " + wa[k] + " but the parameters say " + we[k]);
   mo.maximize = st.i[SoPlex::OBJSENSE] == SoPlex::OBJSENSE_MAXIMIZE;
   mo.offset = st.r[SoPlex::OBJ_OFFSET];
   if(s._realLP->isScaled() && s._scaler == nullptr)
   {
      // every unscaling accessor (getRowVectorReal, lhsReal, ...) would dereference the null scaler: the LP cannot be read back
      j.viol("lp-unreadable:persistently-scaled-lp-without-scaler:" + op + who,
             "the stored LP is persistently scaled but the scaler pointer is null after the operation; accessors of the LP dereference it");
      return;
   }
   std::string lp = compare_real(s, mo);
   if(!lp.empty()) j.viol("lp-changed:" + opdesc + who, lp);
}
// raw observation vector (getters, wiring, LP rows/cols) for before/after comparison of rejected operations
static std::vector<std::string> raw_obs(SoPlex& s)
{
   std::vector<std::string> v;
   PState g = getters(s);
   for(int k = 0; k < NPAR; ++k) v.push_back(vtext(g.get(pid_of(k))));
   std::vector<std::string> w;
   wiring_actual(s, w);
   v.insert(v.end(), w.begin(), w.end());
   v.push_back(std::to_string(s.numRows()) + "x" + std::to_string(s.numCols()) + "/" + std::to_string(s.numNonzeros()));
   return v;
}
static std::string raw_name(int k) { return k < NPAR ? pname(pid_of(k)) : k < NPAR + NW ? WNAME[k - NPAR] : "lp.dimensions"; }

// ---------------------------------------------------------------------------------------------------------------------
// value menus
// ---------------------------------------------------------------------------------------------------------------------
struct MVal { Val v; std::string cls; };

static double interior9(int k)
{
   static const double C[] = {0.123456789, 1.23456789, 12.3456789, 0.0123456789, 1.23456789e10, 0.00123456789, 123.456789, 1.23456789e-5, 1.23456789e25};
   double lo = rlo(k), up = rup(k), d = SoPlex::Settings::realParam.defaultValue[k];
   for(double x : C) if(x > lo && x < up && x != d) return x;
   return d;
}
static std::vector<MVal> menu(PId p)
{
   std::vector<MVal> m;
   auto add = [&](const Val& v, const std::string& cls)
   {
      for(auto& e : m)
         if(p.kind == KR ? same_bits(e.v.r, v.r) : p.kind == KI ? e.v.i == v.i : p.kind == KB ? e.v.b == v.b : e.v.u == v.u) return;
      m.push_back({v, cls});
   };
   if(p.kind == KB)
   {
      bool d = SoPlex::Settings::boolParam.defaultValue[p.idx];
      add(vb(!d), (!HAVE_PAPILO && papilo_bool(p.idx)) ? "build-restricted" : "non-default");
      add(vb(d), "default");
   }
   else if(p.kind == KI)
   {
      int lo = ilo(p.idx), up = iup(p.idx), d = SoPlex::Settings::intParam.defaultValue[p.idx];
      auto cls = [&](int x) -> std::string
      {
         if(x < lo) return x == INT_MIN ? "INT_MIN" : "below-lower";
         if(x > up) return x == INT_MAX ? "INT_MAX" : "above-upper";
         if(p.idx == SoPlex::OBJSENSE && x == 0) return "not-a-choice";
         if(p.idx == SoPlex::SIMPLIFIER && x == 2 && !HAVE_PAPILO) return "build-restricted";
         return x == lo ? "lower" : x == up ? "upper" : x == d ? "default" : "in-range";
      };
      add(vi(lo), cls(lo)); add(vi(up), cls(up)); add(vi(d), cls(d));
      if((long)up - lo + 3 <= 12)
         for(int x = lo - 1; x <= up + 1; ++x) add(vi(x), cls(x));
      else
      {
         int in = (up == INT_MAX) ? (lo < 0 ? 12345 : lo + 12345) : lo + (up - lo) / 2;
         add(vi(in), cls(in));
         if(lo > INT_MIN) add(vi(lo - 1), cls(lo - 1));
         if(up < INT_MAX) add(vi(up + 1), cls(up + 1));
      }
      add(vi(INT_MIN), cls(INT_MIN)); add(vi(INT_MAX), cls(INT_MAX));
   }
   else if(p.kind == KR)
   {
      double lo = rlo(p.idx), up = rup(p.idx), d = SoPlex::Settings::realParam.defaultValue[p.idx];
      bool restricted = (p.idx == SoPlex::SIMPLIFIER_MODIFYROWFAC && !HAVE_PAPILO);
      auto cls = [&](const char* s) { return std::string(restricted ? "build-restricted/" : "") + s; };
      add(vr(d), "default");
      add(vr(lo), cls("lower")); add(vr(up), cls("upper"));
      double i9 = interior9(p.idx);
      add(vr(i9), cls("interior-9-digits"));
      double i17 = i9 * (1 + 1.0 / 1048576) * (1 + 1.0 / 3e9);
      if(i17 > lo && i17 < up) add(vr(i17), cls("interior-17-digits"));
      add(vr(std::nextafter(lo, INFINITY)), cls("just-above-lower"));
      add(vr(std::nextafter(up, -INFINITY)), cls("just-below-upper"));
      if(lo <= 0 && up >= 0) add(vr(-0.0), cls("minus-zero"));
      add(vr(std::nextafter(lo, -INFINITY)), "below-lower");
      add(vr(std::nextafter(up, INFINITY)), "above-upper");
      add(vr(INFINITY), "+inf"); add(vr(-INFINITY), "-inf"); add(vr(std::nan("")), "NaN");
      add(vr(DBL_MAX), "+DBL_MAX"); add(vr(-DBL_MAX), "-DBL_MAX");
   }
   else
   {
      add(vu(0), "default"); add(vu(1), "in-range"); add(vu(12345), "in-range"); add(vu(UINT_MAX), "upper");
   }
   return m;
}
// focus values of the histories: two accepted values, the default, one rejected value (typed)
static std::vector<MVal> focus_values(PId p, bool thorough)
{
   std::vector<MVal> all = menu(p), out;
   PState d = defaults();
   auto valid = [&](const MVal& e) { return model_valid(d, p, e.v); };
   auto isdef = [&](const MVal& e) { Val x = d.get(p); return p.kind == KR ? e.v.r == x.r : p.kind == KI ? e.v.i == x.i : p.kind == KB ? e.v.b == x.b : e.v.u == x.u; };
   // V1: first accepted non-default value that is not a boundary artefact; V2: another accepted non-default value
   std::vector<MVal> good;
   for(auto& e : all)
      if(valid(e) && !isdef(e) && e.cls != "just-above-lower" && e.cls != "just-below-upper" && e.cls != "minus-zero" && e.cls != "interior-17-digits") good.push_back(e);
   // prefer the 9-digit interior value first for reals (exact round trip demanded)
   std::stable_sort(good.begin(), good.end(), [](const MVal & a, const MVal & b) { return (a.cls == "interior-9-digits") > (b.cls == "interior-9-digits"); });
   // scaler=off on a solved, persistently scaled LP makes the LP unreadable (known finding, reached by the single operations and the
   // round trips); inside the history product the scaler focus values are two real scalers so that the LP stays comparable
   if(p.kind == KI && p.idx == SoPlex::SCALER)
      std::stable_sort(good.begin(), good.end(), [](const MVal & a, const MVal & b) { return (a.v.i != 0) > (b.v.i != 0); });
   for(size_t k = 0; k < good.size() && out.size() < 2; ++k) out.push_back(good[k]);
   if(thorough || out.size() < 2)
      for(auto& e : all) if(isdef(e)) { out.push_back(e); break; }
   for(auto& e : all)
      if(!valid(e) && (e.cls == "not-a-choice")) { out.push_back(e); return out; }
   for(auto& e : all)
      if(!valid(e) && e.cls != "NaN" && e.cls != "+inf" && e.cls != "-inf" && e.cls != "+DBL_MAX" && e.cls != "-DBL_MAX" && e.cls != "INT_MIN" && e.cls != "INT_MAX")
      { out.push_back(e); break; }
   return out;
}

// ---------------------------------------------------------------------------------------------------------------------
// single operations through the three front ends
// ---------------------------------------------------------------------------------------------------------------------
enum { FE_TYPED = 0, FE_PARSE = 1, FE_LOAD = 2 };
static const char* FENAME[] = {"set", "parse", "load"};
enum { E_MODEL = 0, E_REJECT = 1, E_LENIENT = 2, E_NOOP = 3, E_LENIENT_ANY = 4 };

struct SCase
{
   int init = 0, pre = 0, fe = 0;
   PId p;
   Val v;             // typed value / intended value
   int expect = E_MODEL;
   std::string cls;
   std::string line;  // text front ends
   std::string str() const
   {
      return "S|" + std::to_string(init) + "|" + std::to_string(pre) + "|" + std::to_string(fe) + "|" + std::to_string(p.kind) + "|" + std::to_string(p.idx)
             + "|" + std::to_string(expect) + "|" + penc(cls) + "|" + vtext(v) + "|" + penc(line);
   }
   static SCase parse(const std::vector<std::string>& f)
   {
      SCase s;
      s.init = atoi(f[1].c_str()); s.pre = atoi(f[2].c_str()); s.fe = atoi(f[3].c_str());
      s.p.kind = atoi(f[4].c_str()); s.p.idx = atoi(f[5].c_str()); s.expect = atoi(f[6].c_str());
      s.cls = pdec(f[7]); s.v = vparse(s.p.kind, f[8]); s.line = f.size() > 9 ? pdec(f[9]) : "";
      return s;
   }
   std::string opdesc() const { return std::string(FENAME[fe]) + "(" + KNAME[p.kind] + "," + cls + ")"; }
   std::string pretty() const
   {
      std::string s = std::string("from '") + INITNAME[init] + "'" + (pre ? " with non-default parameters" : "") + ": ";
      if(fe == FE_TYPED) s += std::string("set") + KNAME[p.kind] + "(" + pname(p) + ", " + vtext(v) + ")";
      else s += std::string(fe == FE_PARSE ? "parseSettingsString" : "loadSettingsFile of the line") + " <" + penc(line) + ">";
      return s;
   }
};
static std::vector<SCase> g_singles;
static std::string g_outdir;

static void build_singles()
{
   for(int init = 0; init < NINIT; ++init)
      for(int pre = 0; pre < 2; ++pre)
         for(int g = 0; g < NPAR; ++g)
         {
            PId p = pid_of(g);
            std::string type = KNAME[p.kind], name = pname(p);
            std::vector<MVal> mv = menu(p);
            auto push = [&](int fe, const Val& v, int expect, const std::string& cls, const std::string& line)
            {
               SCase s;
               s.init = init; s.pre = pre; s.fe = fe; s.p = p; s.v = v; s.expect = expect; s.cls = cls; s.line = line;
               g_singles.push_back(s);
            };
            auto both = [&](const Val& v, int expect, const std::string& cls, const std::string& line)
            {
               push(FE_PARSE, v, expect, cls, line);
               push(FE_LOAD, v, expect, cls, line);
            };
            // (1) every menu value through the three front ends, canonical text
            for(auto& e : mv)
            {
               push(FE_TYPED, e.v, E_MODEL, e.cls, "");
               both(e.v, E_MODEL, e.cls, type + ":" + name + "=" + vtext(e.v));
            }
            // (2) whitespace / comment variants of an accepted non-default and of a rejected value
            std::vector<MVal> fv = focus_values(p, false);
            for(size_t q = 0; q < fv.size(); ++q)
            {
               if(q == 1) continue;
               std::string val = vtext(fv[q].v);
               both(fv[q].v, E_MODEL, "ws:" + fv[q].cls, type + ":" + name + " = " + val);
               both(fv[q].v, E_MODEL, "ws:" + fv[q].cls, "  " + type + " :\t" + name + "\t=  " + val + "  ");
               both(fv[q].v, E_MODEL, "ws:" + fv[q].cls, type + ":" + name + "=" + val + " # comment");
               both(fv[q].v, E_MODEL, "ws:" + fv[q].cls, type + ":" + name + "=" + val + "\r");
            }
            // (3) malformed lines around an accepted non-default value (acceptance would be visible)
            Val good = fv[0].v;
            std::string gv = vtext(good);
            for(int k = 0; k < 4; ++k)
               if(k != p.kind) both(good, E_REJECT, "wrong-type", std::string(KNAME[k]) + ":" + name + "=" + gv);
            auto known = [&](const std::string& n) { PId q; return find_param(type, n, q); };
            if(!known(name + "x")) both(good, E_REJECT, "name-extended", type + ":" + name + "x=" + gv);
            if(!known(name.substr(0, name.size() - 1))) both(good, E_REJECT, "name-truncated", type + ":" + name.substr(0, name.size() - 1) + "=" + gv);
            {
               std::string upn = name;
               for(auto& ch : upn) ch = (char)toupper(ch);
               if(upn != name && !known(upn)) both(good, E_REJECT, "name-uppercase", type + ":" + upn + "=" + gv);
            }
            both(good, E_REJECT, "no-equals", type + ":" + name + " " + gv);
            both(good, E_REJECT, "no-colon", type + " " + name + "=" + gv);
            both(good, E_REJECT, "no-value", type + ":" + name + "=");
            both(good, E_REJECT, "extra-token", type + ":" + name + "=" + gv + " " + gv);
            both(good, E_REJECT, "empty-name", type + ":=" + gv);
            both(good, E_REJECT, "unknown-type", "float:" + name + "=" + gv);
            both(good, E_LENIENT, "type-extended", type + "x:" + name + "=" + gv);
            both(good, E_LENIENT, "value-trailing-garbage", type + ":" + name + "=" + gv + "x");
            // (4) values that exist only as text
            if(p.kind == KB)
            {
               for(const char* t : {"TRUE", "True", "t", "T", "1"}) both(vb(true), E_MODEL, "literal-true", type + ":" + name + "=" + t);
               for(const char* t : {"FALSE", "False", "f", "F", "0"}) both(vb(false), E_MODEL, "literal-false", type + ":" + name + "=" + t);
               for(const char* t : {"yes", "on", "x", "2", "-1"}) both(good, E_REJECT, "invalid-literal", type + ":" + name + "=" + t);
            }
            else if(p.kind == KI)
            {
               for(const char* t : {"2147483648", "-2147483649", "99999999999999999999"}) both(good, E_REJECT, "overflow", type + ":" + name + "=" + t);
               both(good, E_REJECT, "garbage-value", type + ":" + name + "=abc");
            }
            else if(p.kind == KR)
            {
               for(const char* t : {"1e999", "-1e999"}) both(good, E_REJECT, "overflow", type + ":" + name + "=" + t);
               both(vr(0.0), E_LENIENT, "underflow", type + ":" + name + "=1e-999");
               both(good, E_REJECT, "garbage-value", type + ":" + name + "=abc");
            }
            else
            {
               both(good, E_REJECT, "garbage-value", type + ":" + name + "=abc");
               both(good, E_LENIENT_ANY, "above-UINT_MAX", type + ":" + name + "=4294967296");
               both(good, E_LENIENT_ANY, "negative", type + ":" + name + "=-1");
            }
            if(g == 0)
            {
               both(good, E_NOOP, "blank", "");
               both(good, E_NOOP, "blank", "   \t ");
               both(good, E_NOOP, "comment", "# bool:lifting=true");
            }
         }
}

// non-default starting state for the "pre" variant
static void apply_pre(SoPlex& s, PState& st, PId target)
{
   std::vector<std::pair<PId, Val>> pre;
   auto P = [](int k, int i) { PId p; p.kind = k; p.idx = i; return p; };
   pre.push_back({P(KB, SoPlex::LIFTING), vb(true)});
   pre.push_back({P(KI, SoPlex::DISPLAYFREQ), vi(77)});
   pre.push_back({P(KI, SoPlex::SCALER), vi(3)});
   pre.push_back({P(KR, SoPlex::MINRED), vr(0.25)});
   pre.push_back({P(KR, SoPlex::OBJ_OFFSET), vr(1.5)});
   pre.push_back({P(KS, 0), vu(42)});
   std::vector<MVal> fv = focus_values(target, false);
   pre.push_back({target, fv[0].v});
   for(auto& e : pre)
   {
      model_set(st, e.first, e.second);
      do_typed(s, e.first, e.second);
   }
}

static uint64_t run_single(const SCase& sc, Ctx& c)
{
   SoPlex s;
   Model mo;
   PState st;
   make_init(s, mo, st, sc.init);
   if(sc.pre) apply_pre(s, st, sc.p);
   Judge j{c, [&]() { return sc.str(); }, [&]() { return sc.pretty(); }};
   // shape of the one-line settings file: every (parameter, value) pair occurs under several (init, pre) combinations, so all three shapes are exercised for it
   static const char* SHAPE[] = {"", "+no-trailing-newline", "+after-comment-and-blank-line"};
   int shape = sc.fe == FE_LOAD ? (sc.init + sc.pre + sc.p.idx) % 3 : 0;
   std::string opdesc = sc.opdesc() + SHAPE[shape], op = FENAME[sc.fe];
   // sanity of the starting point (also makes the pre-state part of the check)
   {
      std::string dd;
      PState g0 = getters(s);
      if(!first_diff(g0, st, dd).empty()) { j.viol("start-state-mismatch:" + std::string(INITNAME[sc.init]), dd); return 1; }
   }
   std::vector<std::string> before = raw_obs(s);
   PState stBefore = st;
   c.count(std::string("single.") + FENAME[sc.fe] + "." + KNAME[sc.p.kind] + "." + sc.cls);
   CallRes r;
   std::string path;
   if(sc.fe == FE_TYPED) r = do_typed(s, sc.p, sc.v);
   else if(sc.fe == FE_PARSE) r = do_parse(s, sc.line);
   else
   {
      path = g_outdir + "/one-" + std::to_string(getpid()) + ".set";
      { std::ofstream f(path); if(shape == 2) f << "# a comment line\n\n"; f << sc.line; if(shape != 1) f << "\n"; }
      c.count(std::string("single.load.file_shape") + (shape ? SHAPE[shape] : "+plain"));
      r = do_load(s, path);
   }
   c.count("single.executed");
   // expectation
   bool wantAccept = false, lenient = false;
   switch(sc.expect)
   {
   case E_MODEL: wantAccept = model_valid(st, sc.p, sc.v); break;
   case E_REJECT: wantAccept = false; break;
   case E_NOOP: wantAccept = false; break;
   default: lenient = true;
   }
   if(r.threw)
   {
      j.viol("exception-escapes:" + std::string(FENAME[sc.fe]) + "(" + KNAME[sc.p.kind] + ")/" + r.exc,
             "a " + r.exc + " left the call instead of a false return (value class " + sc.cls + ")");
      c.count("single.exception_escaped");
      // nothing may have changed
      std::vector<std::string> after = raw_obs(s);
      for(size_t k = 0; k < after.size(); ++k)
         if(after[k] != before[k]) { j.viol("changed-by-throwing-call:" + opdesc + "/" + raw_name((int)k), raw_name((int)k) + " was " + before[k] + ", now " + after[k]); break; }
      return 2;
   }
   bool accepted;     // did the object take the value?
   if(lenient)
   {
      // either rejected and unchanged, or accepted as the intended value
      if(sc.fe == FE_LOAD)
      {
         PState g = getters(s);
         accepted = !(g == stBefore);
      }
      else accepted = r.ret;
      c.count(std::string("lenient.") + sc.cls + (accepted ? ".accepted" : ".rejected"));
      if(accepted)
      {
         if(sc.expect == E_LENIENT_ANY) st.seed = s.randomSeed();
         else if(!model_set(st, sc.p, sc.v)) { /* intended value itself invalid: then nothing may change */ }
      }
   }
   else if(sc.expect == E_NOOP)
   {
      accepted = false;
      c.count(r.ret ? "noop.returned_true" : "noop.returned_false");
   }
   else
   {
      // loadSettingsFile reports per-line failures only through its effect (it ignores the result of the line parser)
      bool took = r.ret;
      if(sc.fe == FE_LOAD)
      {
         if(!r.ret) j.viol("load-failed:" + opdesc, "loadSettingsFile returned false for a readable one-line file");
         PState g = getters(s), exp = stBefore;
         if(wantAccept) model_set(exp, sc.p, sc.v);
         took = !(g == stBefore) || (wantAccept && exp == stBefore);
         if(!wantAccept && r.ret) c.count("observation.load_returned_true_although_its_line_was_rejected");
      }
      if(!wantAccept && took)
      {
         c.count("single.invalid_accepted");
         std::string dd;
         PState g = getters(s);
         first_diff(g, stBefore, dd);
         j.viol("invalid-accepted:" + opdesc, std::string("returned true / took effect for a value that must be rejected") + (dd.empty() ? "" : " (" + dd + ")"));
         if(!path.empty()) unlink(path.c_str());
         return 3;
      }
      if(wantAccept && !took)
      {
         c.count("single.valid_rejected");
         j.viol("valid-rejected:" + opdesc, "returned false / had no effect for a value inside the documented range");
      }
      accepted = wantAccept && took;
      if(accepted) model_set(st, sc.p, sc.v);
      c.count(accepted ? "single.accepted" : "single.rejected");
      if(!accepted && !(stBefore == defaults())) c.count("atomicity.rejected_from_non_default_state");
   }
   if(!accepted)
   {
      std::vector<std::string> after = raw_obs(s);
      for(size_t k = 0; k < after.size(); ++k)
         if(after[k] != before[k]) { j.viol("rejected-but-changed:" + opdesc + "/" + raw_name((int)k), raw_name((int)k) + " was " + before[k] + ", now " + after[k] + " after a rejected operation"); break; }
   }
   // after a rejected operation the wiring was just compared with its state before the call; against the model it is compared
   // in the cases where the operations that built that state are themselves the operation judged
   check_state(s, st, mo, j, op, opdesc, sc.init == INIT_SOLVED, "", accepted);
   if(!path.empty()) unlink(path.c_str());
   if(accepted && !(st == stBefore)) c.count("single.state_changing");
   c.state(std::to_string(sc.init) + ":" + st.digest());
   if((fnv_str(st.digest()) % 97) == 0 && c.wantSample())
      c.sample("{\"case\":" + jstr(sc.pretty()) + ",\"expectation\":" + jstr(lenient ? "lenient" : wantAccept ? "accept" : "reject") + ",\"returned\":" + (r.ret ? "true" : "false") + "}");
   return 5 + (accepted ? 1 : 0) + fnv_str(st.digest());
}

// ---------------------------------------------------------------------------------------------------------------------
// histories
// ---------------------------------------------------------------------------------------------------------------------
enum { H_SET = 0, H_SAVE0, H_SAVE1, H_LOAD, H_RESET, H_SETSETTINGS, H_COPY };
static const char* HNAME[] = {"set", "save(onlyChanged=0)", "save(onlyChanged=1)", "load", "reset", "setSettings", "copy"};
static const char* HTOK[] = {"set", "sv0", "sv1", "ld", "rs", "ss", "cp"};
struct HOp
{
   int kind = H_SET;
   PId p;
   Val v;
   std::string cls;
   std::string str() const
   {
      if(kind != H_SET) return HTOK[kind];
      return "set," + std::to_string(p.kind) + "," + std::to_string(p.idx) + "," + vtext(v) + "," + penc(cls);
   }
   static HOp parse(const std::string& s)
   {
      HOp o;
      for(int k = 1; k <= H_COPY; ++k) if(s == HTOK[k]) { o.kind = k; return o; }
      auto f = split(s, ',');
      o.kind = H_SET; o.p.kind = atoi(f[1].c_str()); o.p.idx = atoi(f[2].c_str()); o.v = vparse(o.p.kind, f[3]); o.cls = f.size() > 4 ? pdec(f[4]) : "";
      return o;
   }
   std::string pretty() const
   {
      if(kind != H_SET) return HNAME[kind];
      return std::string("set") + KNAME[p.kind] + "(" + pname(p) + "," + vtext(v) + ")";
   }
   std::string opdesc() const
   {
      if(kind != H_SET) return HNAME[kind];
      return std::string("set(") + KNAME[p.kind] + "," + cls + ")";
   }
};
struct Hist
{
   int init = 0;
   std::vector<std::pair<PId, Val>> other;    // non-default values of the second object (source of setSettings)
   std::vector<HOp> ops;
   std::string str() const
   {
      std::string s = "H|" + std::to_string(init) + "|";
      for(size_t k = 0; k < other.size(); ++k) s += (k ? "&" : "") + std::to_string(other[k].first.kind) + "," + std::to_string(other[k].first.idx) + "," + vtext(other[k].second);
      s += "|";
      for(size_t k = 0; k < ops.size(); ++k) s += (k ? "/" : "") + ops[k].str();
      return s;
   }
   static Hist parse(const std::vector<std::string>& f)
   {
      Hist h;
      h.init = atoi(f[1].c_str());
      if(!f[2].empty())
         for(auto& e : split(f[2], '&'))
         {
            auto q = split(e, ',');
            PId p;
            p.kind = atoi(q[0].c_str()); p.idx = atoi(q[1].c_str());
            h.other.push_back({p, vparse(p.kind, q[2])});
         }
      if(f.size() > 3 && !f[3].empty()) for(auto& e : split(f[3], '/')) h.ops.push_back(HOp::parse(e));
      return h;
   }
   std::string pretty() const
   {
      std::string s = std::string("from '") + INITNAME[init] + "': ";
      for(size_t k = 0; k < ops.size(); ++k) s += (k ? " ; " : "") + ops[k].pretty();
      s += "  [second object:";
      for(auto& e : other) s += " " + pname(e.first) + "=" + vtext(e.second);
      return s + "]";
   }
};

// executes the history on a fresh object; judges the LAST operation (every prefix is a history of its own).
static uint64_t run_hist(const Hist& h, Ctx& c)
{
   std::unique_ptr<SoPlex> sp(new SoPlex());
   Model mo;
   PState st;
   make_init(*sp, mo, st, h.init);
   Judge j{c, [&]() { return h.str(); }, [&]() { return h.pretty(); }};
   std::string file = g_outdir + "/hist-" + std::to_string(getpid()) + ".set";
   unlink(file.c_str());
   bool haveFile = false;
   uint64_t dig = 17;
   bool observesEarlier = false;
   bool isCopy = false, lastRejected = false;
   // sources of copies stay alive until the history ends: whether a copy survives the death of its source is C17's question
   std::vector<std::unique_ptr<SoPlex>> sources;
   for(size_t k = 0; k < h.ops.size(); ++k)
   {
      const HOp& op = h.ops[k];
      bool last = (k + 1 == h.ops.size());
      SoPlex& s = *sp;
      std::string opdesc = op.opdesc(), opn = op.kind == H_SET ? "set" : op.kind == H_SAVE0 || op.kind == H_SAVE1 ? "save" : HNAME[op.kind];
      PState stBefore = st;
      std::vector<std::string> before;
      if(last) before = raw_obs(s);
      switch(op.kind)
      {
      case H_SET:
      {
         bool want = model_valid(st, op.p, op.v);
         CallRes r = do_typed(s, op.p, op.v);
         if(last)
         {
            if(r.threw) { j.viol("exception-escapes:set(" + std::string(KNAME[op.p.kind]) + ")/" + r.exc, "exception left a typed setter"); return 2; }
            if(!want && r.ret) { j.viol("invalid-accepted:" + opdesc, "returned true for a value that must be rejected"); return 3; }
            if(want && !r.ret) j.viol("valid-rejected:" + opdesc, "returned false for a value inside the documented range");
            if(!want)
            {
               lastRejected = true;
               c.count("hist.rejected_sets");
               if(!(stBefore == defaults())) c.count("atomicity.rejected_from_non_default_state");
               std::vector<std::string> after = raw_obs(s);
               for(size_t q = 0; q < after.size(); ++q)
                  if(after[q] != before[q]) { j.viol("rejected-but-changed:" + opdesc + "/" + raw_name((int)q), raw_name((int)q) + " was " + before[q] + ", now " + after[q]); break; }
            }
         }
         if(want) model_set(st, op.p, op.v);
         break;
      }
      case H_SAVE0: case H_SAVE1:
      {
         bool oc = op.kind == H_SAVE1;
         CallRes r = guarded([&]() { return s.saveSettingsFile(file.c_str(), oc); });
         haveFile = true;
         if(last)
         {
            if(r.threw || !r.ret) j.viol("save-failed:" + opdesc, r.threw ? r.exc : "saveSettingsFile returned false");
            else
            {
               std::string what, e = check_saved_file(file, st, oc, c, what);
               if(!e.empty()) j.viol("saved-file-wrong:" + opdesc + "/" + what, e);
               c.count("hist.saved_files_checked");
               if(!(st == defaults())) { c.count("hist.saved_files_with_non_default_values"); observesEarlier = true; }
            }
         }
         break;
      }
      case H_LOAD:
      {
         CallRes r = do_load(s, file);
         if(haveFile) model_load(file, st, c);
         if(last)
         {
            if(haveFile)
            {
               if(r.threw) { j.viol("exception-escapes:load(file)/" + r.exc, "exception left loadSettingsFile of a file written by saveSettingsFile"); return 2; }
               if(!r.ret) j.viol("load-failed:load", "loadSettingsFile returned false for a file written by saveSettingsFile");
               observesEarlier = true;
            }
            else
            {
               // nothing was saved yet: the file does not exist.  The property says nothing about the return value here; the
               // parameters and the LP must be untouched (checked below)
               c.count(r.threw ? "observation.load_of_missing_file_throws_" + r.exc : r.ret ? "observation.load_of_missing_file_returns_true" : "observation.load_of_missing_file_returns_false");
            }
            c.count(haveFile ? "hist.load_after_save" : "hist.load_of_missing_file");
         }
         break;
      }
      case H_RESET:
      {
         CallRes r = guarded([&]() { s.resetSettings(); return true; });
         PState d = defaults();
         st.b = d.b; st.i = d.i; st.r = d.r; st.seed = d.seed;
         if(last)
         {
            if(r.threw) { j.viol("exception-escapes:reset/" + r.exc, "exception left resetSettings"); return 2; }
            if(!(stBefore == d)) { c.count("hist.reset_from_non_default_state"); observesEarlier = true; }
         }
         break;
      }
      case H_SETSETTINGS:
      {
         SoPlex other;
         silence(other);
         PState os = defaults();
         for(auto& e : h.other) { if(model_set(os, e.first, e.second)) do_typed(other, e.first, e.second); }
         if(last)
         {
            std::string dd;
            PState og = getters(other);
            if(!first_diff(og, os, dd).empty()) { j.viol("second-object-not-as-set:setSettings", dd); return 4; }
         }
         CallRes r = guarded([&]() { return s.setSettings(other.settings()); });
         unsigned keepSeed = st.seed;
         st = os;
         st.seed = keepSeed;    // the Settings object does not carry the seed
         if(last)
         {
            if(r.threw) { j.viol("exception-escapes:setSettings/" + r.exc, "exception left setSettings"); return 2; }
            if(!r.ret) j.viol("valid-rejected:setSettings", "setSettings returned false for the settings of a consistently configured object");
            c.count("hist.setsettings");
            observesEarlier = true;
         }
         break;
      }
      case H_COPY:
      {
         std::unique_ptr<SoPlex> cp;
         CallRes r = guarded([&]() { cp.reset(new SoPlex(s)); return true; });
         if(r.threw) { if(last) j.viol("exception-escapes:copy/" + r.exc, "exception left the copy constructor"); return 2; }
         if(last)
         {
            // the source must be untouched
            std::vector<std::string> after = raw_obs(s);
            for(size_t q = 0; q < after.size(); ++q)
               if(after[q] != before[q]) { j.viol("copy-changed-source:copy/" + raw_name((int)q), raw_name((int)q) + " of the source was " + before[q] + ", now " + after[q]); break; }
            c.count("hist.copies");
            if(!(st == defaults())) observesEarlier = true;
         }
         if(cp->randomSeed() != st.seed) { if(last) c.count("observation.copy_does_not_carry_the_random_seed"); st.seed = cp->randomSeed(); }
         sources.push_back(std::move(sp));
         sp = std::move(cp);
         isCopy = true;
         break;
      }
      }
      SoPlex& now = *sp;
      if(last)
      {
         c.count("hist.sequences");
         c.count(std::string("hist.lastop.") + HNAME[op.kind]);
         check_state(now, st, mo, j, opn, opdesc, h.init == INIT_SOLVED, isCopy ? "@copy" : "", !lastRejected);
         if(!(st == stBefore)) { c.count("hist.state_changing"); observesEarlier = observesEarlier || k > 0; }
         if(observesEarlier && k > 0) c.count("hist.nontrivial");
         c.state(std::to_string(h.init) + ":" + st.digest());
         dig = dig * 31 + fnv_str(st.digest()) + (j.bad ? 7 : 0);
      }
      else
      {
         // a deviation in a prefix is judged in the history that ends there; continue from what the object really holds
         PState g = getters(now);
         if(!(g == st)) { st = g; c.count("hist.resynchronised_after_prefix_deviation"); }
      }
   }
   unlink(file.c_str());
   if(h.ops.size() >= 2 && (dig % 9973) == 0 && c.wantSample())
      c.sample("{\"history\":" + jstr(h.pretty()) + ",\"violation\":" + (j.bad ? "true" : "false") + "}");
   return dig;
}

// focus operations per parameter and the value the second object holds for it (computed once)
static std::vector<std::vector<HOp>> g_focus;
static std::vector<std::pair<bool, Val>> g_otherval;
static void build_focus(bool thorough)
{
   g_focus.assign(NPAR, {});
   g_otherval.assign(NPAR, {false, Val()});
   for(int g = 0; g < NPAR; ++g)
   {
      PId p = pid_of(g);
      for(auto& e : focus_values(p, thorough))
      {
         HOp o;
         o.kind = H_SET; o.p = p; o.v = e.v; o.cls = e.cls;
         g_focus[g].push_back(o);
      }
      auto fv = focus_values(p, false);
      if(p.kind != KS)
      {
         Val v = fv.size() > 1 && model_valid(defaults(), p, fv[1].v) ? fv[1].v : fv[0].v;
         // setSettings with syncmode=AUTO on an object that stores only the real LP crashes (recorded by dedicated cases of the
         // round-trip phase); inside the history product the second object uses syncmode=MANUAL so that the product stays complete
         if(p.kind == KI && p.idx == SoPlex::SYNCMODE) v = vi(SoPlex::SYNCMODE_MANUAL);
         g_otherval[g] = {true, v};
      }
   }
}
static std::vector<HOp> alphabet_for(int a, int b)
{
   std::vector<HOp> al = g_focus[a];
   al.insert(al.end(), g_focus[b].begin(), g_focus[b].end());
   for(int k = H_SAVE0; k <= H_COPY; ++k) { HOp o; o.kind = k; al.push_back(o); }
   return al;
}
static std::vector<std::pair<PId, Val>> other_for(int a, int b)
{
   std::vector<std::pair<PId, Val>> o;
   auto P = [](int k, int i) { PId p; p.kind = k; p.idx = i; return p; };
   for(int g : {a, b}) if(g_otherval[g].first) o.push_back({pid_of(g), g_otherval[g].second});
   o.push_back({P(KB, SoPlex::TESTDUALINF), vb(true)});
   o.push_back({P(KI, SoPlex::REFLIMIT), vi(9)});
   o.push_back({P(KR, SoPlex::OBJ_OFFSET), vr(1.5)});
   return o;
}

static int run_replay(const std::string& cs)
{
   auto f = split(cs, '|');
   mallopt(M_PERTURB, 85);
   if(f[0] == "S") { SCase sc = SCase::parse(f); return replay_case([&](Ctx & c) { run_single(sc, c); }); }
   Hist h = Hist::parse(f);
   return replay_case([&](Ctx & c) { run_hist(h, c); });
}

int main(int argc, char** argv)
{
   Args args = parse_args(argc, argv);
   args.prop = "C15";
   g_outdir = args.outdir;
   if(!args.replay.empty())
   {
      std::ifstream in(args.replay);
      std::string doc((std::istreambuf_iterator<char>(in)), std::istreambuf_iterator<char>());
      size_t p = doc.find("\"case\": \"");
      if(p == std::string::npos) { printf("REPLAY-ERROR no case\n"); return 2; }
      p += 9;
      return run_replay(doc.substr(p, doc.find('"', p) - p));
   }
   bool thorough = args.tier == "thorough";
   // a SoPlex object is a few hundred kB: keep its blocks on the heap instead of mmap/munmap per object
   mallopt(M_MMAP_THRESHOLD, 32 * 1024 * 1024);
   mallopt(M_TRIM_THRESHOLD, 512 * 1024 * 1024);
   Report rep(args, "model_checking", thorough ? 3000 : 420);
   RunOpts o = rep.opts();
   o.perturb = {85};

   // ---- phase 1: every value x every front end, one operation ------------------------------------------------------
   build_singles();
   rep.phase("single operations x 3 front ends", g_singles.size(),
             [&](uint64_t idx, int, Ctx & c) -> uint64_t { return run_single(g_singles[idx], c); },
             [&](uint64_t idx, uint64_t) { return g_singles[idx].str(); }, o,
             [&](uint64_t idx, uint64_t) { return "@" + g_singles[idx].opdesc(); });

   // ---- phase 2: set -> save -> reset -> load for every accepted value of every parameter, and for all parameters at once ----
   std::vector<Hist> rts;
   for(int init = 0; init < NINIT; ++init)
   {
      for(int g = 0; g < NPAR; ++g)
      {
         PId p = pid_of(g);
         for(auto& e : menu(p))
         {
            if(!model_valid(defaults(), p, e.v)) continue;
            if(p.kind == KI && p.idx == SoPlex::OBJSENSE && init != INIT_EMPTY) {}
            for(int oc = 0; oc < 2; ++oc)
            {
               Hist h;
               h.init = init;
               HOp s; s.kind = H_SET; s.p = p; s.v = e.v; s.cls = e.cls;
               HOp sv; sv.kind = oc ? H_SAVE1 : H_SAVE0;
               HOp rs; rs.kind = H_RESET;
               HOp ld; ld.kind = H_LOAD;
               h.ops = {s, sv}; rts.push_back(h);
               h.ops = {s, sv, rs, ld}; rts.push_back(h);
               if(oc == 0) { h.ops = {s, rs}; rts.push_back(h); }
            }
         }
      }
      // all parameters non-default at once
      for(int oc = 0; oc < 2; ++oc)
         for(int variant = 0; variant < 2; ++variant)
         {
            Hist h;
            h.init = init;
            for(int g = 0; g < NPAR; ++g)
            {
               PId p = pid_of(g);
               auto fv = focus_values(p, false);
               size_t q = std::min<size_t>(variant, fv.size() - 1);
               if(!model_valid(defaults(), p, fv[q].v)) q = 0;
               HOp s; s.kind = H_SET; s.p = p; s.v = fv[q].v; s.cls = fv[q].cls;
               h.ops.push_back(s);
            }
            HOp sv; sv.kind = oc ? H_SAVE1 : H_SAVE0;
            HOp rs; rs.kind = H_RESET;
            HOp ld; ld.kind = H_LOAD;
            HOp cp; cp.kind = H_COPY;
            std::vector<HOp> base = h.ops;
            h.ops = base; h.ops.push_back(sv); rts.push_back(h);
            h.ops.push_back(rs); rts.push_back(h);
            h.ops.push_back(ld); rts.push_back(h);
            h.ops = base; h.ops.push_back(cp); rts.push_back(h);
            h.ops.push_back(sv); h.ops.push_back(rs); h.ops.push_back(ld); rts.push_back(h);
         }
   }
   // setSettings from an object with syncmode=AUTO / MANUAL onto an object that stores only the real LP
   for(int init = 0; init < NINIT; ++init)
      for(int sm = 1; sm <= 2; ++sm)
      {
         Hist h;
         h.init = init;
         PId p; p.kind = KI; p.idx = SoPlex::SYNCMODE;
         h.other.push_back({p, vi(sm)});
         HOp ss; ss.kind = H_SETSETTINGS;
         h.ops = {ss};
         rts.push_back(h);
      }
   rep.phase("set/save/reset/load round trips", rts.size(),
             [&](uint64_t idx, int, Ctx & c) -> uint64_t { c.count("roundtrip.histories"); return run_hist(rts[idx], c); },
             [&](uint64_t idx, uint64_t) { return rts[idx].str(); }, o,
             [&](uint64_t idx, uint64_t) { return "@" + rts[idx].ops.back().opdesc(); });

   // ---- phase 3: all histories up to depth d for all focus pairs; one case = one history -------------------------------
   int depth = thorough ? 3 : 2;
   build_focus(thorough);
   struct PairInfo { int a, b; uint64_t na, off; };
   std::vector<PairInfo> pinfo;
   uint64_t total = 0;
   for(int a = 0; a < NPAR; ++a)
      for(int b = a + 1; b < NPAR; ++b)
      {
         uint64_t na = g_focus[a].size() + g_focus[b].size() + 6;
         uint64_t per = na + (depth >= 2 ? na * na : 0) + (depth >= 3 ? na * na * na : 0);
         pinfo.push_back({a, b, na, total});
         total += per * NINIT;
      }
   uint64_t pairs = pinfo.size();
   auto mkhist = [&](uint64_t idx) -> Hist
   {
      size_t lo = 0, hi = pinfo.size() - 1;
      while(lo < hi) { size_t mid = (lo + hi + 1) / 2; if(pinfo[mid].off <= idx) lo = mid; else hi = mid - 1; }
      const PairInfo& pi = pinfo[lo];
      uint64_t r = idx - pi.off, na = pi.na;
      Hist h;
      h.init = (int)(r % NINIT); r /= NINIT;
      h.other = other_for(pi.a, pi.b);
      std::vector<HOp> al = alphabet_for(pi.a, pi.b);
      if(r < na) h.ops = {al[r]};
      else if((r -= na) < na * na) h.ops = {al[r / na], al[r % na]};
      else { r -= na * na; h.ops = {al[r / (na * na)], al[(r / na) % na], al[r % na]}; }
      return h;
   };
   rep.phase("histories depth<=" + std::to_string(depth) + " over all focus pairs", total,
             [&](uint64_t idx, int, Ctx & c) -> uint64_t { return run_hist(mkhist(idx), c); },
             [&](uint64_t idx, uint64_t) { return mkhist(idx).str(); }, o,
             [&](uint64_t idx, uint64_t) { Hist h = mkhist(idx); return "@" + h.ops.back().opdesc(); });

   rep.evaluations = rep.all.counters["single.executed"] + rep.all.counters["hist.sequences"];
   rep.rule = "a case is (initial state, optional non-default pre-state, ONE operation through a front end) or an operation history "
              "(initial state, op_1..op_k) executed on a fresh SoPlex object by replaying its prefix and judged after its last operation against "
              "the parameter table model (return value, 82 getters, internal wiring, saved file parsed by the harness, LP via the dense Model); "
              "distinct_nontrivial = single operations that changed the parameter state or were rejected from a non-default state + histories "
              "whose last operation observes or overwrites state written by an earlier operation; states = distinct (initial state, parameter table) "
              "digests reached; transitions = operations judged";
   rep.assumptions = {"documented range = SoPlex::Settings::{bool,int,real}Param.lower/upper/defaultValue/name read at start-up, enumerator list of OBJSENSE {-1,+1} from soplex.h, random seed range [0,UINT_MAX] default 0 as printed by saveSettingsFile",
                      std::string("build configuration: ") + (HAVE_PAPILO ? "with" : "without") + " PaPILO - without it the 8 simplifier_enable_* booleans, simplifier=2 and simplifier_modifyrowfac may be rejected (documented by the library's message) but must then change nothing",
                      "loadSettingsFile ignores per-line failures by design of its return value; only the effect of a rejected line is judged (it must be nil)",
                      "type-prefix leniency (intx:), trailing garbage after a number (5x), truex, 1e-999 and seed literals outside [0,UINT_MAX] may be accepted with the intended value or rejected; both outcomes are counted, neither is a violation",
                      "reals after save->load: exact for values with at most 9 significant decimal digits, relative error <= 5e-9 otherwise (file parsed by the harness)"
                     };
   rep.extra["depth"] = std::to_string(depth);
   rep.extra["parameters"] = std::to_string(NPAR);
   rep.extra["focus_pairs"] = std::to_string(pairs);
   rep.extra["initial_states"] = std::to_string(NINIT);
   uint64_t nontriv = rep.all.counters["single.state_changing"] + rep.all.counters["atomicity.rejected_from_non_default_state"] + rep.all.counters["hist.nontrivial"];
   rep.finish(nontriv, rep.all.states.size(), rep.evaluations, rep.evaluations);
   return 0;
}
