// C10: SLUFactor<double> standalone.  All small integer matrices x update type x Markowitz
// threshold x all column-replacement sequences up to depth d x every solve variant, judged
// against exact rational Gaussian elimination on the matrix the harness tracks.
#include "soplex.h"
#include "vx_exactlp.hpp"
#include "vx_runner.hpp"
using namespace soplex;
using namespace vx;

typedef std::vector<std::vector<int>> IMat;   // M[i][j]

static std::shared_ptr<Tolerances> g_tol;

static std::string mat_str(const IMat& M)
{
   std::string s;
   for(size_t i = 0; i < M.size(); ++i)
   {
      if(i) s += "|";
      for(size_t j = 0; j < M.size(); ++j) s += (j ? "," : "") + std::to_string(M[i][j]);
   }
   return s;
}
static IMat mat_parse(const std::string& s)
{
   IMat M;
   for(auto& r : split(s, '|'))
   {
      std::vector<int> row;
      for(auto& e : split(r, ',')) row.push_back(atoi(e.c_str()));
      M.push_back(row);
   }
   return M;
}
static std::vector<std::vector<Q>> qmat(const IMat& M, bool transpose = false)
{
   int n = (int)M.size();
   std::vector<std::vector<Q>> A(n, std::vector<Q>(n));
   for(int i = 0; i < n; ++i) for(int j = 0; j < n; ++j) A[i][j] = transpose ? M[j][i] : M[i][j];
   return A;
}

struct Update { int pos; std::vector<int> col; int mode; };   // mode 0: solveRight4update+change, 1: explicit eta, 2: bare change (ETA only)

struct Scenario
{
   IMat M;                   // initial matrix
   std::vector<Update> ups;
   int utype;                // 0 ETA, 1 FT
   double markowitz;
   std::string str() const
   {
      std::ostringstream o;
      o << "M=" << mat_str(M) << ";utype=" << utype << ";mk=" << markowitz << ";ups=";
      for(size_t k = 0; k < ups.size(); ++k)
      {
         o << (k ? "/" : "") << ups[k].pos << ":" << ups[k].mode << ":";
         for(size_t i = 0; i < ups[k].col.size(); ++i) o << (i ? "," : "") << ups[k].col[i];
      }
      return o.str();
   }
   static Scenario parse(const std::string& s)
   {
      Scenario sc;
      std::map<std::string, std::string> kv;
      for(auto& f : split(s, ';')) { size_t e = f.find('='); if(e != std::string::npos) kv[f.substr(0, e)] = f.substr(e + 1); }
      sc.M = mat_parse(kv["M"]);
      sc.utype = atoi(kv["utype"].c_str());
      sc.markowitz = atof(kv["mk"].c_str());
      if(!kv["ups"].empty())
         for(auto& u : split(kv["ups"], '/'))
         {
            auto p = split(u, ':');
            Update up;
            up.pos = atoi(p[0].c_str());
            up.mode = atoi(p[1].c_str());
            for(auto& e : split(p[2], ',')) up.col.push_back(atoi(e.c_str()));
            sc.ups.push_back(up);
         }
      return sc;
   }
};

static const char* VARIANT[] =
{
   "solveRight(V,V)", "solveRight(SSV,SV)", "solveRight4update", "solve2right4update(V)", "solve2right4update(SSV)",
   "solve3right4update(V)", "solve3right4update(SSV)", "solveLeft(V,V)", "solveLeft(SSV,SV)", "solveLeft2(V)",
   "solveLeft2(SSV)", "solveLeft3(V)", "solveLeft3(SSV)"
};
static const int NVARIANT = 13;

struct Factor
{
   int n;
   std::vector<DSVector> cols;
   std::vector<const SVector*> ptrs;
   SLUFactor<double> lu;
   Factor(const IMat& M, int utype, double mk) : n((int)M.size())
   {
      lu.setTolerances(g_tol);
      lu.setUtype(utype ? SLUFactor<double>::FOREST_TOMLIN : SLUFactor<double>::ETA);
      lu.setMarkowitz(mk);
      cols.resize(n);
      for(int j = 0; j < n; ++j) { cols[j] = DSVector(n); for(int i = 0; i < n; ++i) if(M[i][j] != 0) cols[j].add(i, (double)M[i][j]); }
      for(int j = 0; j < n; ++j) ptrs.push_back(&cols[j]);
   }
   SLinSolver<double>::Status load() { return lu.load(ptrs.data(), n); }
};

static DSVector dsv(const std::vector<int>& v)
{
   DSVector d((int)v.size());
   for(size_t i = 0; i < v.size(); ++i) if(v[i] != 0) d.add((int)i, (double)v[i]);
   return d;
}

// applies the updates; returns false if SoPlex reported a non-OK status on a nonsingular update
static bool apply_updates(Factor& f, const Scenario& sc, IMat& cur, std::string& why)
{
   int n = f.n;
   for(auto& u : sc.ups)
   {
      DSVector nc = dsv(u.col);
      SLinSolver<double>::Status st;
      if(u.mode == 0)
      {
         SSVector x(n, g_tol);
         x.clear();
         f.lu.solveRight4update(x, nc);
         st = f.lu.change(u.pos, nc);
      }
      else if(u.mode == 1)
      {
         SSVector x(n, g_tol);
         x.clear();
         f.lu.solveRight(x, nc);
         x.setup();
         st = f.lu.change(u.pos, nc, &x);
      }
      else
         st = f.lu.change(u.pos, nc);
      for(int i = 0; i < n; ++i) cur[i][u.pos] = u.col[i];
      if(st != SLinSolver<double>::OK) { why = "status " + std::to_string((int)st) + " after nonsingular column replacement"; return false; }
   }
   return true;
}

// right-hand sides: unit vectors, dense (1..n), 2-sparse
static std::vector<std::vector<int>> rhs_set(int n)
{
   std::vector<std::vector<int>> R;
   for(int k = 0; k < n; ++k) { std::vector<int> e(n, 0); e[k] = 1; R.push_back(e); }
   std::vector<int> d(n);
   for(int k = 0; k < n; ++k) d[k] = k + 1;
   R.push_back(d);
   std::vector<int> sp(n, 0);
   sp[0] = 1; sp[n - 1] += -2;
   R.push_back(sp);
   return R;
}

static bool close_to(double got, const Q& want)
{
   if(!std::isfinite(got)) return false;
   double w = want.get_d();
   return fabs(got - w) <= 1e-9 * (1 + fabs(w));
}

// run variant v with rhs index k on a factor in state `cur`; returns "" or a failure description
static std::string run_variant(Factor& f, const IMat& cur, int v, int k, const std::vector<std::vector<int>>& R)
{
   int n = f.n;
   int nR = (int)R.size();
   const std::vector<int>& b1 = R[k], &b2 = R[(k + 1) % nR], &b3 = R[(k + 2) % nR];
   bool left = v >= 7;
   auto A = qmat(cur, left);
   auto exact = [&](const std::vector<int>& b, std::vector<Q>& z)
   {
      std::vector<Q> qb(n);
      for(int i = 0; i < n; ++i) qb[i] = b[i];
      return qsolve(A, qb, z);
   };
   std::vector<Q> z1, z2, z3;
   exact(b1, z1); exact(b2, z2); exact(b3, z3);
   DSVector sb1 = dsv(b1);
   VectorReal vb1(n);
   for(int i = 0; i < n; ++i) vb1[i] = b1[i];
   SSVector x(n, g_tol), y(n, g_tol), z(n, g_tol), d(n, g_tol), e(n, g_tol);
   VectorReal vx(n), vy(n), vz(n);
   x.clear(); y.clear(); z.clear(); vx.clear(); vy.clear(); vz.clear();
   d = dsv(b2);
   e = dsv(b3);
   int nout = 1;
   const double* o1 = nullptr, *o2 = nullptr, *o3 = nullptr;
   switch(v)
   {
   case 0: f.lu.solveRight(vx, vb1); o1 = vx.get_const_ptr(); break;
   case 1: f.lu.solveRight(x, sb1); o1 = x.get_const_ptr(); break;
   case 2: f.lu.solveRight4update(x, sb1); o1 = x.get_const_ptr(); break;
   case 3: f.lu.solve2right4update(x, vy, sb1, d); o1 = x.get_const_ptr(); o2 = vy.get_const_ptr(); nout = 2; break;
   case 4: f.lu.solve2right4update(x, y, sb1, d); o1 = x.get_const_ptr(); o2 = y.get_const_ptr(); nout = 2; break;
   case 5: f.lu.solve3right4update(x, vy, vz, sb1, d, e); o1 = x.get_const_ptr(); o2 = vy.get_const_ptr(); o3 = vz.get_const_ptr(); nout = 3; break;
   case 6: f.lu.solve3right4update(x, y, z, sb1, d, e); o1 = x.get_const_ptr(); o2 = y.get_const_ptr(); o3 = z.get_const_ptr(); nout = 3; break;
   case 7: f.lu.solveLeft(vx, vb1); o1 = vx.get_const_ptr(); break;
   case 8: f.lu.solveLeft(x, sb1); o1 = x.get_const_ptr(); break;
   case 9: f.lu.solveLeft(x, vy, sb1, d); o1 = x.get_const_ptr(); o2 = vy.get_const_ptr(); nout = 2; break;
   case 10: f.lu.solveLeft(x, y, sb1, d); o1 = x.get_const_ptr(); o2 = y.get_const_ptr(); nout = 2; break;
   case 11: f.lu.solveLeft(x, vy, vz, sb1, d, e); o1 = x.get_const_ptr(); o2 = vy.get_const_ptr(); o3 = vz.get_const_ptr(); nout = 3; break;
   case 12: f.lu.solveLeft(x, y, z, sb1, d, e); o1 = x.get_const_ptr(); o2 = y.get_const_ptr(); o3 = z.get_const_ptr(); nout = 3; break;
   }
   const double* outs[3] = {o1, o2, o3};
   const std::vector<Q>* want[3] = {&z1, &z2, &z3};
   for(int t = 0; t < nout; ++t)
      for(int i = 0; i < n; ++i)
         if(!close_to(outs[t][i], (*want[t])[i]))
         {
            std::ostringstream o;
            o << VARIANT[v] << " rhs#" << k << " output " << t << " component " << i << ": got " << outs[t][i] << " want " << (*want[t])[i].get_str()
              << " (matrix now " << mat_str(cur) << ")";
            return o.str();
         }
   // sparse index output of setup SSVectors must list exactly the nonzeros
   if((v == 1 || v == 8) && x.isSetup())
   {
      std::set<int> idx;
      for(int t = 0; t < x.size(); ++t) idx.insert(x.index(t));
      for(int i = 0; i < n; ++i)
         if((z1[i] != 0) != (idx.count(i) > 0) && fabs(x[i]) > 1e-12)
            return std::string(VARIANT[v]) + " index set does not match the nonzero pattern";
   }
   return "";
}

// executes one scenario completely: load, updates, then every solve variant (fresh factor per variant)
static uint64_t run_scenario(const Scenario& sc, Ctx& c, bool allVariants = true)
{
   int n = (int)sc.M.size();
   Q det = qdet(qmat(sc.M));
   uint64_t h = 11;
   {
      Factor f(sc.M, sc.utype, sc.markowitz);
      auto st = f.load();
      c.count("loads");
      h = h * 31 + (int)st;
      if(det == 0)
      {
         c.count("singular_matrices");
         if(st != SLinSolver<double>::SINGULAR)
            c.violation("singular-matrix-not-reported@" + std::string(sc.utype ? "FT" : "ETA"), sc.str(), "load() returned status " + std::to_string((int)st) + " for a matrix with det 0");
         return h;
      }
      if(st != SLinSolver<double>::OK)
      {
         c.violation("nonsingular-matrix-rejected@" + std::string(sc.utype ? "FT" : "ETA"), sc.str(), "load() returned status " + std::to_string((int)st) + ", det=" + det.get_str());
         return h;
      }
   }
   if(c.wantSample() && !sc.ups.empty()) c.sample("{\"scenario\":" + jstr(sc.str()) + ",\"det\":" + jstr(det.get_str()) + "}");
   auto R = rhs_set(n);
   // one factor object per scenario (the solver reuses its factor object in the same way); it is re-loaded and
   // the updates are re-applied before every solve that prepares an update (those leave an update vector behind)
   Factor f(sc.M, sc.utype, sc.markowitz);
   bool fresh = false;
   IMat cur;
   for(int v = 0; v < NVARIANT; ++v)
   {
      set_sub(v);
      for(int k = 0; k < (int)R.size(); ++k)
      {
         if(!allVariants && k != (int)R.size() - 2) continue;
         if(allVariants && !sc.ups.empty() && k > 0 && k < (int)R.size() - 2) continue;   // after updates: e_0, dense, 2-sparse
         bool prepares = (v >= 2 && v <= 6);
         if(!fresh || prepares)
         {
            f.load();
            cur = sc.M;
            std::string why;
            if(!apply_updates(f, sc, cur, why))
            {
               c.violation("update-rejected@" + std::string(sc.utype ? "FT" : "ETA") + ",mode=" + std::to_string(sc.ups.back().mode), sc.str(), why);
               return h;
            }
            fresh = !prepares;
         }
         std::string r = run_variant(f, cur, v, k, R);
         if(prepares) fresh = false;
         c.count("solves");
         if(!r.empty())
         {
            std::string m;
            for(auto& u : sc.ups) m += std::to_string(u.mode);
            c.violation(std::string("wrong-solution:") + VARIANT[v] + "@" + (sc.utype ? "FT" : "ETA") + ",updates=" + std::to_string(sc.ups.size()) + (m.empty() ? "" : ",modes=" + m),
                        sc.str() + ";variant=" + std::to_string(v) + ";rhs=" + std::to_string(k), r);
            h = h * 31 + 7;
         }
      }
   }
   return h;
}

// matrix enumerators -------------------------------------------------------------------------
static IMat mat_from_index(uint64_t idx, int n, const std::vector<int>& alpha)
{
   IMat M(n, std::vector<int>(n));
   for(int i = 0; i < n; ++i) for(int j = 0; j < n; ++j) { M[i][j] = alpha[idx % alpha.size()]; idx /= alpha.size(); }
   return M;
}
static uint64_t ipow(uint64_t b, int e) { uint64_t r = 1; while(e-- > 0) r *= b; return r; }

// all replacement columns {-1,0,1}^n \ 0
static std::vector<std::vector<int>> repl_cols(int n)
{
   std::vector<std::vector<int>> v;
   for(uint64_t k = 0; k < ipow(3, n); ++k)
   {
      std::vector<int> c(n);
      uint64_t t = k;
      bool nz = false;
      for(int i = 0; i < n; ++i) { c[i] = int(t % 3) - 1; t /= 3; if(c[i]) nz = true; }
      if(nz) v.push_back(c);
   }
   return v;
}

// ---- fill-in family: sparse matrices of dimension 20..60 whose factorisation creates fill (diagonal + k pseudo-random off-diagonals per row, integer LCG),
// strictly diagonally dominant by rows - hence nonsingular and well conditioned by construction, no determinant needed - or exactly singular (one column is a copy
// of another); three column replacements (again diagonally dominant) under the update type; after the load and after every replacement all 13 solve variants run on a
// unit and on a dense right-hand side.  Oracle = the property itself: the exact residual of the returned doubles is at rounding level (1e-9 relative to |A||x| + |b|).
struct FillSpec
{
   int n = 20, k = 3, utype = 0, mk = 0, singular = 0, seed = 0;
   std::string str() const { char b[96]; snprintf(b, sizeof b, "F:%d:%d:%d:%d:%d:%d", n, k, utype, mk, singular, seed); return b; }
   static bool parse(const std::string& s, FillSpec& f) { return sscanf(s.c_str(), "F:%d:%d:%d:%d:%d:%d", &f.n, &f.k, &f.utype, &f.mk, &f.singular, &f.seed) == 6; }
};
struct Lcg10
{
   uint64_t s;
   explicit Lcg10(uint64_t seed) : s(seed * 0x9E3779B97F4A7C15ULL + 0x2545F4914F6CDD1DULL) { next(); next(); }
   uint32_t next() { s = s * 6364136223846793005ULL + 1442695040888963407ULL; return (uint32_t)(s >> 33); }
   int upto(int k) { return (int)(next() % (uint32_t)k); }
};
static std::string residual_check(const IMat& A, bool left, const std::vector<int>& b, const double* x, const char* what)
{
   int n = (int)A.size();
   for(int i = 0; i < n; ++i) if(!std::isfinite(x[i])) return std::string(what) + ": non-finite entry";
   for(int i = 0; i < n; ++i)
   {
      long double r = b[i], sc = fabsl((long double)b[i]);
      for(int j = 0; j < n; ++j)
      {
         int a = left ? A[j][i] : A[i][j];
         if(a) { r -= (long double)a * x[j]; sc += fabsl((long double)a * x[j]); }
      }
      if(fabsl(r) > 1e-9L * (1 + sc)) { std::ostringstream o; o << what << ": residual " << (double)r << " in component " << i << " (scale " << (double)sc << ")"; return o.str(); }
   }
   return "";
}
static uint64_t run_fill(const FillSpec& sp, Ctx& c)
{
   int n = sp.n;
   Lcg10 g((uint64_t)sp.seed * 7919 + sp.n * 13 + sp.k);
   auto mkcolumnwise = [&](IMat & M)
   {
      for(int i = 0; i < n; ++i)
      {
         for(int t = 0; t < sp.k; ++t) { int j = g.upto(n); if(j != i) M[i][j] = (g.upto(2) ? 1 : -1) * (1 + g.upto(2)); }
      }
   };
   IMat M(n, std::vector<int>(n, 0));
   mkcolumnwise(M);
   // strict row dominance (also after the replacements below: a replacement column changes one entry per row, the diagonal margin covers it)
   for(int i = 0; i < n; ++i) { int off = 0; for(int j = 0; j < n; ++j) if(j != i) off += abs(M[i][j]); M[i][i] = (g.upto(2) ? 1 : -1) * (off + 3 + g.upto(3)); }
   if(sp.singular && n >= 2) { int a = g.upto(n - 1); for(int i = 0; i < n; ++i) M[i][n - 1] = M[i][a]; }
   static const double MK[] = {0.01, 0.3, 0.99};
   Factor f(M, sp.utype, MK[sp.mk % 3]);
   auto st = f.load();
   c.count("loads");
   c.count("fill_matrices");
   std::string cs = sp.str();
   const char* ut = sp.utype ? "FT" : "ETA";
   if(sp.singular)
   {
      c.count("singular_matrices");
      if(st != SLinSolver<double>::SINGULAR) c.violation(std::string("singular-matrix-not-reported@") + ut + ",fill", cs, "load() returned status " + std::to_string((int)st) + " for a matrix with two equal columns");
      return 3;
   }
   if(st != SLinSolver<double>::OK) { c.violation(std::string("nonsingular-matrix-rejected@") + ut + ",fill", cs, "load() returned status " + std::to_string((int)st) + " for a strictly diagonally dominant matrix"); return 5; }
   std::vector<std::vector<int>> R;
   { std::vector<int> e(n, 0); e[n / 3] = 1; R.push_back(e); }
   { std::vector<int> d(n); for(int k = 0; k < n; ++k) d[k] = (k % 7) - 3; R.push_back(d); }
   { std::vector<int> e(n, 0); e[0] = 2; e[n - 1] = -1; R.push_back(e); }
   IMat cur = M;
   uint64_t h = 1;
   std::vector<Update> ups;
   for(int stage = 0; stage <= 3; ++stage)
   {
      if(stage > 0)
      {
         // replacement of column p by a sparse column with entries of magnitude 1 off the diagonal and the old diagonal entry (dominance margin >= 3 keeps every row dominant)
         Update u;
         u.pos = g.upto(n);
         u.col.assign(n, 0);
         for(int t = 0; t < sp.k + 2 * stage; ++t) { int i = g.upto(n); if(i != u.pos) u.col[i] = g.upto(2) ? 1 : -1; }
         for(int i = 0; i < n; ++i) if(i != u.pos && abs(u.col[i]) > abs(cur[i][u.pos]) + 1) u.col[i] = 0;
         u.col[u.pos] = cur[u.pos][u.pos];
         for(int i = 0; i < n; ++i) if(i != u.pos && cur[i][u.pos] != 0 && u.col[i] == 0 && g.upto(2)) u.col[i] = cur[i][u.pos];   // keep some old entries
         // re-check dominance exactly; skip the replacement if some row would lose it
         bool ok = true;
         for(int i = 0; i < n && ok; ++i)
         {
            int off = 0;
            for(int j = 0; j < n; ++j) if(j != i) off += abs(j == u.pos ? u.col[i] : cur[i][j]);
            int dg = i == u.pos ? u.col[i] : cur[i][i];
            if(abs(dg) <= off) ok = false;
         }
         if(!ok) { c.count("fill_replacements_skipped"); continue; }
         u.mode = 0;
         ups.push_back(u);
         c.count("update_sequences");
      }
      for(int v = 0; v < NVARIANT; ++v)
      {
         set_sub(v);
         bool prepares = (v >= 2 && v <= 6);
         for(int k = 0; k < 2; ++k)
         {
            // the solves that prepare an update leave an update vector behind: reload and re-apply the chain before them and after them
            if(prepares || (v == 7 && k == 0) || (stage > 0 && v == 0 && k == 0))
            {
               f.load();
               cur = M;
               Scenario sc;
               sc.M = M; sc.ups = ups; sc.utype = sp.utype;
               std::string why;
               if(!apply_updates(f, sc, cur, why)) { c.violation(std::string("update-rejected@") + ut + ",fill", cs, why); return h; }
            }
            const std::vector<int>& b1 = R[k], &b2 = R[(k + 1) % 3], &b3 = R[(k + 2) % 3];
            bool left = v >= 7;
            DSVector sb1 = dsv(b1);
            VectorReal vb1(n);
            for(int i = 0; i < n; ++i) vb1[i] = b1[i];
            SSVector x(n, g_tol), y(n, g_tol), z(n, g_tol), d(n, g_tol), e(n, g_tol);
            VectorReal vx(n), vy(n), vz(n);
            x.clear(); y.clear(); z.clear(); vx.clear(); vy.clear(); vz.clear();
            d = dsv(b2);
            e = dsv(b3);
            int nout = 1;
            const double* o1 = nullptr, *o2 = nullptr, *o3 = nullptr;
            switch(v)
            {
            case 0: f.lu.solveRight(vx, vb1); o1 = vx.get_const_ptr(); break;
            case 1: f.lu.solveRight(x, sb1); o1 = x.get_const_ptr(); break;
            case 2: f.lu.solveRight4update(x, sb1); o1 = x.get_const_ptr(); break;
            case 3: f.lu.solve2right4update(x, vy, sb1, d); o1 = x.get_const_ptr(); o2 = vy.get_const_ptr(); nout = 2; break;
            case 4: f.lu.solve2right4update(x, y, sb1, d); o1 = x.get_const_ptr(); o2 = y.get_const_ptr(); nout = 2; break;
            case 5: f.lu.solve3right4update(x, vy, vz, sb1, d, e); o1 = x.get_const_ptr(); o2 = vy.get_const_ptr(); o3 = vz.get_const_ptr(); nout = 3; break;
            case 6: f.lu.solve3right4update(x, y, z, sb1, d, e); o1 = x.get_const_ptr(); o2 = y.get_const_ptr(); o3 = z.get_const_ptr(); nout = 3; break;
            case 7: f.lu.solveLeft(vx, vb1); o1 = vx.get_const_ptr(); break;
            case 8: f.lu.solveLeft(x, sb1); o1 = x.get_const_ptr(); break;
            case 9: f.lu.solveLeft(x, vy, sb1, d); o1 = x.get_const_ptr(); o2 = vy.get_const_ptr(); nout = 2; break;
            case 10: f.lu.solveLeft(x, y, sb1, d); o1 = x.get_const_ptr(); o2 = y.get_const_ptr(); nout = 2; break;
            case 11: f.lu.solveLeft(x, vy, vz, sb1, d, e); o1 = x.get_const_ptr(); o2 = vy.get_const_ptr(); o3 = vz.get_const_ptr(); nout = 3; break;
            case 12: f.lu.solveLeft(x, y, z, sb1, d, e); o1 = x.get_const_ptr(); o2 = y.get_const_ptr(); o3 = z.get_const_ptr(); nout = 3; break;
            }
            c.count("solves");
            c.count("fill_solves");
            const double* outs[3] = {o1, o2, o3};
            const std::vector<int>* rhs[3] = {&b1, &b2, &b3};
            for(int t = 0; t < nout; ++t)
            {
               std::string r = residual_check(cur, left, *rhs[t], outs[t], VARIANT[v]);
               if(!r.empty())
               {
                  c.violation(std::string("wrong-solution:") + VARIANT[v] + "@" + ut + ",updates=" + std::to_string(ups.size()) + ",fill", cs + ";variant=" + std::to_string(v) + ";rhs=" + std::to_string(k), r + " output " + std::to_string(t));
                  h = h * 31 + 7;
                  break;
               }
            }
         }
      }
   }
   if(c.wantSample()) c.sample("{\"fill_matrix\":" + jstr(cs) + ",\"replacements\":" + std::to_string(ups.size()) + "}");
   return h;
}

// structured larger matrices: permuted identity with a dense bump column, permuted lower triangular
static IMat structured(int kind, int n, int p)
{
   IMat M(n, std::vector<int>(n, 0));
   std::vector<int> perm(n);
   for(int i = 0; i < n; ++i) perm[i] = (i * (p * 2 + 1) + p) % n;   // a permutation when gcd(2p+1, n) == 1
   std::vector<bool> seen(n, false);
   bool ok = true;
   for(int i = 0; i < n; ++i) { if(seen[perm[i]]) ok = false; seen[perm[i]] = true; }
   if(!ok) for(int i = 0; i < n; ++i) perm[i] = (i + p) % n;
   if(kind == 0)
   {
      for(int i = 0; i < n; ++i) M[perm[i]][i] = (i % 3 == 0) ? 2 : 1;
      for(int i = 0; i < n; ++i) M[i][p % n] += (i % 2) ? 1 : -1;     // dense bump column
      M[perm[p % n]][p % n] += 3;
   }
   else
   {
      for(int i = 0; i < n; ++i)
         for(int j = 0; j <= i; ++j)
            if(j == i || (i + j + p) % 4 == 0) M[perm[i]][j] = (j == i) ? ((i % 2) ? -1 : 2) : 1;
   }
   return M;
}

int main(int argc, char** argv)
{
   Args args = parse_args(argc, argv);
   args.prop = "C10";
   g_tol = std::make_shared<Tolerances>();
   if(!args.replay.empty())
   {
      std::ifstream in(args.replay);
      std::string doc((std::istreambuf_iterator<char>(in)), std::istreambuf_iterator<char>());
      size_t p = doc.find("\"case\": \"");
      if(p == std::string::npos) { printf("REPLAY-ERROR no case\n"); return 2; }
      p += 9;
      std::string cs = doc.substr(p, doc.find('"', p) - p);
      mallopt(M_PERTURB, 85);
      FillSpec fsp;
      if(cs.compare(0, 2, "F:") == 0 && FillSpec::parse(cs.substr(0, cs.find(';')), fsp))
         return replay_case([&](Ctx & c) { run_fill(fsp, c); });
      Scenario sc = Scenario::parse(cs);
      return replay_case([&](Ctx & c) { run_scenario(sc, c); });
   }
   bool thorough = args.tier == "thorough";
#ifdef VX_ASAN
   const bool asan = true;     // sanitizer pass: same enumerators on thinned families (ASan allocation cost is ~10x)
#else
   const bool asan = false;
#endif
   Report rep(args, "exploration", thorough ? 3000 : 600);
   const double MK[] = {0.01, 0.9999, 1e-4, 0.5};   // quick uses the first two
   std::vector<int> A4 = {-1, 0, 1, 2}, A3 = {0, 1, 2}, A3s = {0, 1, -1};
   RunOpts o = rep.opts();
   o.perturb = {85};
   auto sfx = [](uint64_t, uint64_t sub) { return std::string("@variant=") + (sub < (uint64_t)NVARIANT ? VARIANT[sub] : "?"); };

   {
      // phase 4: structured matrices of dimension 5..40 (thorough) / 5..16 (quick), with a chain of updates
      int nmax = thorough ? 40 : 16;
      struct SC { int kind, n, p, utype; double mk; };
      std::vector<SC> list;
      for(int kind = 0; kind < 2; ++kind)
         for(int n = 5; n <= nmax; ++n)
            for(int p = 0; p < std::min(n, 6); ++p)
               for(int ut = 0; ut < 2; ++ut)
                  for(double mk : MK) list.push_back({kind, n, p, ut, mk});
      rep.phase("structured dim 5.." + std::to_string(nmax), list.size(), [&](uint64_t idx, int, Ctx & c) -> uint64_t
      {
         const SC& s = list[idx];
         Scenario sc;
         sc.M = structured(s.kind, s.n, s.p);
         sc.utype = s.utype;
         sc.markowitz = s.mk;
         c.count("structured_matrices");
         uint64_t h = run_scenario(sc, c, false);
         if(qdet(qmat(sc.M)) == 0) return h;
         // chain of replacements: column k replaced by e_k + e_{k+1} - e_{k+2} pattern, as long as nonsingular
         IMat cur = sc.M;
         for(int k = 0; k < std::min(s.n, 5); ++k)
         {
            Update u;
            u.pos = (k * 3 + s.p) % s.n;
            u.col.assign(s.n, 0);
            u.col[u.pos] = 2; u.col[(u.pos + 1) % s.n] = 1; u.col[(u.pos + 2) % s.n] = -1;
            u.mode = s.utype ? 0 : k % 2;
            IMat c2 = cur;
            for(int i = 0; i < s.n; ++i) c2[i][u.pos] = u.col[i];
            if(qdet(qmat(c2)) == 0) continue;
            cur = c2;
            sc.ups.push_back(u);
            c.count("update_sequences");
            h = h * 31 + run_scenario(sc, c, false);
         }
         return h;
      }, [&](uint64_t idx, uint64_t) { const SC& s = list[idx]; Scenario sc; sc.M = structured(s.kind, s.n, s.p); sc.utype = s.utype; sc.markowitz = s.mk; return sc.str(); }, o, sfx);
   }
   {
      // phase 5: memory pressure. Start from a diagonal matrix (the factor then reserves its minimal work arrays), replace every column twice in a row, the second time
      // by a denser vector than the space reserved for it: this drives the update code through its remax / pack (garbage collection) paths - "last in file", "file full",
      // "move to the end" - which small matrices and short chains never reach. All columns are strictly diagonally dominant (well conditioned by construction).
      struct MP { int n, ut, k1, k2, shift; };
      std::vector<MP> list;
      std::vector<int> dims = thorough ? (asan ? std::vector<int>{24, 32} : std::vector<int>{24, 32, 40, 48, 56}) : (asan ? std::vector<int>{24} : std::vector<int>{24, 32});
      RunOpts omp = o;
      omp.watchdog_s = 900;      // one case = a chain of up to 112 replacements, re-applied for every checked prefix and solve variant (minutes under ASan)
      for(int n : dims) for(int ut = 0; ut < 2; ++ut) for(int k1 : {1, 3}) for(int k2 : {5, 8, 12}) for(int shift : {1, 5}) list.push_back({n, ut, k1, k2, shift});
      auto mkcol = [](int n, int pos, int k, int shift, int sign)
      {
         std::vector<int> col(n, 0);
         for(int t = 1; t <= k; ++t) col[(pos + t * shift) % n] += ((t + sign) % 2) ? 1 : -1;
         col[pos] = 0;
         int off = 0;
         for(int v : col) off += v < 0 ? -v : v;
         col[pos] = off + 2;
         return col;
      };
      rep.phase("memory pressure: diagonal start, every column replaced twice (sparse, then denser)", list.size(), [&](uint64_t idx, int, Ctx & c) -> uint64_t
      {
         const MP& s = list[idx];
         Scenario sc;
         sc.M.assign(s.n, std::vector<int>(s.n, 0));
         for(int i = 0; i < s.n; ++i) sc.M[i][i] = 2;
         sc.utype = s.ut;
         sc.markowitz = 0.01;
         uint64_t h = 3;
         for(int pos = 0; pos < s.n; ++pos)
         {
            for(int rnd = 0; rnd < 2; ++rnd)
            {
               Update u;
               u.pos = pos;
               u.col = mkcol(s.n, pos, rnd ? s.k2 : s.k1, s.shift, rnd);
               u.mode = s.ut ? 0 : rnd;
               sc.ups.push_back(u);
            }
            c.count("update_sequences");
            // the chain is checked after every pair of replacements (a damaged factor stays damaged: there is no refactorization in between)
            if(pos % 2 == 1 || pos == s.n - 1) h = h * 31 + run_scenario(sc, c, false);
         }
         return h;
      }, [&](uint64_t idx, uint64_t) { const MP& s = list[idx]; return "memory-pressure n=" + std::to_string(s.n) + " utype=" + std::to_string(s.ut) + " k1=" + std::to_string(s.k1) + " k2=" + std::to_string(s.k2) + " shift=" + std::to_string(s.shift); }, omp, sfx);
   }
   {
      // phase 6: fill-in family, dimension 20..60: complete grid n(5) x k(3) x update type(2) x threshold(3) x {nonsingular, singular} x seeds
      static const int NS[] = {20, 30, 40, 50, 60}, KS[] = {3, 5, 8};
      const int seeds = thorough ? 10 : 2;
      auto specOf = [=](uint64_t idx)
      {
         FillSpec f;
         f.singular = idx % 2; idx /= 2;
         f.mk = idx % 3; idx /= 3;
         f.utype = idx % 2; idx /= 2;
         f.k = KS[idx % 3]; idx /= 3;
         f.n = NS[idx % 5]; idx /= 5;
         f.seed = (int)idx;
         return f;
      };
      rep.phase("fill-in family: diagonally dominant sparse matrices of dimension 20..60 with 3 column replacements", (uint64_t)2 * 3 * 2 * 3 * 5 * seeds, [&](uint64_t idx, int, Ctx & c) { return run_fill(specOf(idx), c); },
      [&](uint64_t idx, uint64_t) { return specOf(idx).str(); }, o, sfx);
      rep.extra["fill_grid"] = jstr("n in {20,30,40,50,60}; k in {3,5,8} off-diagonals per row; ETA / Forrest-Tomlin; Markowitz threshold 0.01 / 0.3 / 0.99; nonsingular (strictly row dominant) and singular (two equal columns); seeds 0.." + std::to_string(seeds - 1));
   }
   // phase 1: all 2x2 and 3x3 matrices over {-1,0,1,2}, no updates, both update types, all thresholds
   for(int n = 2; n <= 3; ++n)
   {
      uint64_t NM = ipow(4, n * n);
      rep.phase("all " + std::to_string(n) + "x" + std::to_string(n) + " over {-1,0,1,2}", NM * (thorough ? 8 : 4), [&, n, NM](uint64_t idx, int, Ctx & c) -> uint64_t
      {
         if(asan && n == 3 && (idx % NM) % 37 != 0) return 0;
         Scenario sc;
         sc.M = mat_from_index(idx % NM, n, A4);
         sc.utype = (idx / NM) % 2;
         sc.markowitz = MK[(idx / NM / 2) % 4];
         if(qdet(qmat(sc.M)) != 0) c.count("nonsingular_matrices_x_cfg");
         return run_scenario(sc, c);
      }, [&, n, NM](uint64_t idx, uint64_t)
      {
         Scenario sc;
         sc.M = mat_from_index(idx % NM, n, A4);
         sc.utype = (idx / NM) % 2;
         sc.markowitz = MK[(idx / NM / 2) % 4];
         return sc.str();
      }, o, sfx);
   }
   // phase 2: update sequences
   {
      int n = 3;
      auto RC = repl_cols(n);
      uint64_t NM = ipow(3, n * n);
      int depth = thorough ? 2 : 1;
      // one case = (matrix, utype, first update (pos, col, mode)); deeper levels are enumerated inside the case
      uint64_t firsts = (uint64_t)n * RC.size() * 3;
      auto mk_first = [&](uint64_t idx, Scenario & sc) -> bool
      {
         sc.M = mat_from_index(idx % NM, n, A3);
         uint64_t r = idx / NM;
         sc.utype = r % 2; r /= 2;
         Update u;
         u.mode = r % 3; r /= 3;
         u.pos = r % n; r /= n;
         u.col = RC[r % RC.size()];
         sc.markowitz = 0.01;
         sc.ups = {u};
         // protocol of SPxBasisBase::change: mode 0 (solveRight4update + change) for both update types; the explicit-eta entry
         // (mode 1) is an ETA path; a bare change() without a prepared update vector is marked unreachable in the code
         if(u.mode == 2 || (u.mode == 1 && sc.utype == 1)) return false;
         return true;
      };
      rep.phase("3x3 {0,1,2} x updates depth " + std::to_string(depth), NM * 2 * firsts, [&, depth](uint64_t idx, int, Ctx & c) -> uint64_t
      {
         if(asan && (idx % NM) % 41 != 0) return 0;
         Scenario sc;
         if(!mk_first(idx, sc)) return 0;
         if(qdet(qmat(sc.M)) == 0) return 0;
         IMat cur = sc.M;
         for(int i = 0; i < n; ++i) cur[i][sc.ups[0].pos] = sc.ups[0].col[i];
         if(qdet(qmat(cur)) == 0) { c.count("singular_replacements_skipped"); return 0; }
         c.count("update_sequences");
         uint64_t h = run_scenario(sc, c, depth == 1);
         if(depth >= 2)
         {
            // second update: every position x every column, same mode as the first (mode mixes are covered by mode of first)
            for(int pos = 0; pos < n; ++pos)
               for(auto& col : RC)
               {
                  IMat c2 = cur;
                  for(int i = 0; i < n; ++i) c2[i][pos] = col[i];
                  if(qdet(qmat(c2)) == 0) continue;
                  Scenario s2 = sc;
                  Update u2;
                  u2.pos = pos; u2.col = col; u2.mode = sc.utype ? 0 : (sc.ups[0].mode + (pos & 1)) % 2;
                  s2.ups.push_back(u2);
                  c.count("update_sequences");
                  h = h * 31 + run_scenario(s2, c, false);
               }
         }
         return h;
      }, [&](uint64_t idx, uint64_t) { Scenario sc; mk_first(idx, sc); return sc.str(); }, o, sfx);
   }
   if(thorough)
   {
      // phase 3: 4x4 over {0,1,-1} with at most 8 nonzeros, one update at each position with the dense column
      int n = 4;
      uint64_t NM = ipow(3, n * n);
      rep.phase("4x4 over {0,1,-1}, <=8 nonzeros", NM * 2, [&](uint64_t idx, int, Ctx & c) -> uint64_t
      {
         Scenario sc;
         sc.M = mat_from_index(idx % NM, n, A3s);
         int nz = 0;
         for(auto& r : sc.M) for(int v : r) if(v) ++nz;
         if(nz > 8) return 0;
         if(asan && (idx % NM) % 101 != 0) return 0;
         sc.utype = (idx / NM) % 2;
         sc.markowitz = 0.01;
         c.count("matrices_4x4");
         uint64_t h = run_scenario(sc, c, false);
         if(qdet(qmat(sc.M)) != 0)
            for(int pos = 0; pos < n; ++pos)
            {
               Scenario s2 = sc;
               Update u;
               u.pos = pos; u.col = {1, -1, 1, 1}; u.mode = sc.utype ? 0 : pos % 2;
               IMat cur = sc.M;
               for(int i = 0; i < n; ++i) cur[i][pos] = u.col[i];
               if(qdet(qmat(cur)) == 0) continue;
               s2.ups = {u};
               c.count("update_sequences");
               h = h * 31 + run_scenario(s2, c, false);
            }
         return h;
      }, [&](uint64_t idx, uint64_t) { Scenario sc; sc.M = mat_from_index(idx % NM, n, A3s); sc.utype = (idx / NM) % 2; sc.markowitz = 0.01; return sc.str(); }, o, sfx);
   }
   rep.evaluations = rep.all.counters["solves"] + rep.all.counters["loads"];
   rep.rule = "case = (matrix, update type, Markowitz threshold, column-replacement sequence, solve variant, right-hand side); every member of "
              "the stated finite families is executed on SLUFactor<double>; non-trivial = a nonsingular (matrix, configuration) pair or a "
              "column-replacement sequence that keeps the matrix nonsingular (each is a distinct enumerated object)";
   rep.assumptions = {"exact reference: Gaussian elimination over GMP rationals on the matrix tracked by the harness",
                      "tolerance 1e-9 relative (integer matrices with |entries| <= 2, and strictly diagonally dominant integer matrices in the memory-pressure phase, so every exact solution is far from the tolerance)",
                      "replacements that make the matrix exactly singular are skipped and counted (the simplex never performs them)"
                     };
   rep.finish(rep.all.counters["nonsingular_matrices_x_cfg"] + rep.all.counters["update_sequences"]);
   return 0;
}
