// C18: distinct solver objects can be used concurrently from different threads.
//  (1) preemption-bounded exhaustive scheduler over real pthreads: exactly one thread runs at a time; scheduling points are the
//      API-call boundaries, every line written to the solver's log stream, and the guarded source hook SPX_VERIF_POINT placed before
//      every access to the one process-global object (Boost's default precision).  ALL schedules with at most p preemptions are
//      executed (iterative context bounding, p = 0,1,2); every thread's result digest must equal the digest of the same workload run alone.
//  (2) the same workload bodies free-running under ThreadSanitizer (separate build flavour, scheduler off): any report is a violation.
//  (3) census of writable non-TLS global objects defined by SoPlex code in the executable, compared with an allowlist.
#define VX_OWN_VERIF_POINT 1
#include "vx_spx.hpp"
#include <unistd.h>
#include <dlfcn.h>
#include <cxxabi.h>
#include <thread>
#include <mutex>
#include <condition_variable>
#include <atomic>
using namespace vx;

#if defined(__SANITIZE_THREAD__)
#define VX_TSAN 1
#elif defined(__has_feature)
#if __has_feature(thread_sanitizer)
#define VX_TSAN 1
#endif
#endif

// ---------------------------------------------------------------------------------------------------------
// scheduler
// ---------------------------------------------------------------------------------------------------------
struct Point { int enabled; bool runningEnabled; int chosen; int from, to; std::string tag; };
struct Sched
{
   std::mutex mu;
   std::condition_variable cv;
   int T = 0;
   std::vector<int> state;        // 0 runnable, 2 finished
   int running = -1;
   std::vector<int> prefix;
   std::vector<Point> pts;
   bool diverged = false;
   bool active = false;
   size_t maxPoints = 100000;
};
static Sched g_s;
static thread_local int t_tid = -1;

// decides who runs next; called with the lock held by the thread that currently holds the token (or has just finished)
static int choose(int cur, const char* tag)
{
   std::vector<int> en;
   bool curEnabled = (cur >= 0 && g_s.state[cur] == 0);
   if(curEnabled) en.push_back(cur);
   for(int t = 0; t < g_s.T; ++t) if(t != cur && g_s.state[t] == 0) en.push_back(t);
   if(en.empty()) return -1;
   size_t pos = g_s.pts.size();
   int c = pos < g_s.prefix.size() ? g_s.prefix[pos] : 0;
   if(c >= (int)en.size()) { g_s.diverged = true; c = 0; }
   Point p;
   p.enabled = (int)en.size(); p.runningEnabled = curEnabled; p.chosen = c; p.from = cur; p.to = en[c]; p.tag = tag;
   if(g_s.pts.size() < g_s.maxPoints) g_s.pts.push_back(p);
   return en[c];
}
static void sched_point(const char* tag)
{
   if(!g_s.active || t_tid < 0) return;
   std::unique_lock<std::mutex> lk(g_s.mu);
   int next = choose(t_tid, tag);
   if(next != t_tid)
   {
      g_s.running = next;
      g_s.cv.notify_all();
      g_s.cv.wait(lk, [&] { return g_s.running == t_tid; });
   }
}
static void thread_begin(int tid)
{
   t_tid = tid;
   if(!g_s.active) return;
   std::unique_lock<std::mutex> lk(g_s.mu);
   g_s.cv.wait(lk, [&] { return g_s.running == tid; });
}
static void thread_end()
{
   if(!g_s.active) { t_tid = -1; return; }
   std::unique_lock<std::mutex> lk(g_s.mu);
   g_s.state[t_tid] = 2;
   int next = choose(t_tid, "thread-exit");
   g_s.running = next;
   g_s.cv.notify_all();
   t_tid = -1;
}
// the source hook
extern "C" void soplex_verif_point(const char* tag) { sched_point(tag); }

// log stream whose every line is a scheduling point
struct SchedBuf : public std::streambuf
{
   int overflow(int ch) override { if(ch == '\n') sched_point("log-line"); return ch; }
   int sync() override { return 0; }
};

// ---------------------------------------------------------------------------------------------------------
// workloads (each thread: create, set parameters, load, solve, query, destroy its own object)
// ---------------------------------------------------------------------------------------------------------
static std::string g_scratch = "/var/tmp";     // scratch directory of this run (files of the file round-trip workload)
static Rational rq(long a, long b) { return Rational(a) / b; }
static void load_third_lp(SoPlex& spx, int variant, bool badlyScaled = false)
{
   // badlyScaled: row 2 times 10^4 and column 2 times 10^-3, so that the geometric / least-squares scalers really iterate (their early exit is a max/min ratio below 10^3)
   Rational rowf = badlyScaled ? Rational(10000) : Rational(1), colf = badlyScaled ? rq(1, 1000) : Rational(1);
   // 3x3 LP with non-dyadic data; variant shifts the data a little so that different threads do different work
   Rational inf = spx.realParam(SoPlex::INFTY);
   DSVectorRational e(0);
   spx.setIntParam(SoPlex::OBJSENSE, SoPlex::OBJSENSE_MAXIMIZE);
   spx.addColRational(LPColRational(rq(1, 3), e, inf, Rational(0)));
   spx.addColRational(LPColRational(rq(1, 7) + variant, e, inf, Rational(0)));
   spx.addColRational(LPColRational(Rational(1), e, rq(10, 3), Rational(0)));
   DSVectorRational r1(3), r2(3), r3(3);
   r1.add(0, rq(1, 3)); r1.add(1, Rational(1)); r1.add(2, Rational(rq(1, 7) * colf));
   r2.add(0, rowf); r2.add(1, Rational(rq(1, 7) * rowf)); r2.add(2, Rational(rq(2, 3) * rowf * colf));
   r3.add(0, rq(1, 7)); r3.add(1, rq(1, 3)); r3.add(2, colf);
   spx.addRowRational(LPRowRational(-inf, r1, rq(7, 3) + variant));
   spx.addRowRational(LPRowRational(-inf, r2, Rational(rq(5, 7) * rowf)));
   spx.addRowRational(LPRowRational(-inf, r3, rq(11, 13)));
}
static const char* WNAME[] = {"exact-pure-boosting", "construct-destroy-only", "exact-default", "float-default", "float-geo8-steep-nopresolve", "float-leastsq-devex", "exact-boosting-variant", "float-geo1-variant", "float-coarse-epsilon", "float-precise-nearly-feasible", "float-file-roundtrip"
                              };
static const int NW = 11;     // 8 "float-coarse-epsilon", 9 "float-precise-nearly-feasible", 10 "float-file-roundtrip"

static std::string run_workload(int w, std::ostream* log)
{
   std::ostringstream dg;
   sched_point("api:create");
   SoPlex* spx = new SoPlex();
   if(w == 1) { sched_point("api:destroy"); delete spx; return "constructed"; }
   // the two geometric-scaler workloads log at full verbosity: every scaling round prints a line, i.e. is a scheduling point inside SPxGeometSC::scale()
   spx->setIntParam(SoPlex::VERBOSITY, log ? ((w == 4 || w == 7) ? SoPlex::VERBOSITY_FULL : SoPlex::VERBOSITY_HIGH) : SoPlex::VERBOSITY_ERROR);
   if(log) for(int v = 0; v <= 5; ++v) spx->spxout.setStream((SPxOut::Verbosity)v, *log);
   sched_point("api:params");
   bool exact = (w == 0 || w == 2 || w == 6);
   if(exact)
   {
      spx->setIntParam(SoPlex::SYNCMODE, SoPlex::SYNCMODE_AUTO);
      spx->setIntParam(SoPlex::SOLVEMODE, SoPlex::SOLVEMODE_RATIONAL);
      spx->setRealParam(SoPlex::FEASTOL, 0.0);
      spx->setRealParam(SoPlex::OPTTOL, 0.0);
      if(w != 2)
      {
         spx->setBoolParam(SoPlex::ITERATIVE_REFINEMENT, false);
         spx->setBoolParam(SoPlex::PRECISION_BOOSTING, true);
         spx->setBoolParam(SoPlex::RATREC, false);
         spx->setBoolParam(SoPlex::RATFAC, false);
         spx->setIntParam(SoPlex::REFLIMIT, 8);
      }
   }
   else
   {
      spx->setIntParam(SoPlex::SYNCMODE, SoPlex::SYNCMODE_AUTO);
      if(w == 4) { spx->setIntParam(SoPlex::SCALER, SoPlex::SCALER_GEO8); spx->setIntParam(SoPlex::PRICER, SoPlex::PRICER_STEEP); spx->setIntParam(SoPlex::SIMPLIFIER, SoPlex::SIMPLIFIER_OFF); }
      if(w == 5) { spx->setIntParam(SoPlex::SCALER, SoPlex::SCALER_LEASTSQ); spx->setIntParam(SoPlex::PRICER, SoPlex::PRICER_DEVEX); }
      if(w == 7) { spx->setIntParam(SoPlex::SCALER, SoPlex::SCALER_GEO1); spx->setIntParam(SoPlex::SIMPLIFIER, SoPlex::SIMPLIFIER_OFF); }
      if(w == 10) spx->setIntParam(SoPlex::SIMPLIFIER, SoPlex::SIMPLIFIER_OFF);
   }
   if(w == 8)
   {
      // coarse solve: large zero tolerance and feasibility / optimality tolerances
      spx->setIntParam(SoPlex::SIMPLIFIER, SoPlex::SIMPLIFIER_OFF);
      spx->setRealParam(SoPlex::EPSILON_ZERO, 1e-6);
      spx->setRealParam(SoPlex::EPSILON_FACTORIZATION, 1e-10);
      spx->setRealParam(SoPlex::EPSILON_UPDATE, 1e-8);
      spx->setRealParam(SoPlex::EPSILON_PIVOT, 1e-5);
      spx->setRealParam(SoPlex::FEASTOL, 1e-4);
      spx->setRealParam(SoPlex::OPTTOL, 1e-4);
   }
   if(w == 9)
   {
      // precise solve of an LP that is infeasible by 1e-7: the verdict depends on the tolerances this object was given (and on nothing another object was given)
      spx->setIntParam(SoPlex::SIMPLIFIER, SoPlex::SIMPLIFIER_OFF);
      spx->setRealParam(SoPlex::FEASTOL, 1e-9);
      spx->setRealParam(SoPlex::OPTTOL, 1e-9);
   }
   sched_point("api:load");
   if(w == 9)
   {
      DSVector e(0);
      spx->setIntParam(SoPlex::OBJSENSE, SoPlex::OBJSENSE_MINIMIZE);
      spx->addColReal(LPCol(1.0, e, 10.0, 0.0));
      spx->addColReal(LPCol(2.0, e, 10.0, 0.0));
      spx->addColReal(LPCol(0.0, e, 10.0, 0.0));
      DSVector r1(3), r2(3), r3(3);
      r1.add(0, 1.0); r1.add(1, 1.0);
      r2.add(0, 1.0); r2.add(1, 1.0);
      r3.add(1, 1.0); r3.add(2, 1.0);
      spx->addRowReal(LPRow(3.0, r1, 1e100));
      spx->addRowReal(LPRow(-1e100, r2, 3.0 - 1e-7));
      spx->addRowReal(LPRow(1.0, r3, 8.0));
   }
   else
   load_third_lp(*spx, (w == 6 || w == 7) ? 1 : 0, w == 4 || w == 5 || w == 7);
   sched_point("api:optimize");
   spx->optimize();
   sched_point("api:query");
   dg << "st" << (int)spx->status() << ",it" << spx->numIterations() << ",ref" << spx->numRefinements() << ",boosts" << spx->numPrecisionBoosts();
   if(exact && spx->hasSol())
   {
      VectorRational px(3), py(3);
      if(spx->getPrimalRational(px)) for(int j = 0; j < 3; ++j) dg << "," << px[j].str();
      if(spx->getDualRational(py)) for(int i = 0; i < 3; ++i) dg << "," << py[i].str();
      dg << ",obj" << spx->objValueRational().str();
   }
   else if(spx->hasSol())
   {
      VectorReal x(3), y(3);
      spx->getPrimal(x); spx->getDual(y);
      char b[64];
      for(int j = 0; j < 3; ++j) { snprintf(b, sizeof b, ",%a", (double)x[j]); dg << b; }
      for(int i = 0; i < 3; ++i) { snprintf(b, sizeof b, ",%a", (double)y[i]); dg << b; }
      snprintf(b, sizeof b, ",obj%a", (double)spx->objValueReal());
      dg << b;
   }
   if(spx->hasBasis())
   {
      SPxSolver::VarStatus rs[4], cs[4];
      spx->getBasis(rs, cs);
      dg << ",B";
      for(int i = 0; i < 3; ++i) dg << (int)rs[i];
      for(int j = 0; j < 3; ++j) dg << (int)cs[j];
   }
   if(w == 10 && spx->hasBasis())
   {
      // file round trip inside the thread: LP file and basis file (default names, generated by the writers) written by this thread's object, read by a second object of the
      // same thread, solved from the restored basis; every thread uses its own file names
      static std::atomic<int> fileNo(0);
      std::string base = g_scratch + "/c18-" + std::to_string((long)getpid()) + "-" + std::to_string(fileNo.fetch_add(1));
      std::string flp = base + ".lp", fbas = base + ".bas";
      sched_point("api:writeFile");
      bool w1 = spx->writeFileReal(flp.c_str(), nullptr, nullptr, nullptr, true);
      sched_point("api:writeBasisFile");
      bool w2 = spx->writeBasisFile(fbas.c_str(), nullptr, nullptr, false);
      sched_point("api:create2");
      SoPlex* s2 = new SoPlex();
      s2->setIntParam(SoPlex::VERBOSITY, SoPlex::VERBOSITY_ERROR);
      sched_point("api:readFile");
      bool r1 = s2->readFile(flp.c_str(), nullptr, nullptr, nullptr);
      sched_point("api:readBasisFile");
      bool r2 = r1 && s2->readBasisFile(fbas.c_str(), nullptr, nullptr);
      sched_point("api:optimize2");
      if(r1) s2->optimize();
      char b[64];
      snprintf(b, sizeof b, ",files%d%d%d%d,st%d,it%d,obj%a", (int)w1, (int)w2, (int)r1, (int)r2, r1 ? (int)s2->status() : -99, r1 ? s2->numIterations() : -1, r1 ? (double)s2->objValueReal() : 0.0);
      dg << b;
      if(r1 && s2->hasBasis())
      {
         SPxSolver::VarStatus rs[4], cs[4];
         s2->getBasis(rs, cs);
         dg << ",B2";
         for(int i = 0; i < 3; ++i) dg << (int)rs[i];
         for(int j = 0; j < 3; ++j) dg << (int)cs[j];
      }
      sched_point("api:destroy2");
      delete s2;
      unlink(flp.c_str());
      unlink(fbas.c_str());
   }
   sched_point("api:destroy");
   delete spx;
   return dg.str();
}

// The parameter tables of SoPlex::Settings are process-global (class-static): they describe ranges and defaults and must be read-only after static initialisation,
// whatever any solver object does.  Digest of their complete content, compared before and after every job.
static uint64_t settings_tables_digest()
{
   uint64_t h = 1469598103934665603ULL;
   auto mix = [&](const void* p, size_t n) { const unsigned char* b = (const unsigned char*)p; for(size_t i = 0; i < n; ++i) { h ^= b[i]; h *= 1099511628211ULL; } };
   for(int k = 0; k < SoPlex::BOOLPARAM_COUNT; ++k) { bool v = SoPlex::Settings::boolParam.defaultValue[k]; mix(&v, sizeof v); mix(SoPlex::Settings::boolParam.name[k].data(), SoPlex::Settings::boolParam.name[k].size()); }
   for(int k = 0; k < SoPlex::INTPARAM_COUNT; ++k)
   {
      int v[3] = {SoPlex::Settings::intParam.defaultValue[k], SoPlex::Settings::intParam.lower[k], SoPlex::Settings::intParam.upper[k]};
      mix(v, sizeof v); mix(SoPlex::Settings::intParam.name[k].data(), SoPlex::Settings::intParam.name[k].size());
   }
   for(int k = 0; k < SoPlex::REALPARAM_COUNT; ++k)
   {
      double v[3] = {(double)SoPlex::Settings::realParam.defaultValue[k], (double)SoPlex::Settings::realParam.lower[k], (double)SoPlex::Settings::realParam.upper[k]};
      mix(v, sizeof v); mix(SoPlex::Settings::realParam.name[k].data(), SoPlex::Settings::realParam.name[k].size());
   }
   return h;
}

// one controlled execution of the workloads ws under schedule prefix; returns digests
struct Exec { std::vector<std::string> digests; std::vector<Point> pts; bool diverged; };
static Exec execute(const std::vector<int>& ws, const std::vector<int>& prefix, bool controlled)
{
   // identical initial global state for every execution
#ifdef SOPLEX_WITH_MPFR
   SoPlex::BP::default_precision(50);
#endif
   int T = (int)ws.size();
   g_s.T = T;
   g_s.state.assign(T, 0);
   g_s.prefix = prefix;
   g_s.pts.clear();
   g_s.diverged = false;
   g_s.running = 0;
   g_s.active = controlled;
   Exec ex;
   ex.digests.assign(T, "");
   std::vector<std::thread> th;
   for(int t = 0; t < T; ++t)
      th.emplace_back([&, t]()
   {
      thread_begin(t);
      SchedBuf sb;
      std::ostream os(&sb);
      ex.digests[t] = run_workload(ws[t], controlled ? &os : nullptr);
      thread_end();
   });
   for(auto& x : th) x.join();
   g_s.active = false;
   ex.pts = g_s.pts;
   ex.diverged = g_s.diverged;
   return ex;
}
static std::string run_alone(int w)
{
   std::vector<int> ws = {w};
   // alone, but with the same log stream plumbing (the log stream must not influence results)
   Exec e = execute(ws, {}, true);
   return e.digests[0];
}

static std::string sched_str(const std::vector<int>& ws, const std::vector<int>& prefix)
{
   std::string s = "w=";
   for(size_t i = 0; i < ws.size(); ++i) s += (i ? "," : "") + std::to_string(ws[i]);
   s += ";sched=";
   for(size_t i = 0; i < prefix.size(); ++i) s += (i ? "," : "") + std::to_string(prefix[i]);
   return s;
}

struct Explorer
{
   std::vector<int> ws;
   std::vector<std::string> ref;
   int bound;
   Ctx* c;
   uint64_t executions = 0, maxExec;
   std::set<std::string> outcomes;
   double deadline;
   bool capped = false;

   void explore(const std::vector<int>& prefix)
   {
      if(executions >= maxExec || now_s() > deadline) { capped = true; return; }
      Exec x = execute(ws, prefix, true);
      ++executions;
      c->count("schedules_executed");
      c->count("schedule_points", x.pts.size());
      if(x.diverged) { c->violation("schedule-replay-diverged", sched_str(ws, prefix), "a recorded choice was out of range when replaying the prefix"); return; }
      std::string all;
      for(size_t t = 0; t < ws.size(); ++t)
      {
         all += x.digests[t] + "|";
         if(x.digests[t] != ref[t])
         {
            // which kind of point did the preemptions happen at
            std::string at;
            int pre = 0;
            for(auto& p : x.pts) if(p.runningEnabled && p.chosen != 0) { ++pre; if(at.find(p.tag) == std::string::npos) at += (at.empty() ? "" : "+") + p.tag; }
            c->violation(std::string("thread-result-differs-from-sequential:") + WNAME[ws[t]] + "@with:" + WNAME[ws[1 - (t > 0 ? 1 : 0)]] + ",preemptions=" + std::to_string(pre),
                         sched_str(ws, x.pts.size() ? [&] { std::vector<int> ch; for(auto& p : x.pts) ch.push_back(p.chosen); return ch; }() : prefix),
                         "thread " + std::to_string(t) + " got " + x.digests[t].substr(0, 60) + "... alone " + ref[t].substr(0, 60) + "... | preempted at: " + at);
         }
      }
      outcomes.insert(all);
      // branch on every later point within the preemption bound
      int cost = 0;
      for(size_t i = 0; i < x.pts.size(); ++i)
      {
         const Point& p = x.pts[i];
         if(i >= prefix.size())
         {
            int extra = p.runningEnabled ? 1 : 0;
            if(cost + extra <= bound)
               for(int alt = 1; alt < p.enabled; ++alt)
               {
                  std::vector<int> np;
                  for(size_t k = 0; k < i; ++k) np.push_back(x.pts[k].chosen);
                  np.push_back(alt);
                  explore(np);
               }
         }
         if(p.runningEnabled && p.chosen != 0) ++cost;
      }
   }
};

#ifdef VX_TSAN
static std::atomic<int> g_tsanReports(0);
// TSan's debugging interface: kind of the report and the code address of its first memory access, so that a report becomes a signature one can act on
extern "C" int __tsan_get_report_data(void* report, const char** description, int* count, int* stack_count, int* mop_count, int* loc_count, int* mutex_count, int* thread_count,
                                      int* unique_tid_count, void** sleep_trace, unsigned long trace_size) __attribute__((weak));
extern "C" int __tsan_get_report_mop(void* report, unsigned long idx, int* tid, void** addr, int* size, int* write, int* atomic, void** trace, unsigned long trace_size) __attribute__((weak));
static char g_tsanFirst[512] = "";
extern "C" void __tsan_on_report(void* rep)
{
   if(g_tsanReports++ == 0 && __tsan_get_report_data && __tsan_get_report_mop)
   {
      const char* desc = "?";
      int cnt = 0, sc = 0, mc = 0, lc = 0, mu = 0, tc = 0, ut = 0;
      void* sleepTrace[4] = {0, 0, 0, 0};
      __tsan_get_report_data(rep, &desc, &cnt, &sc, &mc, &lc, &mu, &tc, &ut, sleepTrace, 4);
      std::string where;
      for(int k = 0; k < mc && k < 2; ++k)
      {
         int tid = 0, size = 0, write = 0, atomic = 0;
         void* addr = nullptr;
         void* trace[16] = {0, 0, 0, 0, 0, 0, 0, 0, 0, 0, 0, 0, 0, 0, 0, 0};
         __tsan_get_report_mop(rep, (unsigned long)k, &tid, &addr, &size, &write, &atomic, trace, 16);
         // innermost frame that lies in library code (an access made by a libc routine called from the library - sprintf, memcpy - belongs to the library);
         // if there is none, the innermost frame with a symbol
         std::string innermost, inlib;
         for(int t = 0; t < 16 && trace[t]; ++t)
         {
            Dl_info di;
            if(dladdr(trace[t], &di) && di.dli_sname)
            {
               int st = 0;
               char* dem = abi::__cxa_demangle(di.dli_sname, nullptr, nullptr, &st);
               std::string fn = (st == 0 && dem) ? dem : di.dli_sname;
               free(dem);
               size_t par = fn.find('(');
               if(par != std::string::npos) fn = fn.substr(0, par);
               if(innermost.empty()) innermost = fn;
               if(fn.find("soplex::") != std::string::npos || fn.find("boost::") != std::string::npos) { inlib = fn; break; }
            }
         }
         if(!inlib.empty() || !innermost.empty()) where += std::string(where.empty() ? "" : " vs ") + (write ? "write:" : "read:") + (inlib.empty() ? innermost : inlib);
      }
      snprintf(g_tsanFirst, sizeof g_tsanFirst, "%s:%s", desc ? desc : "?", where.c_str());
   }
}
#endif

// census of writable global objects defined by SoPlex code
static std::vector<std::string> census()
{
   std::vector<std::string> out;
   char exe[512];
   ssize_t n = readlink("/proc/self/exe", exe, sizeof exe - 1);
   if(n <= 0) return out;
   exe[n] = 0;
   // objdump -t gives the section of every symbol: only objects in writable, non-TLS sections (.data, .bss) count
   std::string cmd = std::string("objdump -t -C '") + exe + "' 2>/dev/null";
   FILE* f = popen(cmd.c_str(), "r");
   if(!f) return out;
   char line[8192];
   while(fgets(line, sizeof line, f))
   {
      std::string l = line;
      if(!l.empty() && l.back() == '\n') l.pop_back();
      if(l.size() < 30 || l.find(" O ") == std::string::npos) continue;      // data objects only
      size_t sec = l.find(" O ") + 3;
      size_t secEnd = l.find_first_of(" \t", sec);
      if(secEnd == std::string::npos) continue;
      std::string section = l.substr(sec, secEnd - sec);
      if(section != ".data" && section != ".bss") continue;
      size_t nameStart = l.find_first_not_of(" \t", secEnd);
      if(nameStart == std::string::npos) continue;
      nameStart = l.find_first_of(" \t", nameStart);          // skip the size column
      if(nameStart == std::string::npos) continue;
      nameStart = l.find_first_not_of(" \t", nameStart);
      if(nameStart == std::string::npos) continue;
      std::string name = l.substr(nameStart);
      if(name.find("soplex::") == std::string::npos) continue;
      if(name.find("vtable for") != std::string::npos || name.find("typeinfo") != std::string::npos || name.find("guard variable") != std::string::npos || name.find("VTT for") != std::string::npos) continue;
      if(name.find("vx::") != std::string::npos || name.find("std::") == 0) continue;
      out.push_back(section + " " + name);
   }
   pclose(f);
   std::sort(out.begin(), out.end());
   out.erase(std::unique(out.begin(), out.end()), out.end());
   return out;
}
static bool census_allowed(const std::string& e)
{
   static const char* ALLOW[] =
   {
      "::Settings::boolParam", "::Settings::intParam", "::Settings::realParam",   // parameter description tables: written during static initialisation only
      "soplex::infinity",                                                          // thread_local const (appears as TLS; listed in case the toolchain reports it)
      "soplex::UserTimer::ticks_per_sec", "soplex::SPxOut::", "soplex::Timer::",
      "soplex::MPSInput::", "soplex::NameSet::", "soplex::IdxSet::", "soplex::DIdxSet::",
      "::emptyVector"                                                              // Presol stub (build without PaPILO): function-local const reference to an empty vector, initialised once (guarded), never written
   };
   for(const char* a : ALLOW) if(e.find(a) != std::string::npos) return true;
   return false;
}

int main(int argc, char** argv)
{
   Args args = parse_args(argc, argv);
   args.prop = "C18";
   if(!args.outdir.empty()) g_scratch = args.outdir;
   if(!args.replay.empty())
   {
      std::ifstream in(args.replay);
      std::string doc((std::istreambuf_iterator<char>(in)), std::istreambuf_iterator<char>());
      size_t p = doc.find("\"case\": \"");
      if(p == std::string::npos) { printf("REPLAY-ERROR no case\n"); return 2; }
      p += 9;
      std::string cs = doc.substr(p, doc.find('"', p) - p);
      if(cs == "census")
         return replay_case([&](Ctx & c) { for(auto& e : census()) if(!census_allowed(e)) c.violation("census:new-writable-global:" + e.substr(e.find(' ') + 1, 90), "census", e); });
      if(cs.compare(0, 2, "w=") != 0) { printf("REPLAY-DONE violations=0\n"); return 0; }
      std::vector<int> ws, prefix;
      size_t q = cs.find(";sched=");
      for(auto& t : split(cs.substr(2, q - 2), ',')) ws.push_back(atoi(t.c_str()));
      std::string ss = cs.substr(q + 7);
      if(!ss.empty()) for(auto& t : split(ss, ',')) prefix.push_back(atoi(t.c_str()));
      return replay_case([&](Ctx & c)
      {
         std::vector<std::string> ref;
         for(int w : ws) ref.push_back(run_alone(w));
         Exec a = execute(ws, prefix, true), b = execute(ws, prefix, true);
         if(a.digests != b.digests) c.violation("replay-not-deterministic", cs, "");
         for(size_t t = 0; t < ws.size(); ++t)
            if(a.digests[t] != ref[t])
            {
               int pre = 0;
               for(auto& pt : a.pts) if(pt.runningEnabled && pt.chosen != 0) ++pre;
               c.violation(std::string("thread-result-differs-from-sequential:") + WNAME[ws[t]] + "@with:" + WNAME[ws[1 - (t > 0 ? 1 : 0)]] + ",preemptions=" + std::to_string(pre), cs, a.digests[t] + " vs alone " + ref[t]);
            }
      });
   }
   bool thorough = args.tier == "thorough";
   Report rep(args, "model_checking", thorough ? 2400 : 360);
   RunOpts o = rep.opts();
   o.perturb = {0};
   o.workers = 1;
   o.watchdog_s = 600;
#ifdef VX_TSAN
   // (2) free-running pass under ThreadSanitizer
   rep.phase("free-running workloads under ThreadSanitizer", 1, [&](uint64_t, int, Ctx & c) -> uint64_t
   {
      int reps = thorough ? 20 : 6;
      std::vector<std::vector<int>> mixes = {{0, 1}, {0, 0}, {0, 6, 2, 3}, {3, 4, 5, 3}, {4, 7, 4, 7}, {9, 8, 9, 8}, {10, 10, 10, 10}, {0, 1, 2, 3, 4, 5, 6, 7, 8, 9, 10, 10, 4, 5, 6, 7}};
      // development aid: VERIF_TSAN_MIX="10,10,10,10" VERIF_TSAN_REPS=200 runs one mix many times (to hunt a rare report)
      if(getenv("VERIF_TSAN_MIX"))
      {
         std::vector<int> m;
         for(auto& t : split(getenv("VERIF_TSAN_MIX"), ',')) m.push_back(atoi(t.c_str()));
         mixes.assign(1, m);
         if(getenv("VERIF_TSAN_REPS")) reps = atoi(getenv("VERIF_TSAN_REPS"));
      }
      for(auto& mix : mixes)
         // the file round-trip mix is repeated ten times as often: its threads are inside the readers / writers for a few microseconds only, and an overlap is needed
         for(int r = 0; r < ((mix.size() == 4 && mix[0] == 10) ? 10 * reps : reps); ++r)
         {
            std::vector<std::string> ref;
            std::atomic<int> go(0);
            std::vector<std::string> dg(mix.size());
            std::vector<std::thread> th;
            for(size_t t = 0; t < mix.size(); ++t) th.emplace_back([&, t]() { while(!go.load()) std::this_thread::yield(); dg[t] = run_workload(mix[t], nullptr); });
            go.store(1);
            for(auto& x : th) x.join();
            c.count("tsan_free_runs");
            c.count("tsan_threads_run", mix.size());
         }
      int n = g_tsanReports.load();
      // the property is about state shared INSIDE THE LIBRARY: a report counts as a violation when one of its two accesses is in SoPlex or in the Boost / GMP / MPFR code it
      // instantiates (or when the accesses could not be attributed); a report whose accesses both lie elsewhere (harness, C++ run time) is recorded as an observation
      if(n > 0)
      {
         std::string first = g_tsanFirst;
         bool inLibrary = first.empty() || first.find("soplex::") != std::string::npos || first.find("boost::") != std::string::npos || first.find("mpfr") != std::string::npos
                          || first.find("__gmp") != std::string::npos || first.find(" vs ") == std::string::npos;
         if(inLibrary) c.violation(std::string("tsan-report:") + (first.empty() ? "unknown" : first), "free-running", std::to_string(n) + " ThreadSanitizer report(s); first: " + first + "; see the sanitizer log");
         else { c.count("observation.tsan_reports_outside_the_library", n); c.sample("{\"tsan_report_outside_the_library\":" + jstr(first) + "}"); }
      }
      return n + 1;
   }, [&](uint64_t, uint64_t) { return std::string("free-running"); }, o);
   rep.evaluations = rep.all.counters["tsan_free_runs"];
   rep.rule = "free-running repetitions of the workload mixes on 2, 4 and 16 threads under ThreadSanitizer";
   rep.finish(rep.all.counters["tsan_free_runs"], 1, rep.all.counters["tsan_threads_run"], rep.all.counters["tsan_free_runs"]);
   return 0;
#endif
   // (1) exhaustive schedules
   struct Job { std::vector<int> ws; int bound; uint64_t cap; };
   std::vector<Job> jobs;
   jobs.push_back({{0, 1}, 2, 200000});        // boosting vs construct/destroy (touches the global precision)
   jobs.push_back({{0, 6}, thorough ? 2 : 1, 200000});   // two boosting solves
   jobs.push_back({{2, 3}, 1, 200000});        // exact default vs floating point
   jobs.push_back({{3, 4}, thorough ? 2 : 1, 200000});   // two floating-point solves (different scaler / pricer / simplifier)
   jobs.push_back({{5, 0}, 1, 200000});
   jobs.push_back({{4, 7}, thorough ? 2 : 1, 200000});   // two geometric scalers at work at the same time
   jobs.push_back({{9, 8}, thorough ? 2 : 1, 200000});
   jobs.push_back({{10, 10}, 1, 200000});                // two threads writing and reading LP and basis files (own file names) at the same time   // a precise solve next to an object that was given coarse tolerances (the precise one is referenced first)
   if(thorough) { jobs.push_back({{0, 1, 6}, 1, 200000}); jobs.push_back({{0, 1}, 3, 400000}); }
   double perJob = (rep.deadline - now_s() - 20) / jobs.size();
   rep.phase("all schedules within the preemption bound", jobs.size(), [&](uint64_t idx, int, Ctx & c) -> uint64_t
   {
      const Job& j = jobs[idx];
      Explorer ex;
      const uint64_t tables0 = settings_tables_digest();
      ex.ws = j.ws; ex.bound = j.bound; ex.c = &c; ex.maxExec = j.cap; ex.deadline = now_s() + perJob;
      for(int w : j.ws) ex.ref.push_back(run_alone(w));
      // the sequential digest itself must be reproducible
      for(size_t t = 0; t < j.ws.size(); ++t) if(run_alone(j.ws[t]) != ex.ref[t]) c.violation(std::string("sequential-run-not-deterministic:") + WNAME[j.ws[t]], sched_str(j.ws, {}), "");
      // determinism of the controlled execution: the default schedule twice
      { Exec a = execute(j.ws, {}, true), b = execute(j.ws, {}, true); if(a.digests != b.digests || a.pts.size() != b.pts.size()) c.violation("controlled-execution-not-deterministic", sched_str(j.ws, {}), ""); c.count("points_in_default_schedule", a.pts.size()); }
      ex.explore({});
      c.count("jobs");
      c.count("global_table_digests_compared");
      if(settings_tables_digest() != tables0)
      {
         std::string nm;
         for(int w : j.ws) nm += std::string(nm.empty() ? "" : "+") + WNAME[w];
         c.violation("process-global-state-mutated:SoPlex::Settings parameter tables@" + nm, sched_str(j.ws, {}), "the class-static parameter tables (ranges / defaults shared by all solver objects of the process) changed while these workloads ran");
      }
      c.count("distinct_outcomes", ex.outcomes.size());
      if(ex.capped) c.count("jobs_capped");
      std::string names;
      for(int w : j.ws) names += std::string(names.empty() ? "" : " || ") + WNAME[w];
      c.sample("{\"threads\":" + jstr(names) + ",\"preemption_bound\":" + std::to_string(j.bound) + ",\"schedules_executed\":" + std::to_string(ex.executions) + ",\"distinct_outcomes\":" + std::to_string(ex.outcomes.size()) +
               ",\"complete\":" + (ex.capped ? "false" : "true") + ",\"sequential_digest_thread0\":" + jstr(ex.ref[0].substr(0, 80)) + "}");
      c.state(names + "#" + std::to_string(ex.outcomes.size()));
      return ex.executions;
   }, [&](uint64_t idx, uint64_t) { return sched_str(jobs[idx].ws, {}); }, o);
   // (3) census
   rep.phase("census of writable global objects", 1, [&](uint64_t, int, Ctx & c) -> uint64_t
   {
      auto list = census();
      c.count("census_symbols", list.size());
      std::string all;
      for(auto& e : list)
      {
         all += e + "; ";
         if(!census_allowed(e)) c.violation("census:new-writable-global:" + e.substr(e.find(' ') + 1, 90), "census", e);
      }
      c.sample("{\"writable_globals_defined_by_soplex_code\":" + jstr(all.substr(0, 1500)) + "}");
      return list.size() + 1;
   }, [&](uint64_t, uint64_t) { return std::string("census"); }, o);
   auto& C = rep.all.counters;
   if(C["jobs_capped"] > 0) rep.exhaustive = false;
   rep.evaluations = C["schedules_executed"];
   rep.rule = "a case is one complete schedule of a 2- or 3-thread program (each thread: create / parametrise / load / solve / query / destroy its own solver); ALL schedules with at most p preemptions are executed "
              "by re-running the program under a cooperative scheduler (scheduling points: API boundaries, log lines, source hooks before accesses to the global precision); "
              "states = thread-program mixes explored, transitions = scheduling points passed, traces = schedules executed on the implementation";
   rep.assumptions = {"exactly one thread runs at a time under the scheduler; unsynchronised accesses are the business of the separate free-running ThreadSanitizer pass (secondary flavour)",
                      "every access to process-global state found by the census is a scheduling point (source hook SPX_VERIF_POINT, guard SOPLEX_VERIF)"
                     };
   rep.finish(C["distinct_outcomes"] + C["jobs"], C["jobs"], C["schedule_points"], C["schedules_executed"]);
   return 0;
}
