// C08: SPxMainSM<double> driven directly on a bare SPxLPBase<double>.
// For every LP of the families x keepbounds x seed: simplify; verdicts are compared with the exact classification of the
// ORIGINAL LP; if a reduced LP remains, EVERY optimal basic solution of the reduced LP (exact enumeration) is converted to
// doubles + statuses and pushed through a fresh simplify + unsimplify; the postsolved vectors are judged by the exact
// certificate check against the original LP, the postsolved basis by the C04 validity conditions.
#include "vx_spx.hpp"
#include "vx_planted.hpp"
using namespace vx;

static const char* PS_NAME[17] = {"EMPTY_ROW", "FREE_ROW", "SINGLETON_ROW", "FORCE_ROW", "EMPTY_COL", "FIX_COL", "FREE_ZOBJ_COL",
                                   "ZOBJ_SINGLETON_COL", "DOUBLETON_ROW", "FREE_SINGLETON_COL", "DOMINATED_COL",
                                   "WEAKLY_DOMINATED_COL", "DUPLICATE_ROW", "FIX_DUPLICATE_COL", "SUB_DUPLICATE_COL",
                                   "AGGREGATION", "MULTI_AGG"
                                  };
static const char* RES_NAME[] = {"OKAY", "INFEASIBLE", "DUAL_INFEASIBLE", "UNBOUNDED", "VANISHED"};

static std::shared_ptr<Tolerances> g_tol;
static SPxOut g_out;

static void build_lp(SPxLPBase<double>& lp, const TinyLP& t)
{
   lp.setOutstream(g_out);
   lp.setTolerances(g_tol);
   lp.changeSense(t.maximize ? SPxLPBase<double>::MAXIMIZE : SPxLPBase<double>::MINIMIZE);
   DSVector empty(0);
   for(int j = 0; j < t.n; ++j) lp.addCol(LPCol(t.c[j], empty, t.up[j], t.lo[j]));
   for(int i = 0; i < t.m; ++i)
   {
      DSVector row(t.n + 1);
      for(int j = 0; j < t.n; ++j) if(t.A[i][j] != 0) row.add(j, t.A[i][j]);
      lp.addRow(LPRow(t.lhs[i], row, t.rhs[i]));
   }
}
static TinyLP extract_lp(const SPxLPBase<double>& lp)
{
   TinyLP t;
   t.resize(lp.nCols(), lp.nRows());
   t.maximize = lp.spxSense() == SPxLPBase<double>::MAXIMIZE;
   for(int j = 0; j < t.n; ++j) { t.c[j] = lp.obj(j); t.lo[j] = lp.lower(j); t.up[j] = lp.upper(j); }
   for(int i = 0; i < t.m; ++i)
   {
      t.lhs[i] = lp.lhs(i); t.rhs[i] = lp.rhs(i);
      const SVector& r = lp.rowVector(i);
      for(int k = 0; k < r.size(); ++k) t.A[i][r.index(k)] = r.value(k);
   }
   return t;
}

static std::string ps_tag(SPxMainSM<double>& sm)
{
   std::string t;
   if(sm.m_stat.size() >= 17)
      for(int k = 0; k < 17; ++k) if(sm.m_stat[k] > 0) t += (t.empty() ? "" : ",") + std::string(PS_NAME[k]);
   return "ps[" + t + "]";
}

// LPs simplified on the SAME simplifier object immediately before the LP under test (SoPlex reuses its simplifier
// object across solves, so nothing may survive from one simplify() call to the next)
static const char* PRIMERS[] =
{
   "n=2;m=1;max=0;off=0;c=1,1;lo=0,0;up=10,10;lhs=1;rhs=inf;A=1,1",
   "n=2;m=2;max=1;off=0;c=3,2;lo=0,0;up=4,inf;lhs=-inf,-inf;rhs=6,8;A=1,1|2,1",
   "n=3;m=2;max=0;off=0;c=100,200,50;lo=1,0,0;up=5,5,5;lhs=2,-inf;rhs=inf,9;A=1,1,1|1,-1,2",
   "n=2;m=2;max=0;off=0;c=1,1;lo=0,0;up=inf,inf;lhs=-inf,2;rhs=1,inf;A=1,1|1,1"
};
static const int NPRIMERS = 4;
static void prime(SPxMainSM<double>& sm, int primer, bool keepbounds, uint32_t seed)
{
   if(primer < 0) return;
   SPxLPBase<double> lp0;
   build_lp(lp0, TinyLP::parse(PRIMERS[primer]));
   try { sm.simplify(lp0, 1e100, keepbounds, seed); }
   catch(const SPxException&) {}
}

static uint64_t run_case(const TinyLP& t, bool keepbounds, uint32_t seed, Ctx& c, int primer = -1)
{
   XLP x = t.exact();
   Classification cl = classify(x);
   std::string cs = t.str() + "#kb=" + std::to_string((int)keepbounds) + ",seed=" + std::to_string(seed) + ",primer=" + std::to_string(primer);
   c.count("lps_x_cfg");
   if(primer >= 0) c.count("runs_on_reused_simplifier");
   c.count(std::string("class.") + cl.name());
   SPxLPBase<double> lp;
   build_lp(lp, t);
   SPxMainSM<double> sm;
   sm.setOutstream(g_out);
   sm.setTolerances(g_tol);
   prime(sm, primer, keepbounds, seed);
   SPxSimplifier<double>::Result res;
   try
   {
      res = sm.simplify(lp, 1e100, keepbounds, seed);
   }
   catch(const SPxException& e)
   {
      c.violation("exception-in-simplify", cs, e.what());
      return 1;
   }
   std::string tag = ps_tag(sm) + (primer >= 0 ? "+reused-simplifier" : "");
   c.count(std::string("result.") + RES_NAME[res]);
   for(int k = 0; k < 17; ++k) if(sm.m_stat.size() >= 17 && sm.m_stat[k] > 0) c.count(std::string("reduction.") + PS_NAME[k], sm.m_stat[k]);
   uint64_t h = 13 + res;
   // ---- verdicts
   if(res == SPxSimplifier<double>::INFEASIBLE)
   {
      if(cl.feasible) c.violation("verdict-infeasible-on-feasible-lp+" + tag, cs, std::string("original is ") + cl.name());
      return h;
   }
   if(res == SPxSimplifier<double>::UNBOUNDED || res == SPxSimplifier<double>::DUAL_INFEASIBLE)
   {
      if(cl.dualfeasible) c.violation(std::string("verdict-") + RES_NAME[res] + "-on-dual-feasible-lp+" + tag, cs, std::string("original is ") + cl.name() + (cl.hasopt ? " with optimum " + cl.opt.get_str() : ""));
      return h;
   }
   // ---- reduced LP (possibly empty): all its optimal basic solutions
   TinyLP red = extract_lp(lp);
   red.offset = 0;
   XLP xr = red.exact();
   Classification clr = classify(xr, true);
   double off = sm.getObjoffset();
   if(res == SPxSimplifier<double>::VANISHED && (red.n > 0 || red.m > 0))
      c.violation("vanished-with-nonempty-reduced-lp+" + tag, cs, "reduced LP has " + std::to_string(red.n) + " cols " + std::to_string(red.m) + " rows");
   if(clr.hasopt != cl.hasopt)
   {
      c.violation(std::string("reduced-lp-status-differs:") + cl.name() + "->" + clr.name() + "+" + tag, cs, std::string("original ") + cl.name() + ", reduced " + clr.name() + " reduced=" + red.str());
      return h;
   }
   if(!clr.hasopt) { c.count("reduced_without_optimum"); return h; }
   // objective offset: reduced optimum + offset == original optimum (offset of the original LP itself is not seen by the simplifier)
   {
      Q want = cl.opt - x.offset;
      Q got = clr.opt + q_of_double(off);
      if(qabs(want - got) > Q(1, 1000000000))
         c.violation("objective-offset-wrong+" + tag, cs, "reduced optimum " + clr.opt.get_str() + " + offset " + TinyLP::num(off) + " != original optimum " + want.get_str());
   }
   c.count("optimal_vertices_of_reduced_lps", clr.optimal.size());
   if(sm.m_stat.size() >= 17) { int tot = 0; for(int k = 0; k < 17; ++k) tot += sm.m_stat[k]; if(tot > 0) c.count("nontrivial"); }
   int vno = 0;
   for(const BasicSol& bs : clr.optimal)
   {
      set_sub(++vno);
      // fresh simplify (postsolve consumes its history)
      SPxLPBase<double> lp2;
      build_lp(lp2, t);
      SPxMainSM<double> sm2;
      sm2.setOutstream(g_out);
      sm2.setTolerances(g_tol);
      prime(sm2, primer, keepbounds, seed);
      if(sm2.simplify(lp2, 1e100, keepbounds, seed) != res) { c.violation("simplify-not-deterministic", cs, ""); break; }
      int rn = red.n, rm = red.m;
      VectorReal px(rn), py(rm), ps(rm), pr(rn);
      std::vector<SPxSolver::VarStatus> rs(rm + 1), csx(rn + 1);
      for(int j = 0; j < rn; ++j) { px[j] = bs.x[j].get_d(); pr[j] = bs.d[j].get_d(); csx[j] = (SPxSolver::VarStatus)bs.stat[j]; }
      for(int i = 0; i < rm; ++i) { ps[i] = bs.s[i].get_d(); py[i] = bs.y[i].get_d(); rs[i] = (SPxSolver::VarStatus)bs.stat[rn + i]; }
      try
      {
         sm2.unsimplify(px, py, ps, pr, rs.data(), csx.data(), true);
      }
      catch(const SPxException& e)
      {
         c.violation("exception-in-unsimplify+" + tag, cs, e.what());
         continue;
      }
      c.count("postsolves");
      RealResult r;
      r.status = 1;
      r.hasPrimal = r.hasDual = true;
      const VectorReal& ux = sm2.unsimplifiedPrimal(), &uy = sm2.unsimplifiedDual(), &us = sm2.unsimplifiedSlacks(), &ur = sm2.unsimplifiedRedCost();
      if(ux.dim() != t.n || ur.dim() != t.n || uy.dim() != t.m || us.dim() != t.m)
      {
         c.violation("postsolve-dimension-mismatch+" + tag, cs, "");
         continue;
      }
      r.x.assign(ux.get_const_ptr(), ux.get_const_ptr() + t.n);
      r.d.assign(ur.get_const_ptr(), ur.get_const_ptr() + t.n);
      r.y.assign(uy.get_const_ptr(), uy.get_const_ptr() + t.m);
      r.s.assign(us.get_const_ptr(), us.get_const_ptr() + t.m);
      double cx = t.offset;
      for(int j = 0; j < t.n; ++j) cx += t.c[j] * r.x[j];
      r.obj = cx;
      std::string why;
      std::string rule = check_optimal_certificate(x, r, cl, 1e-6, 1e-6, why);
      h = h * 31 + fnv_str(rule);
      std::string detail = why + " | reduced vertex x=" + vecstr(std::vector<double>(px.get_const_ptr(), px.get_const_ptr() + rn)) + " | postsolved x=" + vecstr(r.x) + " s=" + vecstr(r.s) + " y=" + vecstr(r.y) + " d=" + vecstr(r.d) + " | reduced=" + red.str();
      // degeneracy class of the reduced vertex (part of the signature)
      std::string dg;
      {
         bool pdeg = false, ddeg = false;
         int sg = xr.maximize ? -1 : 1;
         for(int k = 0; k < rn + rm; ++k)
         {
            Q val = k < rn ? bs.x[k] : bs.s[k - rn];
            Q dk = k < rn ? bs.d[k] : bs.y[k - rn];
            if(bs.stat[k] == V_BASIC)
            {
               if((xr.vlo(k).fin() && val == xr.vlo(k).v) || (xr.vup(k).fin() && val == xr.vup(k).v)) pdeg = true;
            }
            else if(bs.stat[k] != V_FIXED && dk * sg == 0) ddeg = true;
         }
         dg = std::string(pdeg ? "+pdeg" : "") + (ddeg ? "+ddeg" : "");
         if(dg.empty()) dg = "+nondeg";
      }
      if(!rule.empty()) c.violation("postsolve-" + rule + "+" + tag + dg, cs, detail);
      // basis
      std::vector<SPxSolver::VarStatus> brs(t.m + 1), bcs(t.n + 1);
      sm2.getBasis(brs.data(), bcs.data(), t.m, t.n);
      std::vector<int> basic;
      std::string berr;
      for(int j = 0; j < t.n && berr.empty(); ++j)
      {
         int st = (int)bcs[j];
         if(st == V_BASIC) basic.push_back(j);
         else if(st == V_ON_LOWER && t.lo[j] <= -1e100) berr = "col " + std::to_string(j) + " nonbasic at infinite lower";
         else if(st == V_ON_UPPER && t.up[j] >= 1e100) berr = "col " + std::to_string(j) + " nonbasic at infinite upper";
         else if(st == V_FIXED && t.lo[j] != t.up[j]) berr = "col " + std::to_string(j) + " FIXED with different bounds";
         else if(st == V_ZERO && (t.lo[j] > -1e100 || t.up[j] < 1e100)) berr = "col " + std::to_string(j) + " ZERO but not free";
         else if(st < 0 || st > 4) berr = "col " + std::to_string(j) + " status code " + std::to_string(st);
      }
      for(int i = 0; i < t.m && berr.empty(); ++i)
      {
         int st = (int)brs[i];
         if(st == V_BASIC) basic.push_back(t.n + i);
         else if(st == V_ON_LOWER && t.lhs[i] <= -1e100) berr = "row " + std::to_string(i) + " nonbasic at infinite lhs";
         else if(st == V_ON_UPPER && t.rhs[i] >= 1e100) berr = "row " + std::to_string(i) + " nonbasic at infinite rhs";
         else if(st == V_FIXED && t.lhs[i] != t.rhs[i]) berr = "row " + std::to_string(i) + " FIXED with different sides";
         else if(st == V_ZERO && (t.lhs[i] > -1e100 || t.rhs[i] < 1e100)) berr = "row " + std::to_string(i) + " ZERO but not free";
         else if(st < 0 || st > 4) berr = "row " + std::to_string(i) + " status code " + std::to_string(st);
      }
      if(berr.empty() && (int)basic.size() != t.m) berr = std::to_string(basic.size()) + " basic variables for " + std::to_string(t.m) + " rows";
      if(berr.empty() && t.m > 0)
      {
         std::vector<std::vector<Q>> B(t.m, std::vector<Q>(t.m));
         for(int i = 0; i < t.m; ++i) for(int k = 0; k < t.m; ++k) B[i][k] = x.col(i, basic[k]);
         if(qdet(B) == 0) berr = "postsolved basis matrix is singular";
      }
      if(!berr.empty())
      {
         std::string kind = berr.find("ZERO") != std::string::npos ? "zero-on-bounded" : berr.find("basic variables") != std::string::npos ? "count" :
                            berr.find("singular") != std::string::npos ? "singular" : berr.find("infinite") != std::string::npos ? "at-infinite-bound" : "other";
         c.violation("postsolve-invalid-basis:" + kind + "+" + tag + dg, cs, berr + " | " + detail);
      }
      if(rule.empty() && berr.empty() && c.wantSample() && vno == 1 && tag.size() > 12)
         c.sample("{\"lp\":" + t.json() + ",\"keepbounds\":" + std::to_string((int)keepbounds) + ",\"result\":" + jstr(RES_NAME[res]) + ",\"reductions\":" + jstr(tag) +
                  ",\"reduced_lp\":" + red.json() + ",\"optimal_vertices_of_reduced\":" + std::to_string(clr.optimal.size()) + ",\"postsolved_x\":" + jstr(vecstr(r.x)) + "}");
   }
   return h;
}

// ---- planted medium-size LPs (vx_planted.hpp) -----------------------------------------------------------------------------------------
// simplify; a verdict is compared with the classification known by construction; a reduced LP is solved by a plain simplex (SoPlex object
// without simplifier and scaler) and THAT optimal basic solution is pushed through unsimplify; the postsolved vectors are judged by the exact
// certificate check against the original LP (true optimum known by construction), the postsolved basis by validity + exact regularity.
// Unlike optimize(), nothing here repairs a wrong postsolve by re-solving.
static uint64_t run_planted8(const PlantedSpec& sp, bool keepbounds, uint32_t seed, Ctx& c)
{
   PlantedLP P = planted(sp);
   const TinyLP& t = P.lp;
   XLP x = t.exact();
   const Classification& cl = P.cl;
   std::string cs = sp.str() + "#kb=" + std::to_string((int)keepbounds) + ",seed=" + std::to_string(seed) + ",primer=-1";
   c.count("lps_x_cfg");
   c.count("planted_lps_x_cfg");
   c.count(std::string("planted_class.") + sp.kindName());
   SPxLPBase<double> lp;
   build_lp(lp, t);
   SPxMainSM<double> sm;
   sm.setOutstream(g_out);
   sm.setTolerances(g_tol);
   SPxSimplifier<double>::Result res;
   try { res = sm.simplify(lp, 1e100, keepbounds, seed); }
   catch(const SPxException& e) { c.violation("exception-in-simplify+planted", cs, e.what()); return 1; }
   std::string tag = ps_tag(sm) + "+planted";
   c.count(std::string("planted_result.") + RES_NAME[res]);
   for(int k = 0; k < 17; ++k) if(sm.m_stat.size() >= 17 && sm.m_stat[k] > 0) c.count(std::string("reduction.") + PS_NAME[k], sm.m_stat[k]);
   uint64_t h = 13 + res;
   if(res == SPxSimplifier<double>::INFEASIBLE)
   {
      if(cl.feasible) c.violation("verdict-infeasible-on-feasible-lp+" + tag, cs, std::string("planted class ") + sp.kindName());
      return h;
   }
   if(res == SPxSimplifier<double>::UNBOUNDED || res == SPxSimplifier<double>::DUAL_INFEASIBLE)
   {
      // kinds OPT / COV have a finite optimum, hence are dual feasible; for the planted infeasible LPs dual feasibility is not known by construction
      if(cl.hasopt) c.violation(std::string("verdict-") + RES_NAME[res] + "-on-dual-feasible-lp+" + tag, cs, "planted LP has the finite optimum " + cl.opt.get_str());
      return h;
   }
   TinyLP red = extract_lp(lp);
   red.offset = 0;
   double off = sm.getObjoffset();
   int rn = red.n, rm = red.m;
   if(res == SPxSimplifier<double>::VANISHED && (rn > 0 || rm > 0))
      c.violation("vanished-with-nonempty-reduced-lp+" + tag, cs, "reduced LP has " + std::to_string(rn) + " cols " + std::to_string(rm) + " rows");
   VectorReal px(rn), py(rm), ps(rm), pr(rn);
   std::vector<SPxSolver::VarStatus> rs(rm + 1), csx(rn + 1);
   double redobj = 0;
   if(rn > 0)
   {
      SoPlex s;
      quiet(s);
      s.setIntParam(SoPlex::SIMPLIFIER, SoPlex::SIMPLIFIER_OFF);
      s.setIntParam(SoPlex::SCALER, SoPlex::SCALER_OFF);
      load_real(s, red, 0);
      int st = (int)s.optimize();
      c.count("planted_reduced_status." + std::to_string(st));
      if((st == 1) != cl.hasopt)
      {
         if(st == 1 || st == 2 || st == 3 || st == 4)
            c.violation(std::string("reduced-lp-status-differs:") + sp.kindName() + "->" + std::to_string(st) + "+" + tag, cs, std::string("planted class ") + sp.kindName() + ", plain simplex on the reduced LP returned status " + std::to_string(st));
         return h;
      }
      if(st != 1) { c.count("reduced_without_optimum"); return h; }
      s.getPrimal(px); s.getDual(py); s.getSlacksReal(ps); s.getRedCost(pr);
      s.getBasis(rs.data(), csx.data());
      redobj = s.objValueReal();
      // degeneracy class of the reduced vertex (part of the signature, as for the tiny families)
      bool pdeg = false, ddeg = false;
      for(int k = 0; k < rn + rm; ++k)
      {
         double val = k < rn ? px[k] : ps[k - rn], dk = k < rn ? pr[k] : py[k - rn];
         double lo = k < rn ? red.lo[k] : red.lhs[k - rn], up = k < rn ? red.up[k] : red.rhs[k - rn];
         int stt = (int)(k < rn ? csx[k] : rs[k - rn]);
         if(stt == V_BASIC) { if((lo > -1e100 && fabs(val - lo) < 1e-9) || (up < 1e100 && fabs(val - up) < 1e-9)) pdeg = true; }
         else if(stt != V_FIXED && fabs(dk) < 1e-9) ddeg = true;
      }
      tag = ps_tag(sm) + (pdeg ? "+pdeg" : "") + (ddeg ? "+ddeg" : "") + (!pdeg && !ddeg ? "+nondeg" : "") + "+planted";
   }
   else if(!cl.hasopt)
   {
      c.violation(std::string("reduced-lp-status-differs:") + sp.kindName() + "->VANISHED+" + tag, cs, "presolve removed the whole LP although the planted LP has no finite optimum");
      return h;
   }
   {
      double want = Q(cl.opt - x.offset).get_d();
      if(fabs(want - (redobj + off)) > 1e-6 * (1 + fabs(want)))
         c.violation("objective-offset-wrong+" + tag, cs, "reduced optimum " + TinyLP::num(redobj) + " + offset " + TinyLP::num(off) + " != original optimum " + TinyLP::num(want));
   }
   if(sm.m_stat.size() >= 17) { int tot = 0; for(int k = 0; k < 17; ++k) tot += sm.m_stat[k]; if(tot > 0) c.count("nontrivial"); }
   try { sm.unsimplify(px, py, ps, pr, rs.data(), csx.data(), true); }
   catch(const SPxException& e) { c.violation("exception-in-unsimplify+" + tag, cs, e.what()); return h; }
   c.count("postsolves");
   c.count("planted_postsolves");
   RealResult r;
   r.status = 1;
   r.hasPrimal = r.hasDual = true;
   const VectorReal& ux = sm.unsimplifiedPrimal(), &uy = sm.unsimplifiedDual(), &us = sm.unsimplifiedSlacks(), &ur = sm.unsimplifiedRedCost();
   if(ux.dim() != t.n || ur.dim() != t.n || uy.dim() != t.m || us.dim() != t.m) { c.violation("postsolve-dimension-mismatch+" + tag, cs, ""); return h; }
   r.x.assign(ux.get_const_ptr(), ux.get_const_ptr() + t.n);
   r.d.assign(ur.get_const_ptr(), ur.get_const_ptr() + t.n);
   r.y.assign(uy.get_const_ptr(), uy.get_const_ptr() + t.m);
   r.s.assign(us.get_const_ptr(), us.get_const_ptr() + t.m);
   double cx = t.offset;
   for(int j = 0; j < t.n; ++j) cx += t.c[j] * r.x[j];
   r.obj = cx;
   std::string why;
   std::string rule = check_optimal_certificate(x, r, cl, 1e-6, 1e-6, why);
   h = h * 31 + fnv_str(rule);
   if(!rule.empty()) c.violation("postsolve-" + rule + "+" + tag, cs, why);
   // basis
   std::vector<SPxSolver::VarStatus> brs(t.m + 1), bcs(t.n + 1);
   sm.getBasis(brs.data(), bcs.data(), t.m, t.n);
   std::vector<int> basic;
   std::string berr;
   for(int j = 0; j < t.n && berr.empty(); ++j)
   {
      int st = (int)bcs[j];
      if(st == V_BASIC) basic.push_back(j);
      else if(st == V_ON_LOWER && t.lo[j] <= -1e100) berr = "col " + std::to_string(j) + " nonbasic at infinite lower";
      else if(st == V_ON_UPPER && t.up[j] >= 1e100) berr = "col " + std::to_string(j) + " nonbasic at infinite upper";
      else if(st == V_FIXED && t.lo[j] != t.up[j]) berr = "col " + std::to_string(j) + " FIXED with different bounds";
      else if(st == V_ZERO && (t.lo[j] > -1e100 || t.up[j] < 1e100)) berr = "col " + std::to_string(j) + " ZERO but not free";
      else if(st < 0 || st > 4) berr = "col " + std::to_string(j) + " status code " + std::to_string(st);
   }
   for(int i = 0; i < t.m && berr.empty(); ++i)
   {
      int st = (int)brs[i];
      if(st == V_BASIC) basic.push_back(t.n + i);
      else if(st == V_ON_LOWER && t.lhs[i] <= -1e100) berr = "row " + std::to_string(i) + " nonbasic at infinite lhs";
      else if(st == V_ON_UPPER && t.rhs[i] >= 1e100) berr = "row " + std::to_string(i) + " nonbasic at infinite rhs";
      else if(st == V_FIXED && t.lhs[i] != t.rhs[i]) berr = "row " + std::to_string(i) + " FIXED with different sides";
      else if(st == V_ZERO && (t.lhs[i] > -1e100 || t.rhs[i] < 1e100)) berr = "row " + std::to_string(i) + " ZERO but not free";
      else if(st < 0 || st > 4) berr = "row " + std::to_string(i) + " status code " + std::to_string(st);
   }
   if(berr.empty() && (int)basic.size() != t.m) berr = std::to_string(basic.size()) + " basic variables for " + std::to_string(t.m) + " rows";
   if(berr.empty() && t.m > 0)
   {
      std::vector<std::vector<Q>> B(t.m, std::vector<Q>(t.m));
      for(int i = 0; i < t.m; ++i) for(int k = 0; k < t.m; ++k) B[i][k] = x.col(i, basic[k]);
      if(qdet(B) == 0) berr = "postsolved basis matrix is singular";
   }
   if(!berr.empty())
   {
      std::string kind = berr.find("ZERO") != std::string::npos ? "zero-on-bounded" : berr.find("basic variables") != std::string::npos ? "count" :
                         berr.find("singular") != std::string::npos ? "singular" : berr.find("infinite") != std::string::npos ? "at-infinite-bound" : "other";
      c.violation("postsolve-invalid-basis:" + kind + "+" + tag, cs, berr);
   }
   if(rule.empty() && berr.empty() && c.wantSample())
      c.sample("{\"planted_lp\":" + jstr(sp.str()) + ",\"keepbounds\":" + std::to_string((int)keepbounds) + ",\"result\":" + jstr(RES_NAME[res]) + ",\"reductions\":" + jstr(tag) + ",\"reduced_dims\":" + jstr(std::to_string(rn) + "x" + std::to_string(rm)) + "}");
   return h;
}

int main(int argc, char** argv)
{
   Args args = parse_args(argc, argv);
   args.prop = "C08";
   g_tol = std::make_shared<Tolerances>();
   g_out.setVerbosity(SPxOut::ERROR);
   if(!args.replay.empty())
   {
      std::ifstream in(args.replay);
      std::string doc((std::istreambuf_iterator<char>(in)), std::istreambuf_iterator<char>());
      size_t p = doc.find("\"case\": \"");
      if(p == std::string::npos) { printf("REPLAY-ERROR no case\n"); return 2; }
      p += 9;
      std::string cs = doc.substr(p, doc.find('"', p) - p);
      size_t h = cs.find('#');
      int kb = 0, seed = 0, primer = -1;
      sscanf(cs.c_str() + h, "#kb=%d,seed=%d,primer=%d", &kb, &seed, &primer);
      mallopt(M_PERTURB, 85);
      PlantedSpec psp;
      if(cs.compare(0, 2, "P:") == 0 && PlantedSpec::parse(cs.substr(0, h), psp))
         return replay_case([&](Ctx & c) { run_planted8(psp, kb != 0, (uint32_t)seed, c); });
      TinyLP t = TinyLP::parse(cs.substr(0, h));
      return replay_case([&](Ctx & c) { run_case(t, kb != 0, (uint32_t)seed, c, primer); });
   }
   bool thorough = args.tier == "thorough";
   Report rep(args, "exploration", thorough ? 3000 : 400);
   FamilySet fs;
   if(!thorough)
   {
      fs.add(famQ());
      fs.add(famT(1, 1, {-1, 0, 1, 2}, {-1, 0, 1}, {0, 1, 2, 3, 4}, {0, 1, 2, 3, 4, 5, 6, 7}));
      fs.add(famT(3, 2, {-1, 0, 1, 2}, {-1, 1}, {0, 1, 3}, {0, 2, 3}, 4));
      fs.add(famT(2, 3, {-1, 0, 1, 2}, {-1, 1}, {0, 1, 4}, {1, 3, 6}, 4));
   }
   else
   {
      fs.add(famT(1, 1, {-1, 0, 1, 2}, {-1, 0, 1}, {0, 1, 2, 3, 4}, {0, 1, 2, 3, 4, 5, 6, 7}));
      fs.add(famT(2, 1, {-1, 0, 1, 2}, {-1, 0, 1}, {0, 1, 2, 3, 4}, {0, 1, 2, 3, 4, 5, 6, 7}));
      fs.add(famT(1, 2, {-1, 0, 1, 2}, {-1, 0, 1}, {0, 1, 2, 3, 4}, {0, 1, 2, 3, 4, 5, 6, 7}));
      fs.add(famT(2, 2, {-1, 0, 1, 2}, {-1, 0, 1}, {0, 1, 2, 3, 4}, {0, 1, 2, 3, 4, 5, 6, 7}));
      fs.add(famT(3, 2, {-1, 0, 1, 2}, {-1, 0, 1}, {0, 1, 3}, {0, 2, 3, 7}, 5));
      fs.add(famT(2, 3, {-1, 0, 1, 2}, {-1, 1}, {0, 1, 4}, {1, 2, 3, 6}, 5));
      fs.add(famT(3, 3, {-1, 0, 1}, {-1, 1}, {0, 1}, {0, 2}, 6));
   }
   int nseeds = thorough ? 8 : 1;
   uint64_t per = 2 * (uint64_t)nseeds;
   RunOpts o = rep.opts();
   o.perturb = {85};
   rep.phase(thorough ? "M x keepbounds x 8 seeds" : "Q+ x keepbounds", fs.total, [&](uint64_t idx, int, Ctx & c) -> uint64_t
   {
      TinyLP t;
      if(!fs.get(idx, t)) return 0;
      uint64_t h = 1;
      for(uint64_t k = 0; k < per; ++k) h = h * 31 + run_case(t, (k & 1) != 0, (uint32_t)(k >> 1), c);
      // the same LP on a simplifier object that has just simplified another LP (quick: one primer per LP, thorough: all)
      for(int pr = 0; pr < NPRIMERS; ++pr)
         if(thorough || pr == int(idx % NPRIMERS)) h = h * 31 + run_case(t, (idx & 4) != 0, 0, c, pr);
      return h;
   }, [&](uint64_t idx, uint64_t) { TinyLP t; fs.get(idx, t); return t.str() + "#kb=0,seed=0,primer=-1"; }, o);
   {
      static PlantedGrid pg;
      pg.sizes = {{4, 3}, {5, 8}, {8, 5}, {10, 10}, {16, 12}, {12, 20}, {24, 24}, {40, 25}, {30, 40}, {40, 40}};
      pg.densities = {15, 40};
      pg.seeds = thorough ? 30 : 4;
      pg.kinds = 4;
      rep.phase("planted LPs up to 40x40 x keepbounds" + std::string(thorough ? " x 4 seeds" : ""), pg.size() * 2, [&](uint64_t idx, int, Ctx & c) -> uint64_t
      {
         uint64_t h = 1;
         for(int sd = 0; sd < (thorough ? 4 : 1); ++sd) h = h * 31 + run_planted8(pg.at(idx / 2), (idx & 1) != 0, (uint32_t)sd, c);
         return h;
      }, [&](uint64_t idx, uint64_t) { return pg.at(idx / 2).str() + "#kb=" + std::to_string((int)(idx & 1)) + ",seed=0,primer=-1"; }, o);
      rep.extra["planted_grid"] = jstr("sizes (n x m) 4x3 5x8 8x5 10x10 16x12 12x20 24x24 40x25 30x40 40x40; densities 15/40 %; degenerate 0/1; min/max; kinds OPT/INF/UNB/COV; seeds 0.." + std::to_string(pg.seeds - 1));
   }
   rep.evaluations = rep.all.counters["lps_x_cfg"] + rep.all.counters["postsolves"];
   rep.rule = "case = (canonical tiny LP, keepbounds, seed): simplify once, then one simplify+unsimplify per optimal basic solution of the reduced LP "
              "(all of them, from exact basis enumeration); non-trivial = a case in which at least one presolve reduction fired and a postsolve was executed";
   rep.assumptions = {"exact oracle (basis enumeration over GMP rationals) for the original and for the reduced LP",
                      "basic solutions of the reduced LP are handed to unsimplify as doubles (exact for these small-integer LPs whenever the reduced data stay dyadic; otherwise correctly rounded)",
                      "tolerances 1e-6"
                     };
   rep.finish(rep.all.counters["nontrivial"]);
   return 0;
}
