// C05: basis-inverse and basis-multiply queries agree with the user's basis matrix B.
// LP family with entries spanning binary orders of magnitude x REPRESENTATION(3) x SCALER(7) x PERSISTENTSCALING(2)
// x unscale flag; after optimize() every regular basis of the LP (exact enumeration) is installed with setBasis and
// every row/column of the inverse, the solve, multBasis and multBasisTranspose are compared with exact arithmetic on B.
#include "vx_spx.hpp"
#include "vx_planted.hpp"
using namespace vx;

struct Cfg5 { int rep, scaler, persistent; };
static std::string cfg_str(const Cfg5& c) { return "rep=" + std::to_string(c.rep) + ",scaler=" + std::to_string(c.scaler) + ",persistent=" + std::to_string(c.persistent); }

static double g_tol = 1e-9;     // relative tolerance of the comparison (1e-9 on the tiny family, 1e-7 on the medium-size planted LPs)
static bool close_q(double got, const Q& want)
{
   if(!std::isfinite(got)) return false;
   double w = want.get_d();
   return fabs(got - w) <= g_tol * (1 + fabs(w));
}

// B from basis indices and the harness's copy of the LP
static bool build_B(const XLP& x, const std::vector<int>& bind, std::vector<std::vector<Q>>& B)
{
   int m = x.m;
   B.assign(m, std::vector<Q>(m, Q(0)));
   for(int k = 0; k < m; ++k)
   {
      if(bind[k] >= 0) { if(bind[k] >= x.n) return false; for(int i = 0; i < m; ++i) B[i][k] = x.A[i][bind[k]]; }
      else { int r = -1 - bind[k]; if(r < 0 || r >= m) return false; B[r][k] = 1; }
   }
   return true;
}

// all queries on the current basis; returns "" or "<rule>|detail"
static std::string check_queries(SoPlex& spx, const XLP& x, bool unscale, Ctx& c)
{
   int m = x.m;
   std::vector<int> bind0(m), bind(m);
   spx.getBasisInd(bind0.data());
   // first query (may load the LP into the solver and factorise)
   std::vector<double> coef(m, 0.0);
   std::vector<int> inds(m, -1);
   int ninds = -7;
   if(!spx.getBasisInverseRowReal(0, coef.data(), inds.data(), &ninds, unscale)) { c.count("query_unavailable"); return ""; }
   spx.getBasisInd(bind.data());
   if(bind != bind0) return "basis-index-order-changes-with-first-query|getBasisInd before " + ivecstr(bind0) + " after " + ivecstr(bind);
   std::vector<std::vector<Q>> B, Inv;
   if(!build_B(x, bind, B)) return "basis-index-out-of-range|" + ivecstr(bind);
   {
      // the set of basis indices must be the set of BASIC statuses
      std::vector<SPxSolver::VarStatus> rs(m + 1), cs(x.n + 1);
      spx.getBasis(rs.data(), cs.data());
      std::set<int> a(bind.begin(), bind.end()), b;
      for(int i = 0; i < m; ++i) if(rs[i] == SPxSolver::BASIC) b.insert(-1 - i);
      for(int j = 0; j < x.n; ++j) if(cs[j] == SPxSolver::BASIC) b.insert(j);
      if(a != b) return "basis-index-set-differs-from-statuses|" + ivecstr(bind);
   }
   if(!qinverse(B, Inv)) { c.count("singular_basis_installed"); return ""; }
   c.count("bases_checked");
   // progress tag for the runner: a crash inside a query is attributed to (query, representation, scaled, unscale)
   const uint64_t stag = 100 + (((int)spx._solver.rep() > 0 ? 4 : 0) + ((spx._realLP && spx._realLP->isScaled()) ? 2 : 0) + (unscale ? 1 : 0)) * 10;
   std::ostringstream o;
   o.precision(17);
   for(int r = 0; r < m; ++r)
   {
      // row r of the inverse: dense output + sparse index output
      // with index output the result is scattered into the caller's (zero-initialised) array
      std::fill(coef.begin(), coef.end(), 0.0);
      ninds = -7;
      set_sub(stag + 0);
      if(!spx.getBasisInverseRowReal(r, coef.data(), inds.data(), &ninds, unscale)) return "query-failed|getBasisInverseRowReal";
      for(int k = 0; k < m; ++k) if(!close_q(coef[k], Inv[r][k])) { o << "getBasisInverseRowReal(" << r << ")[" << k << "] = " << coef[k] << " want " << Inv[r][k].get_str(); return "inverse-row-wrong|" + o.str(); }
      if(ninds >= 0)
      {
         std::set<int> idx(inds.begin(), inds.begin() + std::min(ninds, m));
         if(g_tol > 1e-9)
         {
            // medium-size LPs: an entry that is exactly zero may come out as rounding noise and be listed, so the list is judged against the returned values
            // (no duplicates, in range, every entry that is significantly nonzero is listed) instead of against the exact zero pattern
            bool bad = (int)idx.size() != std::min(ninds, m) || ninds > m;
            for(int k : idx) if(k < 0 || k >= m) bad = true;
            for(int k = 0; k < m && !bad; ++k) if(fabs(Inv[r][k].get_d()) > 1e-6 && !idx.count(k)) bad = true;
            if(bad) { o << "getBasisInverseRowReal(" << r << ") index list has duplicates / out-of-range entries or misses a nonzero"; return "inverse-row-index-set-wrong|" + o.str(); }
         }
         else
         for(int k = 0; k < m; ++k) if((Inv[r][k] != 0) != (idx.count(k) > 0)) { o << "getBasisInverseRowReal(" << r << ") index list " << ivecstr(std::vector<int>(inds.begin(), inds.begin() + std::min(ninds, m))) << " does not list exactly the nonzeros"; return "inverse-row-index-set-wrong|" + o.str(); }
         c.count("sparse_index_outputs_checked");
      }
      // same without index output
      std::vector<double> coef2(m, 99.0);
      if(!spx.getBasisInverseRowReal(r, coef2.data(), nullptr, nullptr, unscale)) return "query-failed|getBasisInverseRowReal(no inds)";
      for(int k = 0; k < m; ++k) if(!close_q(coef2[k], Inv[r][k])) { o << "getBasisInverseRowReal(" << r << ", no inds)[" << k << "] = " << coef2[k] << " want " << Inv[r][k].get_str(); return "inverse-row-wrong|" + o.str(); }
      // column r
      std::fill(coef.begin(), coef.end(), 0.0);
      ninds = -7;
      set_sub(stag + 1);
      if(!spx.getBasisInverseColReal(r, coef.data(), inds.data(), &ninds, unscale)) return "query-failed|getBasisInverseColReal";
      for(int k = 0; k < m; ++k) if(!close_q(coef[k], Inv[k][r])) { o << "getBasisInverseColReal(" << r << ")[" << k << "] = " << coef[k] << " want " << Inv[k][r].get_str(); return "inverse-col-wrong|" + o.str(); }
      if(ninds >= 0)
      {
         std::set<int> idx(inds.begin(), inds.begin() + std::min(ninds, m));
         if(g_tol > 1e-9)
         {
            bool bad = (int)idx.size() != std::min(ninds, m) || ninds > m;
            for(int k : idx) if(k < 0 || k >= m) bad = true;
            for(int k = 0; k < m && !bad; ++k) if(fabs(Inv[k][r].get_d()) > 1e-6 && !idx.count(k)) bad = true;
            if(bad) { o << "getBasisInverseColReal(" << r << ") index list has duplicates / out-of-range entries or misses a nonzero"; return "inverse-col-index-set-wrong|" + o.str(); }
         }
         else
         for(int k = 0; k < m; ++k) if((Inv[k][r] != 0) != (idx.count(k) > 0)) { o << "getBasisInverseColReal(" << r << ") index list does not list exactly the nonzeros"; return "inverse-col-index-set-wrong|" + o.str(); }
      }
      c.count("queries", 3);
   }
   // solve / multiply on unit vectors and on (1,2,..,m)
   for(int t = 0; t <= m; ++t)
   {
      std::vector<Q> v(m, Q(0));
      if(t < m) v[t] = 1; else for(int k = 0; k < m; ++k) v[k] = k + 1;
      std::vector<double> rhs(m), sol(m, 99.0);
      for(int k = 0; k < m; ++k) rhs[k] = v[k].get_d();
      std::vector<double> rhsCopy = rhs;
      set_sub(stag + 2);
      if(!spx.getBasisInverseTimesVecReal(rhs.data(), sol.data(), unscale)) return "query-failed|getBasisInverseTimesVecReal";
      for(int i = 0; i < m; ++i)
      {
         Q w = 0;
         for(int k = 0; k < m; ++k) w += Inv[i][k] * v[k];
         if(!close_q(sol[i], w)) { o << "getBasisInverseTimesVecReal(v#" << t << ")[" << i << "] = " << sol[i] << " want " << w.get_str(); return "inverse-times-vec-wrong|" + o.str(); }
      }
      if(rhs != rhsCopy) c.count("observation.rhs_argument_overwritten");
      std::vector<double> mv = rhsCopy;
      set_sub(stag + 3);
      if(!spx.multBasis(mv.data(), unscale)) return "query-failed|multBasis";
      for(int i = 0; i < m; ++i)
      {
         Q w = 0;
         for(int k = 0; k < m; ++k) w += B[i][k] * v[k];
         if(!close_q(mv[i], w)) { o << "multBasis(v#" << t << ")[" << i << "] = " << mv[i] << " want " << w.get_str(); return "mult-basis-wrong|" + o.str(); }
      }
      mv = rhsCopy;
      set_sub(stag + 4);
      if(!spx.multBasisTranspose(mv.data(), unscale)) return "query-failed|multBasisTranspose";
      for(int i = 0; i < m; ++i)
      {
         Q w = 0;
         for(int k = 0; k < m; ++k) w += B[k][i] * v[k];
         if(!close_q(mv[i], w)) { o << "multBasisTranspose(v#" << t << ")[" << i << "] = " << mv[i] << " want " << w.get_str(); return "mult-basis-transpose-wrong|" + o.str(); }
      }
      c.count("queries", 3);
   }
   return "";
}

static uint64_t run_case(const TinyLP& t, const Cfg5& cf, Ctx& c)
{
   XLP x = t.exact();
   if(x.m == 0) return 0;
   Classification cl = classify(x, false, true);
   SoPlex spx;
   quiet(spx);
   spx.setIntParam(SoPlex::REPRESENTATION, cf.rep);
   spx.setIntParam(SoPlex::SCALER, cf.scaler);
   spx.setBoolParam(SoPlex::PERSISTENTSCALING, cf.persistent != 0);
   load_real(spx, t, 0);
   spx.optimize();     // this is what installs persistent scaling
   c.count("lp_x_cfg");
   c.count(std::string("status.") + std::to_string((int)spx.status()));
   uint64_t h = 3;
   auto report = [&](const std::string & res, const std::string & how, bool unscale)
   {
      if(res.empty()) return;
      size_t bar = res.find('|');
      bool scaled = spx._realLP && spx._realLP->isScaled();
      int rep = (int)spx._solver.rep();
      std::string sig = res.substr(0, bar) + "@" + how + ",rep=" + (rep > 0 ? "COL" : "ROW") + "," + (scaled ? "scaled" : "unscaled") + ",unscale=" + std::to_string((int)unscale);
      c.violation(sig, t.str() + "#" + cfg_str(cf), res.substr(bar + 1) + " | cfg " + cfg_str(cf));
      h = h * 31 + 5;
   };
   // the basis the solve ended with
   for(int us = 1; us >= 0; --us)
   {
      if(us == 0 && spx._realLP && spx._realLP->isScaled()) continue;   // unscale=false on a scaled LP refers to the stored (scaled) LP
      if(spx.hasBasis()) report(check_queries(spx, x, us != 0, c), "basis-from-solve", us != 0);
   }
   // every regular basis of the LP
   int n = x.n, m = x.m;
   for(auto& basic : cl.regular)
   {
      std::vector<SPxSolver::VarStatus> rs(m), cs(n);
      std::vector<bool> isb(n + m, false);
      for(int k : basic) isb[k] = true;
      for(int k = 0; k < n + m; ++k)
      {
         int o[2], no;
         nb_options(x.vlo(k), x.vup(k), o, no);
         SPxSolver::VarStatus st = isb[k] ? SPxSolver::BASIC : (SPxSolver::VarStatus)o[0];
         if(k < n) cs[k] = st; else rs[k - n] = st;
      }
      spx.setBasis(rs.data(), cs.data());
      c.count("bases_installed");
      if(!spx.hasBasis()) { c.violation("setbasis-did-not-install-basis", t.str() + "#" + cfg_str(cf), ""); continue; }
      for(int us = 1; us >= 0; --us)
      {
         if(us == 0 && spx._realLP && spx._realLP->isScaled()) continue;
         report(check_queries(spx, x, us != 0, c), "basis-from-setBasis", us != 0);
      }
   }
   if(c.wantSample() && cl.regular.size() > 2 && cf.scaler == 2 && cf.rep == 2)
      c.sample("{\"lp\":" + t.json() + ",\"config\":" + jstr(cfg_str(cf)) + ",\"regular_bases\":" + std::to_string(cl.regular.size()) + "}");
   return h;
}

// medium-size planted LP (vx_planted.hpp, power-of-two rescaled so that every scaler chooses non-trivial exponents): the basis the solve ends with, then every
// basis that iteration-limited solves of the same LP stop at (k = 1, 2, 3, 5, 8, 13, ... iterations; collected on separate objects) installed with setBasis on the
// solved - possibly persistently scaled - object.  setBasis re-orders the basis positions (basic rows first), which a solve from the slack basis never does.
static uint64_t run_planted5(const PlantedSpec& sp, const Cfg5& cf, Ctx& c)
{
   PlantedLP P = planted(sp);
   const TinyLP& t = P.lp;
   XLP x = t.exact();
   int n = x.n, m = x.m;
   g_tol = 1e-7;
   auto configure = [&](SoPlex & s)
   {
      quiet(s);
      s.setIntParam(SoPlex::REPRESENTATION, cf.rep);
      s.setIntParam(SoPlex::SCALER, cf.scaler);
      s.setBoolParam(SoPlex::PERSISTENTSCALING, cf.persistent != 0);
   };
   typedef std::pair<std::vector<SPxSolver::VarStatus>, std::vector<SPxSolver::VarStatus>> BasisRC;
   std::vector<BasisRC> bases;
   int N = 0;
   {
      SoPlex ref;
      configure(ref);
      ref.setIntParam(SoPlex::SIMPLIFIER, SoPlex::SIMPLIFIER_OFF);
      load_real(ref, t, 0);
      ref.optimize();
      N = ref.numIterations();
   }
   for(int k = 1, kp = 1; k < N && bases.size() < 8; )
   {
      SoPlex s;
      configure(s);
      s.setIntParam(SoPlex::SIMPLIFIER, SoPlex::SIMPLIFIER_OFF);
      s.setIntParam(SoPlex::ITERLIMIT, k);
      load_real(s, t, 0);
      s.optimize();
      if(s.hasBasis())
      {
         BasisRC b(std::vector<SPxSolver::VarStatus>(m + 1), std::vector<SPxSolver::VarStatus>(n + 1));
         s.getBasis(b.first.data(), b.second.data());
         bases.push_back(b);
      }
      int nk = k + kp; kp = k; k = nk;     // 1, 2, 3, 5, 8, 13, ...
   }
   SoPlex spx;
   configure(spx);
   load_real(spx, t, 0);
   spx.optimize();
   c.count("planted_lp_x_cfg");
   c.count(std::string("planted_status.") + std::to_string((int)spx.status()));
   uint64_t h = 3;
   std::string cs = sp.str() + "#" + cfg_str(cf);
   auto report = [&](const std::string & res, const std::string & how, bool unscale)
   {
      if(res.empty()) return;
      size_t bar = res.find('|');
      bool scaled = spx._realLP && spx._realLP->isScaled();
      int rep = (int)spx._solver.rep();
      std::string sig = res.substr(0, bar) + "@" + how + ",rep=" + (rep > 0 ? "COL" : "ROW") + "," + (scaled ? "scaled" : "unscaled") + ",unscale=" + std::to_string((int)unscale) + "+planted";
      c.violation(sig, cs, res.substr(bar + 1).substr(0, 500) + " | cfg " + cfg_str(cf));
      h = h * 31 + 5;
   };
   for(int us = 1; us >= 0; --us)
   {
      if(us == 0 && spx._realLP && spx._realLP->isScaled()) continue;
      if(spx.hasBasis()) report(check_queries(spx, x, us != 0, c), "basis-from-solve", us != 0);
   }
   for(auto& b : bases)
   {
      spx.setBasis(b.first.data(), b.second.data());
      c.count("bases_installed");
      c.count("planted_bases_installed");
      if(!spx.hasBasis()) { c.violation("setbasis-did-not-install-basis+planted", cs, ""); continue; }
      for(int us = 1; us >= 0; --us)
      {
         if(us == 0 && spx._realLP && spx._realLP->isScaled()) continue;
         report(check_queries(spx, x, us != 0, c), "basis-from-setBasis", us != 0);
      }
   }
   g_tol = 1e-9;
   if(c.wantSample() && cf.scaler == 2 && cf.rep == 2) c.sample("{\"planted_lp\":" + jstr(sp.str()) + ",\"config\":" + jstr(cfg_str(cf)) + ",\"iterations\":" + std::to_string(N) + ",\"intermediate_bases\":" + std::to_string(bases.size()) + "}");
   return h;
}

int main(int argc, char** argv)
{
   Args args = parse_args(argc, argv);
   args.prop = "C05";
   std::vector<Cfg5> cfgs;
   for(int rep = 0; rep <= 2; ++rep) for(int sc = 0; sc <= 6; ++sc) for(int ps = 0; ps <= 1; ++ps) cfgs.push_back({rep, sc, ps});
   if(!args.replay.empty())
   {
      std::ifstream in(args.replay);
      std::string doc((std::istreambuf_iterator<char>(in)), std::istreambuf_iterator<char>());
      size_t p = doc.find("\"case\": \"");
      if(p == std::string::npos) { printf("REPLAY-ERROR no case\n"); return 2; }
      p += 9;
      std::string cs = doc.substr(p, doc.find('"', p) - p);
      size_t h = cs.find('#');
      Cfg5 cf{0, 0, 0};
      sscanf(cs.c_str() + h, "#rep=%d,scaler=%d,persistent=%d", &cf.rep, &cf.scaler, &cf.persistent);
      mallopt(M_PERTURB, 85);
      PlantedSpec psp;
      if(cs.compare(0, 2, "P:") == 0 && PlantedSpec::parse(cs.substr(0, h), psp))
         return replay_case([&](Ctx & c) { run_planted5(psp, cf, c); });
      TinyLP t = TinyLP::parse(cs.substr(0, h));
      return replay_case([&](Ctx & c) { run_case(t, cf, c); });
   }
   bool thorough = args.tier == "thorough";
   Report rep(args, "exploration", thorough ? 3000 : 400);
   FamilySet fs;
   std::vector<double> AL = {0, 1, 3, -16, 0.5, 8};
   fs.add(famT(2, 2, AL, {1, -1}, {0, 3}, {0, 3}));
   fs.add(famT(3, 2, AL, {1}, {0, 3}, {0, 3}, 4));
   fs.add(famT(2, 3, AL, {1}, {0, 1}, {0, 2}, 4));
   if(thorough) fs.add(famT(3, 3, {0, 1, -16, 0.5}, {1}, {0}, {0, 3}, 5));
   uint64_t stride = thorough ? 23 : 371;
   RunOpts o = rep.opts();
   o.perturb = {85};
   uint64_t NC = cfgs.size();
   rep.phase("P x 42 configurations x all regular bases", (fs.total / stride) * NC, [&](uint64_t idx, int, Ctx & c) -> uint64_t
   {
      TinyLP t;
      uint64_t raw = (idx / NC) * stride, lim = std::min<uint64_t>(raw + stride, fs.total);
      while(raw < lim && !fs.get(raw, t)) ++raw;
      if(raw >= lim) return 0;
      if(idx % NC == 0) c.count("lps");
      return run_case(t, cfgs[idx % NC], c);
   }, [&](uint64_t idx, uint64_t)
   {
      TinyLP t;
      uint64_t raw = (idx / NC) * stride, lim = std::min<uint64_t>(raw + stride, fs.total);
      while(raw < lim && !fs.get(raw, t)) ++raw;
      return t.str() + "#" + cfg_str(cfgs[idx % NC]);
   }, o, [&](uint64_t idx, uint64_t) { return "@" + cfg_str(cfgs[idx % NC]); });
   {
      static PlantedGrid pg;
      pg.sizes = {{6, 5}, {10, 8}, {8, 12}, {16, 12}, {12, 20}};
      pg.densities = {40};
      pg.seeds = thorough ? 6 : 1;
      pg.magnitudes = 2;
      rep.phase("planted LPs up to 16x12 / 12x20 x 42 configurations x bases of the solve and of iteration-limited solves", pg.size() * NC, [&](uint64_t idx, int, Ctx & c) -> uint64_t
      {
         return run_planted5(pg.at(idx / NC), cfgs[idx % NC], c);
      }, [&](uint64_t idx, uint64_t) { return pg.at(idx / NC).str() + "#" + cfg_str(cfgs[idx % NC]); }, o, [&](uint64_t idx, uint64_t sub)
      {
         static const char* QN[5] = {"getBasisInverseRowReal", "getBasisInverseColReal", "getBasisInverseTimesVecReal", "multBasis", "multBasisTranspose"};
         std::string t = "@" + cfg_str(cfgs[idx % NC]) + "+planted";
         if(sub >= 100 && sub < 200) { int st = (int)(sub - 100) / 10, q = (int)(sub - 100) % 10; t += std::string("|in-") + QN[q < 5 ? q : 0] + ",rep=" + ((st & 4) ? "COL" : "ROW") + "," + ((st & 2) ? "scaled" : "unscaled") + ",unscale=" + ((st & 1) ? "1" : "0"); }
         return t;
      });
      rep.extra["planted_grid"] = jstr("sizes (n x m) 6x5 10x8 8x12 16x12 12x20, density 40 %, degenerate 0/1, min/max, kinds OPT/INF/UNB, plain and power-of-two rescaled, seeds 0.." + std::to_string(pg.seeds - 1) + "; tolerance 1e-7 relative");
   }
   rep.evaluations = rep.all.counters["queries"];
   rep.rule = "case = (canonical LP of family P, representation x scaler x persistent scaling, every regular basis of the LP installed with setBasis plus the basis the solve "
              "ended with, unscale flag): every row and column of the inverse (dense and sparse index output), the solve and both multiplications on all unit vectors and on (1..m) "
              "are compared with exact arithmetic on B assembled from getBasisInd and the harness's copy of the LP; non-trivial = a (LP, configuration, basis) triple that was checked";
   rep.assumptions = {"B and its inverse are computed over GMP rationals from the harness's LP data; tolerance 1e-9 relative (data are small integers and powers of two)",
                      "unscale=false is only checked when the stored LP is not scaled (for a persistently scaled LP it refers to the stored scaled LP by documentation)"
                     };
   rep.finish(rep.all.counters["bases_checked"]);
   return 0;
}
