// C19: containers and sparse vectors as abstract data types.
//
// Bounded-exhaustive exploration of the real container / vector classes of SoPlex against
// std::vector / std::map reference models written here.
//
//  * history phases (DataSet, ClassSet, SVSetBase, LPRowSet, LPColSet, IdxSet, DIdxSet, NameSet, DataHashTable,
//    DataArray, Array, ClassArray, IsList, IdList): ALL operation sequences of length <= d over an alphabet of
//    instantiated calls, from several initial states.  A case = (initial state, first operation, residue class of the
//    second operation); deeper levels are enumerated inside the case.  Every sequence is executed on FRESH objects by
//    replaying its prefix (no cloning of the object under test) and compared with the model after its last operation.
//    A sequence whose last operation violates the model is reported and not extended.  The first g_fullLevels operations
//    of a sequence range over the full alphabet of the class, later ones over a reduced alphabet (stated per class in
//    ops()); argument domains are positions {first, middle, last}, all removal masks, capacities around the current one.
//  * vector algebra (double and Rational): every operation on every pair of representations of all 27 vectors of
//    dimension 3 over a 3-letter alphabet (dense, sparse in every nonzero order, semi-sparse setup in every index order /
//    not set up, unit vectors), judged by dense arithmetic over GMP rationals; sorter.h and StableSum on exhaustive
//    small families.
//
// "Gates": a few operation instances are known to corrupt memory on the unchanged tree (see known_findings.json).  They
// are executed only as the LAST operation of a sequence and only inside a forked child (so that the corruption cannot
// leak into other sequences); such sequences are never extended, and gated instances whose trigger is frequent are only
// enumerated up to the gate depth.  In the AddressSanitizer flavour every gate is probed once at start-up and removed when
// the sanitizer sees nothing in any of its probes (i.e. after the defect has been repaired).
// After the repairs in /repo (ClassSet::reMax 7acf870, SVSetBase::add(keys,svecs,n) d72a9c5, IdxSet::remove(n,m) 21062be,
// DataArray::reMax 9c5bb2b, Array::insert 2ed3dba) those gates were deleted: the operations run in-process at every depth in
// both flavours.  Only gate 3 (xtend of the last vector, KF-C19-svset-xtend-pack-realloc, still open) remains.
#include "soplex/spxdefines.h"
#include "soplex/rational.h"
#include "soplex/dataset.h"
#include "soplex/classset.h"
#include "soplex/basevectors.h"
#include "soplex/lprowsetbase.h"
#include "soplex/lpcolsetbase.h"
#include "soplex/idxset.h"
#include "soplex/didxset.h"
#include "soplex/nameset.h"
#include "soplex/datahashtable.h"
#include "soplex/dataarray.h"
#include "soplex/classarray.h"
#include "soplex/array.h"
#include "soplex/idlist.h"
#include "soplex/islist.h"
#include "soplex/stablesum.h"
#include "soplex/sorter.h"
#include "vx_runner.hpp"
#include <gmpxx.h>
#include <unordered_set>
#include <array>
using namespace soplex;
using namespace vx;

typedef mpq_class Q;

// ---------------------------------------------------------------------------------------------------------------------
// common machinery
// ---------------------------------------------------------------------------------------------------------------------
struct Op
{
   int k = 0, a = 0, b = 0, c = 0;
   Op() {}
   Op(int k_, int a_ = 0, int b_ = 0, int c_ = 0) : k(k_), a(a_), b(b_), c(c_) {}
   std::string str() const { return std::to_string(k) + "." + std::to_string(a) + "." + std::to_string(b) + "." + std::to_string(c); }
   static Op parse(const std::string& s)
   {
      auto p = split(s, '.');
      Op o;
      if(p.size() >= 4) { o.k = atoi(p[0].c_str()); o.a = atoi(p[1].c_str()); o.b = atoi(p[2].c_str()); o.c = atoi(p[3].c_str()); }
      return o;
   }
};

struct Fail
{
   std::string rule, detail;
   bool bad() const { return !rule.empty(); }
   void set(const std::string& r, const std::string& d) { if(rule.empty()) { rule = r; detail = d; } }
};
#define REQ(cond, rule, msg) do { if(!(cond)) { std::ostringstream _o; _o << msg; f.set(rule, _o.str()); return; } } while(0)

static int g_fullLevels = 2;                // levels (operations already applied) at which the full alphabet is used
static Ctx* g_c = nullptr;                 // context of the running case (for observation counters inside the systems)
static void observe(const std::string& k, uint64_t d = 1) { if(g_c) g_c->count(k, d); }

#ifdef VX_ASAN
static const bool ASAN = true;
#else
static const bool ASAN = false;
#endif

// --- isolated execution of one step in a forked child ------------------------------------------------------------------
struct ChildResult
{
   bool bad = false;
   std::string rule, detail;
};
static void child_sig(int s) { _exit(100 + (s & 31)); }
template <class F>
static ChildResult in_child(F fn)
{
   ChildResult r;
   int fd[2];
   if(pipe(fd) != 0) { r.bad = true; r.rule = "harness-pipe-failed"; return r; }
   fflush(stdout);
   fflush(stderr);
   pid_t p = fork();
   if(p == 0)
   {
      close(fd[0]);
      struct sigaction sa;
      memset(&sa, 0, sizeof sa);
      sa.sa_handler = child_sig;
      for(int s : {SIGSEGV, SIGBUS, SIGFPE, SIGILL, SIGABRT}) sigaction(s, &sa, 0);
      // a runaway step is cut by CPU time (a loaded machine must not look like a hang); wall-clock alarm only as a back-stop
      struct rlimit rl;
      rl.rlim_cur = ASAN ? 4 : 1;
      rl.rlim_max = rl.rlim_cur + 1;
      setrlimit(RLIMIT_CPU, &rl);
      if(!ASAN) { rl.rlim_cur = rl.rlim_max = (rlim_t)1 << 31; setrlimit(RLIMIT_AS, &rl); }   // runaway loops over garbage Rationals must not eat the machine
      signal(SIGXCPU, SIG_DFL);
      signal(SIGALRM, SIG_DFL);
      alarm(120);
      Fail f;
      try { fn(f); }
      catch(const std::exception& e) { f.set("exception", e.what()); }
      catch(...) { f.set("exception", "unknown"); }
      std::string ar = take_asan_report();
      if(!ar.empty()) { f.rule.clear(); f.set(ar, "AddressSanitizer report"); }
      std::string out = f.rule + "\x1f" + f.detail;
      if(f.bad()) { ssize_t w = write(fd[1], out.data(), out.size()); (void)w; }
      _exit(0);
   }
   close(fd[1]);
   std::string buf;
   char tmp[512];
   ssize_t n;
   while((n = read(fd[0], tmp, sizeof tmp)) > 0) buf.append(tmp, n);
   close(fd[0]);
   int st = 0;
   waitpid(p, &st, 0);
   if(WIFSIGNALED(st))
   {
      r.bad = true;
      r.rule = (WTERMSIG(st) == SIGALRM || WTERMSIG(st) == SIGXCPU || WTERMSIG(st) == SIGKILL) ? "hang" : "crash-sig" + std::to_string(WTERMSIG(st));
      r.detail = "isolated child terminated by signal " + std::to_string(WTERMSIG(st));
   }
   else if(WIFEXITED(st) && WEXITSTATUS(st) >= 100)
   {
      r.bad = true;
      r.rule = "crash-sig" + std::to_string(WEXITSTATUS(st) - 100);
      r.detail = "isolated child died on signal " + std::to_string(WEXITSTATUS(st) - 100);
   }
   else if(!buf.empty())
   {
      r.bad = true;
      size_t q = buf.find('\x1f');
      r.rule = buf.substr(0, q);
      r.detail = q == std::string::npos ? "" : buf.substr(q + 1);
   }
   return r;
}

// gates that are still open (phase#id); plain flavour: all, ASan flavour: those whose probe showed the defect
static std::set<std::string> g_closed_gates;
static bool gate_open(const std::string& phase, int id) { return !g_closed_gates.count(phase + "#" + std::to_string(id)); }

struct ProbeSeq { int gate; int init; std::vector<Op> ops; };

static std::string seq_str(const std::string& phase, int init, const std::vector<Op>& seq)
{
   std::string s = "ph=" + phase + ";init=" + std::to_string(init) + ";ops=";
   for(size_t k = 0; k < seq.size(); ++k) s += (k ? "/" : "") + seq[k].str();
   return s;
}

// The generic history explorer.  SYS provides:
//   static const char* name(); static int ninit(); static const char* opname(int kind); static bool gate_rare(int g) { return g == 3; }     // gates whose trigger is rare are run (isolated) at every depth
   static std::vector<ProbeSeq> probes();
//   SYS(int init); void ops(std::vector<Op>&, int level) const; int gate(const Op&) const; std::string tag(const Op&) const;
//   void apply(const Op&, Fail&); void check(Fail&); uint64_t digest() const; std::string pretty(const Op&) const;
template <class SYS>
struct Explorer
{
   int depth = 3;
   int gateDepth = 2;
   std::unordered_set<uint64_t> seen;

   // the tag (necessary condition of the operation instance) is taken from the state BEFORE the operation
   static std::string sig(const std::string& rule, const std::string& tag, const Op& op)
   {
      return std::string(SYS::name()) + ":" + rule + ":" + SYS::opname(op.k) + tag;
   }
   static std::string pretty(int init, const std::vector<Op>& seq)
   {
      std::string s = std::string(SYS::name()) + " from init " + std::to_string(init) + ": ";
      for(size_t k = 0; k < seq.size(); ++k) s += (k ? " ; " : "") + std::string(SYS::opname(seq[k].k)) + "[" + std::to_string(seq[k].a) + "," + std::to_string(seq[k].b) + "," + std::to_string(seq[k].c) + "]";
      return s;
   }

   // executes the node `seq` (prefix replay + last operation + check); extends it when clean.  residue >= 0 restricts the
   // children of a depth-1 node to those with index % R == residue; recordSelf=false replays the node without reporting it.
   uint64_t node(Ctx& c, int init, std::vector<Op>& seq, int R = 1, int residue = 0, bool recordSelf = true)
   {
      g_c = &c;
      const std::string P = SYS::name();
      SYS s(init);
      Fail f;
      size_t n = seq.size();
      for(size_t k = 0; k + 1 < n; ++k)
      {
         s.apply(seq[k], f);
         if(f.bad()) return 3;      // cannot happen for a validated prefix (would be nondeterminism); stop quietly
      }
      const Op& last = seq[n - 1];
      uint64_t before = s.digest();
      int g = s.gate(last);
      const std::string tg = s.tag(last);
      std::string cs = seq_str(P, init, seq);
      if(g != 0 && gate_open(P, g))
      {
         if((int)n > gateDepth && !SYS::gate_rare(g)) { if(recordSelf) c.count(P + ".gated_instances_not_enumerated_beyond_gate_depth"); return 5; }
         if(!recordSelf) return 5;
         c.count(P + ".gated_sequences_run_in_isolated_child");
         c.count("sequences");
         c.count(P + ".sequences");
         ChildResult r = in_child([&](Fail & ff) { s.apply(last, ff); if(!ff.bad()) s.check(ff); });
         if(r.bad)
            c.violation(sig(r.rule, tg, last), cs, r.detail + " | " + pretty(init, seq));
         else
            c.count(P + ".gated_sequences_clean_in_child");
         return 7;
      }
      set_sub((uint64_t)last.k);
      try
      {
         s.apply(last, f);
         if(!f.bad()) s.check(f);
      }
      catch(const SPxException& e)
      {
         f.set("exception", e.what());
      }
      {
         std::string ar = take_asan_report();
         if(!ar.empty()) { f.rule.clear(); f.set(ar, "AddressSanitizer report"); }
      }
      uint64_t h = 11;
      if(recordSelf)
      {
         c.count("sequences");
         c.count(P + ".sequences");
         c.count(P + ".op." + SYS::opname(last.k));
      }
      if(f.bad())
      {
         if(recordSelf) c.violation(sig(f.rule, tg, last), cs, f.detail + " | " + pretty(init, seq));
         return 13;
      }
      uint64_t after = s.digest();
      if(recordSelf)
      {
         if(after != before) { c.count("modifying_sequences"); c.count(P + ".modifying_sequences"); }
         if(seen.size() < 20000 && seen.insert(after).second)
         {
            char b[40];
            snprintf(b, sizeof b, "%s%016llx", SYS::name(), (unsigned long long)after);
            c.state(b);
         }
         if(c.wantSample() && n >= 3 && (fnv_str(cs) % 20011) == 5)
            c.sample("{\"sequence\":" + jstr(pretty(init, seq)) + ",\"case\":" + jstr(cs) + "}");
      }
      h = h * 31 + after;
      if((int)n < depth)
      {
         std::vector<Op> al;
         s.ops(al, (int)n);
         for(size_t j = 0; j < al.size(); ++j)
         {
            if(n == 1 && R > 1 && (int)(j % R) != residue) continue;
            seq.push_back(al[j]);
            h = h * 31 + node(c, init, seq);
            seq.pop_back();
         }
      }
      return h;
   }

   struct First { int init; Op op; int residue; };
   std::vector<First> firsts;
   int R = 1;
   void build_firsts(int residues)
   {
      R = residues;
      firsts.clear();
      for(int in = 0; in < SYS::ninit(); ++in)
      {
         SYS s(in);
         std::vector<Op> al;
         s.ops(al, 0);
         for(auto& o : al) for(int r = 0; r < R; ++r) firsts.push_back({in, o, r});
      }
   }
   // ASan flavour: probe the gates
   void probe_gates(std::vector<std::string>& notes)
   {
      std::set<std::string> bad, clean;
      for(auto& pr : SYS::probes())
      {
         if(!ASAN) continue;
         ChildResult r = in_child([&](Fail & ff)
         {
            SYS s(pr.init);
            for(auto& o : pr.ops) { s.apply(o, ff); if(ff.bad()) return; }
            s.check(ff);
         });
         std::string key = std::string(SYS::name()) + "#" + std::to_string(pr.gate);
         if(r.bad) { if(!bad.count(key)) notes.push_back("gate " + key + " open: probe reports " + r.rule); bad.insert(key); }
         else clean.insert(key);
      }
      // a gate is removed only when every one of its probes is clean
      for(auto& key : clean)
         if(!bad.count(key)) { g_closed_gates.insert(key); notes.push_back("gate " + key + " closed: all probes clean under AddressSanitizer"); }
   }
   void run(Report& rep, const RunOpts& o, int d, int gd, int residues)
   {
      depth = d;
      gateDepth = gd;
      probe_gates(rep.notes);
      build_firsts(d >= 2 ? residues : 1);
      rep.phase(std::string(SYS::name()) + " histories depth<=" + std::to_string(d), firsts.size(),
                [&](uint64_t idx, int, Ctx & c) -> uint64_t
      {
         const First& fi = firsts[idx];
         std::vector<Op> seq{fi.op};
         uint64_t h = node(c, fi.init, seq, R, fi.residue, fi.residue == 0);
         c.flushDelta();
         return h;
      },
      [&](uint64_t idx, uint64_t) { std::vector<Op> seq{firsts[idx].op}; return seq_str(SYS::name(), firsts[idx].init, seq) + ";residue=" + std::to_string(firsts[idx].residue); },
      o,
      [&](uint64_t, uint64_t sub) { return std::string("@") + SYS::name() + ":last-op=" + SYS::opname((int)sub); });
      rep.extra[std::string("depth.") + SYS::name()] = std::to_string(d);
   }
   // replay of a recorded case
   void replay(Ctx& c, int init, std::vector<Op> seq)
   {
      depth = (int)seq.size();
      gateDepth = 1 << 20;
      // check every prefix so that the first violating operation is the one reported
      for(size_t n = 1; n <= seq.size(); ++n)
      {
         std::vector<Op> pre(seq.begin(), seq.begin() + n);
         depth = (int)n;
         size_t before = c.viol.size();
         node(c, init, pre);
         if(c.viol.size() != before) return;
      }
   }
};

static uint64_t hmix(uint64_t h, uint64_t v) { h ^= v + 0x9e3779b97f4a7c15ULL + (h << 6) + (h >> 2); return h; }
static std::vector<int> mask_list(int mask, int n) { std::vector<int> v; for(int i = 0; i < n; ++i) if(mask & (1 << i)) v.push_back(i); return v; }

// ---------------------------------------------------------------------------------------------------------------------
// 1. DataSet<int> / ClassSet<CElem>
// ---------------------------------------------------------------------------------------------------------------------
static uint64_t g_rawAssign = 0;
struct CElem
{
   int v;
   unsigned magic;
   CElem() : v(-1), magic(0xC0FFEEu) {}
   CElem(const CElem& o) : v(o.v), magic(0xC0FFEEu) {}
   CElem& operator=(const CElem& o)
   {
      if(magic != 0xC0FFEEu) g_rawAssign++;     // assignment into memory that never saw a constructor
      v = o.v;
      magic = 0xC0FFEEu;
      return *this;
   }
};
static inline int ev(int x) { return x; }
static inline int ev(const CElem& e) { return e.v; }
static inline void mk(int& e, int v) { e = v; }
static inline void mk(CElem& e, int v) { e.v = v; }

// model shared by every keyed set: live elements in number order, each with the key index the set handed out
struct KeyedModel
{
   std::vector<int> ord;          // key idx of the element with number i
   std::set<int> dead;            // key idxs handed out and removed since (not re-issued)
   void issue(int k) { dead.erase(k); ord.push_back(k); }
   void kill(int k) { dead.insert(k); }
   bool live(int k) const { return std::find(ord.begin(), ord.end(), k) != ord.end(); }
   int n() const { return (int)ord.size(); }
};

// validates a perm array returned by remove(perm)-like calls and applies it to a number-ordered vector
template <class T>
static bool apply_perm(const std::vector<int>& removedNums, const int* perm, int nOld, std::vector<T>& byNumber, std::string& why)
{
   std::vector<bool> rem(nOld, false);
   for(int r : removedNums) rem[r] = true;
   int nNew = 0;
   for(int i = 0; i < nOld; ++i) if(!rem[i]) nNew++;
   std::vector<T> out(nNew);
   std::vector<bool> hit(nNew, false);
   for(int i = 0; i < nOld; ++i)
   {
      if(rem[i]) { if(perm[i] >= 0) { why = "perm[" + std::to_string(i) + "]=" + std::to_string(perm[i]) + " for a removed element"; return false; } continue; }
      if(perm[i] < 0 || perm[i] >= nNew || hit[perm[i]]) { why = "perm[" + std::to_string(i) + "]=" + std::to_string(perm[i]) + " is not a bijection of the survivors onto 0.." + std::to_string(nNew - 1); return false; }
      hit[perm[i]] = true;
      out[perm[i]] = byNumber[i];
   }
   byNumber.swap(out);
   return true;
}

template <class SET, class ELEM, bool ISCLASS>
struct SetSys
{
   static const char* name() { return ISCLASS ? "classset" : "dataset"; }
   static int ninit() { return 4; }
   static const char* opname(int k)
   {
      static const char* N[] = {"add(key,item)", "add(item)", "create(key)", "create()", "add(keys,items,n)", "add(items,n)", "add(keys,set)", "add(set)",
                                "remove(num)", "remove(key)", "remove(perm)", "remove(keys,n,perm)", "remove(keys,n)", "remove(nums,n,perm)", "remove(nums,n)",
                                "clear()", "reMax(n)", "copy-construct", "assign-to-other", "assign-from-other", "self-assign"
                               };
      return (k >= 0 && k < 21) ? N[k] : "?";
   }
   static bool gate_rare(int g) { return g == 3; }     // gates whose trigger is rare are run (isolated) at every depth
   static std::vector<ProbeSeq> probes()
   {
      std::vector<ProbeSeq> v;
      // (gate 1, ClassSet::reMax to a smaller capacity, removed: repaired in /repo 7acf870)
      return v;
   }

   SET* s;
   KeyedModel m;
   std::map<int, int> val;     // live key idx -> value
   int max;
   int next = 100;

   void add_plain(int cnt) { for(int i = 0; i < cnt; ++i) { DataKey k; ELEM e; mk(e, next); s->add(k, e); m.issue(k.idx); val[k.idx] = next++; } }
   explicit SetSys(int init) : s(new SET(4)), max(4)
   {
      switch(init)
      {
      case 0: break;
      case 1: add_plain(3); break;
      case 2: add_plain(4); break;
      case 3: add_plain(4); { int k = m.ord[1]; s->remove(1); m.ord[1] = m.ord.back(); m.ord.pop_back(); val.erase(k); m.kill(k); } break;
      }
   }
   ~SetSys() { delete s; }
   SetSys(const SetSys&) = delete;

   void ops(std::vector<Op>& o, int level) const
   {
      int n = m.n();
      bool full = level < g_fullLevels;
      if(n < max) { o.push_back(Op(0)); o.push_back(Op(2)); if(full) { o.push_back(Op(1)); o.push_back(Op(3)); } }
      if(n + 2 <= max) { o.push_back(Op(4)); o.push_back(Op(6)); if(full) { o.push_back(Op(5)); o.push_back(Op(7)); } }
      if(full) for(int i = 0; i <= n; ++i) o.push_back(Op(8, i));
      else if(n > 0) { o.push_back(Op(8, 0)); if(n > 1) o.push_back(Op(8, n - 1)); }
      if(full) for(int i = 0; i < n; ++i) o.push_back(Op(9, i));
      else if(n > 0) o.push_back(Op(9, n / 2));
      int all = (1 << n) - 1;
      if(full) for(int mk_ = 1; mk_ <= all; ++mk_) o.push_back(Op(10, mk_));
      else if(n > 0)
      {
         std::set<int> ms = {1, 5 & all, all & ~(1 << (n - 1))};
         for(int mk_ : ms) if(mk_) o.push_back(Op(10, mk_));
      }
      if(n > 0)
      {
         std::set<int> ms = {1, 1 << (n - 1), 5 & all, all};
         if(full) for(int mk_ : ms) { o.push_back(Op(11, mk_)); o.push_back(Op(13, mk_)); }
         else o.push_back(Op(13, 5 & all));
         if(full) { o.push_back(Op(12, 1 | (1 << (n - 1)))); o.push_back(Op(14, 1 | (1 << (n - 1)))); }
      }
      o.push_back(Op(15));
      o.push_back(Op(16, 0));
      if(max + 1 <= 7) o.push_back(Op(16, 1));
      if(full && max + 3 <= 7) o.push_back(Op(16, 2));
      o.push_back(Op(17));
      o.push_back(Op(18, 1));
      if(full) o.push_back(Op(18, 8));
      o.push_back(Op(19));
      if(full) o.push_back(Op(20));
   }
   int reMaxArg(const Op& op) const { return op.a == 0 ? 0 : op.a == 1 ? max + 1 : max + 3; }
   int gate(const Op&) const { return 0; }      // former gate 1 (ClassSet::reMax to a smaller capacity) removed: repaired in /repo 7acf870
   std::string tag(const Op& op) const
   {
      if(op.k == 16) { int want = reMaxArg(op); int eff = want < s->size() ? s->size() : want; return eff < s->max() ? "|shrink" : (eff > s->max() ? "|grow" : "|same"); }
      if(op.k == 17 || op.k == 18) return (s->size() != s->num()) ? "|with-free-slots" : "";
      return "";
   }

   // new key handed out: must not collide with a live key and must lie inside [0,size)
   void issued(int kidx, int value, Fail& f)
   {
      REQ(kidx >= 0 && kidx < s->size(), "key-out-of-range", "key idx " << kidx << " handed out, size()=" << s->size());
      REQ(!m.live(kidx), "key-collides-with-live-element", "key idx " << kidx << " handed out while an element with that key is alive");
      m.issue(kidx);
      val[kidx] = value;
   }
   // after a removal whose renumbering is not specified: take the numbering from the set after validating the key set
   void adopt(const std::set<int>& expectLive, Fail& f)
   {
      REQ(s->num() == (int)expectLive.size(), "wrong-num-after-removal", "num()=" << s->num() << " expected " << expectLive.size());
      std::vector<int> ord;
      std::set<int> seenk;
      for(int i = 0; i < s->num(); ++i)
      {
         int k = s->key(i).idx;
         REQ(expectLive.count(k) && !seenk.count(k), "numbering-not-a-bijection", "key(" << i << ")=" << k << " is not a surviving key or occurs twice");
         seenk.insert(k);
         ord.push_back(k);
      }
      for(int k : m.ord) if(!expectLive.count(k)) { m.kill(k); val.erase(k); }
      m.ord = ord;
   }
   void removeNums(const std::vector<int>& nums, const int* perm, Fail& f)
   {
      int nOld = m.n();
      std::vector<int> ord = m.ord;
      std::string why;
      REQ(apply_perm(nums, perm, nOld, ord, why), "perm-witness-wrong", why);
      for(int r : nums) { m.kill(m.ord[r]); val.erase(m.ord[r]); }
      bool moved = false;
      for(int i = 0; i < nOld; ++i) if(perm[i] >= 0 && perm[i] != i) moved = true;
      if(moved) observe(std::string(name()) + ".perm_removals_with_moved_survivor");
      m.ord = ord;
   }

   void apply(const Op& op, Fail& f)
   {
      int n = m.n();
      switch(op.k)
      {
      case 0: { DataKey k; ELEM e; mk(e, next); s->add(k, e); issued(k.idx, next++, f); break; }
      case 1: { ELEM e; mk(e, next); s->add(e); REQ(s->num() == n + 1, "wrong-num", "num()=" << s->num() << " after add"); issued(s->key(n).idx, next++, f); break; }
      case 2: { DataKey k; ELEM* p = s->create(k); mk(*p, next); issued(k.idx, next++, f); break; }
      case 3: { ELEM* p = s->create(); mk(*p, next); REQ(s->num() == n + 1, "wrong-num", "num()=" << s->num() << " after create"); issued(s->key(n).idx, next++, f); break; }
      case 4: case 5:
      {
         ELEM it[2];
         mk(it[0], next); mk(it[1], next + 1);
         DataKey k[2];
         if(op.k == 4) s->add(k, it, 2); else s->add(it, 2);
         REQ(s->num() == n + 2, "wrong-num", "num()=" << s->num() << " after adding two");
         for(int j = 0; j < 2; ++j)
         {
            if(op.k == 4) REQ(k[j].idx == s->key(n + j).idx, "returned-key-wrong", "keys[" << j << "]=" << k[j].idx << " but key(" << n + j << ")=" << s->key(n + j).idx);
            issued(s->key(n + j).idx, next++, f);
            if(f.bad()) return;
         }
         break;
      }
      case 6: case 7:
      {
         SET other(3);
         ELEM e;
         mk(e, next); other.add(e); mk(e, next + 1); other.add(e);
         DataKey k[2];
         if(op.k == 6) s->add(k, other); else s->add(other);
         REQ(s->num() == n + 2, "wrong-num", "num()=" << s->num() << " after adding a set of two");
         for(int j = 0; j < 2; ++j)
         {
            if(op.k == 6) REQ(k[j].idx == s->key(n + j).idx, "returned-key-wrong", "keys[" << j << "]=" << k[j].idx << " but key(" << n + j << ")=" << s->key(n + j).idx);
            issued(s->key(n + j).idx, next++, f);
            if(f.bad()) return;
         }
         break;
      }
      case 8:
      {
         s->remove(op.a);
         if(op.a >= n) break;                // documented no-op for an invalid number
         int k = m.ord[op.a];
         m.ord[op.a] = m.ord.back();          // documented: the last element moves to the freed number
         m.ord.pop_back();
         m.kill(k);
         val.erase(k);
         break;
      }
      case 9:
      {
         int k = m.ord[op.a];
         s->remove(DataKey(0, k));
         m.ord[op.a] = m.ord.back();
         m.ord.pop_back();
         m.kill(k);
         val.erase(k);
         break;
      }
      case 10: case 13:
      {
         std::vector<int> nums = mask_list(op.a, n);
         std::vector<int> perm(n + 1, 0);
         if(op.k == 10) { for(int i = 0; i < n; ++i) perm[i] = (op.a & (1 << i)) ? -1 : i; s->remove(perm.data()); }
         else s->remove(nums.data(), (int)nums.size(), perm.data());
         removeNums(nums, perm.data(), f);
         break;
      }
      case 11:
      {
         std::vector<int> nums = mask_list(op.a, n);
         std::vector<DataKey> keys;
         for(int r : nums) keys.push_back(DataKey(0, m.ord[r]));
         std::vector<int> perm(n + 1, 0);
         s->remove(keys.data(), (int)keys.size(), perm.data());
         removeNums(nums, perm.data(), f);
         break;
      }
      case 12: case 14:
      {
         std::vector<int> nums = mask_list(op.a, n);
         std::set<int> live(m.ord.begin(), m.ord.end());
         std::vector<DataKey> keys;
         for(int r : nums) { keys.push_back(DataKey(0, m.ord[r])); live.erase(m.ord[r]); }
         if(op.k == 12) s->remove(keys.data(), (int)keys.size()); else s->remove(nums.data(), (int)nums.size());
         adopt(live, f);
         break;
      }
      case 15: s->clear(); for(int k : m.ord) m.kill(k); m.ord.clear(); val.clear(); break;
      case 16:
      {
         int want = reMaxArg(op);
         const char* before = n > 0 ? reinterpret_cast<const char*>(&(*s)[DataKey(0, m.ord[0])]) : nullptr;
         uint64_t raw0 = g_rawAssign;
         ptrdiff_t delta = s->reMax(want);
         if(g_rawAssign != raw0) observe("observation.classset.reMax_assigns_into_unconstructed_memory");
         int expect = want < s->size() ? s->size() : want;
         REQ(s->max() == expect, "wrong-max-after-reMax", "max()=" << s->max() << " expected " << expect);
         if(before)
         {
            const char* after = reinterpret_cast<const char*>(&(*s)[DataKey(0, m.ord[0])]);
            REQ(after - before == delta, "reMax-reports-wrong-address-shift", "elements moved by " << (after - before) << " bytes, reMax returned " << delta);
            if(delta != 0) observe(std::string(name()) + ".reMax_relocations");
         }
         max = s->max();
         break;
      }
      case 17: { SET* c = new SET(*s); delete s; s = c; break; }
      case 18: { SET* c = new SET(op.a); *c = *s; delete s; s = c; max = s->max(); break; }
      case 19:
      {
         SET other(3);
         std::vector<int> ok, ov;
         for(int j = 0; j < 3; ++j) { DataKey k; ELEM e; mk(e, next); other.add(k, e); ok.push_back(k.idx); ov.push_back(next++); }
         other.remove(0);                    // leaves a hole: the free list of `other` is not empty
         *s = other;
         for(int k : m.ord) m.kill(k);
         m.ord.clear();
         val.clear();
         m.dead.clear();
         // other now holds (number 0 -> third element, number 1 -> second element)
         m.issue(ok[2]); val[ok[2]] = ov[2];
         m.issue(ok[1]); val[ok[1]] = ov[1];
         m.kill(ok[0]);
         max = s->max();
         break;
      }
      case 20: { SET& r = *s; *s = r; break; }
      }
   }

   void check(Fail& f)
   {
      int n = m.n();
      REQ(s->num() == n, "wrong-num", "num()=" << s->num() << " model " << n);
      REQ(s->max() == max, "wrong-max", "max()=" << s->max() << " model " << max);
      REQ(s->size() >= n && s->size() <= s->max(), "size-out-of-range", "size()=" << s->size() << " num()=" << n << " max()=" << s->max());
      REQ(!s->has(n) && !s->has(-1), "has(num)-wrong", "has(" << n << ") or has(-1) is true");
      for(int i = 0; i < n; ++i)
      {
         int k = m.ord[i];
         DataKey dk(0, k);
         REQ(s->has(i), "has(num)-wrong", "has(" << i << ") false");
         REQ(s->key(i).idx == k, "numbering-differs", "key(" << i << ").idx=" << s->key(i).idx << " model " << k);
         REQ(k < s->size(), "key-beyond-size", "live key idx " << k << " >= size() " << s->size());
         REQ(s->has(dk), "live-key-not-found", "has(key " << k << ") false");
         REQ(s->number(dk) == i, "number(key)-wrong", "number(key " << k << ")=" << s->number(dk) << " model " << i);
         REQ(ev((*s)[i]) == val[k], "element-by-number-wrong", "set[" << i << "]=" << ev((*s)[i]) << " model " << val[k]);
         REQ(ev((*s)[dk]) == val[k], "element-by-key-wrong", "set[key " << k << "]=" << ev((*s)[dk]) << " model " << val[k]);
         const ELEM* p = &(*s)[i];
         REQ(s->has(p) && s->number(p) == i && s->key(p).idx == k, "lookup-by-address-wrong", "number(&set[" << i << "])=" << s->number(p));
      }
      for(int k : m.dead)
      {
         DataKey dk(0, k);
         if(k < s->size())
         {
            int nr = s->number(dk);
            REQ(nr < 0, "removed-key-still-resolves", "number(removed key " << k << ")=" << nr);
            REQ(!s->has(dk), "removed-key-still-resolves", "has(removed key " << k << ") true");
            if(nr != -1) observe(std::string(name()) + ".observation.number_of_removed_key_is_not_minus_one");
         }
         else
         {
            bool thrown = false;
            int nr = -1;
            try { nr = s->number(dk); }
            catch(const SPxException&) { thrown = true; }
            REQ(thrown || nr < 0, "removed-key-still-resolves", "number(removed key " << k << " >= size)=" << nr);
         }
      }
      if(!s->isConsistent()) observe(std::string(name()) + ".observation.isConsistent_false");
   }
   uint64_t digest() const
   {
      uint64_t h = 1469598103934665603ULL;
      h = hmix(h, max);
      for(int k : m.ord) h = hmix(h, k);          // values are labels of the history, not part of the abstract state
      h = hmix(h, 7777);
      h = hmix(h, s->size());
      return h;
   }
};
typedef SetSys<DataSet<int>, int, false> DataSetSys;
typedef SetSys<ClassSet<CElem>, CElem, true> ClassSetSys;

// ---------------------------------------------------------------------------------------------------------------------
// 2. SVSetBase<double>
// ---------------------------------------------------------------------------------------------------------------------
typedef std::map<int, double> NZ;     // index -> value of one sparse vector

static NZ nz_of(const SVectorBase<double>& v, bool* dup = nullptr)
{
   NZ r;
   for(int j = 0; j < v.size(); ++j)
   {
      if(dup && r.count(v.index(j))) *dup = true;
      r[v.index(j)] += v.value(j);
   }
   return r;
}
static std::string nz_str(const NZ& z)
{
   std::ostringstream o;
   o << "{";
   for(auto& kv : z) o << "(" << kv.first << "," << kv.second << ")";
   o << "}";
   return o.str();
}

// SVSetBase derives *protected* from its nonzero array; a C-style cast is the one cast that may reach an inaccessible base
static const ClassArray<Nonzero<double>>& nzarray(const SVSetBase<double>& s) { return (const ClassArray<Nonzero<double>>&)s; }

// Trigger condition of the xtend() defect (svsetbase.h:523): the vector is the last one in memory order, ensureMem(..., false)
// decides to memPack() (which shrinks max() of that very vector to size()), and the subsequent insert of newmax - max() slots
// then exceeds memMax(): ClassArray::insert reallocates the nonzero array without fixing up the vectors.
static bool xtend_reallocates_unfixed(const SVSetBase<double>& s, const SVectorBase<double>& v, int newmax)
{
   if(v.max() >= newmax) return false;
   if(s.list.last() != static_cast<const void*>(&v)) return false;
   int n = newmax - v.max();
   if(s.memSize() + n <= s.memMax()) return false;
   int missing = s.memSize() + n - s.memMax();
   if(!(missing > 0 && missing <= s.unusedMem && s.unusedMem > (nzarray(s).memFactor - 1.0) * s.memMax())) return false;
   int used = 0;
   for(auto* ps = s.list.first(); ps; ps = s.list.next(ps)) used += ps->size();
   int memMaxAfter = s.memMax();
   if(used + n > memMaxAfter) { int nm = int(nzarray(s).memFactor * s.memMax()); if(used + n > nm) nm = used + n; memMaxAfter = nm; }
   return used + (newmax - v.size()) > memMaxAfter;
}

struct SVSetSys
{
   static const char* name() { return "svset"; }
   static int ninit() { return 3; }
   static const char* opname(int k)
   {
      static const char* N[] = {"add(key,svec)", "add(svec)", "add(keys,svecs,n)", "add(svecs,n)", "add(key,vals,idx,n)", "add(keys,svset)", "add(svset)", "create(key,n)",
                                "xtend(vec,n)", "add2(vec,i,v)", "add2(vec,n,idx,val)", "remove(num)", "remove(key)", "remove(svec*)", "remove(perm)",
                                "remove(keys,n)", "remove(keys,n,perm)", "remove(nums,n)", "remove(nums,n,perm)", "clear()", "memRemax(n)", "memPack()", "reMax(n)",
                                "copy-construct", "assign-to-other", "ensureMem(n)", "vector.remove(0)"
                               };
      return (k >= 0 && k < 27) ? N[k] : "?";
   }
   static bool gate_rare(int g) { return g == 3; }     // gates whose trigger is rare are run (isolated) at every depth
   static std::vector<ProbeSeq> probes()
   {
      return {{3, 0, {Op(7), Op(8, 0), Op(8, 0)}}};      // gates 1 (reMax shrink) and 2 (add(keys,svecs,0)) removed: repaired in /repo 7acf870, d72a9c5
   }

   SVSetBase<double>* s;
   KeyedModel m;
   std::map<int, NZ> vec;      // live key idx -> nonzeros
   double nextv = 1;

   DSVectorBase<double> mkvec(int nnz, NZ& z)
   {
      DSVectorBase<double> d(nnz + 1);
      for(int j = 0; j < nnz; ++j) { d.add(j, nextv); z[j] = nextv; nextv += 1; }
      return d;
   }
   void addv(int nnz) { NZ z; DSVectorBase<double> d = mkvec(nnz, z); DataKey k; s->add(k, d); m.issue(k.idx); vec[k.idx] = z; }
   explicit SVSetSys(int init) : s(new SVSetBase<double>(2, 4, 1.1, 1.2))
   {
      if(init >= 1) { addv(1); addv(0); addv(2); }
      if(init == 2)
      {
         int k = m.ord[0];
         s->remove(0);
         m.ord[0] = m.ord.back(); m.ord.pop_back(); m.kill(k); vec.erase(k);
         int kl = m.ord.back();
         s->add2((*s)[m.n() - 1], 4, nextv);
         vec[kl][4] = nextv; nextv += 1;
      }
   }
   ~SVSetSys() { delete s; }
   SVSetSys(const SVSetSys&) = delete;

   int freeIdx(int key) const { const NZ& z = vec.at(key); int i = 0; while(z.count(i)) ++i; return i; }

   void ops(std::vector<Op>& o, int level) const
   {
      int n = m.n();
      bool full = level < g_fullLevels;
      bool room = n < 5;
      int last = n - 1, mid = n / 2;
      std::set<int> pos;
      if(n > 0) { pos.insert(0); pos.insert(last); if(full) pos.insert(mid); }
      if(room)
      {
         o.push_back(Op(0, 1)); o.push_back(Op(0, 3));
         if(full) { o.push_back(Op(0, 0)); o.push_back(Op(1)); o.push_back(Op(4, 0)); o.push_back(Op(4, 2)); }
         o.push_back(Op(7));
      }
      if(n + 2 <= 5)
      {
         o.push_back(Op(2, 2));
         if(full) { o.push_back(Op(3)); o.push_back(Op(5)); o.push_back(Op(6)); }
      }
      if(full) { o.push_back(Op(2, 0)); if(room) o.push_back(Op(2, 1)); }
      for(int p : pos)
      {
         int key = m.ord[p];
         if((int)vec.at(key).size() < 5)
         {
            if(full || p != mid) o.push_back(Op(8, p));
            o.push_back(Op(9, p));
            if(full && (int)vec.at(key).size() < 4 && p != mid) o.push_back(Op(10, p));
         }
         o.push_back(Op(11, p));
      }
      if(n > 0)
      {
         int all = (1 << n) - 1;
         if(full) { o.push_back(Op(12, mid)); o.push_back(Op(13, last)); }
         std::set<int> ms = {5 & all};
         if(full) { ms.insert(1); ms.insert(1 << last); ms.insert(all); ms.insert(all & ~1); }
         for(int k : ms) if(k) o.push_back(Op(14, k));
         if(full)
         {
            o.push_back(Op(15, 1 | (1 << last))); o.push_back(Op(16, 1 | (1 << last)));
            o.push_back(Op(17, 1 | (1 << last))); o.push_back(Op(18, 5 & all ? 5 & all : 1));
            if(!vec.at(m.ord[0]).empty()) o.push_back(Op(26, 0));
         }
      }
      if(full) o.push_back(Op(19));
      o.push_back(Op(20, 0)); o.push_back(Op(20, 1));
      o.push_back(Op(21));
      if(full) o.push_back(Op(22, 0));
      if(s->max() + 3 <= 12) o.push_back(Op(22, 1));
      o.push_back(Op(23));
      if(full) { o.push_back(Op(24)); o.push_back(Op(25)); }
   }
   int gate(const Op& op) const
   {
      if(xtendBad(op)) return 3;
      return 0;
   }
   bool xtendBad(const Op& op) const
   {
      if(op.k < 8 || op.k > 10 || op.a >= m.n()) return false;
      const SVectorBase<double>& v = (*s)[op.a];
      int want = op.k == 8 ? v.max() + 2 : op.k == 9 ? v.size() + 1 : v.size() + 2;
      return xtend_reallocates_unfixed(*s, v, want);
   }
   std::string tag(const Op& op) const
   {
      if(op.k >= 8 && op.k <= 10) return xtendBad(op) ? "|memPack-inside-xtend-of-last-vector" : "";
      if(op.k == 2) return "|n=" + std::to_string(op.a);
      if(op.k == 22) return op.a == 0 ? "|shrink" : "|grow";
      if(op.k == 23 || op.k == 24) return (m.n() > 0 && s->memSize() == 0) ? "|all-vectors-empty-and-packed" : "";
      return "";
   }
   void issued(int kidx, const NZ& z, Fail& f)
   {
      REQ(kidx >= 0 && kidx < s->set.size(), "key-out-of-range", "key idx " << kidx << " handed out");
      REQ(!m.live(kidx), "key-collides-with-live-element", "key idx " << kidx << " handed out while alive");
      m.issue(kidx);
      vec[kidx] = z;
   }
   void drop(int num) { int k = m.ord[num]; m.ord[num] = m.ord.back(); m.ord.pop_back(); m.kill(k); vec.erase(k); }
   void removeNums(const std::vector<int>& nums, const int* perm, Fail& f)
   {
      int nOld = m.n();
      std::vector<int> ord = m.ord;
      std::string why;
      REQ(apply_perm(nums, perm, nOld, ord, why), "perm-witness-wrong", why);
      for(int r : nums) { m.kill(m.ord[r]); vec.erase(m.ord[r]); }
      m.ord = ord;
   }
   void adopt(const std::set<int>& live, Fail& f)
   {
      REQ(s->num() == (int)live.size(), "wrong-num-after-removal", "num()=" << s->num() << " expected " << live.size());
      std::vector<int> ord;
      std::set<int> seenk;
      for(int i = 0; i < s->num(); ++i)
      {
         int k = s->key(i).idx;
         REQ(live.count(k) && !seenk.count(k), "numbering-not-a-bijection", "key(" << i << ")=" << k);
         seenk.insert(k);
         ord.push_back(k);
      }
      for(int k : m.ord) if(!live.count(k)) { m.kill(k); vec.erase(k); }
      m.ord = ord;
   }

   void apply(const Op& op, Fail& f)
   {
      int n = m.n();
      switch(op.k)
      {
      case 0: { NZ z; DSVectorBase<double> d = mkvec(op.a, z); DataKey k; s->add(k, d); issued(k.idx, z, f); break; }
      case 1: { NZ z; DSVectorBase<double> d = mkvec(2, z); s->add(d); REQ(s->num() == n + 1, "wrong-num", "num()=" << s->num()); issued(s->key(n).idx, z, f); break; }
      case 2: case 3:
      {
         int cnt = op.k == 3 ? 2 : op.a;
         NZ z[2];
         DSVectorBase<double> d0 = mkvec(1, z[0]), d1 = mkvec(2, z[1]);
         SVectorBase<double> arr[2];
         arr[0].setMem(d0.max(), d0.mem()); arr[0].set_size(d0.size());
         arr[1].setMem(d1.max(), d1.mem()); arr[1].set_size(d1.size());
         DataKey k[3];
         for(auto& kk : k) kk.idx = -77;
         if(op.k == 2) s->add(k + 1, arr, cnt); else s->add(arr, cnt);
         REQ(s->num() == n + cnt, "wrong-num", "num()=" << s->num() << " after adding " << cnt);
         for(int j = 0; j < cnt; ++j)
         {
            if(op.k == 2) REQ(k[1 + j].idx == s->key(n + j).idx, "returned-key-wrong", "keys[" << j << "]=" << k[1 + j].idx << " but key(" << n + j << ")=" << s->key(n + j).idx);
            issued(s->key(n + j).idx, z[j], f);
            if(f.bad()) return;
         }
         REQ(k[0].idx == -77, "write-before-key-array", "add(keys,svecs,n) wrote in front of the key array");
         break;
      }
      case 4:
      {
         double vals[2] = {nextv, nextv + 1};
         int idx[2] = {0, 1};
         NZ z;
         for(int j = 0; j < op.a; ++j) z[idx[j]] = vals[j];
         nextv += 2;
         DataKey k;
         s->add(k, vals, idx, op.a);
         issued(k.idx, z, f);
         break;
      }
      case 5: case 6:
      {
         SVSetBase<double> other(2, 4);
         NZ z[2];
         DSVectorBase<double> d0 = mkvec(1, z[0]), d1 = mkvec(0, z[1]);
         other.add(d0); other.add(d1);
         DataKey k[2];
         if(op.k == 5) s->add(k, other); else s->add(other);
         REQ(s->num() == n + 2, "wrong-num", "num()=" << s->num());
         for(int j = 0; j < 2; ++j)
         {
            if(op.k == 5) REQ(k[j].idx == s->key(n + j).idx, "returned-key-wrong", "keys[" << j << "]=" << k[j].idx << " but key(" << n + j << ")=" << s->key(n + j).idx);
            issued(s->key(n + j).idx, z[j], f);
            if(f.bad()) return;
         }
         break;
      }
      case 7:
      {
         DataKey k;
         SVectorBase<double>* v = s->create(k, 2);
         REQ(v->max() >= 2 && v->size() == 0, "create-wrong-capacity", "create(key,2) gave max " << v->max() << " size " << v->size());
         v->add(0, nextv);
         NZ z; z[0] = nextv; nextv += 1;
         issued(k.idx, z, f);
         break;
      }
      case 8:
      {
         SVectorBase<double>& v = (*s)[op.a];
         int want = v.max() + 2;
         s->xtend(v, want);
         REQ((*s)[op.a].max() >= want, "xtend-too-small", "max()=" << (*s)[op.a].max() << " after xtend to " << want);
         break;
      }
      case 9:
      {
         int key = m.ord[op.a];
         int i = freeIdx(key);
         s->add2((*s)[op.a], i, nextv);
         vec[key][i] = nextv; nextv += 1;
         break;
      }
      case 10:
      {
         int key = m.ord[op.a];
         int i0 = freeIdx(key);
         vec[key][i0] = nextv;
         int i1 = freeIdx(key);
         vec[key][i1] = nextv + 1;
         int idx[2] = {i0, i1};
         double val[2] = {nextv, nextv + 1};
         nextv += 2;
         s->add2((*s)[op.a], 2, idx, val);
         break;
      }
      case 11: s->remove(op.a); drop(op.a); break;
      case 12: s->remove(DataKey(0, m.ord[op.a])); drop(op.a); break;
      case 13: s->remove(&(*s)[op.a]); drop(op.a); break;
      case 14: case 18:
      {
         std::vector<int> nums = mask_list(op.a, n);
         std::vector<int> perm(n + 1, 0);
         if(op.k == 14) { for(int i = 0; i < n; ++i) perm[i] = (op.a & (1 << i)) ? -1 : i; s->remove(perm.data()); }
         else s->remove(nums.data(), (int)nums.size(), perm.data());
         removeNums(nums, perm.data(), f);
         break;
      }
      case 16:
      {
         std::vector<int> nums = mask_list(op.a, n);
         std::vector<DataKey> keys;
         for(int r : nums) keys.push_back(DataKey(0, m.ord[r]));
         std::vector<int> perm(n + 1, 0);
         s->remove(keys.data(), (int)keys.size(), perm.data());
         removeNums(nums, perm.data(), f);
         break;
      }
      case 15: case 17:
      {
         std::vector<int> nums = mask_list(op.a, n);
         std::set<int> live(m.ord.begin(), m.ord.end());
         std::vector<DataKey> keys;
         for(int r : nums) { keys.push_back(DataKey(0, m.ord[r])); live.erase(m.ord[r]); }
         if(op.k == 15) s->remove(keys.data(), (int)keys.size()); else s->remove(nums.data(), (int)nums.size());
         adopt(live, f);
         break;
      }
      case 19: s->clear(); for(int k : m.ord) m.kill(k); m.ord.clear(); vec.clear(); break;
      case 20:
      {
         const void* before = nzarray(*s).get_const_ptr();
         int nvec = n;
         s->memRemax(op.a == 0 ? 0 : s->memMax() + 5);
         if(nzarray(*s).get_const_ptr() != before && nvec >= 2) observe("svset.memRemax_relocations_with_two_or_more_vectors");
         break;
      }
      case 21: s->memPack(); observe("svset.memPack_calls"); break;
      case 22:
      {
         const void* before = n > 0 ? (const void*) & (*s)[0] : nullptr;
         s->reMax(op.a == 0 ? 0 : s->max() + 3);
         if(n > 0 && before != (const void*) & (*s)[0]) observe("svset.reMax_relocations_of_the_vector_headers");
         break;
      }
      case 23: { SVSetBase<double>* c = new SVSetBase<double>(*s); delete s; s = c; break; }
      case 24: { SVSetBase<double>* c = new SVSetBase<double>(); *c = *s; delete s; s = c; break; }
      case 25: s->ensureMem(3); break;
      case 26:
      {
         int key = m.ord[op.a];
         SVectorBase<double>& v = (*s)[op.a];
         int gone = v.index(0);
         v.remove(0);
         vec[key].erase(gone);
         break;
      }
      }
   }
   void check(Fail& f)
   {
      int n = m.n();
      REQ(s->num() == n, "wrong-num", "num()=" << s->num() << " model " << n);
      REQ(s->max() >= n, "max-below-num", "max()=" << s->max());
      REQ(s->memSize() <= s->memMax(), "memSize-above-memMax", "memSize()=" << s->memSize() << " memMax()=" << s->memMax());
      REQ(!s->has(n), "has(num)-wrong", "has(" << n << ") true");
      const Nonzero<double>* base = nzarray(*s).get_const_ptr();
      for(int i = 0; i < n; ++i)
      {
         int k = m.ord[i];
         DataKey dk(0, k);
         REQ(s->key(i).idx == k, "numbering-differs", "key(" << i << ").idx=" << s->key(i).idx << " model " << k);
         REQ(s->has(dk) && s->number(dk) == i, "number(key)-wrong", "number(key " << k << ")=" << s->number(dk) << " model " << i);
         const SVectorBase<double>& v = (*s)[i];
         REQ(&v == &(*s)[dk], "key-and-number-resolve-differently", "set[" << i << "] and set[key " << k << "] are different vectors");
         REQ(s->number(&v) == i && s->key(&v).idx == k && s->has(&v), "lookup-by-address-wrong", "number(&set[" << i << "])=" << s->number(&v));
         REQ(v.size() >= 0 && v.size() <= v.max(), "vector-size-above-max", "vector " << i << " size " << v.size() << " max " << v.max());
         if(v.max() > 0)
            REQ(v.mem() >= base && v.mem() + v.max() <= base + s->memSize(), "vector-memory-outside-the-set", "vector " << i << " uses [" << (v.mem() - base) << "," << (v.mem() - base + v.max()) << ") of " << s->memSize());
         bool dup = false;
         NZ got = nz_of(v, &dup);
         REQ(!dup, "duplicate-index-in-vector", "vector " << i << " = " << nz_str(got));
         REQ(got == vec[k] && v.size() == (int)vec[k].size(), "vector-content-wrong", "vector number " << i << " key " << k << " holds " << nz_str(got) << " (size " << v.size() << "), model " << nz_str(vec[k]));
      }
      // no two vectors share nonzero memory
      for(int i = 0; i < n; ++i)
         for(int j = i + 1; j < n; ++j)
         {
            const SVectorBase<double>& a = (*s)[i], &b = (*s)[j];
            if(a.max() > 0 && b.max() > 0)
               REQ(a.mem() + a.max() <= b.mem() || b.mem() + b.max() <= a.mem(), "vectors-overlap-in-memory", "vectors " << i << " and " << j << " share nonzero memory");
         }
      for(int k : m.dead)
         if(k < s->set.size())
            REQ(s->number(DataKey(0, k)) < 0 && !s->has(DataKey(0, k)), "removed-key-still-resolves", "number(removed key " << k << ")=" << s->number(DataKey(0, k)));
      if(!s->isConsistent()) observe("svset.observation.isConsistent_false");
   }
   uint64_t digest() const
   {
      uint64_t h = 99;
      for(int k : m.ord) { h = hmix(h, k); for(auto& kv : vec.at(k)) h = hmix(h, kv.first); h = hmix(h, 31337); }
      h = hmix(h, s->max());
      h = hmix(h, s->memMax());
      h = hmix(h, s->memSize());
      return h;
   }
};

// ---------------------------------------------------------------------------------------------------------------------
// 3. LPRowSetBase<double> / LPColSetBase<double>
// ---------------------------------------------------------------------------------------------------------------------
struct LPElem { double lo = 0, hi = 0, obj = 0; int sexp = 0; NZ nz; };

template <bool ROW> struct LPT;
template <> struct LPT<true>
{
   typedef LPRowSetBase<double> Set;
   static double lo(const Set& s, int i) { return s.lhs(i); }
   static double hi(const Set& s, int i) { return s.rhs(i); }
   static double ob(const Set& s, int i) { return s.obj(i); }
   static double lo(const Set& s, const DataKey& k) { return s.lhs(k); }
   static double hi(const Set& s, const DataKey& k) { return s.rhs(k); }
   static double ob(const Set& s, const DataKey& k) { return s.obj(k); }
   static double& lo_w(Set& s, int i) { return s.lhs_w(i); }
   static double& hi_w(Set& s, int i) { return s.rhs_w(i); }
   static double& ob_w(Set& s, int i) { return s.obj_w(i); }
   static double& lo_w(Set& s, const DataKey& k) { return s.lhs_w(k); }
   static int dimLo(const Set& s) { return s.lhs().dim(); }
   static int dimHi(const Set& s) { return s.rhs().dim(); }
   static int dimOb(const Set& s) { return s.obj().dim(); }
   static const SVectorBase<double>& vec(const Set& s, int i) { return s.rowVector(i); }
   static const SVectorBase<double>& vec(const Set& s, const DataKey& k) { return s.rowVector(k); }
   static SVectorBase<double>& vec_w(Set& s, int i) { return s.rowVector_w(i); }
   static void add(Set& s, DataKey& k, const LPElem& e, const SVectorBase<double>& v) { s.add(k, e.lo, v, e.hi, e.obj, e.sexp); }
   static void addObj(Set& s, DataKey& k, const LPElem& e, const SVectorBase<double>& v) { LPRowBase<double> r(e.lo, v, e.hi, e.obj); s.add(k, r); }
   static void addArr(Set& s, DataKey& k, const LPElem& e, const double* vals, const int* idx, int n) { s.add(k, &e.lo, vals, idx, n, &e.hi, &e.obj); }
   static SVectorBase<double>& create(Set& s, DataKey& k, int nnz, const LPElem& e) { return s.create(k, nnz, e.lo, e.hi, e.obj, e.sexp); }
};
template <> struct LPT<false>
{
   typedef LPColSetBase<double> Set;
   static double lo(const Set& s, int i) { return s.lower(i); }
   static double hi(const Set& s, int i) { return s.upper(i); }
   static double ob(const Set& s, int i) { return s.maxObj(i); }
   static double lo(const Set& s, const DataKey& k) { return s.lower(k); }
   static double hi(const Set& s, const DataKey& k) { return s.upper(k); }
   static double ob(const Set& s, const DataKey& k) { return s.maxObj(k); }
   static double& lo_w(Set& s, int i) { return s.lower_w(i); }
   static double& hi_w(Set& s, int i) { return s.upper_w(i); }
   static double& ob_w(Set& s, int i) { return s.maxObj_w(i); }
   static double& lo_w(Set& s, const DataKey& k) { return s.lower_w(k); }
   static int dimLo(const Set& s) { return s.lower().dim(); }
   static int dimHi(const Set& s) { return s.upper().dim(); }
   static int dimOb(const Set& s) { return s.maxObj().dim(); }
   static const SVectorBase<double>& vec(const Set& s, int i) { return s.colVector(i); }
   static const SVectorBase<double>& vec(const Set& s, const DataKey& k) { return s.colVector(k); }
   static SVectorBase<double>& vec_w(Set& s, int i) { return s.colVector_w(i); }
   static void add(Set& s, DataKey& k, const LPElem& e, const SVectorBase<double>& v) { s.add(k, e.obj, e.lo, v, e.hi, e.sexp); }
   static void addObj(Set& s, DataKey& k, const LPElem& e, const SVectorBase<double>& v) { LPColBase<double> c(e.obj, v, e.hi, e.lo); s.add(k, c); }
   static void addArr(Set& s, DataKey& k, const LPElem& e, const double* vals, const int* idx, int n) { s.add(k, &e.obj, &e.lo, vals, idx, n, &e.hi); }
   static SVectorBase<double>& create(Set& s, DataKey& k, int nnz, const LPElem& e) { return s.create(k, nnz, e.obj, e.lo, e.hi, e.sexp); }
};

template <bool ROW>
struct LPSetSys
{
   typedef LPT<ROW> T;
   typedef typename T::Set Set;
   static const char* name() { return ROW ? "lprowset" : "lpcolset"; }
   static int ninit() { return 2; }
   static const char* opname(int k)
   {
      static const char* N[] = {"add(key,lo,vec,hi,obj)", "add(key,LPRow/LPCol)", "add(key,arrays)", "add(keys,set)", "create(key,n,...)", "xtend(i,n)", "add2(i,n,idx,val)",
                                "remove(i)", "remove(key)", "remove(perm)", "remove(nums,n)", "remove(nums,n,perm)", "clear()", "reMax(n)", "memRemax(n)", "memPack()",
                                "copy-construct", "assign-to-other", "lo_w(i)=", "hi_w(i)=", "obj_w(i)=", "lo_w(key)=", "setType(i,t)"
                               };
      return (k >= 0 && k < 23) ? N[k] : "?";
   }
   static bool gate_rare(int g) { return g == 3; }     // gates whose trigger is rare are run (isolated) at every depth
   static std::vector<ProbeSeq> probes() { return {{3, 0, {Op(4), Op(5, 0), Op(5, 0)}}}; }      // gate 1 (reMax shrink) removed: repaired in /repo 7acf870

   Set* s;
   KeyedModel m;
   std::map<int, LPElem> el;
   double nextv = 1;

   LPElem fresh(int nnz, DSVectorBase<double>& d)
   {
      LPElem e;
      e.lo = nextv; e.hi = nextv + 100; e.obj = nextv + 200; e.sexp = (int)nextv % 5 + 1;
      nextv += 1;
      for(int j = 0; j < nnz; ++j) { d.add(j, nextv); e.nz[j] = nextv; nextv += 1; }
      return e;
   }
   void addv(int nnz) { DSVectorBase<double> d(4); LPElem e = fresh(nnz, d); DataKey k; T::add(*s, k, e, d); m.issue(k.idx); el[k.idx] = e; }
   explicit LPSetSys(int init) : s(new Set(2, 4))
   {
      if(init == 1) { addv(1); addv(0); addv(2); }
   }
   ~LPSetSys() { delete s; }
   LPSetSys(const LPSetSys&) = delete;
   int freeIdx(int key) const { const NZ& z = el.at(key).nz; int i = 0; while(z.count(i)) ++i; return i; }

   void ops(std::vector<Op>& o, int level) const
   {
      int n = m.n();
      bool full = level < g_fullLevels;
      int last = n - 1, mid = n / 2;
      std::set<int> pos;
      if(n > 0) { pos.insert(0); pos.insert(last); if(full) pos.insert(mid); }
      if(n < 5)
      {
         o.push_back(Op(0, 2)); o.push_back(Op(2, 2)); o.push_back(Op(4));
         if(full) { o.push_back(Op(0, 0)); o.push_back(Op(1)); o.push_back(Op(2, 0)); }
      }
      if(n + 2 <= 5) o.push_back(Op(3));
      for(int p : pos)
      {
         if((int)el.at(m.ord[p]).nz.size() < 4) { if(full) o.push_back(Op(5, p)); if(full || p != mid) o.push_back(Op(6, p)); }
         o.push_back(Op(7, p));
      }
      if(n > 0)
      {
         int all = (1 << n) - 1;
         if(full) o.push_back(Op(8, mid));
         std::set<int> ms = {5 & all};
         if(full) { ms.insert(1); ms.insert(1 << last); ms.insert(all); ms.insert(all & ~1); }
         for(int k : ms) if(k) o.push_back(Op(9, k));
         std::set<int> ms2 = {1};
         if(full) { ms2.insert(5 & all); ms2.insert(1 << last); }
         for(int k : ms2) if(k) { o.push_back(Op(11, k)); if(full) o.push_back(Op(10, k)); }
         if(full)
         {
            o.push_back(Op(18, 0)); o.push_back(Op(19, last)); o.push_back(Op(20, mid)); o.push_back(Op(21, last));
            if(ROW) for(int t = 0; t < 3; ++t) o.push_back(Op(22, 0, t));
         }
      }
      if(full) o.push_back(Op(12));
      if(full) o.push_back(Op(13, 0));
      if(s->max() + 3 <= 12) o.push_back(Op(13, 1));
      o.push_back(Op(14, 0));
      if(full) o.push_back(Op(14, 1));
      o.push_back(Op(15));
      o.push_back(Op(16));
      if(full) o.push_back(Op(17));
   }
   int gate(const Op& op) const
   {
      if(xtendBad(op)) return 3;
      return 0;
   }
   bool xtendBad(const Op& op) const
   {
      if((op.k != 5 && op.k != 6) || op.a >= m.n()) return false;
      const SVectorBase<double>& v = T::vec(*s, op.a);
      return xtend_reallocates_unfixed((const SVSetBase<double>&) * s, v, op.k == 5 ? v.max() + 2 : v.size() + 1);
   }
   std::string tag(const Op& op) const
   {
      if(op.k == 5 || op.k == 6) return xtendBad(op) ? "|memPack-inside-xtend-of-last-vector" : "";
      if(op.k == 13) return op.a == 0 ? "|shrink" : "|grow";
      if(op.k == 16 || op.k == 17) return (m.n() > 0 && s->memSize() == 0) ? "|all-vectors-empty-and-packed" : "";
      return "";
   }
   void issued(int kidx, const LPElem& e, Fail& f)
   {
      REQ(kidx >= 0 && !m.live(kidx), "key-collides-with-live-element", "key idx " << kidx << " handed out");
      m.issue(kidx);
      el[kidx] = e;
   }
   void drop(int num) { int k = m.ord[num]; m.ord[num] = m.ord.back(); m.ord.pop_back(); m.kill(k); el.erase(k); }
   void removeNums(const std::vector<int>& nums, const int* perm, Fail& f)
   {
      std::vector<int> ord = m.ord;
      std::string why;
      REQ(apply_perm(nums, perm, m.n(), ord, why), "perm-witness-wrong", why);
      bool moved = false;
      for(int i = 0; i < m.n(); ++i) if(perm[i] >= 0 && perm[i] != i) moved = true;
      if(moved) observe(std::string(name()) + ".perm_removals_with_moved_survivor");
      for(int r : nums) { m.kill(m.ord[r]); el.erase(m.ord[r]); }
      m.ord = ord;
   }
   void apply(const Op& op, Fail& f)
   {
      int n = m.n();
      switch(op.k)
      {
      case 0: { DSVectorBase<double> d(4); LPElem e = fresh(op.a, d); DataKey k; T::add(*s, k, e, d); issued(k.idx, e, f); break; }
      case 1: { DSVectorBase<double> d(4); LPElem e = fresh(1, d); e.sexp = 0; DataKey k; T::addObj(*s, k, e, d); issued(k.idx, e, f); break; }
      case 2:
      {
         DSVectorBase<double> d(4);
         LPElem e = fresh(op.a, d);
         e.sexp = -999;                                   // the array interface has no scale exponent argument
         double vals[2] = {0, 0};
         int idx[2] = {0, 1};
         for(int j = 0; j < op.a; ++j) vals[j] = e.nz[j];
         DataKey k;
         T::addArr(*s, k, e, vals, idx, op.a);
         issued(k.idx, e, f);
         break;
      }
      case 3:
      {
         Set other(2, 4);
         DSVectorBase<double> d0(4), d1(4);
         LPElem e0 = fresh(1, d0), e1 = fresh(0, d1);
         DataKey kk;
         T::add(other, kk, e0, d0); T::add(other, kk, e1, d1);
         DataKey k[2];
         s->add(k, other);
         REQ(s->num() == n + 2, "wrong-num", "num()=" << s->num());
         REQ(k[0].idx == s->key(n).idx && k[1].idx == s->key(n + 1).idx, "returned-key-wrong", "keys " << k[0].idx << "," << k[1].idx);
         issued(k[0].idx, e0, f);
         if(!f.bad()) issued(k[1].idx, e1, f);
         break;
      }
      case 4:
      {
         DSVectorBase<double> d(4);
         LPElem e = fresh(0, d);
         DataKey k;
         SVectorBase<double>& v = T::create(*s, k, 2, e);
         REQ(v.max() >= 2 && v.size() == 0, "create-wrong-capacity", "max " << v.max() << " size " << v.size());
         v.add(0, nextv); e.nz[0] = nextv; nextv += 1;
         issued(k.idx, e, f);
         break;
      }
      case 5: { int want = T::vec(*s, op.a).max() + 2; s->xtend(op.a, want); REQ(T::vec(*s, op.a).max() >= want, "xtend-too-small", "max " << T::vec(*s, op.a).max()); break; }
      case 6:
      {
         int key = m.ord[op.a];
         int i = freeIdx(key);
         int idx[1] = {i};
         double val[1] = {nextv};
         s->add2(op.a, 1, idx, val);
         el[key].nz[i] = nextv; nextv += 1;
         break;
      }
      case 7: s->remove(op.a); drop(op.a); break;
      case 8: s->remove(DataKey(0, m.ord[op.a])); drop(op.a); break;
      case 9: case 11:
      {
         std::vector<int> nums = mask_list(op.a, n);
         std::vector<int> perm(n + 1, 0);
         if(op.k == 9) { for(int i = 0; i < n; ++i) perm[i] = (op.a & (1 << i)) ? -1 : i; s->remove(perm.data()); }
         else s->remove(nums.data(), (int)nums.size(), perm.data());
         removeNums(nums, perm.data(), f);
         break;
      }
      case 10:
      {
         std::vector<int> nums = mask_list(op.a, n);
         std::set<int> live(m.ord.begin(), m.ord.end());
         for(int r : nums) live.erase(m.ord[r]);
         s->remove(nums.data(), (int)nums.size());
         REQ(s->num() == (int)live.size(), "wrong-num-after-removal", "num()=" << s->num());
         std::vector<int> ord;
         std::set<int> seenk;
         for(int i = 0; i < s->num(); ++i)
         {
            int k = s->key(i).idx;
            REQ(live.count(k) && !seenk.count(k), "numbering-not-a-bijection", "key(" << i << ")=" << k);
            seenk.insert(k); ord.push_back(k);
         }
         for(int k : m.ord) if(!live.count(k)) { m.kill(k); el.erase(k); }
         m.ord = ord;
         break;
      }
      case 12: s->clear(); for(int k : m.ord) m.kill(k); m.ord.clear(); el.clear(); break;
      case 13: s->reMax(op.a == 0 ? 0 : s->max() + 3); break;
      case 14: s->memRemax(op.a == 0 ? 0 : s->memMax() + 5); break;
      case 15: s->memPack(); break;
      case 16: { Set* c = new Set(*s); delete s; s = c; break; }
      case 17: { Set* c = new Set(); *c = *s; delete s; s = c; break; }
      case 18: T::lo_w(*s, op.a) = nextv; el[m.ord[op.a]].lo = nextv; nextv += 1; break;
      case 19: T::hi_w(*s, op.a) = nextv; el[m.ord[op.a]].hi = nextv; nextv += 1; break;
      case 20: T::ob_w(*s, op.a) = nextv; el[m.ord[op.a]].obj = nextv; nextv += 1; break;
      case 21: T::lo_w(*s, DataKey(0, m.ord[op.a])) = nextv; el[m.ord[op.a]].lo = nextv; nextv += 1; break;
      case 22: setType(op, f); break;
      }
   }
   template <bool R = ROW> typename std::enable_if<R>::type setType(const Op& op, Fail&)
   {
      LPElem& e = el[m.ord[op.a]];
      typename LPRowBase<double>::Type t = op.b == 0 ? LPRowBase<double>::LESS_EQUAL : op.b == 1 ? LPRowBase<double>::EQUAL : LPRowBase<double>::GREATER_EQUAL;
      s->setType(op.a, t);
      if(op.b == 0) e.lo = -infinity;
      else if(op.b == 2) e.hi = infinity;
      else { if(e.lo > -infinity) e.hi = e.lo; else e.lo = e.hi; }
   }
   template <bool R = ROW> typename std::enable_if < !R >::type setType(const Op&, Fail&) {}
   template <bool R = ROW> typename std::enable_if<R>::type checkType(int i, const LPElem& e, Fail& f)
   {
      typename LPRowBase<double>::Type want = e.hi >= infinity ? LPRowBase<double>::GREATER_EQUAL : e.lo <= -infinity ? LPRowBase<double>::LESS_EQUAL : e.lo == e.hi ? LPRowBase<double>::EQUAL : LPRowBase<double>::RANGE;
      REQ(s->type(i) == want, "row-type-wrong", "type(" << i << ")=" << (int)s->type(i) << " model " << (int)want);
      double v = e.hi < infinity ? e.hi : e.lo;
      REQ(s->value(i) == v, "row-value-wrong", "value(" << i << ")=" << s->value(i) << " model " << v);
   }
   template <bool R = ROW> typename std::enable_if < !R >::type checkType(int, const LPElem&, Fail&) {}

   void check(Fail& f)
   {
      int n = m.n();
      REQ(s->num() == n, "wrong-num", "num()=" << s->num() << " model " << n);
      REQ(T::dimLo(*s) == n && T::dimHi(*s) == n && T::dimOb(*s) == n, "side-vectors-not-numbered-0..n-1", "dimensions " << T::dimLo(*s) << "," << T::dimHi(*s) << "," << T::dimOb(*s) << " for " << n << " elements");
      REQ(s->scaleExp.size() >= n, "scaleexp-array-shorter-than-num", "scaleExp.size()=" << s->scaleExp.size() << " for " << n << " elements (a later remove() indexes it up to num())");
      for(int i = 0; i < n; ++i)
      {
         int k = m.ord[i];
         DataKey dk(0, k);
         const LPElem& e = el[k];
         REQ(s->key(i).idx == k, "numbering-differs", "key(" << i << ").idx=" << s->key(i).idx << " model " << k);
         REQ(s->has(dk) && s->number(dk) == i, "number(key)-wrong", "number(key " << k << ")=" << s->number(dk));
         REQ(T::lo(*s, i) == e.lo && T::hi(*s, i) == e.hi && T::ob(*s, i) == e.obj, "sides-or-objective-wrong",
             "element " << i << " (key " << k << "): lo/hi/obj = " << T::lo(*s, i) << "/" << T::hi(*s, i) << "/" << T::ob(*s, i) << " model " << e.lo << "/" << e.hi << "/" << e.obj);
         REQ(T::lo(*s, dk) == e.lo && T::hi(*s, dk) == e.hi && T::ob(*s, dk) == e.obj, "sides-or-objective-by-key-wrong", "element with key " << k);
         if(e.sexp != -999) REQ(s->scaleExp[i] == e.sexp, "scale-exponent-wrong", "scaleExp[" << i << "]=" << s->scaleExp[i] << " model " << e.sexp);
         bool dup = false;
         NZ got = nz_of(T::vec(*s, i), &dup);
         REQ(!dup && got == e.nz, "vector-content-wrong", "vector " << i << " key " << k << " holds " << nz_str(got) << " model " << nz_str(e.nz));
         REQ(&T::vec(*s, i) == &T::vec(*s, dk), "key-and-number-resolve-differently", "element " << i);
         checkType(i, e, f);
         if(f.bad()) return;
      }
      for(int k : m.dead)
         if(k < s->set.size())
            REQ(!s->has(DataKey(0, k)), "removed-key-still-resolves", "has(removed key " << k << ")");
      if(!s->isConsistent()) observe(std::string(name()) + ".observation.isConsistent_false");
   }
   uint64_t digest() const
   {
      uint64_t h = 17;
      for(int k : m.ord) { h = hmix(h, k); for(auto& kv : el.at(k).nz) h = hmix(h, kv.first); h = hmix(h, 4242); }
      h = hmix(h, s->max());
      h = hmix(h, s->memMax());
      h = hmix(h, s->memSize());
      return h;
   }
};
typedef LPSetSys<true> LPRowSetSys;
typedef LPSetSys<false> LPColSetSys;

// ---------------------------------------------------------------------------------------------------------------------
// 4. IdxSet (user memory) / DIdxSet
// ---------------------------------------------------------------------------------------------------------------------
template <bool DYN>
struct IdxSys
{
   static const char* name() { return DYN ? "didxset" : "idxset"; }
   static int ninit() { return 2; }
   static const char* opname(int k)
   {
      static const char* N[] = {"addIdx(i)", "add(n,idx[])", "add(IdxSet)", "remove(n)", "remove(n,m)", "clear()", "operator=(IdxSet)", "copy-construct",
                                "setMax(n)", "DIdxSet=IdxSet", "DIdxSet(IdxSet)", "add(n)-uninitialised"
                               };
      return (k >= 0 && k < 12) ? N[k] : "?";
   }
   static bool gate_rare(int g) { return g == 3; }     // gates whose trigger is rare are run (isolated) at every depth
   static std::vector<ProbeSeq> probes() { return {}; }      // gate 1 (IdxSet::remove(n,m) up to the last index) removed: repaired in /repo 21062be
   static const int U = 6;        // universe of index values 0..5

   int buf[8];
   IdxSet* s;
   std::vector<int> m;            // indices in number order

   explicit IdxSys(int init)
   {
      for(int& b : buf) b = -55;
      if(DYN) s = new DIdxSet(2); else s = new IdxSet(6, buf + 1);
      if(init == 1) for(int v : {4, 1, 3}) { add1(v); m.push_back(v); }
   }
   ~IdxSys() { delete s; }
   IdxSys(const IdxSys&) = delete;
   void add1(int v) { if(DYN) static_cast<DIdxSet*>(s)->addIdx(v); else s->addIdx(v); }
   bool has(int v) const { return std::find(m.begin(), m.end(), v) != m.end(); }
   std::vector<int> absent() const { std::vector<int> a; for(int v = 0; v < U; ++v) if(!has(v)) a.push_back(v); return a; }

   void ops(std::vector<Op>& o, int level) const
   {
      int n = (int)m.size();
      bool full = level < g_fullLevels;
      bool room1 = DYN || n + 1 <= s->max(), room2 = DYN || n + 2 <= s->max();
      auto ab = absent();
      if(room1 && !ab.empty())
      {
         if(full) for(int v : ab) o.push_back(Op(0, v));
         else { o.push_back(Op(0, ab.front())); if(ab.size() > 1) o.push_back(Op(0, ab.back())); }
      }
      if(room2 && ab.size() >= 2) { o.push_back(Op(1)); o.push_back(Op(2)); }
      if(full && room1) o.push_back(Op(11));
      if(full) for(int i = 0; i < n; ++i) o.push_back(Op(3, i));
      else if(n > 0) { o.push_back(Op(3, 0)); if(n > 1) o.push_back(Op(3, n - 1)); }
      for(int a = 0; a < n; ++a)
         for(int b = a; b < n; ++b)
            if(full || (a <= 1 && (b == a || b == n - 1 || b == n - 2))) o.push_back(Op(4, a, b));
      o.push_back(Op(5));
      for(int sz : {0, 2, 5}) if(full || sz == 5) o.push_back(Op(6, sz));
      o.push_back(Op(7));
      if(DYN)
      {
         o.push_back(Op(8, 0));
         if(full) o.push_back(Op(8, 1));
         o.push_back(Op(9, 3));
         if(full) o.push_back(Op(10));
      }
   }
   int gate(const Op&) const { return 0; }
   std::string tag(const Op& op) const { return (op.k == 4) ? (op.b == (int)m.size() - 1 ? "|range-reaches-last-index" : "|inner-range") : ""; }

   void other(IdxSet& o, int cnt, std::vector<int>& vals) { for(int j = 0; j < cnt; ++j) { int v = (j * 5 + 1) % U; o.addIdx(v); vals.push_back(v); } }

   void apply(const Op& op, Fail& f)
   {
      int n = (int)m.size();
      switch(op.k)
      {
      case 0: add1(op.a); m.push_back(op.a); break;
      case 1:
      {
         auto ab = absent();
         int arr[2] = {ab[0], ab[1]};
         if(DYN) static_cast<DIdxSet*>(s)->add(2, arr); else s->add(2, arr);
         m.push_back(ab[0]); m.push_back(ab[1]);
         break;
      }
      case 2:
      {
         auto ab = absent();
         int mem[4];
         IdxSet o(4, mem);
         o.addIdx(ab.back()); o.addIdx(ab.front());
         if(DYN) static_cast<DIdxSet*>(s)->add(o); else s->add(o);
         m.push_back(ab.back()); m.push_back(ab.front());
         break;
      }
      case 3: s->remove(op.a); m[op.a] = m.back(); m.pop_back(); break;
      case 4:
      {
         s->remove(op.a, op.b);
         std::vector<int> keep(m.begin(), m.begin() + op.a), rest(m.begin() + op.b + 1, m.end());
         int nn = n - (op.b - op.a + 1);
         REQ(s->size() == nn, "wrong-size", "size()=" << s->size() << " after remove(" << op.a << "," << op.b << ") of " << n << " indices");
         for(int i = 0; i < op.a; ++i) REQ(s->index(i) == keep[i], "index-before-removed-range-changed", "index(" << i << ")=" << s->index(i) << " was " << keep[i]);
         std::multiset<int> want(rest.begin(), rest.end()), got;
         for(int i = op.a; i < nn; ++i) got.insert(s->index(i));
         REQ(want == got, "wrong-indices-survive", "remove(" << op.a << "," << op.b << ") of " << n << " indices left a different index set");
         m = keep;
         for(int i = op.a; i < nn; ++i) m.push_back(s->index(i));
         break;
      }
      case 5: s->clear(); m.clear(); break;
      case 6: case 9:
      {
         int mem[8];
         IdxSet o(8, mem);
         std::vector<int> vals;
         other(o, op.a, vals);
         if(op.k == 9) *static_cast<DIdxSet*>(s) = o; else *s = o;
         m = vals;
         break;
      }
      case 7:
      {
         IdxSet* c;
         if(DYN) c = new DIdxSet(*static_cast<DIdxSet*>(s)); else c = new IdxSet(*s);
         delete s; s = c;
         break;
      }
      case 8:
      {
         int want = op.a == 0 ? 1 : n + 3;
         static_cast<DIdxSet*>(s)->setMax(want);
         int expect = want < n ? n : want;
         REQ(s->max() == expect, "wrong-max-after-setMax", "max()=" << s->max() << " expected " << expect);
         break;
      }
      case 10: { DIdxSet* c = new DIdxSet(*static_cast<IdxSet*>(s)); delete s; s = c; break; }
      case 11:
      {
         if(DYN) static_cast<DIdxSet*>(s)->add(1); else s->add(1);
         REQ(s->size() == n + 1, "wrong-size", "size()=" << s->size() << " after add(1)");
         auto ab = absent();
         if(ab.empty()) { s->remove(n); break; }
         s->idx[n] = ab.front();          // the new index is uninitialised: the caller fills it
         m.push_back(ab.front());
         break;
      }
      }
   }
   void check(Fail& f)
   {
      int n = (int)m.size();
      REQ(s->size() == n, "wrong-size", "size()=" << s->size() << " model " << n);
      REQ(s->max() >= n, "max-below-size", "max()=" << s->max());
      std::set<int> seenv;
      for(int i = 0; i < n; ++i)
      {
         REQ(s->index(i) == m[i], "index-wrong", "index(" << i << ")=" << s->index(i) << " model " << m[i]);
         REQ(seenv.insert(s->index(i)).second, "duplicate-index", "index " << s->index(i) << " occurs twice");
      }
      for(int v = 0; v < U; ++v)
      {
         auto it = std::find(m.begin(), m.end(), v);
         int want = it == m.end() ? -1 : int(it - m.begin());
         REQ(s->pos(v) == want, "pos-wrong", "pos(" << v << ")=" << s->pos(v) << " model " << want);
      }
      int mx = -1;
      for(int v : m) mx = std::max(mx, v);
      REQ(s->dim() == mx, "dim-wrong", "dim()=" << s->dim() << " but the maximal index is " << mx);
      if(!DYN) REQ(buf[0] == -55 && buf[7] == -55, "write-outside-index-memory", "guard words around the user-supplied index memory changed");
      if(!s->isConsistent()) observe(std::string(name()) + ".observation.isConsistent_false");
   }
   uint64_t digest() const { uint64_t h = 5; for(int v : m) h = hmix(h, v); h = hmix(h, s->max()); return h; }
};

// ---------------------------------------------------------------------------------------------------------------------
// 5. NameSet
// ---------------------------------------------------------------------------------------------------------------------
struct NameSys
{
   static const char* name() { return "nameset"; }
   static int ninit() { return 2; }
   static const char* opname(int k)
   {
      static const char* N[] = {"add(key,name)", "add(name)", "add(NameSet)", "add(keys,NameSet)", "remove(name)", "remove(key)", "remove(num)", "remove(keys,n)",
                                "remove(nums,n)", "remove(dstat)", "clear()", "reMax(n)", "memRemax(n)", "memPack()"
                               };
      return (k >= 0 && k < 14) ? N[k] : "?";
   }
   static bool gate_rare(int g) { return g == 3; }     // gates whose trigger is rare are run (isolated) at every depth
   static std::vector<ProbeSeq> probes() { return {}; }
   static const char* U(int i) { static const char* N[] = {"a", "b", "cc", "dd", "eeeeeee", "xx"}; return N[i]; }
   static const int NU = 6;

   NameSet* s;
   KeyedModel m;
   std::map<int, std::string> nm;     // live key idx -> name

   explicit NameSys(int init) : s(new NameSet(2, 8, 2, 2))
   {
      if(init == 1) for(int u : {0, 2, 4}) { DataKey k; s->add(k, U(u)); m.issue(k.idx); nm[k.idx] = U(u); }
   }
   ~NameSys() { delete s; }
   NameSys(const NameSys&) = delete;
   int keyOf(const std::string& n) const { for(auto& kv : nm) if(kv.second == n) return kv.first; return -1; }

   void ops(std::vector<Op>& o, int level) const
   {
      int n = m.n();
      bool full = level < g_fullLevels;
      for(int u = 0; u < 5; ++u)
      {
         bool present = keyOf(U(u)) >= 0;
         if(n < 5 || present)
            if(full || u == 0 || u == 4 || (u == 2 && !present)) o.push_back(Op(0, u));
         if(full || u == 0 || u == 4) o.push_back(Op(4, u));
      }
      if(full && n < 5) o.push_back(Op(1, 3));
      if(n + 2 <= 6) { o.push_back(Op(3)); if(full) o.push_back(Op(2)); }
      if(n > 0)
      {
         int last = n - 1, all = (1 << n) - 1;
         o.push_back(Op(5, n / 2));
         o.push_back(Op(6, 0));
         if(full) o.push_back(Op(6, last));
         if(n >= 2) { o.push_back(Op(7, 0, last)); o.push_back(Op(8, 0, last)); if(full) o.push_back(Op(8, last, 0)); }
         std::set<int> ms = {5 & all};
         if(full) { ms.insert(1); ms.insert(all); ms.insert(1 << last); }
         for(int k : ms) if(k) o.push_back(Op(9, k));
      }
      o.push_back(Op(10));
      o.push_back(Op(11, 0));
      if(s->max() + 4 <= 24) o.push_back(Op(11, 1));
      o.push_back(Op(12, 0));
      if(full) o.push_back(Op(12, 1));
      o.push_back(Op(13));
   }
   int gate(const Op&) const { return 0; }
   std::string tag(const Op&) const { return ""; }
   void issued(int kidx, const std::string& n, Fail& f)
   {
      REQ(kidx >= 0 && !m.live(kidx), "key-collides-with-live-element", "key idx " << kidx << " handed out for '" << n << "'");
      m.issue(kidx);
      nm[kidx] = n;
   }
   void adopt(const std::set<int>& live, Fail& f)
   {
      REQ(s->num() == (int)live.size(), "wrong-num-after-removal", "num()=" << s->num() << " expected " << live.size());
      std::vector<int> ord;
      std::set<int> seenk;
      for(int i = 0; i < s->num(); ++i)
      {
         int k = s->key(i).idx;
         REQ(live.count(k) && !seenk.count(k), "numbering-not-a-bijection", "key(" << i << ")=" << k);
         seenk.insert(k); ord.push_back(k);
      }
      for(int k : m.ord) if(!live.count(k)) { m.kill(k); nm.erase(k); }
      m.ord = ord;
   }
   void drop(int num) { int k = m.ord[num]; m.ord[num] = m.ord.back(); m.ord.pop_back(); m.kill(k); nm.erase(k); }
   void apply(const Op& op, Fail& f)
   {
      int n = m.n();
      switch(op.k)
      {
      case 0:
      {
         DataKey k(0, -5);
         bool present = keyOf(U(op.a)) >= 0;
         s->add(k, U(op.a));
         if(!present) issued(k.idx, U(op.a), f);
         break;
      }
      case 1:
      {
         bool present = keyOf(U(op.a)) >= 0;
         s->add(U(op.a));
         if(!present) { REQ(s->num() == n + 1, "wrong-num", "num()=" << s->num()); issued(s->key(n).idx, U(op.a), f); }
         break;
      }
      case 2: case 3:
      {
         NameSet o(4);
         o.add(U(1)); o.add(U(5));
         DataKey k[2];
         bool p1 = keyOf(U(1)) >= 0, p5 = keyOf(U(5)) >= 0;
         if(op.k == 3) s->add(k, o); else s->add(o);
         int at = n;
         if(!p1) { REQ(s->num() > at, "wrong-num", "num()=" << s->num()); if(op.k == 3) REQ(k[0].idx == s->key(at).idx, "returned-key-wrong", "keys[0]=" << k[0].idx); issued(s->key(at).idx, U(1), f); at++; }
         if(f.bad()) return;
         if(!p5) { REQ(s->num() > at, "wrong-num", "num()=" << s->num()); if(op.k == 3) REQ(k[1].idx == s->key(at).idx, "returned-key-wrong", "keys[1]=" << k[1].idx); issued(s->key(at).idx, U(5), f); }
         break;
      }
      case 4:
      {
         int k = keyOf(U(op.a));
         s->remove(U(op.a));
         if(k >= 0) { int num = int(std::find(m.ord.begin(), m.ord.end(), k) - m.ord.begin()); drop(num); }
         break;
      }
      case 5: s->remove(DataKey(0, m.ord[op.a])); drop(op.a); break;
      case 6: s->remove(op.a); drop(op.a); break;
      case 7: case 8:
      {
         std::set<int> live(m.ord.begin(), m.ord.end());
         live.erase(m.ord[op.a]); live.erase(m.ord[op.b]);
         if(op.k == 7) { DataKey k[2] = {DataKey(0, m.ord[op.a]), DataKey(0, m.ord[op.b])}; s->remove(k, 2); }
         else { int nums[2] = {op.a, op.b}; s->remove(nums, 2); }
         adopt(live, f);
         break;
      }
      case 9:
      {
         std::vector<int> nums = mask_list(op.a, n);
         std::vector<int> perm(n + 1, 0);
         for(int i = 0; i < n; ++i) perm[i] = (op.a & (1 << i)) ? -1 : i;
         s->remove(perm.data());
         std::vector<int> ord = m.ord;
         std::string why;
         REQ(apply_perm(nums, perm.data(), n, ord, why), "perm-witness-wrong", why);
         for(int r : nums) { m.kill(m.ord[r]); nm.erase(m.ord[r]); }
         m.ord = ord;
         break;
      }
      case 10: s->clear(); for(int k : m.ord) m.kill(k); m.ord.clear(); nm.clear(); break;
      case 11: s->reMax(op.a == 0 ? 0 : s->max() + 4); break;
      case 12: s->memRemax(op.a == 0 ? 0 : s->memMax() + 10); break;
      case 13: s->memPack(); break;
      }
   }
   void check(Fail& f)
   {
      int n = m.n();
      REQ(s->num() == n, "wrong-num", "num()=" << s->num() << " model " << n);
      REQ(s->memSize() <= s->memMax(), "memSize-above-memMax", "memSize()=" << s->memSize());
      for(int i = 0; i < n; ++i)
      {
         int k = m.ord[i];
         DataKey dk(0, k);
         const std::string& want = nm[k];
         REQ(s->key(i).idx == k, "numbering-differs", "key(" << i << ").idx=" << s->key(i).idx << " model " << k);
         REQ(s->has(dk) && s->number(dk) == i && s->has(i), "number(key)-wrong", "number(key " << k << ")=" << s->number(dk));
         REQ(want == (*s)[i] && want == (*s)[dk], "name-wrong", "name " << i << " is '" << (*s)[i] << "' model '" << want << "'");
         REQ(s->has(want.c_str()), "registered-name-not-found", "has('" << want << "') false");
         REQ(s->number(want.c_str()) == i, "name-lookup-wrong", "number('" << want << "')=" << s->number(want.c_str()) << " model " << i);
         REQ(s->key(want.c_str()).idx == k, "name-lookup-wrong", "key('" << want << "').idx=" << s->key(want.c_str()).idx << " model " << k);
      }
      for(int u = 0; u < NU; ++u)
         if(keyOf(U(u)) < 0)
         {
            REQ(!s->has(U(u)), "removed-name-still-found", "has('" << U(u) << "') true");
            REQ(s->number(U(u)) == -1, "removed-name-still-found", "number('" << U(u) << "')=" << s->number(U(u)));
            REQ(!s->key(U(u)).isValid(), "removed-name-still-found", "key('" << U(u) << "') valid");
         }
      for(int k : m.dead)
         if(k < s->size())
            REQ(!s->has(DataKey(0, k)), "removed-key-still-resolves", "has(removed key " << k << ")");
      if(!s->isConsistent()) observe("nameset.observation.isConsistent_false");
   }
   uint64_t digest() const
   {
      uint64_t h = 23;
      for(int k : m.ord) { h = hmix(h, k); h = hmix(h, fnv_str(nm.at(k))); }
      h = hmix(h, s->max()); h = hmix(h, s->memMax()); h = hmix(h, s->memSize());
      return h;
   }
};

// ---------------------------------------------------------------------------------------------------------------------
// 6. DataHashTable<int,int> with colliding hash functions
// ---------------------------------------------------------------------------------------------------------------------
static int hash_id(const int* k) { return *k; }
static int hash_const(const int*) { return 7; }
static int hash_parity(const int* k) { return (*k & 1) * 1000003; }
struct HashSys
{
   static const char* name() { return "hashtable"; }
   static int ninit() { return 3; }
   static const char* opname(int k)
   {
      static const char* N[] = {"add(k,info)", "remove(k)", "clear()", "reMax(n)", "reMax(n,hashsize=1)", "copy-construct", "assign-to-other"};
      return (k >= 0 && k < 7) ? N[k] : "?";
   }
   static bool gate_rare(int g) { return g == 3; }     // gates whose trigger is rare are run (isolated) at every depth
   static std::vector<ProbeSeq> probes() { return {}; }
   typedef DataHashTable<int, int> HT;
   HT* t;
   int (*fn)(const int*);
   std::map<int, int> m;
   int next = 50;
   explicit HashSys(int init) : fn(init == 0 ? hash_id : init == 1 ? hash_const : hash_parity) { t = new HT(fn, 3, 0, 2.0); }
   ~HashSys() { delete t; }
   HashSys(const HashSys&) = delete;
   void ops(std::vector<Op>& o, int level) const
   {
      bool full = level < g_fullLevels + 1;
      for(int k = 0; k < 6; ++k)
      {
         if(!m.count(k)) { if(full || k < 4) o.push_back(Op(0, k)); }
         if(full || m.count(k) || k == 5) o.push_back(Op(1, k));
      }
      o.push_back(Op(2));
      o.push_back(Op(3, 0));
      if(t->m_elem.size() + 3 <= 20) o.push_back(Op(3, 1));
      if(full) o.push_back(Op(4));
      o.push_back(Op(5));
      if(full) o.push_back(Op(6));
   }
   int gate(const Op&) const { return 0; }
   std::string tag(const Op&) const { return ""; }
   void apply(const Op& op, Fail&)
   {
      switch(op.k)
      {
      case 0: t->add(op.a, next); m[op.a] = next++; break;
      case 1: t->remove(op.a); m.erase(op.a); break;
      case 2: t->clear(); m.clear(); break;
      case 3: t->reMax(op.a == 0 ? -1 : t->m_elem.size() + 3); break;
      case 4: t->reMax(t->m_elem.size() + 1, 1); break;
      case 5: { HT* c = new HT(*t); delete t; t = c; break; }
      case 6: { HT* c = new HT(fn, 2, 0, 2.0); *c = *t; delete t; t = c; break; }
      }
   }
   void check(Fail& f)
   {
      for(int k = 0; k < 6; ++k)
      {
         bool want = m.count(k) > 0;
         REQ(t->has(k) == want, "membership-wrong", "has(" << k << ")=" << t->has(k) << " model " << want);
         const int* g = t->get(k);
         REQ((g != nullptr) == want, "get-wrong", "get(" << k << ") " << (g ? "non-null" : "null"));
         if(want) REQ(*g == m[k] && (*t)[k] == m[k], "info-wrong", "info of " << k << " is " << *g << " model " << m[k]);
      }
      REQ(t->m_used == (int)m.size(), "element-count-wrong", "m_used=" << t->m_used << " model " << m.size());
      if(!t->isConsistent()) observe("hashtable.observation.isConsistent_false");
   }
   uint64_t digest() const
   {
      uint64_t h = 3;
      for(auto& kv : m) h = hmix(h, kv.first);
      h = hmix(h, t->m_elem.size());
      // the probing state (which slots are USED / RELEASED) decides the future of the table
      for(int i = 0; i < t->m_elem.size(); ++i) h = hmix(h, (uint64_t)t->m_elem[i].stat);
      return h;
   }
};

// ---------------------------------------------------------------------------------------------------------------------
// 7. DataArray<int> / Array<CElem> / ClassArray<CElem>
// ---------------------------------------------------------------------------------------------------------------------
static const int UNSPEC = -999;     // model value of an element whose content the documentation leaves open

template <int KIND> struct ArrT;
template <> struct ArrT<0> { typedef DataArray<int> A; typedef int E; static const char* name() { return "dataarray"; } };
template <> struct ArrT<1> { typedef Array<CElem> A; typedef CElem E; static const char* name() { return "array"; } };
template <> struct ArrT<2> { typedef ClassArray<CElem> A; typedef CElem E; static const char* name() { return "classarray"; } };

template <int KIND>
struct ArrSys
{
   typedef typename ArrT<KIND>::A A;
   typedef typename ArrT<KIND>::E E;
   static const bool HASMAX = KIND != 1;
   static const char* name() { return ArrT<KIND>::name(); }
   static int ninit() { return 2; }
   static const char* opname(int k)
   {
      static const char* N[] = {"append(t)", "append(n,t)", "append(n,t[])", "append(array)", "insert(i,n)", "insert(i,n,t)", "insert(i,n,t[])", "insert(i,array)",
                                "remove(n,m)", "removeLast(m)", "clear()", "reSize(n)", "reMax(newMax,newSize)", "copy-construct", "assign-to-other", "operator[]="
                               };
      return (k >= 0 && k < 16) ? N[k] : "?";
   }
   static bool gate_rare(int g) { return g == 3; }     // gates whose trigger is rare are run (isolated) at every depth
   static std::vector<ProbeSeq> probes()
   {
      return {};      // probes of the former gates removed together with the gates (see gate())
   }
   A* a;
   std::vector<int> m;
   int next = 10;
   explicit ArrSys(int init) : a(new A())
   {
      if(init == 1) for(int j = 0; j < 3; ++j) push(next++);
   }
   ~ArrSys() { delete a; }
   ArrSys(const ArrSys&) = delete;
   void push(int v) { E e; mk(e, v); a->append(e); m.push_back(v); }

   void ops(std::vector<Op>& o, int level) const
   {
      int n = (int)m.size();
      bool full = level < g_fullLevels;
      std::set<int> ipos = {0, n};
      if(full) ipos.insert(n / 2);
      if(n < 7)
      {
         o.push_back(Op(0));
         if(KIND != 2 && full) o.push_back(Op(1));
         if(full) { o.push_back(Op(2)); o.push_back(Op(3)); }
         for(int p : ipos)
         {
            o.push_back(Op(6, p));
            if(full) { o.push_back(Op(4, p)); o.push_back(Op(7, p)); if(KIND != 2) o.push_back(Op(5, p)); }
         }
      }
      if(n > 0)
      {
         std::set<int> rpos = {0, n - 1};
         if(full) rpos.insert(n / 2);
         for(int p : rpos)
            for(int cnt : {1, 2, 9})
            {
               if(KIND == 2 && p + cnt > n) continue;          // ClassArray::remove requires n + m <= size()
               if(!full && cnt == 9) continue;
               o.push_back(Op(8, p, cnt));
            }
         o.push_back(Op(15, n / 2));
      }
      if(KIND != 1) for(int cnt : {0, 1, 2}) if(cnt <= n && (full || cnt == 1)) o.push_back(Op(9, cnt));
      o.push_back(Op(10));
      o.push_back(Op(11, 0));
      if(n > 0) o.push_back(Op(11, n - 1));
      if(n + 2 <= 8) o.push_back(Op(11, n + 2));
      if(HASMAX)
      {
         o.push_back(Op(12, 0));                  // reMax(1): "reduce the memory consumption to a minimum"
         if(n + 3 <= 10) { o.push_back(Op(12, 1)); if(full) o.push_back(Op(12, 2)); }
      }
      o.push_back(Op(13));
      if(full) o.push_back(Op(14));
   }
   int gate(const Op&) const { return 0; }      // former gates (DataArray::reMax below size(), Array::insert(0,...)) removed: repaired in /repo 9c5bb2b, 2ed3dba
   std::string tag(const Op& op) const
   {
      if(KIND == 1 && op.k >= 4 && op.k <= 7) return op.a == 0 ? "|at-front" : "|not-at-front";
      if(op.k == 12) return op.a == 0 ? "|below-size" : "";
      return "";
   }
   int at(int i) const { return ev((*a)[i]); }
   void apply(const Op& op, Fail& f)
   {
      int n = (int)m.size();
      E e;
      switch(op.k)
      {
      case 0: mk(e, next); a->append(e); m.push_back(next++); break;
      case 1: mk(e, next); append_n(e); m.push_back(next); m.push_back(next); next++; break;
      case 2: { E t[2]; mk(t[0], next); mk(t[1], next + 1); a->append(2, t); m.push_back(next); m.push_back(next + 1); next += 2; break; }
      case 3: { A o; mk(e, next); o.append(e); mk(e, next + 1); o.append(e); a->append(o); m.push_back(next); m.push_back(next + 1); next += 2; break; }
      case 4:
      {
         a->insert(op.a, 1);
         REQ(a->size() == n + 1, "wrong-size", "size()=" << a->size() << " after insert(" << op.a << ",1) into " << n);
         m.insert(m.begin() + op.a, UNSPEC);
         break;
      }
      case 5: mk(e, next); insert_n(op.a, e); m.insert(m.begin() + op.a, 2, next); next++; break;
      case 6: { E t[2]; mk(t[0], next); mk(t[1], next + 1); a->insert(op.a, 2, t); m.insert(m.begin() + op.a, {next, next + 1}); next += 2; break; }
      case 7: { A o; mk(e, next); o.append(e); mk(e, next + 1); o.append(e); a->insert(op.a, o); m.insert(m.begin() + op.a, {next, next + 1}); next += 2; break; }
      case 8:
      {
         a->remove(op.a, op.b);
         int cnt = std::min(op.b, n - op.a);
         m.erase(m.begin() + op.a, m.begin() + op.a + cnt);
         break;
      }
      case 9: removeLast(op.a); m.resize(n - op.a); break;
      case 10: a->clear(); m.clear(); break;
      case 11: a->reSize(op.a); m.resize(op.a, UNSPEC); break;
      case 12: reMax(op, f); break;
      case 13: { A* c = new A(*a); delete a; a = c; break; }
      case 14: { A* c = new A(); mk(e, 1); c->append(e); *c = *a; delete a; a = c; break; }
      case 15: mk((*a)[op.a], next); m[op.a] = next++; break;
      }
   }
   template <int K = KIND> typename std::enable_if < K != 2 >::type append_n(const E& e) { a->append(2, e); }
   template <int K = KIND> typename std::enable_if < K == 2 >::type append_n(const E&) {}
   template <int K = KIND> typename std::enable_if < K != 2 >::type insert_n(int i, const E& e) { a->insert(i, 2, e); }
   template <int K = KIND> typename std::enable_if < K == 2 >::type insert_n(int, const E&) {}
   template <int K = KIND> typename std::enable_if < K != 1 >::type removeLast(int cnt) { a->removeLast(cnt); }
   template <int K = KIND> typename std::enable_if < K == 1 >::type removeLast(int) {}
   template <int K = KIND> typename std::enable_if < K != 1 >::type reMax(const Op& op, Fail& f)
   {
      int n = (int)m.size();
      if(op.a == 0)
      {
         a->reMax(1);
         REQ(a->size() == n, "reMax-changed-size", "size()=" << a->size() << " was " << n);
         REQ(a->max() >= a->size(), "max-below-size", "reMax(1) on an array of " << n << " elements: max()=" << a->max() << " < size()=" << a->size());
      }
      else if(op.a == 1) { a->reMax(n + 3); REQ(a->max() == n + 3 && a->size() == n, "reMax-wrong", "max()=" << a->max() << " size()=" << a->size()); }
      else { a->reMax(n + 3, n + 1); REQ(a->max() == n + 3 && a->size() == n + 1, "reMax-wrong", "max()=" << a->max() << " size()=" << a->size()); m.push_back(UNSPEC); }
   }
   template <int K = KIND> typename std::enable_if < K == 1 >::type reMax(const Op&, Fail&) {}
   template <int K = KIND> typename std::enable_if < K != 1 >::type checkMax(Fail& f)
   {
      REQ(a->max() >= a->size() && a->max() >= 1, "max-below-size", "max()=" << a->max() << " size()=" << a->size());
      if(a->size() > 0) REQ(ev(a->last()) == at(a->size() - 1), "last()-wrong", "last()");
   }
   template <int K = KIND> typename std::enable_if < K == 1 >::type checkMax(Fail&) {}
   void check(Fail& f)
   {
      int n = (int)m.size();
      REQ(a->size() == n, "wrong-size", "size()=" << a->size() << " model " << n);
      checkMax(f);
      if(f.bad()) return;
      for(int i = 0; i < n; ++i)
      {
         if(m[i] == UNSPEC) continue;
         REQ(at(i) == m[i], "element-wrong", "array[" << i << "]=" << at(i) << " model " << m[i] << " (size " << n << ")");
         REQ(ev(a->get_const_ptr()[i]) == m[i], "element-wrong", "get_const_ptr()[" << i << "]");
      }
      if(!a->isConsistent()) observe(std::string(name()) + ".observation.isConsistent_false");
   }
   uint64_t digest() const { uint64_t h = 41; h = hmix(h, m.size()); for(int v : m) h = hmix(h, v == UNSPEC); return h; }
};

// ---------------------------------------------------------------------------------------------------------------------
// 8. IsList / IdList (intrusive lists; elements live in one relocatable block)
// ---------------------------------------------------------------------------------------------------------------------
struct Payload { int id; };
template <bool DBL> struct ListT;
template <> struct ListT<false> { typedef IsElement<Payload> El; typedef IsList<El> L; static const char* name() { return "islist"; } };
template <> struct ListT<true> { typedef IdElement<Payload> El; typedef IdList<El> L; static const char* name() { return "idlist"; } };

template <bool DBL>
struct ListSys
{
   typedef typename ListT<DBL>::El El;
   typedef typename ListT<DBL>::L L;
   static const char* name() { return ListT<DBL>::name(); }
   static int ninit() { return 2; }
   static const char* opname(int k)
   {
      static const char* N[] = {"append(e)", "prepend(e)", "insert(e,after)", "remove(e)", "remove_next(after)", "append(list)", "prepend(list)", "insert(list,after)",
                                "remove(sublist)", "clear()", "move(delta)"
                               };
      return (k >= 0 && k < 11) ? N[k] : "?";
   }
   static bool gate_rare(int g) { return g == 3; }     // gates whose trigger is rare are run (isolated) at every depth
   static std::vector<ProbeSeq> probes() { return {}; }
   static const int NP = 6;
   El* pool;
   L list;
   std::vector<int> m;      // ids in list order
   explicit ListSys(int init)
   {
      pool = (El*)malloc(sizeof(El) * NP);
      for(int i = 0; i < NP; ++i) { new(&pool[i]) El(); pool[i].id = i; }
      if(init == 1) for(int i = 0; i < 3; ++i) { list.append(&pool[i]); m.push_back(i); }
   }
   ~ListSys() { list.clear(); free(pool); }
   ListSys(const ListSys&) = delete;
   std::vector<int> freeIds() const { std::vector<int> v; for(int i = 0; i < NP; ++i) if(std::find(m.begin(), m.end(), i) == m.end()) v.push_back(i); return v; }

   void ops(std::vector<Op>& o, int level) const
   {
      int n = (int)m.size();
      bool full = level < g_fullLevels + 1;
      auto fr = freeIds();
      std::set<int> pos;
      if(n > 0) { pos.insert(0); pos.insert(n - 1); if(full) pos.insert(n / 2); }
      if(!fr.empty())
      {
         o.push_back(Op(0)); o.push_back(Op(1));
         for(int p : pos) o.push_back(Op(2, p));
      }
      for(int p : pos) o.push_back(Op(3, p));
      for(int p : pos) if(p < n - 1) o.push_back(Op(4, p));
      if(fr.size() >= 2)
      {
         o.push_back(Op(5)); o.push_back(Op(6));
         for(int p : pos) if(full || p != n / 2) o.push_back(Op(7, p));
      }
      if(n > 0)
      {
         std::set<std::pair<int, int>> rg = {{0, 0}, {0, n - 1}, {n - 1, n - 1}};
         if(n >= 2) { rg.insert({0, 1}); rg.insert({n - 2, n - 1}); }
         if(n >= 3) { rg.insert({1, 1}); rg.insert({1, n - 2}); }
         for(auto& r : rg) o.push_back(Op(8, r.first, r.second));
      }
      o.push_back(Op(9));
      o.push_back(Op(10));
   }
   int gate(const Op&) const { return 0; }
   std::string tag(const Op& op) const
   {
      if(op.k == 8) { int n = (int)m.size(); return std::string(op.a == 0 ? "|from-first" : "|inner-start") + (op.b == n - 1 ? "|to-last" : "|inner-end"); }
      return "";
   }
   void apply(const Op& op, Fail&)
   {
      auto fr = freeIds();
      switch(op.k)
      {
      case 0: list.append(&pool[fr[0]]); m.push_back(fr[0]); break;
      case 1: list.prepend(&pool[fr[0]]); m.insert(m.begin(), fr[0]); break;
      case 2: list.insert(&pool[fr[0]], &pool[m[op.a]]); m.insert(m.begin() + op.a + 1, fr[0]); break;
      case 3: list.remove(&pool[m[op.a]]); m.erase(m.begin() + op.a); break;
      case 4: list.remove_next(&pool[m[op.a]]); m.erase(m.begin() + op.a + 1); break;
      case 5: case 6: case 7:
      {
         L sub;
         sub.append(&pool[fr[0]]); sub.append(&pool[fr[1]]);
         if(op.k == 5) { list.append(sub); m.push_back(fr[0]); m.push_back(fr[1]); }
         else if(op.k == 6) { list.prepend(sub); m.insert(m.begin(), {fr[0], fr[1]}); }
         else { list.insert(sub, &pool[m[op.a]]); m.insert(m.begin() + op.a + 1, {fr[0], fr[1]}); }
         sub.clear();
         break;
      }
      case 8:
      {
         L sub(&pool[m[op.a]], &pool[m[op.b]]);
         list.remove(sub);
         sub.clear();
         m.erase(m.begin() + op.a, m.begin() + op.b + 1);
         break;
      }
      case 9: list.clear(); m.clear(); break;
      case 10:
      {
         El* np = (El*)malloc(sizeof(El) * NP + 64);
         memcpy((void*)np, (void*)pool, sizeof(El) * NP);
         ptrdiff_t delta = (char*)np - (char*)pool;
         memset((void*)pool, 0x5a, sizeof(El) * NP);
         free(pool);
         pool = np;
         list.move(delta);
         observe(std::string(name()) + ".relocations");
         break;
      }
      }
   }
   bool inPool(const El* p) const { return p >= pool && p < pool + NP && ((const char*)p - (const char*)pool) % sizeof(El) == 0; }
   template <bool D = DBL> typename std::enable_if<D>::type backward(Fail& f)
   {
      int n = (int)m.size();
      int i = n - 1;
      for(El* p = list.last(); p; p = list.prev(p), --i)
      {
         REQ(inPool(p), "link-outside-the-elements", "backward traversal leaves the element block at position " << i);
         REQ(i >= 0 && p->id == m[i], "backward-traversal-wrong", "backward traversal: position " << i << " holds element " << p->id << (i >= 0 ? " model " + std::to_string(m[i]) : std::string(" (list too long)")));
      }
      REQ(i == -1, "backward-traversal-wrong", "backward traversal stopped " << (i + 1) << " elements early");
   }
   template <bool D = DBL> typename std::enable_if < !D >::type backward(Fail&) {}
   void check(Fail& f)
   {
      int n = (int)m.size();
      REQ((list.first() == nullptr) == (n == 0) && (list.last() == nullptr) == (n == 0), "first/last-wrong", "first()/last() null-ness does not match " << n << " elements");
      int i = 0;
      for(El* p = list.first(); p; p = list.next(p), ++i)
      {
         REQ(inPool(p), "link-outside-the-elements", "forward traversal leaves the element block at position " << i);
         REQ(i < n && p->id == m[i], "forward-traversal-wrong", "forward traversal: position " << i << " holds element " << p->id << (i < n ? " model " + std::to_string(m[i]) : std::string(" (list too long)")));
      }
      REQ(i == n, "forward-traversal-wrong", "forward traversal visited " << i << " of " << n);
      if(n > 0) REQ(list.last() == &pool[m[n - 1]], "first/last-wrong", "last() is element " << list.last()->id);
      REQ(list.length() == n, "length-wrong", "length()=" << list.length() << " model " << n);
      for(int e = 0; e < NP; ++e)
      {
         bool want = std::find(m.begin(), m.end(), e) != m.end();
         REQ((list.find(&pool[e]) != 0) == want, "find-wrong", "find(element " << e << ")=" << list.find(&pool[e]));
      }
      backward(f);
      if(!list.isConsistent()) observe(std::string(name()) + ".observation.isConsistent_false");
   }
   uint64_t digest() const { uint64_t h = 77; for(int v : m) h = hmix(h, v); return h; }
};

// ---------------------------------------------------------------------------------------------------------------------
// 9. vector algebra: all vectors of dimension 3 over a 3-letter alphabet, every representation, double and Rational
// ---------------------------------------------------------------------------------------------------------------------
static std::shared_ptr<Tolerances> g_tol;
typedef std::array<Q, 3> D3;

template <class R> struct Num;
template <> struct Num<double>
{
   static const char* tag() { return "vecD"; }
   static double letter(int t) { return t == 0 ? -1.0 : t == 1 ? 0.0 : 2.0; }
   static Q q(double v) { return Q(v); }
   static Q qletter(int t) { return t == 0 ? Q(-1) : t == 1 ? Q(0) : Q(2); }
};
template <> struct Num<Rational>
{
   static const char* tag() { return "vecQ"; }
   static Rational letter(int t) { return t == 0 ? Rational(-1) / 3 : t == 1 ? Rational(0) : Rational(2); }
   static Q q(const Rational& v) { return Q(v.backend().data()); }
   static Q qletter(int t) { return t == 0 ? Q(-1, 3) : t == 1 ? Q(0) : Q(2); }
};
static int digit(int p, int i) { for(int k = 0; k < i; ++k) p /= 3; return p % 3; }
static std::string d3str(const D3& d) { return "(" + d[0].get_str() + "," + d[1].get_str() + "," + d[2].get_str() + ")"; }

struct SRep { int p; std::vector<int> order; bool sorted; bool zero; };  // sparse: pattern + order of the stored entries (zero: one explicit zero entry is stored last)
struct SSRep { int p; std::vector<int> order; bool setup, sorted; };   // semi-sparse: pattern + index order (setup) or not set up
static std::vector<SRep> g_srep;
static std::vector<SSRep> g_ssrep;
static void build_reps()
{
   for(int p = 0; p < 27; ++p)
   {
      std::vector<int> nzs;
      for(int i = 0; i < 3; ++i) if(digit(p, i) != 1) nzs.push_back(i);
      std::vector<int> perm = nzs;
      do
      {
         bool sorted = std::is_sorted(perm.begin(), perm.end());
         g_srep.push_back({p, perm, sorted, false});
         g_ssrep.push_back({p, perm, true, sorted});
      }
      while(std::next_permutation(perm.begin(), perm.end()));
   }
   for(int p = 0; p < 27; ++p) g_ssrep.push_back({p, {}, false, true});
   // sparse vectors that store one explicit zero (as assignArray() and add(int) produce them): nonzeros ascending, the zero last
   for(int p = 0; p < 27; ++p)
   {
      std::vector<int> st;
      int z = -1;
      for(int i = 0; i < 3; ++i) { if(digit(p, i) != 1) st.push_back(i); else if(z < 0) z = i; }
      if(z < 0) continue;
      st.push_back(z);
      g_srep.push_back({p, st, std::is_sorted(st.begin(), st.end()), true});
   }
}
static const char* stag(const SRep& r) { return r.zero ? (r.sorted ? "sorted+explicit-zero" : "unsorted+explicit-zero") : r.sorted ? "sorted" : "unsorted"; }
static const char* sstag(const SSRep& r) { return !r.setup ? "notsetup" : r.sorted ? "setup-sorted" : "setup-unsorted"; }

template <class R>
struct Alg
{
   typedef VectorBase<R> V;
   typedef SVectorBase<R> SV;
   typedef DSVectorBase<R> DSV;
   typedef SSVectorBase<R> SSV;
   typedef UnitVectorBase<R> UV;
   typedef Num<R> N;

   static D3 dense(int p) { D3 d; for(int i = 0; i < 3; ++i) d[i] = N::qletter(digit(p, i)); return d; }
   static V mkV(int p) { V v(3); for(int i = 0; i < 3; ++i) v[i] = N::letter(digit(p, i)); return v; }
   static DSV mkSV(const SRep& r, int cap = 4)
   {
      DSV d(cap);
      for(int i : r.order)
      {
         if(digit(r.p, i) != 1) d.add(i, N::letter(digit(r.p, i)));
         else { d.add(i); d.value(d.size() - 1) = R(0); }          // explicit zero entry
      }
      return d;
   }
   static SSV mkSSV(const SSRep& r)
   {
      SSV x(3, g_tol);
      if(r.setup) for(int i : r.order) x.add(i, N::letter(digit(r.p, i)));
      else { R* w = x.altValues(); for(int i = 0; i < 3; ++i) w[i] = N::letter(digit(r.p, i)); }
      return x;
   }
   static R scal(int k) { return k == 0 ? R(-1) : R(2); }
   static Q qscal(int k) { return k == 0 ? Q(-1) : Q(2); }

   // dense images
   static bool dV(const V& v, D3& d, std::string& why)
   {
      if(v.dim() != 3) { why = "dimension " + std::to_string(v.dim()); return false; }
      for(int i = 0; i < 3; ++i) d[i] = N::q(v[i]);
      return true;
   }
   static bool dSV(const SV& v, D3& d, std::string& why)
   {
      for(auto& x : d) x = 0;
      bool seen[3] = {false, false, false};
      if(v.size() < 0 || v.size() > v.max()) { why = "size " + std::to_string(v.size()) + " max " + std::to_string(v.max()); return false; }
      for(int j = 0; j < v.size(); ++j)
      {
         int i = v.index(j);
         if(i < 0 || i > 2) { why = "nonzero with index " + std::to_string(i); return false; }
         Q val = N::q(v.value(j));
         if(seen[i] && val != 0) { why = "index " + std::to_string(i) + " stored twice"; return false; }
         if(val != 0) seen[i] = true;
         d[i] += val;
      }
      return true;
   }
   // exactIdx: the index set must be exactly the nonzero pattern (after setup()); otherwise a superset without duplicates
   static bool dSSV(const SSV& x, D3& d, std::string& why, bool exactIdx = false)
   {
      if(x.dim() != 3) { why = "dimension " + std::to_string(x.dim()); return false; }
      for(int i = 0; i < 3; ++i) d[i] = N::q(x[i]);
      if(x.isSetup())
      {
         bool in[3] = {false, false, false};
         if(x.size() < 0 || x.size() > 3) { why = "index set of size " + std::to_string(x.size()); return false; }
         for(int j = 0; j < x.size(); ++j)
         {
            int i = x.index(j);
            if(i < 0 || i > 2) { why = "index set holds " + std::to_string(i); return false; }
            if(in[i]) { why = "index " + std::to_string(i) + " twice in the index set"; return false; }
            in[i] = true;
            if(exactIdx && d[i] == 0) { why = "index set keeps index " + std::to_string(i) + " of a zero value"; return false; }
         }
         for(int i = 0; i < 3; ++i) if(d[i] != 0 && !in[i]) { why = "set-up vector: nonzero at " + std::to_string(i) + " missing from the index set"; return false; }
      }
      return true;
   }

   struct Def { std::string name; int ni, nj, nk; std::function<void(Ctx&, const std::string&, int, int, int)> fn; };
   std::vector<Def> defs;
   std::vector<uint64_t> start;
   uint64_t total = 0;
   std::vector<int> Apat;       // column patterns used for the matrix family

   static void bad(Ctx& c, const std::string& op, const std::string& rule, const std::string& tags, const std::string& cs, const std::string& detail)
   {
      c.violation(std::string(N::tag()) + ":" + rule + ":" + op + tags, cs, detail);
   }
   static void expV(Ctx& c, const std::string& op, const std::string& tags, const std::string& cs, bool ok, const std::string& why, const D3& got, const D3& want)
   {
      c.count(std::string(N::tag()) + ".evaluations");
      if(!ok) { bad(c, op, "malformed-result", tags, cs, why + " | expected " + d3str(want)); return; }
      if(got != want) bad(c, op, "wrong-value", tags, cs, "got " + d3str(got) + " expected " + d3str(want));
   }
   static void expS(Ctx& c, const std::string& op, const std::string& tags, const std::string& cs, const Q& got, const Q& want)
   {
      c.count(std::string(N::tag()) + ".evaluations");
      if(got != want) bad(c, op, "wrong-value", tags, cs, "got " + got.get_str() + " expected " + want.get_str());
   }
   static Q dot(const D3& a, const D3& b) { return a[0] * b[0] + a[1] * b[1] + a[2] * b[2]; }
   static D3 axpy(const D3& a, const Q& x, const D3& b) { D3 r; for(int i = 0; i < 3; ++i) r[i] = a[i] + x * b[i]; return r; }
   static std::string T2(const char* l, const char* r) { std::string s; if(l) s += std::string("|L=") + l; if(r) s += std::string("|R=") + r; return s; }

   void add(const std::string& name, int ni, int nj, int nk, std::function<void(Ctx&, const std::string&, int, int, int)> fn) { defs.push_back({name, ni, nj, nk, fn}); }

   void build(bool thorough)
   {
      const int NV = 27, NS = (int)g_srep.size(), NX = (int)g_ssrep.size();
      std::string why;
      // ---------------- VectorBase as the left operand ----------------
      add("V=V", NV, NV, 1, [](Ctx & c, const std::string & cs, int i, int j, int) { V v = mkV(i), w = mkV(j); v = w; D3 g; std::string y; bool ok = dV(v, g, y); expV(c, "V=V", "", cs, ok, y, g, dense(j)); });
      add("V(V)", NV, 1, 1, [](Ctx & c, const std::string & cs, int i, int, int) { V w = mkV(i); V v(w); D3 g; std::string y; bool ok = dV(v, g, y); expV(c, "V(V)", "", cs, ok, y, g, dense(i)); });
      add("V=SV", NV, NS, 1, [](Ctx & c, const std::string & cs, int i, int j, int) { V v = mkV(i); DSV s = mkSV(g_srep[j]); v = static_cast<const SV&>(s); D3 g; std::string y; bool ok = dV(v, g, y); expV(c, "V=SV", T2(0, stag(g_srep[j])), cs, ok, y, g, dense(g_srep[j].p)); });
      add("V=SSV", NV, NX, 1, [](Ctx & c, const std::string & cs, int i, int j, int) { V v = mkV(i); SSV s = mkSSV(g_ssrep[j]); v = s; D3 g; std::string y; bool ok = dV(v, g, y); expV(c, "V=SSV", T2(0, sstag(g_ssrep[j])), cs, ok, y, g, dense(g_ssrep[j].p)); });
      add("V.assign(SV)", NV, NS, 1, [](Ctx & c, const std::string & cs, int i, int j, int)
      {
         V v = mkV(i); DSV s = mkSV(g_srep[j]); v.assign(static_cast<const SV&>(s));
         D3 a = dense(i), b = dense(g_srep[j].p), w = a; for(int t : g_srep[j].order) w[t] = b[t];      // every stored entry is assigned, the rest is kept
         D3 g; std::string y; bool ok = dV(v, g, y); expV(c, "V.assign(SV)", T2(0, stag(g_srep[j])), cs, ok, y, g, w);
      });
      add("V.assign(SSV)", NV, NX, 1, [](Ctx & c, const std::string & cs, int i, int j, int)
      {
         V v = mkV(i); SSV s = mkSSV(g_ssrep[j]); v.assign(s);
         D3 a = dense(i), b = dense(g_ssrep[j].p), w; for(int t = 0; t < 3; ++t) w[t] = b[t] != 0 ? b[t] : a[t];
         D3 g; std::string y; bool ok = dV(v, g, y); expV(c, "V.assign(SSV)", T2(0, sstag(g_ssrep[j])), cs, ok, y, g, w);
      });
      for(int sgn = 0; sgn < 2; ++sgn)
      {
         std::string o = sgn ? "-=" : "+=";
         Q sg = sgn ? -1 : 1;
         add("V" + o + "V", NV, NV, 1, [o, sg, sgn](Ctx & c, const std::string & cs, int i, int j, int) { V v = mkV(i), w = mkV(j); if(sgn) v -= w; else v += w; D3 g; std::string y; bool ok = dV(v, g, y); expV(c, "V" + o + "V", "", cs, ok, y, g, axpy(dense(i), sg, dense(j))); });
         add("V" + o + "SV", NV, NS, 1, [o, sg, sgn](Ctx & c, const std::string & cs, int i, int j, int) { V v = mkV(i); DSV s = mkSV(g_srep[j]); if(sgn) v -= static_cast<const SV&>(s); else v += static_cast<const SV&>(s); D3 g; std::string y; bool ok = dV(v, g, y); expV(c, "V" + o + "SV", T2(0, stag(g_srep[j])), cs, ok, y, g, axpy(dense(i), sg, dense(g_srep[j].p))); });
         add("V" + o + "SSV", NV, NX, 1, [o, sg, sgn](Ctx & c, const std::string & cs, int i, int j, int) { V v = mkV(i); SSV s = mkSSV(g_ssrep[j]); if(sgn) v -= s; else v += s; D3 g; std::string y; bool ok = dV(v, g, y); expV(c, "V" + o + "SSV", T2(0, sstag(g_ssrep[j])), cs, ok, y, g, axpy(dense(i), sg, dense(g_ssrep[j].p))); });
      }
      add("V*=x", NV, 1, 2, [](Ctx & c, const std::string & cs, int i, int, int k) { V v = mkV(i); v *= scal(k); D3 g, z; for(auto& t : z) t = 0; std::string y; bool ok = dV(v, g, y); expV(c, "V*=x", "", cs, ok, y, g, axpy(z, qscal(k), dense(i))); });
      add("V/=x", NV, 1, 2, [](Ctx & c, const std::string & cs, int i, int, int k) { V v = mkV(i); v /= scal(k); D3 g, z; for(auto& t : z) t = 0; std::string y; bool ok = dV(v, g, y); expV(c, "V/=x", "", cs, ok, y, g, axpy(z, 1 / qscal(k), dense(i))); });
      add("V*V", NV, NV, 1, [](Ctx & c, const std::string & cs, int i, int j, int) { V v = mkV(i), w = mkV(j); expS(c, "V*V", "", cs, N::q(v * w), dot(dense(i), dense(j))); });
      add("V*SV", NV, NS, 1, [](Ctx & c, const std::string & cs, int i, int j, int) { V v = mkV(i); DSV s = mkSV(g_srep[j]); expS(c, "V*SV", T2(0, stag(g_srep[j])), cs, N::q(v * static_cast<const SV&>(s)), dot(dense(i), dense(g_srep[j].p))); });
      add("V*SSV", NV, NX, 1, [](Ctx & c, const std::string & cs, int i, int j, int) { V v = mkV(i); SSV s = mkSSV(g_ssrep[j]); expS(c, "V*SSV", T2(0, sstag(g_ssrep[j])), cs, N::q(v * s), dot(dense(i), dense(g_ssrep[j].p))); });
      add("V.multAdd(x,V)", NV, NV, 2, [](Ctx & c, const std::string & cs, int i, int j, int k) { V v = mkV(i), w = mkV(j); v.multAdd(scal(k), w); D3 g; std::string y; bool ok = dV(v, g, y); expV(c, "V.multAdd(x,V)", "", cs, ok, y, g, axpy(dense(i), qscal(k), dense(j))); });
      add("V.multAdd(x,SV)", NV, NS, 2, [](Ctx & c, const std::string & cs, int i, int j, int k) { V v = mkV(i); DSV s = mkSV(g_srep[j]); v.multAdd(scal(k), static_cast<const SV&>(s)); D3 g; std::string y; bool ok = dV(v, g, y); expV(c, "V.multAdd(x,SV)", T2(0, stag(g_srep[j])), cs, ok, y, g, axpy(dense(i), qscal(k), dense(g_srep[j].p))); });
      add("V.multSub(x,SV)", NV, NS, 2, [](Ctx & c, const std::string & cs, int i, int j, int k) { V v = mkV(i); DSV s = mkSV(g_srep[j]); v.multSub(scal(k), static_cast<const SV&>(s)); D3 g; std::string y; bool ok = dV(v, g, y); expV(c, "V.multSub(x,SV)", T2(0, stag(g_srep[j])), cs, ok, y, g, axpy(dense(i), -qscal(k), dense(g_srep[j].p))); });
      add("V.multAdd(x,SSV)", NV, NX, 2, [](Ctx & c, const std::string & cs, int i, int j, int k) { V v = mkV(i); SSV s = mkSSV(g_ssrep[j]); v.multAdd(scal(k), s); D3 g; std::string y; bool ok = dV(v, g, y); expV(c, "V.multAdd(x,SSV)", T2(0, sstag(g_ssrep[j])), cs, ok, y, g, axpy(dense(i), qscal(k), dense(g_ssrep[j].p))); });
      add("V-V", NV, NV, 1, [](Ctx & c, const std::string & cs, int i, int j, int) { V v = mkV(i), w = mkV(j); V r = v - w; D3 g; std::string y; bool ok = dV(r, g, y); expV(c, "V-V", "", cs, ok, y, g, axpy(dense(i), -1, dense(j))); });
      add("V+V", NV, NV, 1, [](Ctx & c, const std::string & cs, int i, int j, int) { V v = mkV(i), w = mkV(j); V r = v + w; D3 g; std::string y; bool ok = dV(r, g, y); expV(c, "V+V", "", cs, ok, y, g, axpy(dense(i), 1, dense(j))); });
      add("-V", NV, 1, 1, [](Ctx & c, const std::string & cs, int i, int, int) { V v = mkV(i); V r = -v; D3 g, z; for(auto& t : z) t = 0; std::string y; bool ok = dV(r, g, y); expV(c, "-V", "", cs, ok, y, g, axpy(z, -1, dense(i))); });
      add("SV-V", NS, NV, 1, [](Ctx & c, const std::string & cs, int i, int j, int) { DSV s = mkSV(g_srep[i]); V w = mkV(j); V r = static_cast<const SV&>(s) - w; D3 g; std::string y; bool ok = dV(r, g, y); expV(c, "SV-V", T2(stag(g_srep[i]), 0), cs, ok, y, g, axpy(dense(g_srep[i].p), -1, dense(j))); });
      add("V.norms", NV, 1, 1, [](Ctx & c, const std::string & cs, int i, int, int)
      {
         V v = mkV(i); D3 a = dense(i); Q mx = 0, mn = abs(a[0]);
         for(auto& t : a) { if(abs(t) > mx) mx = abs(t); if(abs(t) < mn) mn = abs(t); }
         expS(c, "V.maxAbs()", "", cs, N::q(v.maxAbs()), mx); (void)mn; /* VectorBase::minAbs() does not compile: SOPLEX_MIN_element, vectorbase.h:435 */ expS(c, "V.length2()", "", cs, N::q(v.length2()), dot(a, a));
      });
      add("V.reDim", NV, 1, 2, [](Ctx & c, const std::string & cs, int i, int, int k)
      {
         V v = mkV(i); v.reDim(k ? 4 : 2); D3 a = dense(i);
         c.count(std::string(N::tag()) + ".evaluations");
         bool ok = v.dim() == (k ? 4 : 2);
         for(int t = 0; ok && t < std::min(3, v.dim()); ++t) ok = N::q(v[t]) == a[t];
         if(ok && k) ok = N::q(v[3]) == 0;
         if(!ok) bad(c, "V.reDim(n)", "wrong-value", "", cs, "reDim lost or invented entries");
      });
      // ---------------- SVectorBase / DSVectorBase as the left operand ----------------
      add("SV=V", NS, NV, 1, [](Ctx & c, const std::string & cs, int i, int j, int) { DSV s = mkSV(g_srep[i]); V w = mkV(j); static_cast<SV&>(s) = w; D3 g; std::string y; bool ok = dSV(s, g, y); expV(c, "SV=V", "", cs, ok, y, g, dense(j)); });
      add("DSV=V", NS, NV, 1, [](Ctx & c, const std::string & cs, int i, int j, int) { DSV s = mkSV(g_srep[i], 1); V w = mkV(j); s = w; D3 g; std::string y; bool ok = dSV(s, g, y); expV(c, "DSV=V", "", cs, ok, y, g, dense(j)); });
      add("DSV(V)", NV, 1, 1, [](Ctx & c, const std::string & cs, int i, int, int) { V w = mkV(i); DSV s(w); D3 g; std::string y; bool ok = dSV(s, g, y); expV(c, "DSV(V)", "", cs, ok, y, g, dense(i)); });
      add("SV=SV", NS, NS, 1, [](Ctx & c, const std::string & cs, int i, int j, int) { DSV s = mkSV(g_srep[i]), t = mkSV(g_srep[j]); static_cast<SV&>(s) = static_cast<const SV&>(t); D3 g; std::string y; bool ok = dSV(s, g, y); expV(c, "SV=SV", T2(0, stag(g_srep[j])), cs, ok, y, g, dense(g_srep[j].p)); });
      add("DSV=SV", NS, NS, 1, [](Ctx & c, const std::string & cs, int i, int j, int) { DSV s = mkSV(g_srep[i], 1), t = mkSV(g_srep[j]); s = static_cast<const SV&>(t); D3 g; std::string y; bool ok = dSV(s, g, y); expV(c, "DSV=SV", T2(0, stag(g_srep[j])), cs, ok, y, g, dense(g_srep[j].p)); });
      add("DSV=DSV", NS, NS, 1, [](Ctx & c, const std::string & cs, int i, int j, int) { DSV s = mkSV(g_srep[i], 1), t = mkSV(g_srep[j]); s = t; D3 g; std::string y; bool ok = dSV(s, g, y); expV(c, "DSV=DSV", T2(0, stag(g_srep[j])), cs, ok, y, g, dense(g_srep[j].p)); });
      add("DSV(SV)", NS, 1, 1, [](Ctx & c, const std::string & cs, int i, int, int) { DSV t = mkSV(g_srep[i]); DSV s(static_cast<const SV&>(t)); D3 g; std::string y; bool ok = dSV(s, g, y); expV(c, "DSV(SV)", T2(0, stag(g_srep[i])), cs, ok, y, g, dense(g_srep[i].p)); });
      add("DSV(DSV)", NS, 1, 1, [](Ctx & c, const std::string & cs, int i, int, int) { DSV t = mkSV(g_srep[i]); DSV s(t); D3 g; std::string y; bool ok = dSV(s, g, y); expV(c, "DSV(DSV)", T2(0, stag(g_srep[i])), cs, ok, y, g, dense(g_srep[i].p)); });
      add("SV=SSV", NS, NX, 1, [](Ctx & c, const std::string & cs, int i, int j, int) { if(!g_ssrep[j].setup) return; DSV s = mkSV(g_srep[i]); SSV x = mkSSV(g_ssrep[j]); static_cast<SV&>(s) = x; D3 g; std::string y; bool ok = dSV(s, g, y); expV(c, "SV=SSV", T2(0, sstag(g_ssrep[j])), cs, ok, y, g, dense(g_ssrep[j].p)); });
      add("DSV=SSV", NS, NX, 1, [](Ctx & c, const std::string & cs, int i, int j, int) { if(!g_ssrep[j].setup) return; DSV s = mkSV(g_srep[i], 1); SSV x = mkSSV(g_ssrep[j]); s = x; D3 g; std::string y; bool ok = dSV(s, g, y); expV(c, "DSV=SSV", T2(0, sstag(g_ssrep[j])), cs, ok, y, g, dense(g_ssrep[j].p)); });
      add("DSV(SSV)", NX, 1, 1, [](Ctx & c, const std::string & cs, int i, int, int) { if(!g_ssrep[i].setup) return; SSV x = mkSSV(g_ssrep[i]); DSV s(x); D3 g; std::string y; bool ok = dSV(s, g, y); expV(c, "DSV(SSV)", T2(0, sstag(g_ssrep[i])), cs, ok, y, g, dense(g_ssrep[i].p)); });
      add("SV*V", NS, NV, 1, [](Ctx & c, const std::string & cs, int i, int j, int) { DSV s = mkSV(g_srep[i]); V w = mkV(j); expS(c, "SV*V", T2(stag(g_srep[i]), 0), cs, N::q(static_cast<const SV&>(s) * w), dot(dense(g_srep[i].p), dense(j))); });
      add("SV*SV", NS, NS, 1, [](Ctx & c, const std::string & cs, int i, int j, int) { DSV s = mkSV(g_srep[i]), t = mkSV(g_srep[j]); expS(c, "SV*SV", T2(stag(g_srep[i]), stag(g_srep[j])), cs, N::q(static_cast<const SV&>(s) * static_cast<const SV&>(t)), dot(dense(g_srep[i].p), dense(g_srep[j].p))); });
      add("SV*=x", NS, 1, 2, [](Ctx & c, const std::string & cs, int i, int, int k) { DSV s = mkSV(g_srep[i]); static_cast<SV&>(s) *= scal(k); D3 g, z; for(auto& t : z) t = 0; std::string y; bool ok = dSV(s, g, y); expV(c, "SV*=x", T2(stag(g_srep[i]), 0), cs, ok, y, g, axpy(z, qscal(k), dense(g_srep[i].p))); });
      add("SV*x", NS, 1, 2, [](Ctx & c, const std::string & cs, int i, int, int k)
      {
         DSV s = mkSV(g_srep[i]); D3 z; for(auto& t : z) t = 0; D3 w = axpy(z, qscal(k), dense(g_srep[i].p));
         { DSV r = static_cast<const SV&>(s) * scal(k); D3 g; std::string y; bool ok = dSV(r, g, y); expV(c, "SV*x", T2(stag(g_srep[i]), 0), cs, ok, y, g, w); }
         { DSV r = scal(k) * static_cast<const SV&>(s); D3 g; std::string y; bool ok = dSV(r, g, y); expV(c, "x*SV", T2(stag(g_srep[i]), 0), cs, ok, y, g, w); }
      });
      add("SV.sort()", NS, 1, 1, [](Ctx & c, const std::string & cs, int i, int, int)
      {
         DSV s = mkSV(g_srep[i]); s.sort(); D3 g; std::string y; bool ok = dSV(s, g, y);
         for(int j = 1; ok && j < s.size(); ++j) if(s.index(j - 1) > s.index(j)) { ok = false; y = "indices not ascending after sort()"; }
         if(ok && s.size() != (int)g_srep[i].order.size()) { ok = false; y = "sort() changed the number of nonzeros"; }
         expV(c, "SV.sort()", T2(stag(g_srep[i]), 0), cs, ok, y, g, dense(g_srep[i].p));
      });
      add("SV.queries", NS, 1, 1, [](Ctx & c, const std::string & cs, int i, int, int)
      {
         const SRep& r = g_srep[i]; DSV s = mkSV(r); D3 a = dense(r.p); Q mx = 0, mn = -1; int dim = 0;
         for(int t : r.order) { if(abs(a[t]) > mx) mx = abs(a[t]); if(mn < 0 || abs(a[t]) < mn) mn = abs(a[t]); dim = std::max(dim, t + 1); }     // over the stored entries, as documented
         std::string tg = T2(stag(r), 0);
         expS(c, "SV.maxAbs()", tg, cs, N::q(s.maxAbs()), mx);
         if(mn >= 0) expS(c, "SV.minAbs()", tg, cs, N::q(s.minAbs()), mn);
         expS(c, "SV.length2()", tg, cs, N::q(s.length2()), dot(a, a));
         expS(c, "SV.dim()", tg, cs, Q(s.dim()), Q(dim));
         expS(c, "SV.size()", tg, cs, Q(s.size()), Q((int)r.order.size()));
         for(int t = 0; t < 3; ++t)
         {
            expS(c, "SV[i]", tg, cs, N::q(s[t]), a[t]);
            auto it = std::find(r.order.begin(), r.order.end(), t);
            expS(c, "SV.pos(i)", tg, cs, Q(s.pos(t)), Q(it == r.order.end() ? -1 : int(it - r.order.begin())));
         }
      });
      add("SV.remove(n)", NS, 3, 1, [](Ctx & c, const std::string & cs, int i, int j, int)
      {
         const SRep& r = g_srep[i]; if(j >= (int)r.order.size()) return;
         DSV s = mkSV(r); D3 w = dense(r.p); w[r.order[j]] = 0; s.remove(j);
         D3 g; std::string y; bool ok = dSV(s, g, y); if(ok && s.size() != (int)r.order.size() - 1) { ok = false; y = "size " + std::to_string(s.size()); }
         expV(c, "SV.remove(n)", "", cs, ok, y, g, w);
      });
      add("SV.remove(n,m)", NS, 3, 3, [](Ctx & c, const std::string & cs, int i, int j, int k)
      {
         const SRep& r = g_srep[i]; int sz = (int)r.order.size(); if(j > k || k >= sz) return;
         // the runaway class (range reaches the last nonzero) does not depend on the order of the nonzeros: it is run for the
         // ascending representation of each pattern only (every such run costs a child process that has to be killed)
         if(k == sz - 1 && (!r.sorted || r.zero)) { c.count(std::string(N::tag()) + ".SV.remove(n,m)_runaway_instances_not_run_for_permuted_representations"); return; }
         c.count(std::string(N::tag()) + ".SV.remove(n,m)_cases");
         std::string tg = (sz - 1 - k < k - j + 1) ? (k == sz - 1 ? "|range-reaches-last-nonzero" : "|fewer-nonzeros-behind-than-removed") : "|enough-nonzeros-behind";
         D3 w = dense(r.p); for(int t = j; t <= k; ++t) w[r.order[t]] = 0;
         // the call loops over memory it does not own when the range reaches the last nonzero: isolate it
         ChildResult res = in_child([&](Fail & ff)
         {
            DSV s = mkSV(r); s.remove(j, k);
            D3 g; std::string y; bool ok = dSV(s, g, y);
            if(ok && s.size() != sz - (k - j + 1)) { ok = false; y = "size " + std::to_string(s.size()) + " after removing " + std::to_string(k - j + 1) + " of " + std::to_string(sz); }
            if(!ok) ff.set("malformed-result", y); else if(g != w) ff.set("wrong-value", "got " + d3str(g) + " expected " + d3str(w));
         });
         c.count(std::string(N::tag()) + ".evaluations");
         if(res.bad) bad(c, "SV.remove(n,m)", res.rule, tg, cs, res.detail);
      });
      add("SV.add(i,v)", NS, 3, 3, [](Ctx & c, const std::string & cs, int i, int j, int k)
      {
         const SRep& r = g_srep[i]; if(digit(r.p, j) != 1) return;       // index j must be free
         DSV s = mkSV(r); static_cast<SV&>(s).add(j, N::letter(k)); D3 w = dense(r.p); w[j] = N::qletter(k);
         D3 g; std::string y; bool ok = dSV(s, g, y); expV(c, "SV.add(i,v)", "", cs, ok, y, g, w);
         DSV d = mkSV(r, 1); d.add(j, N::letter(k)); ok = dSV(d, g, y); expV(c, "DSV.add(i,v)", "", cs, ok, y, g, w);
      });
      add("SV.add(SV)", NS, NS, 1, [](Ctx & c, const std::string & cs, int i, int j, int)
      {
         const SRep& a = g_srep[i], &b = g_srep[j];
         for(int t = 0; t < 3; ++t) if(digit(a.p, t) != 1 && digit(b.p, t) != 1) return;     // supports must be disjoint
         D3 w = axpy(dense(a.p), 1, dense(b.p));
         { DSV s = mkSV(a, 8), t = mkSV(b); static_cast<SV&>(s).add(static_cast<const SV&>(t)); D3 g; std::string y; bool ok = dSV(s, g, y); expV(c, "SV.add(SV)", "", cs, ok, y, g, w); }
         { DSV s = mkSV(a, 1), t = mkSV(b); s.add(static_cast<const SV&>(t)); D3 g; std::string y; bool ok = dSV(s, g, y); expV(c, "DSV.add(SV)", a.order.empty() ? "|target-empty" : "|target-nonempty", cs, ok, y, g, w); }
         {
            DSV s = mkSV(a, 1); int idx[3]; R val[3]; int n = 0;
            for(int t : b.order) { idx[n] = t; val[n] = N::letter(digit(b.p, t)); ++n; }
            s.add(n, idx, val); D3 g; std::string y; bool ok = dSV(s, g, y); expV(c, "DSV.add(n,idx,val)", "", cs, ok, y, g, w);
         }
      });
      add("DSV.setMax(n)", NS, 1, 3, [](Ctx & c, const std::string & cs, int i, int, int k) { DSV s = mkSV(g_srep[i]); s.setMax(k == 0 ? 1 : k == 1 ? 3 : 9); D3 g; std::string y; bool ok = dSV(s, g, y); if(ok && s.max() < s.size()) { ok = false; y = "max below size"; } expV(c, "DSV.setMax(n)", "", cs, ok, y, g, dense(g_srep[i].p)); });
      add("SV.assignArray", NV, 1, 1, [](Ctx & c, const std::string & cs, int i, int, int)
      {
         DSV s(4); R val[3]; int idx[3] = {2, 0, 1}; for(int t = 0; t < 3; ++t) val[t] = N::letter(digit(i, idx[t]));
         static_cast<SV&>(s).assignArray(val, idx, 3); D3 g; std::string y; bool ok = dSV(s, g, y); expV(c, "SV.assignArray", "", cs, ok, y, g, dense(i));
      });
      // ---------------- UnitVectorBase ----------------
      add("UV", 3, NV, 1, [](Ctx & c, const std::string & cs, int i, int j, int)
      {
         UV u(i); D3 e; for(auto& t : e) t = 0; e[i] = 1;
         D3 g; std::string y; bool ok = dSV(u, g, y); expV(c, "UV(i)", "", cs, ok, y, g, e);
         UV u2(u); ok = dSV(u2, g, y); expV(c, "UV(UV)", "", cs, ok, y, g, e);
         UV u3((i + 1) % 3); u3 = u; ok = dSV(u3, g, y); expV(c, "UV=UV", "", cs, ok, y, g, e);
         expS(c, "UV.value(0)", "", cs, N::q(u.value(0)), 1);
         V v = mkV(j); expS(c, "V*UV", "", cs, N::q(v * static_cast<const SV&>(u)), dense(j)[i]); expS(c, "UV*V", "", cs, N::q(static_cast<const SV&>(u) * v), dense(j)[i]);
         v += static_cast<const SV&>(u); ok = dV(v, g, y); expV(c, "V+=UV", "", cs, ok, y, g, axpy(dense(j), 1, e));
         V w(3); w = static_cast<const SV&>(u); ok = dV(w, g, y); expV(c, "V=UV", "", cs, ok, y, g, e);
      });
      // ---------------- SSVectorBase as the left operand ----------------
      add("SSV=SSV", NX, NX, 1, [](Ctx & c, const std::string & cs, int i, int j, int) { SSV x = mkSSV(g_ssrep[i]), w = mkSSV(g_ssrep[j]); x = w; D3 g; std::string y; bool ok = dSSV(x, g, y); expV(c, "SSV=SSV", T2(sstag(g_ssrep[i]), sstag(g_ssrep[j])), cs, ok, y, g, dense(g_ssrep[j].p)); });
      add("SSV(SSV)", NX, 1, 1, [](Ctx & c, const std::string & cs, int i, int, int) { SSV w = mkSSV(g_ssrep[i]); SSV x(w); D3 g; std::string y; bool ok = dSSV(x, g, y); if(ok && x.isSetup() != w.isSetup()) { ok = false; y = "setup status not copied"; } expV(c, "SSV(SSV)", T2(0, sstag(g_ssrep[i])), cs, ok, y, g, dense(g_ssrep[i].p)); });
      add("SSV(V)", NV, 1, 1, [](Ctx & c, const std::string & cs, int i, int, int) { V w = mkV(i); SSV x(w); x.setTolerances(g_tol); D3 g; std::string y; bool ok = dSSV(x, g, y); expV(c, "SSV(V)", "", cs, ok, y, g, dense(i)); });
      add("SSV=SV", NX, NS, 1, [](Ctx & c, const std::string & cs, int i, int j, int) { SSV x = mkSSV(g_ssrep[i]); DSV s = mkSV(g_srep[j]); x = static_cast<const SV&>(s); D3 g; std::string y; bool ok = dSSV(x, g, y); expV(c, "SSV=SV", T2(sstag(g_ssrep[i]), stag(g_srep[j])), cs, ok, y, g, dense(g_srep[j].p)); });
      add("SSV=V", NX, NV, 1, [](Ctx & c, const std::string & cs, int i, int j, int) { SSV x = mkSSV(g_ssrep[i]); V w = mkV(j); x = w; D3 g; std::string y; bool ok = dSSV(x, g, y); expV(c, "SSV=V", T2(sstag(g_ssrep[i]), 0), cs, ok, y, g, dense(j)); });
      add("SSV.assign(SV)", NS, 1, 1, [](Ctx & c, const std::string & cs, int i, int, int) { SSV x(3, g_tol); DSV s = mkSV(g_srep[i]); x.assign(static_cast<const SV&>(s)); D3 g; std::string y; bool ok = dSSV(x, g, y); expV(c, "SSV.assign(SV)", T2(0, stag(g_srep[i])), cs, ok, y, g, dense(g_srep[i].p)); });
      for(int sgn = 0; sgn < 2; ++sgn)
      {
         std::string o = sgn ? "-=" : "+=";
         Q sg = sgn ? -1 : 1;
         add("SSV" + o + "V", NX, NV, 1, [o, sg, sgn](Ctx & c, const std::string & cs, int i, int j, int) { SSV x = mkSSV(g_ssrep[i]); V w = mkV(j); if(sgn) x -= w; else x += w; D3 g; std::string y; bool ok = dSSV(x, g, y, x.isSetup()); expV(c, "SSV" + o + "V", T2(sstag(g_ssrep[i]), 0), cs, ok, y, g, axpy(dense(g_ssrep[i].p), sg, dense(j))); });
         add("SSV" + o + "SV", NX, NS, 1, [o, sg, sgn](Ctx & c, const std::string & cs, int i, int j, int) { SSV x = mkSSV(g_ssrep[i]); DSV s = mkSV(g_srep[j]); if(sgn) x -= static_cast<const SV&>(s); else x += static_cast<const SV&>(s); D3 g; std::string y; bool ok = dSSV(x, g, y, x.isSetup()); expV(c, "SSV" + o + "SV", T2(sstag(g_ssrep[i]), stag(g_srep[j])), cs, ok, y, g, axpy(dense(g_ssrep[i].p), sg, dense(g_srep[j].p))); });
         add("SSV" + o + "SSV", NX, NX, 1, [o, sg, sgn](Ctx & c, const std::string & cs, int i, int j, int)
         {
            if(!sgn && !g_ssrep[j].setup) return;         // operator+= requires a set-up right-hand side
            SSV x = mkSSV(g_ssrep[i]), w = mkSSV(g_ssrep[j]); if(sgn) x -= w; else x += w;
            D3 g; std::string y; bool ok = dSSV(x, g, y, x.isSetup()); expV(c, "SSV" + o + "SSV", T2(sstag(g_ssrep[i]), sstag(g_ssrep[j])), cs, ok, y, g, axpy(dense(g_ssrep[i].p), sg, dense(g_ssrep[j].p)));
         });
      }
      add("SSV*=x", NX, 1, 2, [](Ctx & c, const std::string & cs, int i, int, int k) { if(!g_ssrep[i].setup) return; SSV x = mkSSV(g_ssrep[i]); x *= scal(k); D3 g, z; for(auto& t : z) t = 0; std::string y; bool ok = dSSV(x, g, y); expV(c, "SSV*=x", T2(sstag(g_ssrep[i]), 0), cs, ok, y, g, axpy(z, qscal(k), dense(g_ssrep[i].p))); });
      add("SSV*SSV", NX, NX, 1, [](Ctx & c, const std::string & cs, int i, int j, int) { if(!g_ssrep[j].setup) return; SSV x = mkSSV(g_ssrep[i]), w = mkSSV(g_ssrep[j]); expS(c, "SSV*SSV", T2(sstag(g_ssrep[i]), sstag(g_ssrep[j])), cs, N::q(x * w), dot(dense(g_ssrep[i].p), dense(g_ssrep[j].p))); });
      add("SSV.multAdd(x,SV)", NX, NS, 2, [](Ctx & c, const std::string & cs, int i, int j, int k) { SSV x = mkSSV(g_ssrep[i]); DSV s = mkSV(g_srep[j]); x.multAdd(scal(k), static_cast<const SV&>(s)); D3 g; std::string y; bool ok = dSSV(x, g, y, x.isSetup()); expV(c, "SSV.multAdd(x,SV)", T2(sstag(g_ssrep[i]), stag(g_srep[j])), cs, ok, y, g, axpy(dense(g_ssrep[i].p), qscal(k), dense(g_srep[j].p))); });
      add("SSV.multAdd(x,V)", NX, NV, 2, [](Ctx & c, const std::string & cs, int i, int j, int k) { SSV x = mkSSV(g_ssrep[i]); V w = mkV(j); x.multAdd(scal(k), w); D3 g; std::string y; bool ok = dSSV(x, g, y, x.isSetup()); expV(c, "SSV.multAdd(x,V)", T2(sstag(g_ssrep[i]), 0), cs, ok, y, g, axpy(dense(g_ssrep[i].p), qscal(k), dense(j))); });
      add("SSV.setup()", NX, 1, 1, [](Ctx & c, const std::string & cs, int i, int, int)
      {
         const SSRep& r = g_ssrep[i]; std::string tg = T2(sstag(r), 0);
         { SSV x = mkSSV(r); x.setup(); D3 g; std::string y; bool ok = dSSV(x, g, y, !r.setup) && x.isSetup(); if(!x.isSetup()) y = "not set up after setup()"; expV(c, "SSV.setup()", tg, cs, ok, y, g, dense(r.p)); if(dense(r.p)[0] == 0 || dense(r.p)[1] == 0 || dense(r.p)[2] == 0) c.count(std::string(N::tag()) + ".setup_calls_on_vectors_with_zero_entries"); }
         { SSV x = mkSSV(r); x.unSetup(); x.setup(); D3 g; std::string y; bool ok = dSSV(x, g, y, true); for(int j = 1; ok && j < x.size(); ++j) if(x.index(j - 1) > x.index(j)) { ok = false; y = "setup() produced unsorted indices"; } expV(c, "SSV.unSetup();setup()", tg, cs, ok, y, g, dense(r.p)); }
         { SSV x = mkSSV(r); x.clear(); D3 g, z; for(auto& t : z) t = 0; std::string y; bool ok = dSSV(x, g, y, true) && x.isSetup(); expV(c, "SSV.clear()", tg, cs, ok, y, g, z); }
         {
            SSV x = mkSSV(r); D3 a = dense(r.p); Q mx = 0; for(auto& t : a) if(abs(t) > mx) mx = abs(t);
            expS(c, "SSV.maxAbs()", tg, cs, N::q(x.maxAbs()), mx); expS(c, "SSV.length2()", tg, cs, N::q(x.length2()), dot(a, a));
            if(r.setup) for(int j = 0; j < x.size(); ++j) expS(c, "SSV.value(n)", tg, cs, N::q(x.value(j)), a[x.index(j)]);
         }
      });
      add("SSV.setValue(i,x)", NX, 3, 3, [](Ctx & c, const std::string & cs, int i, int j, int k) { SSV x = mkSSV(g_ssrep[i]); x.setValue(j, N::letter(k)); D3 w = dense(g_ssrep[i].p); w[j] = N::qletter(k); D3 g; std::string y; bool ok = dSSV(x, g, y); expV(c, "SSV.setValue(i,x)", T2(sstag(g_ssrep[i]), 0), cs, ok, y, g, w); });
      add("SSV.clearIdx(i)", NX, 3, 1, [](Ctx & c, const std::string & cs, int i, int j, int) { SSV x = mkSSV(g_ssrep[i]); x.clearIdx(j); D3 w = dense(g_ssrep[i].p); w[j] = 0; D3 g; std::string y; bool ok = dSSV(x, g, y); expV(c, "SSV.clearIdx(i)", T2(sstag(g_ssrep[i]), 0), cs, ok, y, g, w); });
      add("SSV.clearNum(n)", NX, 3, 1, [](Ctx & c, const std::string & cs, int i, int j, int) { const SSRep& r = g_ssrep[i]; if(!r.setup || j >= (int)r.order.size()) return; SSV x = mkSSV(r); x.clearNum(j); D3 w = dense(r.p); w[r.order[j]] = 0; D3 g; std::string y; bool ok = dSSV(x, g, y, true); expV(c, "SSV.clearNum(n)", T2(sstag(r), 0), cs, ok, y, g, w); });
      add("SSV.add(i,x)", NX, 3, 2, [](Ctx & c, const std::string & cs, int i, int j, int k) { const SSRep& r = g_ssrep[i]; if(!r.setup || digit(r.p, j) != 1) return; SSV x = mkSSV(r); x.add(j, N::letter(k ? 2 : 0)); D3 w = dense(r.p); w[j] = N::qletter(k ? 2 : 0); D3 g; std::string y; bool ok = dSSV(x, g, y); expV(c, "SSV.add(i,x)", T2(sstag(r), 0), cs, ok, y, g, w); });
      add("SSV.reDim(n)", NX, 1, 2, [](Ctx & c, const std::string & cs, int i, int, int k)
      {
         const SSRep& r = g_ssrep[i]; SSV x = mkSSV(r); x.reDim(k ? 5 : 2); D3 a = dense(r.p);
         c.count(std::string(N::tag()) + ".evaluations");
         std::string y; bool ok = x.dim() == (k ? 5 : 2);
         for(int t = 0; ok && t < std::min(3, x.dim()); ++t) ok = N::q(x[t]) == a[t];
         for(int t = 3; ok && t < x.dim(); ++t) ok = N::q(x[t]) == 0;
         if(ok && x.isSetup())
         {
            std::set<int> in;
            for(int t = 0; t < x.size(); ++t) { if(x.index(t) >= x.dim() || !in.insert(x.index(t)).second) ok = false; }
            for(int t = 0; ok && t < std::min(3, x.dim()); ++t) if(a[t] != 0 && !in.count(t)) ok = false;
         }
         if(!ok) bad(c, "SSV.reDim(n)", "wrong-value", T2(sstag(r), 0) + (k ? "|grow" : "|shrink"), cs, "reDim lost or invented entries or left a stale index");
      });
      add("SSV.setup_and_assign(SSV)", NX, NX, 1, [](Ctx & c, const std::string & cs, int i, int j, int)
      {
         SSV x = mkSSV(g_ssrep[i]), w = mkSSV(g_ssrep[j]); x.setup_and_assign(w); std::string tg = T2(sstag(g_ssrep[i]), sstag(g_ssrep[j]));
         D3 g; std::string y; bool ok = dSSV(x, g, y) && x.isSetup(); expV(c, "SSV.setup_and_assign(SSV)", tg, cs, ok, y, g, dense(g_ssrep[j].p));
         ok = dSSV(w, g, y) && w.isSetup(); expV(c, "SSV.setup_and_assign(SSV):rhs", tg, cs, ok, y, g, dense(g_ssrep[j].p));
      });
      add("SSV.assignPWproduct4setup(x,y)", NX, NX, 1, [](Ctx & c, const std::string & cs, int i, int j, int)
      {
         if(!g_ssrep[i].setup || !g_ssrep[j].setup) return;
         SSV a = mkSSV(g_ssrep[i]), b = mkSSV(g_ssrep[j]); SSV x(3, g_tol); x.setValue(1, N::letter(2)); x.assignPWproduct4setup(a, b);
         D3 da = dense(g_ssrep[i].p), db = dense(g_ssrep[j].p), w; for(int t = 0; t < 3; ++t) w[t] = da[t] * db[t];
         D3 g; std::string y; bool ok = dSSV(x, g, y, true); expV(c, "SSV.assignPWproduct4setup(x,y)", T2(sstag(g_ssrep[i]), sstag(g_ssrep[j])), cs, ok, y, g, w);
      });
      // ---------------- products with a 3x3 matrix held in an SVSetBase (columns from Apat) ----------------
      Apat.clear();
      for(int p = 0; p < 27; ++p) if(thorough || p % 3 == 1) Apat.push_back(p);
      int NA = (int)Apat.size();
      add("SSV.assign2product*", NA * NA * NA, NX, 1, [this, NA](Ctx & c, const std::string & cs, int i, int j, int)
      {
         int cp[3] = {Apat[i % NA], Apat[(i / NA) % NA], Apat[i / NA / NA]};
         SVSetBase<R> A(3, 9);
         for(int t = 0; t < 3; ++t) { DSV col(4); for(int r = 0; r < 3; ++r) if(digit(cp[t], r) != 1) col.add(r, N::letter(digit(cp[t], r))); A.add(col); }
         const SSRep& r = g_ssrep[j];
         D3 xv = dense(r.p), Ax, xA;
         for(int t = 0; t < 3; ++t) { Ax[t] = 0; for(int k = 0; k < 3; ++k) Ax[t] += N::qletter(digit(cp[k], t)) * xv[k]; xA[t] = dot(dense(cp[t]), xv); }
         std::string tg = T2(0, sstag(r));
         { SSV x = mkSSV(r); SSV y(3, g_tol); y.assign2product(x, A); D3 g; std::string wy; bool ok = dSSV(y, g, wy); expV(c, "SSV.assign2product(x,A)", tg, cs, ok, wy, g, xA); }
         if(r.setup)
         {
            for(int pre = 0; pre < 2; ++pre)
            {
               SSV x = mkSSV(r); SSV y(3, g_tol); if(pre) { y.setValue(0, N::letter(2)); y.setValue(2, N::letter(0)); }
               int ns = 0, nf = 0; y.assign2product4setup(A, x, nullptr, nullptr, ns, nf);
               D3 g; std::string wy; bool ok = dSSV(y, g, wy); expV(c, "SSV.assign2product4setup(A,x)", tg + (pre ? "|target-nonzero" : "|target-zero"), cs, ok, wy, g, Ax);
            }
         }
         else
         {
            SSV x = mkSSV(r); SSV y(3, g_tol); y.assign2productAndSetup(A, x);
            D3 g; std::string wy; bool ok = dSSV(y, g, wy); expV(c, "SSV.assign2productAndSetup(A,x)", tg, cs, ok, wy, g, Ax);
            ok = dSSV(x, g, wy, true) && x.isSetup(); expV(c, "SSV.assign2productAndSetup(A,x):x", tg, cs, ok, wy, g, xv);
         }
      });
      // ---------------- conversions from the double classes (as used when the rational LP is synchronised from the real one) ----------------
      if(!std::is_same<R, double>::value)
      {
         typedef Alg<double> AD;
         add("V<R>=V<double>", NV, NV, 1, [](Ctx & c, const std::string & cs, int i, int j, int) { V v = mkV(i); VectorBase<double> w = AD::mkV(j); v = w; D3 g; std::string y; bool ok = dV(v, g, y); expV(c, "V<R>=V<double>", "", cs, ok, y, g, AD::dense(j)); });
         add("V<R>(V<double>)", NV, 1, 1, [](Ctx & c, const std::string & cs, int i, int, int) { VectorBase<double> w = AD::mkV(i); V v(w); D3 g; std::string y; bool ok = dV(v, g, y); expV(c, "V<R>(V<double>)", "", cs, ok, y, g, AD::dense(i)); });
         add("SV<R>=SV<double>", NS, NS, 1, [](Ctx & c, const std::string & cs, int i, int j, int) { DSV s = mkSV(g_srep[i]); DSVectorBase<double> t = AD::mkSV(g_srep[j]); static_cast<SV&>(s) = static_cast<const SVectorBase<double>&>(t); D3 g; std::string y; bool ok = dSV(s, g, y); expV(c, "SV<R>=SV<double>", T2(0, stag(g_srep[j])), cs, ok, y, g, AD::dense(g_srep[j].p)); });
         add("DSV<R>(SV<double>)", NS, 1, 1, [](Ctx & c, const std::string & cs, int i, int, int) { DSVectorBase<double> t = AD::mkSV(g_srep[i]); DSV s(static_cast<const SVectorBase<double>&>(t)); D3 g; std::string y; bool ok = dSV(s, g, y); expV(c, "DSV<R>(SV<double>)", T2(0, stag(g_srep[i])), cs, ok, y, g, AD::dense(g_srep[i].p)); });
         add("SVSet<R>=SVSet<double>", NA * NA * NA, 1, 1, [this, NA](Ctx & c, const std::string & cs, int i, int, int)
         {
            int cp[3] = {Apat[i % NA], Apat[(i / NA) % NA], Apat[i / NA / NA]};
            SVSetBase<double> A(3, 9);
            for(int t = 0; t < 3; ++t) { DSVectorBase<double> col(4); for(int r = 0; r < 3; ++r) if(digit(cp[t], r) != 1) col.add(r, Num<double>::letter(digit(cp[t], r))); A.add(col); }
            SVSetBase<R> B;
            { DSV junk(2); junk.add(1, N::letter(2)); B.add(junk); }
            B = A;
            c.count(std::string(N::tag()) + ".evaluations");
            if(B.num() != 3) { bad(c, "SVSet<R>=SVSet<double>", "wrong-value", "", cs, "num()=" + std::to_string(B.num())); return; }
            for(int t = 0; t < 3; ++t) { D3 g; std::string y; bool ok = dSV(B[t], g, y); expV(c, "SVSet<R>=SVSet<double>", "", cs, ok, y, g, AD::dense(cp[t])); }
         });
      }
      start.clear();
      total = 0;
      for(auto& d : defs) { start.push_back(total); total += (uint64_t)d.ni * d.nj * d.nk; }
   }
   std::string caseStr(uint64_t idx) const
   {
      size_t d = std::upper_bound(start.begin(), start.end(), idx) - start.begin() - 1;
      uint64_t r = idx - start[d];
      int k = int(r % defs[d].nk); r /= defs[d].nk;
      int j = int(r % defs[d].nj); r /= defs[d].nj;
      return std::string("ph=") + N::tag() + ";op=" + defs[d].name + ";i=" + std::to_string(r) + ";j=" + std::to_string(j) + ";k=" + std::to_string(k);
   }
   uint64_t run(Ctx& c, uint64_t idx)
   {
      size_t d = std::upper_bound(start.begin(), start.end(), idx) - start.begin() - 1;
      uint64_t r = idx - start[d];
      int k = int(r % defs[d].nk); r /= defs[d].nk;
      int j = int(r % defs[d].nj); r /= defs[d].nj;
      std::string cs = caseStr(idx);
      defs[d].fn(c, cs, (int)r, j, k);
      if(c.wantSample() && idx % 400009 == 7) c.sample("{\"case\":" + jstr(cs) + "}");
      return 1;
   }
   bool replay(Ctx& c, const std::map<std::string, std::string>& kv)
   {
      for(auto& d : defs)
         if(d.name == kv.at("op")) { d.fn(c, "replay", atoi(kv.at("i").c_str()), atoi(kv.at("j").c_str()), atoi(kv.at("k").c_str())); return true; }
      return false;
   }
};

// ---------------------------------------------------------------------------------------------------------------------
// 10. sorter.h and StableSum
// ---------------------------------------------------------------------------------------------------------------------
struct SKey { int key; int id; };
struct SKeyCmp { int operator()(const SKey& a, const SKey& b) const { return a.key - b.key; } };

static void check_sorted(Ctx& c, const std::string& op, const std::string& cs, const std::vector<SKey>& in, const std::vector<SKey>& out, int sortedPrefix)
{
   c.count("sorter.evaluations");
   std::vector<int> want;
   for(auto& k : in) want.push_back(k.key);
   std::sort(want.begin(), want.end());
   std::vector<bool> seenid(in.size(), false);
   for(auto& k : out)
      if(k.id < 0 || k.id >= (int)in.size() || seenid[k.id] || in[k.id].key != k.key) { c.violation("sorter:not-a-permutation:" + op, cs, "output is not a permutation of the input"); return; }
      else seenid[k.id] = true;
   for(int i = 0; i < sortedPrefix && i < (int)out.size(); ++i)
      if(out[i].key != want[i]) { c.violation("sorter:not-sorted:" + op, cs, "position " + std::to_string(i) + " holds key " + std::to_string(out[i].key) + " expected " + std::to_string(want[i])); return; }
}
static std::vector<SKey> keys_of(const std::vector<int>& v) { std::vector<SKey> k; for(size_t i = 0; i < v.size(); ++i) k.push_back({v[i], (int)i}); return k; }
static std::string ints_str(const std::vector<int>& v) { std::string s; for(size_t i = 0; i < v.size(); ++i) s += (i ? "," : "") + std::to_string(v[i]); return s; }
static std::vector<SKey> fixids(std::vector<SKey> k) { for(auto& x : k) x.id -= 1; return k; }
static void sorter_case(Ctx& c, const std::vector<int>& v)
{
   SKeyCmp cmp;
   int n = (int)v.size();
   std::vector<SKey> in = keys_of(v);
   std::string cs = "ph=sorter;a=" + ints_str(v);
   for(int type = 0; type < 2; ++type) { auto k = in; SPxQuicksort(k.data(), n, cmp, 0, type != 0); check_sorted(c, "SPxQuicksort", cs, in, k, n); }
   if(n >= 1 && n <= SOPLEX_SHELLSORTMAX) { auto k = in; SPxShellsort(k.data(), n - 1, cmp, 0); check_sorted(c, "SPxShellsort", cs, in, k, n); }
   if(n >= 2) { auto k = in; SPxQuicksort(k.data(), n, cmp, 1, true); check_sorted(c, "SPxQuicksort(start=1)", cs, std::vector<SKey>(in.begin() + 1, in.end()), fixids(std::vector<SKey>(k.begin() + 1, k.end())), n - 1); }
   for(int size = 1; size <= n; ++size)
   {
      if(n > 12 && size != 1 && size != 3 && size != n / 2 && size != n - 1 && size != n) continue;
      auto k = in;
      SPxQuicksortPart(k.data(), cmp, 0, n, size);
      check_sorted(c, "SPxQuicksortPart", cs + ";size=" + std::to_string(size), in, k, size);
   }
}
// the families: all arrays over {0,1,2} up to length L (shell-sort range), and perturbed structured arrays of length 26..M
// (longer than SOPLEX_SHELLSORTMAX, so that the partitioning code runs)
struct SorterFamily
{
   int L, M;
   bool pairs;
   std::vector<uint64_t> startL;      // first index of each length
   uint64_t nSmall = 0;
   std::vector<std::vector<int>> big;
   void build(bool thorough)
   {
      L = thorough ? 10 : 8;
      M = thorough ? 34 : 27;
      pairs = thorough;
      uint64_t t = 0, p = 1;
      for(int n = 0; n <= L; ++n) { startL.push_back(t); t += p; p *= 3; }
      nSmall = t;
      for(int n = 26; n <= M; ++n)
         for(int pat = 0; pat < 5; ++pat)
         {
            std::vector<int> base(n);
            for(int i = 0; i < n; ++i) base[i] = pat == 0 ? i : pat == 1 ? n - i : pat == 2 ? 7 : pat == 3 ? i % 3 : std::min(i, n - 1 - i);
            big.push_back(base);
            for(int i = 0; i < n; ++i)
               for(int val : {-1, 100})
               {
                  auto b = base; b[i] = val; big.push_back(b);
                  if(pairs) for(int j = i + 1; j < n; j += 3) { auto b2 = b; b2[j] = 50 - val; big.push_back(b2); }
               }
         }
   }
   uint64_t size() const { return nSmall + big.size(); }
   std::vector<int> get(uint64_t idx) const
   {
      if(idx >= nSmall) return big[idx - nSmall];
      int n = int(std::upper_bound(startL.begin(), startL.end(), idx) - startL.begin()) - 1;
      uint64_t r = idx - startL[n];
      std::vector<int> v(n);
      for(int i = 0; i < n; ++i) { v[i] = int(r % 3); r /= 3; }
      return v;
   }
};

// StableSum: all sequences of += / -= over a 4-letter alphabet up to length LEN, against exact rational arithmetic
template <class R>
static void stablesum_case(Ctx& c, uint64_t idx, int len)
{
   StableSum<R> s;
   Q want = 0;
   std::string cs = std::string("ph=stablesum") + Num<R>::tag() + ";len=" + std::to_string(len) + ";idx=" + std::to_string(idx);
   for(int i = 0; i < len; ++i)
   {
      int d = int(idx % 8);
      idx /= 8;
      int t = d % 4;
      R x = t == 3 ? R(1) / 2 : Num<R>::letter(t);
      Q qx = t == 3 ? Q(1, 2) : Num<R>::qletter(t);
      if(d >= 4) { s -= x; want -= qx; }
      else { s += x; want += qx; }
   }
   R got = s;
   c.count("stablesum.evaluations");
   if(Num<R>::q(got) != want) c.violation(std::string("stablesum:wrong-value:StableSum<") + (std::is_same<R, double>::value ? "double" : "Rational") + ">", cs, "got " + Num<R>::q(got).get_str() + " expected " + want.get_str());
}

// ---------------------------------------------------------------------------------------------------------------------
// main
// ---------------------------------------------------------------------------------------------------------------------
static std::map<std::string, std::string> parse_kv(const std::string& cs)
{
   std::map<std::string, std::string> kv;
   for(auto& f : split(cs, ';')) { size_t e = f.find('='); if(e != std::string::npos) kv[f.substr(0, e)] = f.substr(e + 1); }
   return kv;
}
template <class SYS>
static bool try_replay(Ctx& c, const std::map<std::string, std::string>& kv)
{
   if(kv.at("ph") != SYS::name()) return false;
   std::vector<Op> seq;
   for(auto& o : split(kv.at("ops"), '/')) seq.push_back(Op::parse(o));
   Explorer<SYS> ex;
   ex.replay(c, atoi(kv.at("init").c_str()), seq);
   return true;
}

int main(int argc, char** argv)
{
   Args args = parse_args(argc, argv);
   args.prop = "C19";
   g_tol = std::make_shared<Tolerances>();
   build_reps();
   bool thorough = args.tier == "thorough";
   Alg<double>* algD = new Alg<double>();
   Alg<Rational>* algQ = new Alg<Rational>();
   if(!args.replay.empty())
   {
      std::ifstream in(args.replay);
      std::string doc((std::istreambuf_iterator<char>(in)), std::istreambuf_iterator<char>());
      size_t p = doc.find("\"case\": \"");
      if(p == std::string::npos) { printf("REPLAY-ERROR no case\n"); return 2; }
      p += 9;
      std::string cs = doc.substr(p, doc.find('"', p) - p);
      auto kv = parse_kv(cs);
      if(!kv.count("ph")) { printf("REPLAY-ERROR no phase in case string\n"); return 2; }
      mallopt(M_PERTURB, 85);
      algD->build(true);
      algQ->build(true);
      return replay_case([&](Ctx & c)
      {
         g_c = &c;
         const std::string ph = kv["ph"];
         if(ph == "vecD") { algD->replay(c, kv); return; }
         if(ph == "vecQ") { algQ->replay(c, kv); return; }
         if(ph == "sorter") { std::vector<int> v; if(!kv["a"].empty()) for(auto& e : split(kv["a"], ',')) v.push_back(atoi(e.c_str())); sorter_case(c, v); return; }
         if(ph == "stablesumvecD") { stablesum_case<double>(c, strtoull(kv["idx"].c_str(), 0, 10), atoi(kv["len"].c_str())); return; }
         if(ph == "stablesumvecQ") { stablesum_case<Rational>(c, strtoull(kv["idx"].c_str(), 0, 10), atoi(kv["len"].c_str())); return; }
         try_replay<DataSetSys>(c, kv) || try_replay<ClassSetSys>(c, kv) || try_replay<SVSetSys>(c, kv) || try_replay<LPRowSetSys>(c, kv) || try_replay<LPColSetSys>(c, kv)
         || try_replay<IdxSys<false>>(c, kv) || try_replay<IdxSys<true>>(c, kv) || try_replay<NameSys>(c, kv) || try_replay<HashSys>(c, kv)
         || try_replay<ArrSys<0>>(c, kv) || try_replay<ArrSys<1>>(c, kv) || try_replay<ArrSys<2>>(c, kv) || try_replay<ListSys<false>>(c, kv) || try_replay<ListSys<true>>(c, kv);
      });
   }
   Report rep(args, "model_checking", thorough ? 3000 : 400);
   rep.all.maxSamples = 200;      // thinned to one sample per phase before the evidence is written
   RunOpts o = rep.opts();
   o.perturb = {85};
   o.watchdog_s = 180;
   // depth of the history enumeration per class, tuned to the tier budgets (all at or beyond the depths planned in DESIGN.md:
   // DataSet/ClassSet 5, SVSet 4, LPRowSet/LPColSet 3, IdxSet 5, NameSet 4, DataHashTable 6, arrays 5, lists 5).  Columns: quick,
   // thorough, quick under AddressSanitizer, thorough under AddressSanitizer (allocation-heavy code is ~8x slower there).
   struct DepthRow { const char* ph; int d[4]; };
   static const DepthRow DEPTH[] =
   {
      {"dataset", {5, 6, 4, 5}}, {"classset", {5, 6, 4, 5}}, {"svset", {5, 6, 4, 5}}, {"lprowset", {5, 7, 4, 5}}, {"lpcolset", {5, 7, 4, 5}},
      {"idxset", {6, 7, 5, 6}}, {"didxset", {6, 7, 5, 6}}, {"nameset", {5, 6, 4, 5}}, {"hashtable", {6, 7, 5, 6}},
      {"dataarray", {5, 6, 5, 5}}, {"array", {6, 8, 5, 6}}, {"classarray", {5, 6, 5, 5}}, {"islist", {6, 7, 5, 6}}, {"idlist", {6, 7, 5, 6}}
   };
   int col = (thorough ? 1 : 0) + (ASAN ? 2 : 0);
   int dd = atoi(args.get("dd", "0").c_str());
   int gd = thorough ? 3 : 2;
   g_fullLevels = atoi(args.get("full", (thorough && !ASAN) ? "3" : "2").c_str());
   auto D = [&](const char* ph) { for(auto& r : DEPTH) if(std::string(r.ph) == ph) return std::max(1, r.d[col] + dd); return 3; };
   std::string sel = args.get("phase");
   auto want = [&](const char* n) { return sel.empty() || sel == n || (sel == "histories" && std::string(n).compare(0, 3, "vec") != 0 && std::string(n) != "sorter" && std::string(n) != "stablesum"); };
   if(want("dataset")) { Explorer<DataSetSys> e; e.run(rep, o, D("dataset"), gd, 8); }
   if(want("classset")) { Explorer<ClassSetSys> e; e.run(rep, o, D("classset"), gd, 8); }
   if(want("svset")) { Explorer<SVSetSys> e; e.run(rep, o, D("svset"), gd, 8); }
   if(want("lprowset")) { Explorer<LPRowSetSys> e; e.run(rep, o, D("lprowset"), gd, 8); }
   if(want("lpcolset")) { Explorer<LPColSetSys> e; e.run(rep, o, D("lpcolset"), gd, 8); }
   if(want("idxset")) { Explorer<IdxSys<false>> e; e.run(rep, o, D("idxset"), gd, 8); }
   if(want("didxset")) { Explorer<IdxSys<true>> e; e.run(rep, o, D("didxset"), gd, 8); }
   if(want("nameset")) { Explorer<NameSys> e; e.run(rep, o, D("nameset"), gd, 8); }
   if(want("hashtable")) { Explorer<HashSys> e; e.run(rep, o, D("hashtable"), gd, 8); }
   if(want("dataarray")) { Explorer<ArrSys<0>> e; e.run(rep, o, D("dataarray"), gd, 8); }
   if(want("array")) { Explorer<ArrSys<1>> e; e.run(rep, o, D("array"), gd, 8); }
   if(want("classarray")) { Explorer<ArrSys<2>> e; e.run(rep, o, D("classarray"), gd, 8); }
   if(want("islist")) { Explorer<ListSys<false>> e; e.run(rep, o, D("islist"), gd, 8); }
   if(want("idlist")) { Explorer<ListSys<true>> e; e.run(rep, o, D("idlist"), gd, 8); }
   if(want("vecD"))
   {
      algD->build(!ASAN || thorough);
      rep.phase("vector algebra, double, dim 3 over {-1,0,2}", algD->total, [&](uint64_t idx, int, Ctx & c) -> uint64_t { g_c = &c; return algD->run(c, idx); },
      [&](uint64_t idx, uint64_t) { return algD->caseStr(idx); }, o, [&](uint64_t, uint64_t) { return std::string("@vecD"); });
   }
   if(want("vecQ"))
   {
      algQ->build(!ASAN || thorough);
      rep.phase("vector algebra, Rational, dim 3 over {-1/3,0,2}", algQ->total, [&](uint64_t idx, int, Ctx & c) -> uint64_t { g_c = &c; return algQ->run(c, idx); },
      [&](uint64_t idx, uint64_t) { return algQ->caseStr(idx); }, o, [&](uint64_t, uint64_t) { return std::string("@vecQ"); });
   }
   if(want("sorter"))
   {
      SorterFamily fam;
      fam.build(thorough && !ASAN);
      rep.phase("sorter.h: arrays over {0,1,2} up to length " + std::to_string(fam.L) + ", perturbed structured arrays of length 26.." + std::to_string(fam.M), fam.size(),
      [&](uint64_t idx, int, Ctx & c) -> uint64_t { sorter_case(c, fam.get(idx)); return 1; },
      [&](uint64_t idx, uint64_t) { return "ph=sorter;a=" + ints_str(fam.get(idx)); }, o, [&](uint64_t, uint64_t) { return std::string("@sorter"); });
   }
   if(want("stablesum"))
   {
      int len = thorough ? 6 : 5;
      uint64_t N = 0, pw = 1;
      std::vector<uint64_t> st;
      for(int l = 0; l <= len; ++l) { st.push_back(N); N += pw; pw *= 8; }
      rep.phase("StableSum<double>, StableSum<Rational>: all +=/-= sequences up to length " + std::to_string(len), N * 2,
      [&](uint64_t idx, int, Ctx & c) -> uint64_t
      {
         bool rat = idx >= N; uint64_t r = rat ? idx - N : idx;
         int l = int(std::upper_bound(st.begin(), st.end(), r) - st.begin()) - 1;
         if(rat) stablesum_case<Rational>(c, r - st[l], l); else stablesum_case<double>(c, r - st[l], l);
         return 1;
      },
      [&](uint64_t idx, uint64_t) { return "ph=stablesum;idx=" + std::to_string(idx); }, o, [&](uint64_t, uint64_t) { return std::string("@stablesum"); });
   }
   {
      std::vector<std::string> keep;
      std::set<std::string> phs;
      for(auto& smp : rep.all.samples)
      {
         size_t a = smp.find("ph="), b = smp.find(';', a == std::string::npos ? 0 : a);
         std::string ph = (a == std::string::npos || b == std::string::npos) ? smp : smp.substr(a, b - a);
         if(phs.insert(ph).second) keep.push_back(smp);
      }
      if(keep.size() > 6)
      {
         std::vector<std::string> k2;
         for(size_t i = 0; i < 6; ++i) k2.push_back(keep[i * keep.size() / 6]);
         keep.swap(k2);
      }
      rep.all.samples.swap(keep);
   }
   auto& C = rep.all.counters;
   rep.evaluations = C["sequences"] + C["vecD.evaluations"] + C["vecQ.evaluations"] + C["sorter.evaluations"] + C["stablesum.evaluations"];
   rep.rule = "history phases: a case is an operation sequence (initial state, op_1..op_k, k<=depth) over the instantiated alphabet of one container class; "
              "every sequence is executed on fresh objects by replaying its prefix and compared with a std::vector/std::map model after its last operation "
              "(a violating sequence is not extended); non-trivial = the last operation changed the abstract state (element set, numbering, keys, capacities). "
              "vector phases: a case is (operation, left representation, right representation, scalar) over all 27 vectors of dimension 3 in every sparse / "
              "semi-sparse representation; every such case is distinct and non-trivial (each evaluates real arithmetic against exact rationals)";
   rep.assumptions = {"reference models: std::vector / std::map in the harness; numbering after removals without a documented renumbering is taken from the container after checking that it is a bijection that keeps every key attached to its element",
                      "vector results are compared exactly (GMP rationals; the double alphabet {-1,0,2} makes every result an exactly representable integer)",
                      "operation instances listed as gates are run only as the last operation of a sequence inside an isolated child process and are not extended (they corrupt memory on the unchanged tree)",
                      "preconditions stated in the documentation are respected (capacity of DataSet/ClassSet/IdxSet, no duplicate insertion into IdxSet/DataHashTable, set-up operands where asserted)"
                     };
   uint64_t nontrivial = C["modifying_sequences"] + C["vecD.evaluations"] + C["vecQ.evaluations"] + C["sorter.evaluations"] + C["stablesum.evaluations"];
   rep.finish(nontrivial, rep.all.states.size(), C["sequences"], C["sequences"]);
   return 0;
}
