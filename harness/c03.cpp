// C03: exact (rational) solve returns exactly verifiable results and the true status.
// Rational tiny-LP families (non-dyadic entries, lifting-range entries) entered through the rational interface
// x the 13 exact-solver booleans (deviation-bounded; thorough: the complete 2^13 product on a curated set) x simplifier x scaler
// x sync mode.  Everything returned is checked with ZERO tolerance in mpq arithmetic against the LP as entered.
#include "vx_spx.hpp"
#include "vx_planted.hpp"
using namespace vx;

static Rational to_spx(const Q& q) { return Rational(q.get_mpq_t()); }
static Q from_spx(const Rational& r) { Q q(r.backend().data()); q.canonicalize(); return q; }
static Q qq(long a, long b) { Q q(a, b); q.canonicalize(); return q; }

struct BoolOpt { const char* name; SoPlex::BoolParam id; };
static const BoolOpt OPTS[13] =
{
   {"lifting", SoPlex::LIFTING}, {"eqtrans", SoPlex::EQTRANS}, {"testdualinf", SoPlex::TESTDUALINF}, {"ratfac", SoPlex::RATFAC}, {"ratrec", SoPlex::RATREC},
   {"powerscaling", SoPlex::POWERSCALING}, {"ratfacjump", SoPlex::RATFACJUMP}, {"forcebasic", SoPlex::FORCEBASIC}, {"iterative_refinement", SoPlex::ITERATIVE_REFINEMENT},
   {"precision_boosting", SoPlex::PRECISION_BOOSTING}, {"boosted_warm_start", SoPlex::BOOSTED_WARM_START}, {"recovery_mechanism", SoPlex::RECOVERY_MECHANISM},
   {"adapt_tols", SoPlex::ADAPT_TOLS_TO_MULTIPRECISION}
};
static unsigned g_defaultMask = 0;

struct Cfg3 { unsigned mask; int simplifier; int scaler; int syncmode; int resolves = 0; };      // mask bit k = value of OPTS[k]; resolves = further optimize() calls on the same object
static std::string cfg_str(const Cfg3& c)
{
   std::string s;
   for(int k = 0; k < 13; ++k) if(((c.mask >> k) & 1) != ((g_defaultMask >> k) & 1)) s += std::string(s.empty() ? "" : ",") + OPTS[k].name + "=" + std::to_string((c.mask >> k) & 1);
   if(c.simplifier != 1) s += std::string(s.empty() ? "" : ",") + "simplifier=" + std::to_string(c.simplifier);
   if(c.scaler != 2) s += std::string(s.empty() ? "" : ",") + "scaler=" + std::to_string(c.scaler);
   if(c.syncmode != 1) s += std::string(s.empty() ? "" : ",") + "syncmode=" + std::to_string(c.syncmode);
   if(c.resolves) s += std::string(s.empty() ? "" : ",") + "optimize-again=" + std::to_string(c.resolves);
   return s.empty() ? "default" : s;
}
static std::string cfg_code(const Cfg3& c) { return std::to_string(c.mask) + "," + std::to_string(c.simplifier) + "," + std::to_string(c.scaler) + "," + std::to_string(c.syncmode) + "," + std::to_string(c.resolves); }

// rational LP families: index -> XLP ------------------------------------------------------------------
struct RFamily
{
   int n, m;
   std::vector<Q> Avals, cvals;
   std::vector<std::pair<Ext, Ext>> colB, rowS;
   uint64_t size() const
   {
      uint64_t s = 1;
      for(int k = 0; k < n * m; ++k) s *= Avals.size();
      for(int k = 0; k < n; ++k) s *= cvals.size() * colB.size();
      for(int k = 0; k < m; ++k) s *= rowS.size();
      return s * 2;
   }
   bool get(uint64_t idx, XLP& x) const
   {
      int a[9], cc[3], cb[3], rs[3];
      for(int k = 0; k < n * m; ++k) { a[k] = idx % Avals.size(); idx /= Avals.size(); }
      for(int k = 0; k < n; ++k) { cc[k] = idx % cvals.size(); idx /= cvals.size(); }
      for(int k = 0; k < n; ++k) { cb[k] = idx % colB.size(); idx /= colB.size(); }
      for(int k = 0; k < m; ++k) { rs[k] = idx % rowS.size(); idx /= rowS.size(); }
      int sense = idx % 2;
      // symmetry: columns in non-decreasing (cb, cc, a-column) order, rows in non-decreasing (rs, a-row) order
      for(int j = 0; j + 1 < n; ++j)
      {
         std::vector<int> k1 = {cb[j], cc[j]}, k2 = {cb[j + 1], cc[j + 1]};
         for(int i = 0; i < m; ++i) { k1.push_back(a[i * n + j]); k2.push_back(a[i * n + j + 1]); }
         if(k2 < k1) return false;
      }
      for(int i = 0; i + 1 < m; ++i)
      {
         std::vector<int> k1 = {rs[i]}, k2 = {rs[i + 1]};
         for(int j = 0; j < n; ++j) { k1.push_back(a[i * n + j]); k2.push_back(a[(i + 1) * n + j]); }
         if(k2 < k1) return false;
      }
      x.resize(n, m);
      x.maximize = sense == 1;
      x.offset = qq(7, 3);
      for(int i = 0; i < m; ++i) for(int j = 0; j < n; ++j) x.A[i][j] = Avals[a[i * n + j]];
      for(int j = 0; j < n; ++j) { x.c[j] = cvals[cc[j]]; x.lo[j] = colB[cb[j]].first; x.up[j] = colB[cb[j]].second; }
      for(int i = 0; i < m; ++i) { x.lhs[i] = rowS[rs[i]].first; x.rhs[i] = rowS[rs[i]].second; }
      return true;
   }
};
static std::string xlp_str(const XLP& x)
{
   std::ostringstream o;
   o << "n=" << x.n << ";m=" << x.m << ";max=" << (x.maximize ? 1 : 0) << ";off=" << x.offset.get_str() << ";c=";
   for(int j = 0; j < x.n; ++j) o << (j ? "," : "") << x.c[j].get_str();
   o << ";lo=";
   for(int j = 0; j < x.n; ++j) o << (j ? "," : "") << x.lo[j].str();
   o << ";up=";
   for(int j = 0; j < x.n; ++j) o << (j ? "," : "") << x.up[j].str();
   o << ";lhs=";
   for(int i = 0; i < x.m; ++i) o << (i ? "," : "") << x.lhs[i].str();
   o << ";rhs=";
   for(int i = 0; i < x.m; ++i) o << (i ? "," : "") << x.rhs[i].str();
   o << ";A=";
   for(int i = 0; i < x.m; ++i) { if(i) o << "|"; for(int j = 0; j < x.n; ++j) o << (j ? "," : "") << x.A[i][j].get_str(); }
   return o.str();
}
static Ext ext_parse(const std::string& s) { if(s == "inf") return Ext::pinf(); if(s == "-inf") return Ext::minf(); Q q(s); q.canonicalize(); return Ext(q); }
static XLP xlp_parse(const std::string& s)
{
   std::map<std::string, std::string> kv;
   for(auto& f : split(s, ';')) { size_t e = f.find('='); if(e != std::string::npos) kv[f.substr(0, e)] = f.substr(e + 1); }
   XLP x;
   x.resize(atoi(kv["n"].c_str()), atoi(kv["m"].c_str()));
   x.maximize = kv["max"] == "1";
   { Q q(kv["off"]); q.canonicalize(); x.offset = q; }
   auto vq = [&](const std::string & k, int len) { std::vector<std::string> p = split(kv[k], ','); p.resize(len); return p; };
   auto c = vq("c", x.n), lo = vq("lo", x.n), up = vq("up", x.n), lhs = vq("lhs", x.m), rhs = vq("rhs", x.m);
   for(int j = 0; j < x.n; ++j) { Q q(c[j]); q.canonicalize(); x.c[j] = q; x.lo[j] = ext_parse(lo[j]); x.up[j] = ext_parse(up[j]); }
   for(int i = 0; i < x.m; ++i) { x.lhs[i] = ext_parse(lhs[i]); x.rhs[i] = ext_parse(rhs[i]); }
   auto rows = split(kv["A"], '|');
   for(int i = 0; i < x.m && i < (int)rows.size(); ++i) { auto p = split(rows[i], ','); for(int j = 0; j < x.n && j < (int)p.size(); ++j) { Q q(p[j]); q.canonicalize(); x.A[i][j] = q; } }
   return x;
}

static Rational rinf(SoPlex& spx, const Ext& e) { return e.inf > 0 ? spx._rationalPosInfty : e.inf < 0 ? spx._rationalNegInfty : to_spx(e.v); }

static void load_rational(SoPlex& spx, const XLP& x)
{
   spx.setIntParam(SoPlex::OBJSENSE, x.maximize ? SoPlex::OBJSENSE_MAXIMIZE : SoPlex::OBJSENSE_MINIMIZE);
   // the offset is a Real parameter: 7/3 is not representable, so the exactly representable 2.25 is used as offset
   DSVectorRational empty(0);
   for(int j = 0; j < x.n; ++j) spx.addColRational(LPColRational(to_spx(x.c[j]), empty, rinf(spx, x.up[j]), rinf(spx, x.lo[j])));
   for(int i = 0; i < x.m; ++i)
   {
      DSVectorRational row(x.n + 1);
      for(int j = 0; j < x.n; ++j) if(x.A[i][j] != 0) row.add(j, to_spx(x.A[i][j]));
      spx.addRowRational(LPRowRational(rinf(spx, x.lhs[i]), row, rinf(spx, x.rhs[i])));
   }
}

static std::string qvec(const std::vector<Q>& v) { std::string s = "["; for(size_t i = 0; i < v.size(); ++i) s += (i ? "," : "") + v[i].get_str(); return s + "]"; }

static std::string judge_one(SoPlex& spx, const XLP& x, const Classification& cl, int st, bool mustDecide, std::string& why, Ctx* c);
// one exact solve (+ cf.resolves further optimize() calls on the same object) + exact verdicts; returns rule ("" if ok)
static std::string solve_and_judge(XLP x, const Classification& cl, const Cfg3& cf, std::string& why, Ctx* c, int* statusOut)
{
   x.offset = qq(9, 4);
   SoPlex spx;
   quiet(spx);
   spx.setIntParam(SoPlex::SYNCMODE, cf.syncmode);
   spx.setIntParam(SoPlex::SOLVEMODE, SoPlex::SOLVEMODE_RATIONAL);
   spx.setIntParam(SoPlex::CHECKMODE, SoPlex::CHECKMODE_RATIONAL);
   spx.setRealParam(SoPlex::FEASTOL, 0.0);
   spx.setRealParam(SoPlex::OPTTOL, 0.0);
   spx.setRealParam(SoPlex::OBJ_OFFSET, 2.25);
   spx.setIntParam(SoPlex::SIMPLIFIER, cf.simplifier);
   spx.setIntParam(SoPlex::SCALER, cf.scaler);
   for(int k = 0; k < 13; ++k) spx.setBoolParam(OPTS[k].id, ((cf.mask >> k) & 1) != 0);
   bool ratrec = (cf.mask >> 4) & 1, ratfac = (cf.mask >> 3) & 1;
   // the statement promises a verdict only for the default exact-solver options ("with the default options every LP is decided"); with other option vectors only a RETURNED
   // OPTIMAL / INFEASIBLE / UNBOUNDED is judged, an undecided status is not a violation
   bool mustDecide = cf.mask == g_defaultMask;
   // non-default option vectors can make the refinement loop run very long or for ever on tiny LPs: bound it (refinement rounds and CPU time) so that such a solve ends undecided
   // instead of occupying the watchdog; the default vector runs unbounded and a hang there is reported
   if(!mustDecide)
   {
      spx.setIntParam(SoPlex::REFLIMIT, (ratrec || ratfac) ? 200 : 50);
      spx.setRealParam(SoPlex::TIMELIMIT, 20.0);
   }
   spx.setIntParam(SoPlex::ITERLIMIT, 20000);
   load_rational(spx, x);
   if(cf.syncmode == SoPlex::SYNCMODE_MANUAL) spx.syncLPReal();   // manual mode: the user carries the rational LP over to the real LP
   int st = 0;
   int n = x.n, m = x.m;
   std::string rule;
   for(int round = 0; round <= cf.resolves && rule.empty(); ++round)
   {
      try
      {
         st = (int)spx.optimize();
      }
      catch(const SPxException& e)
      {
         why = e.what();
         return "exception";
      }
      if(round > 0 && c) c->count("repeated_optimize_calls");
      rule = judge_one(spx, x, cl, st, mustDecide, why, c);
      // the stored rational LP is the LP that was entered, also after the solve (nothing is rounded or left transformed)
      if(rule.empty())
      {
         const SPxLPRational& L = *spx._rationalLP;
         std::string diff;
         if(L.nCols() != n || L.nRows() != m) diff = "dimensions " + std::to_string(L.nRows()) + "x" + std::to_string(L.nCols());
         else if((L.spxSense() == SPxLPRational::MAXIMIZE) != x.maximize) diff = "objective sense";
         auto eq = [&](const Rational& r, const Ext& e) { return e.inf > 0 ? r >= spx._rationalPosInfty : e.inf < 0 ? r <= spx._rationalNegInfty : from_spx(r) == e.v; };
         for(int j = 0; diff.empty() && j < n; ++j)
         {
            if(!eq(L.lower(j), x.lo[j])) diff = "lower(" + std::to_string(j) + ")=" + L.lower(j).str();
            else if(!eq(L.upper(j), x.up[j])) diff = "upper(" + std::to_string(j) + ")=" + L.upper(j).str();
            else if(from_spx(L.obj(j)) != x.c[j]) diff = "obj(" + std::to_string(j) + ")=" + L.obj(j).str();
         }
         for(int i = 0; diff.empty() && i < m; ++i)
         {
            if(!eq(L.lhs(i), x.lhs[i])) diff = "lhs(" + std::to_string(i) + ")=" + L.lhs(i).str();
            else if(!eq(L.rhs(i), x.rhs[i])) diff = "rhs(" + std::to_string(i) + ")=" + L.rhs(i).str();
            for(int j = 0; diff.empty() && j < n; ++j) if(from_spx(L.rowVector(i)[j]) != x.A[i][j]) diff = "A(" + std::to_string(i) + "," + std::to_string(j) + ")=" + L.rowVector(i)[j].str();
         }
         bool same = diff.empty();
         if(!same) { why = "the stored rational LP differs from the entered LP after optimize() number " + std::to_string(round + 1) + ": " + diff; rule = "rational-lp-changed-by-solve"; }
      }
   }
   if(statusOut) *statusOut = st;
   return rule;
}

static std::string judge_one(SoPlex& spx, const XLP& x, const Classification& cl, int st, bool mustDecide, std::string& why, Ctx* c)
{
   if(c) { c->count("exact_solves"); c->count("status." + std::to_string(st)); c->count("refinements", spx.numRefinements()); if(spx.numPrecisionBoosts() > 0) c->count("solves_with_precision_boosts"); }
   int n = x.n, m = x.m;
   // true status
   if(st == 1)
   {
      if(!cl.hasopt) { why = std::string("OPTIMAL but the LP is ") + cl.name(); return "wrong-status:optimal"; }
      VectorRational px(n), ps(m), py(m), pd(n);
      if(!spx.getPrimalRational(px) || !spx.getSlacksRational(ps) || !spx.getDualRational(py) || !spx.getRedCostRational(pd)) { why = "solution vectors unavailable"; return "optimal-without-vectors"; }
      std::vector<Q> X(n), S(m), Y(m), D(n);
      for(int j = 0; j < n; ++j) { X[j] = from_spx(px[j]); D[j] = from_spx(pd[j]); }
      for(int i = 0; i < m; ++i) { S[i] = from_spx(ps[i]); Y[i] = from_spx(py[i]); }
      std::string sol = " x=" + qvec(X) + " s=" + qvec(S) + " y=" + qvec(Y) + " d=" + qvec(D);
      for(int j = 0; j < n; ++j)
      {
         if(x.lo[j].fin() && X[j] < x.lo[j].v) { why = "x" + std::to_string(j) + " below lower" + sol; return "primal-bound-violated"; }
         if(x.up[j].fin() && X[j] > x.up[j].v) { why = "x" + std::to_string(j) + " above upper" + sol; return "primal-bound-violated"; }
      }
      for(int i = 0; i < m; ++i)
      {
         Q act = 0;
         for(int j = 0; j < n; ++j) act += x.A[i][j] * X[j];
         if(act != S[i]) { why = "slack " + std::to_string(i) + " != activity" + sol; return "slack-not-activity"; }
         if(x.lhs[i].fin() && act < x.lhs[i].v) { why = "row " + std::to_string(i) + " below lhs" + sol; return "row-side-violated"; }
         if(x.rhs[i].fin() && act > x.rhs[i].v) { why = "row " + std::to_string(i) + " above rhs" + sol; return "row-side-violated"; }
      }
      int sg = x.maximize ? -1 : 1;
      Q dualobj = 0;
      for(int j = 0; j < n; ++j)
      {
         Q t = x.c[j];
         for(int i = 0; i < m; ++i) t -= Y[i] * x.A[i][j];
         if(t != D[j]) { why = "redcost " + std::to_string(j) + " != c - A^T y" + sol; return "stationarity-violated"; }
         Q v = D[j] * sg;
         if(v > 0) { if(!x.lo[j].fin()) { why = "redcost sign of col " + std::to_string(j) + sol; return "redcost-sign"; } dualobj += D[j] * x.lo[j].v; }
         if(v < 0) { if(!x.up[j].fin()) { why = "redcost sign of col " + std::to_string(j) + sol; return "redcost-sign"; } dualobj += D[j] * x.up[j].v; }
      }
      for(int i = 0; i < m; ++i)
      {
         Q v = Y[i] * sg;
         if(v > 0) { if(!x.lhs[i].fin()) { why = "dual sign of row " + std::to_string(i) + sol; return "dual-sign"; } dualobj += Y[i] * x.lhs[i].v; }
         if(v < 0) { if(!x.rhs[i].fin()) { why = "dual sign of row " + std::to_string(i) + sol; return "dual-sign"; } dualobj += Y[i] * x.rhs[i].v; }
      }
      Q cx = 0;
      for(int j = 0; j < n; ++j) cx += x.c[j] * X[j];
      if(cx != dualobj) { why = "duality gap " + Q(cx - dualobj).get_str() + sol; return "nonzero-duality-gap"; }
      Q ov = from_spx(spx.objValueRational());
      if(ov != cx + x.offset) { why = "objValueRational " + ov.get_str() + " != c x + offset = " + Q(cx + x.offset).get_str(); return "objective-value-wrong"; }
      if(cx + x.offset != cl.opt - qq(7, 3) + x.offset) { why = "objective " + Q(cx).get_str() + " is not the optimum"; return "objective-not-optimal"; }
   }
   else if(st == 3)
   {
      if(cl.feasible) { why = "INFEASIBLE but the LP is feasible"; return "wrong-status:infeasible"; }
      if(spx.hasDualFarkas())
      {
         VectorRational f(m);
         spx.getDualFarkasRational(f);
         std::vector<Q> Y(m);
         for(int i = 0; i < m; ++i) Y[i] = from_spx(f[i]);
         // exact interval separation
         Ext slo(Q(0)), sup(Q(0)), xlo(Q(0)), xup(Q(0));
         auto addrange = [](Ext & lo, Ext & up, const Q & coef, const Ext & l, const Ext & u)
         {
            if(coef == 0) return;
            const Ext& a = coef > 0 ? l : u;
            const Ext& b = coef > 0 ? u : l;
            if(lo.fin()) { if(a.fin()) lo.v += coef * a.v; else lo = Ext::minf(); }
            if(up.fin()) { if(b.fin()) up.v += coef * b.v; else up = Ext::pinf(); }
         };
         for(int i = 0; i < m; ++i) addrange(slo, sup, Y[i], x.lhs[i], x.rhs[i]);
         for(int j = 0; j < n; ++j) { Q t = 0; for(int i = 0; i < m; ++i) t += Y[i] * x.A[i][j]; addrange(xlo, xup, t, x.lo[j], x.up[j]); }
         bool sep = (sup.fin() && xlo.fin() && xlo.v > sup.v) || (xup.fin() && slo.fin() && slo.v > xup.v);
         if(!sep) { why = "Farkas vector " + qvec(Y) + " does not separate"; return "farkas-invalid"; }
         if(c) c->count("farkas_checked");
      }
      else { why = "INFEASIBLE without a Farkas proof"; return "infeasible-without-farkas"; }
   }
   else if(st == 2)
   {
      if(cl.hasopt || !cl.feasible) { why = std::string("UNBOUNDED but the LP is ") + cl.name(); return "wrong-status:unbounded"; }
      if(spx.hasPrimalRay())
      {
         VectorRational rr(n);
         spx.getPrimalRayRational(rr);
         std::vector<Q> Rv(n);
         for(int j = 0; j < n; ++j) Rv[j] = from_spx(rr[j]);
         for(int j = 0; j < n; ++j) if((x.lo[j].fin() && Rv[j] < 0) || (x.up[j].fin() && Rv[j] > 0)) { why = "ray " + qvec(Rv) + " leaves a finite bound"; return "ray-invalid"; }
         for(int i = 0; i < m; ++i) { Q t = 0; for(int j = 0; j < n; ++j) t += x.A[i][j] * Rv[j]; if((x.lhs[i].fin() && t < 0) || (x.rhs[i].fin() && t > 0)) { why = "ray " + qvec(Rv) + " leaves a finite side"; return "ray-invalid"; } }
         Q cr = 0;
         for(int j = 0; j < n; ++j) cr += x.c[j] * Rv[j];
         if(x.maximize ? cr <= 0 : cr >= 0) { why = "ray " + qvec(Rv) + " does not improve"; return "ray-invalid"; }
         if(c) c->count("rays_checked");
      }
      else { why = "UNBOUNDED without a ray"; return "unbounded-without-ray"; }
   }
   else
   {
      if(c) c->count("undecided");
      if(mustDecide) { why = "status " + std::to_string(st) + " with the default exact-solver options; true class " + cl.name(); return "undecided:status" + std::to_string(st); }
   }
   return "";
}

static Cfg3 minimise(const XLP& x, const Classification& cl, Cfg3 cf, const std::string& rule)
{
   bool changed = true;
   while(changed)
   {
      changed = false;
      for(int k = 0; k < 17; ++k)
      {
         Cfg3 t = cf;
         if(k == 16) { if(cf.resolves == 0) continue; t.resolves = cf.resolves - 1; }
         else
         if(k < 13) { if(((cf.mask >> k) & 1) == ((g_defaultMask >> k) & 1)) continue; t.mask ^= (1u << k); }
         else if(k == 13) { if(cf.simplifier == 1) continue; t.simplifier = 1; }
         else if(k == 14) { if(cf.scaler == 2) continue; t.scaler = 2; }
         else { if(cf.syncmode == 1) continue; t.syncmode = 1; }
         std::string w;
         if(solve_and_judge(x, cl, t, w, nullptr, nullptr) == rule) { cf = t; changed = true; }
      }
   }
   return cf;
}

static uint64_t run_core(const XLP& x, const Classification& cl, const std::string& caseName, const std::string& sigTag, const std::vector<Cfg3>& cfgs, Ctx& c);

static uint64_t run_lp(const XLP& x, const std::vector<Cfg3>& cfgs, Ctx& c, bool countNT)
{
   Classification cl = classify(x);
   c.count("lps");
   c.count(std::string("class.") + cl.name());
   if(countNT) c.count("nontrivial");
   return run_core(x, cl, xlp_str(x), "", cfgs, c);
}

// planted LP up to 30x30 (vx_planted.hpp): classification and optimum known by construction; the rows are multiplied by positive non-dyadic
// rationals (1, 1/3, 5/7 - sides included), which changes neither the feasible set nor the optimum but leaves no row representable in double
static uint64_t run_planted3(const PlantedSpec& sp, const std::vector<Cfg3>& cfgs, Ctx& c, bool countNT)
{
   PlantedLP P = planted(sp);
   XLP x = P.lp.exact();
   static const Q RSC[3] = {Q(1), qq(1, 3), qq(5, 7)};
   for(int i = 0; i < x.m; ++i)
   {
      const Q& r = RSC[i % 3];
      for(int j = 0; j < x.n; ++j) x.A[i][j] *= r;
      if(x.lhs[i].fin()) x.lhs[i].v *= r;
      if(x.rhs[i].fin()) x.rhs[i].v *= r;
   }
   Classification cl = P.cl;
   x.offset = qq(7, 3);
   if(sp.kind == 0) cl.opt = P.cl.opt - Q(3) + qq(7, 3);
   c.count("planted_lps");
   c.count(std::string("planted_class.") + sp.kindName());
   if(countNT) c.count("nontrivial");
   return run_core(x, cl, sp.str(), "+planted", cfgs, c);
}

static uint64_t run_core(const XLP& x, const Classification& cl, const std::string& caseName, const std::string& sigTag, const std::vector<Cfg3>& cfgs, Ctx& c)
{
   uint64_t h = 5;
   for(size_t k = 0; k < cfgs.size(); ++k)
   {
      set_sub(k);
      std::string why;
      int st = 0;
      std::string rule = solve_and_judge(x, cl, cfgs[k], why, &c, &st);
      h = h * 31 + st + fnv_str(rule);
      if(!rule.empty())
      {
         Cfg3 mc = rule == "exception" ? cfgs[k] : minimise(x, cl, cfgs[k], rule);
         c.violation(rule + "@" + cfg_str(mc) + sigTag, caseName + "#" + cfg_code(cfgs[k]), why.substr(0, 600) + " | class=" + cl.name() + " | cfg " + cfg_str(cfgs[k]));
      }
      else if(c.wantSample() && k == 3) c.sample("{\"lp\":" + jstr(caseName) + ",\"config\":" + jstr(cfg_str(cfgs[k])) + ",\"status\":" + std::to_string(st) + ",\"class\":" + jstr(cl.name()) + "}");
   }
   return h;
}

int main(int argc, char** argv)
{
   Args args = parse_args(argc, argv);
   args.prop = "C03";
   for(int k = 0; k < 13; ++k) if(SoPlex::Settings::boolParam.defaultValue[OPTS[k].id]) g_defaultMask |= (1u << k);
   if(!args.replay.empty())
   {
      std::ifstream in(args.replay);
      std::string doc((std::istreambuf_iterator<char>(in)), std::istreambuf_iterator<char>());
      size_t p = doc.find("\"case\": \"");
      if(p == std::string::npos) { printf("REPLAY-ERROR no case\n"); return 2; }
      p += 9;
      std::string cs = doc.substr(p, doc.find('"', p) - p);
      size_t h = cs.find('#');
      Cfg3 cf{g_defaultMask, 1, 2, 1};
      sscanf(cs.c_str() + h + 1, "%u,%d,%d,%d,%d", &cf.mask, &cf.simplifier, &cf.scaler, &cf.syncmode, &cf.resolves);
      mallopt(M_PERTURB, 85);
      PlantedSpec psp;
      if(cs.compare(0, 2, "P:") == 0 && PlantedSpec::parse(cs.substr(0, h), psp))
         return replay_case([&](Ctx & c) { run_planted3(psp, {cf}, c, false); });
      XLP x = xlp_parse(cs.substr(0, h));
      return replay_case([&](Ctx & c) { run_lp(x, {cf}, c, false); });
   }
   bool thorough = args.tier == "thorough";
   Report rep(args, "exploration", thorough ? 3000 : 400);
   // configuration vectors: <= 2 deviations among the 13 booleans x {simplifier on/off}, plus scaler off and manual sync singles
   std::vector<Cfg3> cfgs;
   cfgs.push_back({g_defaultMask, 1, 2, 1});
   for(int a = 0; a < 13; ++a) cfgs.push_back({g_defaultMask ^ (1u << a), 1, 2, 1});
   for(int a = 0; a < 13; ++a) for(int b = a + 1; b < 13; ++b) cfgs.push_back({g_defaultMask ^ (1u << a) ^ (1u << b), 1, 2, 1});
   size_t nb = cfgs.size();
   for(size_t k = 0; k < nb; ++k) { Cfg3 c = cfgs[k]; c.simplifier = 0; cfgs.push_back(c); }
   cfgs.push_back({g_defaultMask, 1, 0, 1});
   cfgs.push_back({g_defaultMask, 0, 0, 1});
   cfgs.push_back({g_defaultMask, 1, 2, 2});
   cfgs.push_back({g_defaultMask, 0, 2, 2});
   // families
   Ext mi = Ext::minf(), pi = Ext::pinf();
   std::vector<std::pair<Ext, Ext>> CB = {{Ext(Q(0)), pi}, {mi, pi}, {mi, Ext(qq(5, 3))}, {Ext(qq(-1, 7)), Ext(Q(1))}, {Ext(qq(5, 3)), Ext(qq(5, 3))},
                                          // bounds that exclude zero (the feasibility / unboundedness transformations shift by the bound nearest to zero)
                                          {Ext(Q(-3)), Ext(qq(-1, 3))}, {mi, Ext(Q(-1))}, {Ext(qq(1, 2)), pi}};
   std::vector<std::pair<Ext, Ext>> RS = {{mi, Ext(Q(1))}, {Ext(qq(-1, 7)), pi}, {Ext(qq(5, 3)), Ext(qq(5, 3))}, {Ext(qq(-1, 7)), Ext(qq(5, 3))}, {mi, pi}, {mi, Ext(qq(-1, 7))}};
   std::vector<RFamily> fams;
   fams.push_back({2, 2, {Q(-1), Q(0), qq(1, 3), Q(2)}, {Q(-1), Q(0), qq(1, 3)}, {CB[0], CB[1], CB[2], CB[3]}, {RS[0], RS[1], RS[2], RS[3], RS[4]}});
   fams.push_back({2, 2, {Q(-1), Q(0), qq(1, 3), Q(2)}, {Q(-1), qq(1, 3)}, {CB[5], CB[6], CB[7], CB[1]}, {RS[0], RS[1], RS[3]}});       // columns whose bounds exclude zero
   fams.push_back({2, 2, {qq(1, 4096), Q(1), Q(4096), Q(0)}, {Q(1), Q(-1)}, {CB[0], CB[3]}, {RS[0], RS[1], RS[3]}});       // lifting range
   fams.push_back({3, 2, {Q(-1), Q(0), qq(1, 3), Q(2)}, {Q(1), Q(-1)}, {CB[0], CB[1]}, {RS[0], RS[2]}});
   fams.push_back({2, 3, {Q(-1), Q(0), qq(1, 3), Q(2)}, {Q(1), Q(-1)}, {CB[0], CB[4]}, {RS[1], RS[5]}});
   std::vector<uint64_t> start;
   uint64_t total = 0;
   for(auto& f : fams) { start.push_back(total); total += f.size(); }
   auto getLP = [&](uint64_t idx, XLP & x) { size_t k = fams.size() - 1; while(k > 0 && start[k] > idx) --k; return fams[k].get(idx - start[k], x); };
   uint64_t stride = total / (thorough ? 30000 : 6000) + 1;
   RunOpts o = rep.opts();
   o.perturb = {85};
   o.watchdog_s = 120;
   auto lpAt = [&](uint64_t k, XLP & x) -> bool
   {
      uint64_t raw = k * stride, lim = std::min<uint64_t>(raw + stride, total);
      while(raw < lim && !getLP(raw, x)) ++raw;
      return raw < lim;
   };
   rep.phase("rational LPs x <=2 deviations of 13 booleans x simplifier (+scaler, sync mode)", total / stride, [&](uint64_t idx, int, Ctx & c) -> uint64_t
   {
      XLP x;
      if(!lpAt(idx, x)) return 0;
      return run_lp(x, cfgs, c, true);
   }, [&](uint64_t idx, uint64_t sub) { XLP x; lpAt(idx, x); return xlp_str(x) + "#" + cfg_code(cfgs[sub < cfgs.size() ? sub : 0]); }, o,
   [&](uint64_t, uint64_t sub) { return "@" + cfg_str(cfgs[sub < cfgs.size() ? sub : 0]); });
   // repeated optimize() on the same object: the second and third verdict must be as exact as the first (state left behind by the transformations of the first solve)
   std::vector<Cfg3> cfgsR;
   for(int simp = 1; simp >= 0; --simp) for(int rs = 1; rs <= 2; ++rs)
   {
      cfgsR.push_back({g_defaultMask, simp, 2, 1, rs});
      for(int a = 0; a < 13; ++a) cfgsR.push_back({g_defaultMask ^ (1u << a), simp, 2, 1, rs});
   }
   uint64_t strideR = stride * 3;
   auto lpAtR = [&](uint64_t k, XLP & x) -> bool
   {
      uint64_t raw = k * strideR + 1, lim = std::min<uint64_t>(raw + strideR, total);
      while(raw < lim && !getLP(raw, x)) ++raw;
      return raw < lim;
   };
   rep.phase("rational LPs x <=1 deviation x simplifier x {2, 3} optimize() calls on one object", total / strideR, [&](uint64_t idx, int, Ctx & c) -> uint64_t
   {
      XLP x;
      if(!lpAtR(idx, x)) return 0;
      return run_lp(x, cfgsR, c, false);
   }, [&](uint64_t idx, uint64_t sub) { XLP x; lpAtR(idx, x); return xlp_str(x) + "#" + cfg_code(cfgsR[sub < cfgsR.size() ? sub : 0]); }, o,
   [&](uint64_t, uint64_t sub) { return "@" + cfg_str(cfgsR[sub < cfgsR.size() ? sub : 0]); });
   {
      // planted LPs up to 30x30 with non-dyadic rows x <= 1 deviation of the 13 booleans x simplifier: "always decides" and "never wrong" beyond the tiny families
      static PlantedGrid pg;
      pg.sizes = {{4, 3}, {5, 8}, {8, 5}, {10, 10}, {16, 12}, {12, 20}, {24, 24}, {30, 30}};
      pg.densities = {15, 40, 100};
      pg.seeds = thorough ? 12 : 2;
      static std::vector<Cfg3> cfgsP;
      cfgsP.clear();
      for(int simp = 1; simp >= 0; --simp)
      {
         cfgsP.push_back({g_defaultMask, simp, 2, 1});
         for(int a = 0; a < 13; ++a) cfgsP.push_back({g_defaultMask ^ (1u << a), simp, 2, 1});
      }
      cfgsP.push_back({g_defaultMask, 1, 2, 1, 1});     // optimize() twice on the same object
      rep.phase("planted LPs up to 30x30 (non-dyadic rows) x <=1 deviation x simplifier", pg.size(), [&](uint64_t idx, int, Ctx & c) -> uint64_t
      {
         return run_planted3(pg.at(idx), cfgsP, c, true);
      }, [&](uint64_t idx, uint64_t sub) { return pg.at(idx).str() + "#" + cfg_code(cfgsP[sub < cfgsP.size() ? sub : 0]); }, o,
      [&](uint64_t, uint64_t sub) { return "@" + cfg_str(cfgsP[sub < cfgsP.size() ? sub : 0]); });
      rep.extra["planted_grid"] = jstr("sizes (n x m) 4x3 5x8 8x5 10x10 16x12 12x20 24x24 30x30; densities 15/40/100 %; degenerate 0/1; min/max; kinds OPT/INF/UNB; seeds 0.." + std::to_string(pg.seeds - 1) + "; rows scaled by 1, 1/3, 5/7");
   }
   if(thorough)
   {
      // the complete 2^13 product on a curated set (every 150th LP of the first family), simplifier on/off
      uint64_t stride2 = fams[0].size() / 100 + 1;
      uint64_t blocks = 8192 / 64;
      rep.phase("curated LPs x all 2^13 boolean vectors x simplifier", (fams[0].size() / stride2) * blocks * 2, [&](uint64_t idx, int, Ctx & c) -> uint64_t
      {
         uint64_t lpk = idx / (blocks * 2), r = idx % (blocks * 2);
         XLP x;
         uint64_t raw = lpk * stride2, lim = std::min<uint64_t>(raw + stride2, fams[0].size());
         while(raw < lim && !fams[0].get(raw, x)) ++raw;
         if(raw >= lim) return 0;
         std::vector<Cfg3> cf;
         for(unsigned k = 0; k < 64; ++k) cf.push_back({unsigned((r / 2) * 64 + k), int(r % 2), 2, 1});
         return run_lp(x, cf, c, false);
      }, [&](uint64_t idx, uint64_t sub)
      {
         uint64_t lpk = idx / (blocks * 2), r = idx % (blocks * 2);
         XLP x;
         uint64_t raw = lpk * stride2, lim = std::min<uint64_t>(raw + stride2, fams[0].size());
         while(raw < lim && !fams[0].get(raw, x)) ++raw;
         Cfg3 cf{unsigned((r / 2) * 64 + sub), int(r % 2), 2, 1};
         return xlp_str(x) + "#" + cfg_code(cf);
      }, o);
   }
   rep.evaluations = rep.all.counters["exact_solves"];
   rep.rule = "case = (rational tiny LP with non-dyadic data or lifting-range data, exact-solver option vector): every stride-th symmetry-reduced LP of four product families x all vectors with <= 2 "
              "deviations among the 13 exact-solver booleans x simplifier on/off (+ scaler off, manual sync); a second phase calls optimize() two and three times on one object (<= 1 deviation) and judges every verdict, and the stored rational LP is compared with the entered LP after every solve; thorough adds the complete 2^13 product on a curated subset. Every returned vector and value is "
              "checked with zero tolerance; non-trivial = distinct LPs solved";
   rep.assumptions = {"exact oracle: basis enumeration over GMP rationals for the true status and optimum", "non-default exact-solver option vectors run under REFLIMIT (200, or 50 with reconstruction and rational factorization both off) and TIMELIMIT 20 s, and only a returned verdict is judged (the statement promises a verdict for the default options only)"};
   rep.extra["option_vectors"] = std::to_string(cfgs.size());
   rep.finish(rep.all.counters["nontrivial"]);
   return 0;
}
